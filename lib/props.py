"""Per-property configuration of the check driver: which theorems must be present and closed, and
which correspondence families (generator profile, case counts, projections = tags) tie the model to
/repo for that property."""

ALLOWED_AXIOMS = set()   # target: every property theorem is "Closed under the global context"

TRUSTED_BASE = [
    "Coq 8.16.1 kernel incl. vm_compute (no native_compute, no extraction)",
    "axioms: none (Print Assumptions under every property theorem must say 'Closed under the global context')",
    "hand-written Gallina model of the anchored Go functions, tied to /repo by differential correspondence on generated cases (Go harness -> cases_*.v -> vm_compute verdicts)",
    "Go harness (schema builder, observers, Gallina printer) and this Python driver",
    "Go runtime, reflect, sync.Pool, stdlib functions used as recorded oracles (ParseFloat, %v of floats, time.Parse, regexp, url.Parse)",
]

ENGINE_CONE = ["Model/Val.v", "Model/Engine.v", "Spec/Sem.v", "Spec/Satisfies.v", "Proofs/Refine.v"]

ENGINE_RULE = ("cases are generated from one splitmix64 stream (VERIF_SEED): a schema tree (depth<=3, <=4 fields, <=3 elements; all node kinds, "
               "modifiers, 0-3 tests, PostTransforms, tags), a matching reflect.StructOf destination, an input derived from the schema and perturbed "
               "(absent forms, wrong types, boundary violations), mode Parse/Validate; the real zog schema is built through the public API and run; "
               "the Coq engine is evaluated on the same case; a case is non-trivial when an issue was produced or a user callback ran; distinct = distinct (schema shape, issue codes, mode)")


def eng(name, profile, quick, thorough, tags):
    return dict(name=name, family="engine", profile=profile, quick=quick, thorough=thorough, tags=tags)


PROPS = {
    "C01": dict(theorems=["C01_engine_computes_semantics"], cone=ENGINE_CONE, rule=ENGINE_RULE,
                families=[eng("engine", "C01", 1200, 20000, ["sat", "panic"])]),
    "C02": dict(theorems=["C02_engine_computes_semantics"], cone=ENGINE_CONE, rule=ENGINE_RULE,
                families=[eng("engine", "C02", 1200, 20000, ["nil", "issues", "panic"])]),
    "C03": dict(theorems=["C03_engine_computes_semantics"], cone=ENGINE_CONE + ["Model/Coerce.v"], rule=ENGINE_RULE,
                families=[eng("engine", "C03", 1200, 20000, ["dest", "panic"])]),
    "C04": dict(theorems=["C04_engine_computes_semantics"], cone=ENGINE_CONE, rule=ENGINE_RULE,
                families=[eng("engine", "C04", 1200, 20000, ["nil", "issues", "dest", "calls", "panic"])]),
    "C05": dict(theorems=["C05_engine_computes_semantics"], cone=ENGINE_CONE, rule=ENGINE_RULE,
                families=[eng("engine", "C05", 1200, 20000, ["nil", "issues", "dest", "panic"])]),
    "C09": dict(theorems=["C09_engine_computes_semantics"], cone=ENGINE_CONE, rule=ENGINE_RULE,
                families=[eng("engine", "C09", 1000, 16000, ["repeat", "repeat_ptgate", "panic"])]),
    "C10": dict(theorems=["C10_engine_computes_semantics"], cone=ENGINE_CONE, rule=ENGINE_RULE,
                families=[eng("engine", "C10", 1200, 20000, ["issues", "first", "panic"])]),
    "C12": dict(theorems=["C12_engine_computes_semantics"], cone=ENGINE_CONE, rule=ENGINE_RULE,
                families=[eng("engine", "C12", 1200, 20000, ["calls", "args", "ctx", "haserr", "panic"])]),
}
