"""Per-property configuration of the check driver: which theorems must be present and closed, and
which correspondence families (generator profile, case counts, projections = tags) tie the model to
/repo for that property."""

ALLOWED_AXIOMS = set()   # target: every property theorem is "Closed under the global context"

TRUSTED_BASE = [
    "Coq 8.16.1 kernel incl. vm_compute (no native_compute, no extraction)",
    "axioms: none (Print Assumptions under every property theorem must say 'Closed under the global context')",
    "hand-written Gallina model of the anchored Go functions, tied to /repo by differential correspondence on generated cases (Go harness -> cases_*.v -> vm_compute verdicts)",
    "Go harness (schema builder, observers, Gallina printer) and this Python driver",
    "Go runtime, reflect, sync.Pool, stdlib functions used as recorded oracles (ParseFloat, %v of floats, time.Parse, regexp, url.Parse)",
]

ENGINE_CONE = ["Model/Val.v", "Model/Engine.v", "Spec/Sem.v", "Spec/Satisfies.v", "Proofs/Refine.v"]

ENGINE_RULE = ("cases are generated from one splitmix64 stream (VERIF_SEED): a schema tree (depth<=3, <=4 fields, <=3 elements; all node kinds, "
               "modifiers, 0-3 tests, PostTransforms, tags), a matching reflect.StructOf destination, an input derived from the schema and perturbed "
               "(absent forms, wrong types, boundary violations), mode Parse/Validate; the real zog schema is built through the public API and run; "
               "the Coq engine is evaluated on the same case; a case is non-trivial when an issue was produced or a user callback ran; distinct = distinct (schema shape, issue codes, mode)")


def eng(name, profile, quick, thorough, tags):
    return dict(name=name, family="engine", profile=profile, quick=quick, thorough=thorough, tags=tags)


def sat(name, family, quick, thorough, tags, shard=400):
    return dict(name=name, family=family, quick=quick, thorough=thorough, tags=tags, shard=shard)


PROPS = {
    "C01": dict(theorems=["C01_success_means_valid", "C01_engine_computes_semantics"], cone=ENGINE_CONE + ["Proofs/Indep.v", "Proofs/SatP.v"], rule=ENGINE_RULE,
                families=[eng("engine", "C01", 1200, 20000, ["sat", "nil", "panic"]),
                          eng("siblings", "C01s", 700, 12000, ["sat", "nil", "panic"]),   # wide structs: catching primitives next to slices and structs with several tests of their own
                          eng("accepted", "C01d", 700, 12000, ["sat", "nil", "panic"]),   # schemas and inputs re-drawn until the implementation reports no issues; values the schema places itself (Default, Catch)
                          sat("helpers", "helpers", 600, 8000, ["tests"], shard=300)]),   # a struct test lost by a derived schema is a skipped constraint
    "C02": dict(theorems=["C02_engine_computes_semantics", "C02_node_refines", "C02_all_failing_tests_reported", "C02_test_issues_at_own_path", "C02_missing_required_is_one_issue", "C02_coerce_failure_is_one_issue", "C02_struct_not_a_record", "C02_nil_iff_no_violation"], cone=ENGINE_CONE + ["Proofs/ExactP.v", "Proofs/AbsentP.v"], rule=ENGINE_RULE,
                families=[eng("engine", "C02", 1200, 20000, ["nil", "issues", "panic"]),
                          dict(name="fe", family="fe", profile="fe", quick=700, thorough=10000, tags=["nil", "issues", "panic"]),   # the same through the front ends (lists with blank entries, repeated parameters)
                          sat("helpers", "helpers", 600, 8000, ["tests"], shard=300)]),   # every failing struct test of a derived schema is reported, and none that belongs to another schema
    "C03": dict(theorems=["C03_engine_computes_semantics", "C03_leaf_is_coercion", "C03_documented_coercions", "C03_unnamed_fields_untouched", "C03_slice_keeps_length_and_order", "C03_pointer_allocates", "C03_absent_pointer_stays_nil"], cone=ENGINE_CONE + ["Model/Coerce.v", "Proofs/ExactP.v"], rule=ENGINE_RULE,
                families=[eng("engine", "C03", 1200, 20000, ["dest", "panic"]),
                          eng("catching", "C05", 600, 10000, ["dest", "panic"]),
                          dict(name="fe", family="fe", profile="fe", quick=700, thorough=10000, tags=["dest", "panic"]),   # the input representations of the front ends: lists of one entry, blank entries, []-suffixed names
                          sat("helpers", "helpers", 500, 6000, ["fields"], shard=300)]),   # a schema names the fields it was given, not those of schemas derived from it later (fields it does not name are never written)   # destinations next to nodes that catch: a leaf holds the coercion of its own input),
    "C04": dict(theorems=["C04_parse_absent_iff", "C04_falsy_values_are_present", "C04_validate_absent_examples", "C04_absent_default", "C04_absent_required", "C04_absent_optional", "C04_slice_absent_required", "C04_slice_absent_optional", "C04_ptr_absent_notnil", "C04_ptr_absent_optional", "C04_engine_computes_semantics", "C04_preprocess_output_is_parsed", "C04_preprocess_output_is_validated", "C04_preprocess_blank_output_is_absent", "C04_ptr_present_hands_input_on", "C04_preprocess_blank_output_behind_pointer"], cone=ENGINE_CONE + ["Proofs/AbsentP.v"], rule=ENGINE_RULE,
                families=[eng("engine", "C04", 1200, 20000, ["nil", "issues", "dest", "calls", "panic"]),
                          # Required / Optional / Default / Catch called in every order on one schema
                          dict(name="builder", family="builder", profile="default", quick=900, thorough=15000, shard=150, tags=["nil", "issues", "dest", "panic"]),
                          # what a front end delivers for a key that is there: a list of one blank entry is a list, a blank scalar is absent
                          dict(name="fe", family="fe", profile="fe", quick=700, thorough=10000, tags=["nil", "issues", "dest", "panic"])]),
    "C05": dict(theorems=["C05_catch_own_node", "C05_catch_with_transforms", "C05_catch_behind_pointer", "C05_catch_is_local", "C05_elements_are_independent", "C05_engine_computes_semantics"], cone=ENGINE_CONE + ["Proofs/Indep.v", "Proofs/CatchP.v"], rule=ENGINE_RULE,
                families=[eng("engine", "C05", 1200, 20000, ["nil", "issues", "dest", "panic"]),
                          # Catch next to the other modifiers, called in every order, on every primitive kind
                          dict(name="builder", family="builder", profile="default", quick=700, thorough=12000, shard=150, tags=["nil", "issues", "dest", "panic"])]),
    "C06": dict(theorems=["C06_try_provider_never_panics", "C06_lookup_never_panics", "C06_field_name_never_panics", "C06_parse_struct_never_panics",
                          "C06_engine_total_on_all_data", "C06_legacy_named_map_panics", "C06_legacy_unexported_field_panics", "C06_legacy_long_key_panics", "C06_promoted_field_lookup_never_panics", "C06_promoted_behind_nil_is_absent", "C06_legacy_nil_embedded_pointer_panics", "C06_legacy_path_agrees_without_empty_segments", "C06_legacy_empty_key_below_a_key_panics"],
                cone=["Model/Dyn.v", "Proofs/DynP.v"] + ENGINE_CONE,
                rule="a grammar over Go dynamic types at a struct position (map[string]any/string/int/float64/bool and their named versions, maps with named string keys, non-string keys, named / interface / slice element types, structs with unexported fields named like schema keys, pointers up to three levels with nil at every level, typed nils, every other kind incl. NaN/Inf, channels, funcs, invalid UTF-8) parsed under recover() by a well-configured struct schema with a 48-byte key; JSON documents of every top-level shape through zjson; one schema reused with two destination layouts; plus the engine and front-end families (wrong types, {} , malformed bodies) with the panic projection; distinct = distinct dynamic types",
                families=[sat("dyn", "dyn", 600, 6000, ["panic", "model_expects_panic", "root_coerce", "presence", "reuse"], shard=300),
                          eng("engine", "C06", 800, 12000, ["panic"]),
                          dict(name="fe", family="fe", profile="fe", quick=500, thorough=8000, tags=["panic"])]),
    "C07": dict(theorems=["C07_reinit_zog_issue", "C07_reinit_ctx_issue", "C07_reinit_issue_from_test", "C07_reinit_issue_from_coerce", "C07_reinit_exec_ctx",
                          "C07_reinit_schema_ctx", "C07_reinit_validate_schema_ctx", "C07_fresh_ctx_has_no_values", "C07_pools_stay_linear",
                          "C07_held_issues_are_distinct_and_not_pooled", "C07_result_is_a_function_of_this_call", "C07_legacy_collect_map_refuted", "C07_ctx_values_ignore_recycled_context", "C07_legacy_ctx_refuted"],
                cone=["Model/Objects.v", "Proofs/ObjectsP.v", "Model/Options.v", "Proofs/OptionsP.v"] + ENGINE_CONE,
                rule="a generated probe execution (schema, data, WithCtxValue / WithIssueFormatter options) is run on freshly cleared pools, after a random history of 1-5 other executions whose results are kept or handed back through CollectMap / CollectList / SanitizeMapAndCollect / SanitizeListAndCollect (GC off, goroutine pinned, so the pools really recycle), and on pools handing out dirty objects (every field junk, CanCatch/Exit set, context values, stale path segments); every issue field, the destination and ctx.Get inside every callback are compared; issue objects of one result must be pairwise distinct; the probe is also compared with the Coq engine; distinct = distinct (schema shape, issue codes, mode)",
                families=[dict(name="history", family="history", profile="C07", quick=900, thorough=15000,
                               tags=["isolation", "isolation_dirty", "issue_aliased", "held_result", "panic", "ctx", "nil", "issues", "msg", "dest"])]),
    "C08": dict(theorems=["C08_pooled_objects_have_one_holder", "C08_race_free_partial", "C08_schema_is_read_only", "C08_each_call_like_running_alone"],
                cone=["Model/Threads.v", "Proofs/ThreadsP.v", "Model/Objects.v", "Proofs/ObjectsP.v"] + ENGINE_CONE,
                level_text="PARTIAL proof: Coq theorems for the ownership logic (pooled objects have one holder under every interleaving; disciplined events never race; schema and input are never written; each call's result is a function of its own arguments); the Go memory model, sync.Pool's atomicity and the runtime are trusted; a -race stress on shared schema objects validates the footprint model on every run",
                level_note="trusted and NOT modelled: the Go memory model, atomicity of sync.Pool Get/Put, map iteration and reflect internals of the runtime; trusted: Coq kernel, harness",
                rule="generated schema objects shared by 16 goroutines, each running Parse / Validate / Collect with its own data, destination (two destination struct layouts per schema) and options under the Go race detector; every result is compared with the result of the same call running alone; distinct = distinct shared schema shapes",
                families=[dict(name="race", family="race", quick=0, thorough=0, tags=["data_race", "concurrent_result"]),
                          dict(name="history", family="history", profile="C07", quick=400, thorough=5000, tags=["isolation", "isolation_dirty", "issue_aliased", "held_result", "panic", "ctx", "nil", "issues", "msg", "dest"])]),
    "C09": dict(theorems=["C09_struct_order_independent_partial", "C09_fields_order_independent_partial", "C09_deep_order_independent_partial", "C09_deep_premise_is_satisfiable", "C09_input_key_order_irrelevant", "C09_error_state_irrelevant_without_transforms", "C09_engine_computes_semantics", "C09_message_independent_of_parameter_order", "C09_one_pass_is_simultaneous_substitution", "C09_legacy_message_depends_on_order_refuted", "C09_repair_keeps_brace_free_messages"], cone=ENGINE_CONE + ["Proofs/Indep.v", "Proofs/DeepOrder.v", "Model/Fmt.v", "Gen/Tables.v", "Proofs/FmtOrderP.v"], rule=ENGINE_RULE,
                families=[eng("engine", "C09", 1000, 16000, ["repeat", "repeat_ptgate", "panic", "nil", "issues", "dest"]),
                          # one schema object at two places of a larger schema whose destinations lay the fields out differently: each place as an independent copy, on every run
                          dict(name="shared", family="builder", profile="default", quick=120, thorough=1000, shard=150, tags=["share"]),
                          # the front ends hand the same record over on every run (parameters that look like numbered list entries included)
                          dict(name="fe", family="fe", profile="fe", quick=600, thorough=8000, tags=["nil", "issues", "dest", "panic"])]),   # + the tie itself: an outcome no visit order of the (order-independent) model explains
    "C10": dict(theorems=["C10_map_wf", "C10_paths", "C10_sanitize", "C10_field_key", "C10_nested_source_tag_refuted", "C10_engine_computes_semantics"], cone=ENGINE_CONE + ["Proofs/ErrsP.v", "Proofs/FrontEndsP.v"], rule=ENGINE_RULE,
                families=[eng("engine", "C10", 1200, 20000, ["issues", "first", "panic", "sanitize"]),
                          # the map of a call after arbitrary earlier calls (Collect helpers, undecodable bodies): still keyed by its own issues' paths
                          dict(name="history", family="history", profile="C07", quick=400, thorough=5000, tags=["issues", "first", "isolation", "issue_aliased", "held_result", "panic"]),
                          dict(name="fe", family="fe", profile="fe", quick=700, thorough=8000, tags=["issues", "first", "panic", "nested_source_tag"])]),
    "C12": dict(theorems=["C12_engine_computes_semantics", "C12_test_receives_the_tested_value", "C12_pts_prefix_in_order", "C12_pts_skipped_when_an_issue_exists", "C12_preprocess_error_skips_schema", "C12_preprocess_type_mismatch_skips_schema", "C12_ctx_values_are_this_calls", "C12_ctx_get_is_the_calls_last_option", "C12_ctx_last_call_wins", "C12_ctx_other_keys_nil", "C12_transforms_of_a_catching_node", "C12_custom_root_parse", "C12_custom_root_wrong_type", "C12_custom_root_validate", "C12_custom_root_engine"], cone=ENGINE_CONE + ["Proofs/CatchP.v", "Proofs/ExactP.v", "Model/Objects.v", "Proofs/ObjectsP.v", "Model/Options.v", "Proofs/OptionsP.v"], rule=ENGINE_RULE,
                families=[eng("engine", "C12", 1200, 20000, ["calls", "args", "ctx", "haserr", "panic"]),
                          # callbacks after arbitrary earlier calls (undecodable request bodies included): still their own node, still this call's context
                          dict(name="history", family="history", profile="C07", quick=500, thorough=6000, tags=["calls", "args", "ctx", "panic"]),
                          # the callbacks a derived schema runs are its own, in declaration order, whatever was derived from the same base before or after
                          sat("helpers", "helpers", 600, 8000, ["tests", "transforms"], shard=300)]),
    "C11": dict(theorems=["C11_catalogue_ok", "C11_custom_described", "C11_legacy_custom_refuted", "C11_no_placeholder_left", "C11_precedence_test", "C11_precedence_exec",
                          "C11_precedence_global", "C11_i18n_uses_context_language", "C11_i18n_falls_back_to_default", "C11_call_formatter_is_last_option"],
                cone=["Model/Fmt.v", "Proofs/FmtP.v", "Gen/Tables.v", "Model/Options.v", "Proofs/OptionsP.v"],
                rule="exhaustive: every catalogue entry (every built-in test of every type, plain and negated, required / not_nil / coerce per type, front-end decode failures) x {no language, en, es, unknown language} plus test-level Message, execution-level formatter, both, and a formatter that sets nothing, after an i18n re-installation; then random (entry, language, test message, execution formatter) combinations; the finite theorems are re-proved against the tables dumped from the running code; distinct = distinct (entry, which formatters are present)",
                families=[sat("messages", "messages", 1500, 12000, ["message", "described", "described_custom"]),
                          eng("engine", "C11", 700, 8000, ["params", "dtype", "msg", "panic"]),
                          sat("helpers", "helpers", 500, 6000, ["fields"], shard=300),
                          # after any history of executions and Collect / Sanitize helpers every issue is still its own object, described by its own test
                          dict(name="history", family="history", profile="C07", quick=400, thorough=5000, tags=["issue_aliased", "issues", "dtype", "params", "msg", "panic"])]),   # the issue names the type of the node that is there now, also on schemas derived with Pick/Omit/Extend/Merge
    "C13": dict(theorems=["C13_modes_agree", "C13_engine_modes_agree", "C13_default_coercers_are_identity_on_typed_values", "C13_premise_is_satisfiable", "C13_engine_computes_semantics"], cone=ENGINE_CONE + ["Proofs/ModesP.v", "Model/Coerce.v"],
                rule="a generated schema (no Preprocess, no custom coercers; tests, Catch, Default and PostTransforms at every level) and a generated fully populated value of its destination type (no zero leaf, no empty slice, no nil pointer); the value is validated in place and, presented as the plain map it would be decoded from, parsed into a fresh destination; issues (path, code, type, message) and final values are compared with each other (model-free; with PostTransforms only when neither run reports an issue, because their gating on the execution-wide error state makes the result depend on each run's field visit order - the recorded C09 finding) and both executions with the Coq engine under their own visit orders; distinct = distinct (schema shape, issue codes, mode)",
                families=[dict(name="modes", family="modes", profile="C13", quick=700, thorough=12000, tags=["modes_agree", "panic", "nil", "issues", "dest"])]),
    "C14": dict(theorems=["C14_struct_sources_agree", "C14_engine_computes_semantics", "C14_provider_key", "C14_factory_transparent_struct",
                          "C14_factory_transparent_ptr", "C14_env_blank_iff_trimmed_empty", "C14_env_trim_keeps_text", "C14_nested_source_tag_refuted", "C14_nested_flat_source_refuted"],
                cone=ENGINE_CONE + ["Proofs/FrontEndsP.v", "Model/Trim.v", "Proofs/TrimP.v"],
                rule="one generated logical record (JSON-expressible) for a generated struct schema (tags json/form/query/env/zog) is sent through zjson, zhttp JSON/form/query requests (methods, charset parameters, decoy query/body values, malformed bodies, middleware pre-parsing) or the environment; model input = what encoding/json or url.ParseQuery yield when called directly; environment values are handed to the model raw (white space of every kind around them) and trimmed by the model's own TrimSpace; plus a model-free cross-front-end oracle against the same record as a Go map; distinct = distinct (front end, schema shape, issue codes)",
                families=[dict(name="fe", family="fe", profile="fe", quick=1500, thorough=20000,
                               tags=["nil", "issues", "dest", "panic", "fe_equiv", "fe_nested_flat", "nested_source_tag", "nested_flat_source"])]),
    "C15": dict(theorems=["C15_get_head_query", "C15_other_methods", "C15_json_iff", "C15_form_iff", "C15_media_type_every_spelling", "C15_media_type_only_spellings", "C15_legacy_dispatch_refuted", "C15_params_ignored", "C15_decode_failure_struct",
                          "C15_decode_failure_ptr", "C15_empty_object", "C15_url_missing", "C15_url_single", "C15_url_repeated", "C15_url_brackets"],
                cone=["Model/Http.v", "Proofs/HttpP.v", "Model/Engine.v"],
                rule="method x Content-Type grid (standard, unknown and lower-case methods; parameters, empty, malformed and random media types) with the dispatch observed through recording Config.Parsers; query strings x keys for urlDataProvider.Get; non-trivial = a non-GET/HEAD request or a present/repeated parameter; distinct = distinct (method, content type) or (query, key)",
                families=[sat("http", "http", 1200, 12000, ["dispatch", "urlget", "dispatch_rfc", "dispatch_media"]),
                          dict(name="fe", family="fe", profile="fe", quick=900, thorough=12000, tags=["nil", "issues", "dest", "calls", "panic"]),
                          # an undecodable request after arbitrary earlier requests (Collect helpers included): still exactly one top-level issue of its own
                          dict(name="history", family="history", profile="C07", quick=400, thorough=5000, tags=["nil", "issues", "dest", "isolation", "panic"])]),
    "C16": dict(theorems=["C16_helpers_refine_pure", "C16_pick", "C16_omit", "C16_selected", "C16_later_wins", "C16_earlier_kept", "C16_merge_many_is_fold", "C16_legacy_clone_refuted"],
                cone=["Model/Helpers.v", "Proofs/HelpersP.v"],
                rule="random sequences (up to 18 operations) of Struct / Test / PostTransform / Pick / Omit (string and map[string]bool arguments, repeated keys, false entries) / Extend / Merge over bases whose slices have spare capacity; every schema created is then executed twice (all struct tests failing: fields, versions and test order; valid record: PostTransform order); distinct = distinct operation sequences",
                families=[sat("helpers", "helpers", 1500, 30000, ["fields", "tests", "transforms"], shard=300)]),
    "C17": dict(theorems=["C17_tests_denotation", "C17_pts_denotation", "C17_not_negates_next", "C17_negated_test_semantics", "C17_not_is_consumed",
                          "C17_last_call_wins", "C17_options_are_local"],
                cone=["Model/Builder.v", "Proofs/BuilderP.v", "Model/Engine.v", "Proofs/Refine.v"],
                rule="random chains (1-8 calls) of Not / built-in tests / TestFunc / Required / Optional / Default / Catch / PostTransform with random Message, IssueCode and IssuePath options on String, Int, Int64, Float64, Bool and Time schemas (each schema type has its own copy of the builder methods; double and dangling Not, Not before non-test calls, the same modifier twice with and without options), executed on random subjects in Parse and Validate; the Coq side folds the same chain into a schema and runs the engine; plus a shared-schema-object probe against independent copies; distinct = distinct (call-kind sequence, outcome)",
                families=[dict(name="builder", family="builder", profile="default", quick=1500, thorough=30000, shard=150,
                               tags=["nil", "issues", "dtype", "params", "msg", "dest", "calls", "panic", "share"]),
                          # WithCoercer acts on its own schema only: on primitives, through Ptr, on the slice itself, next to global overrides
                          eng("coercers", "C17c", 500, 8000, ["nil", "issues", "dest", "panic"]),
                          # a chain means the same on every later execution of the schema it built: after issues were collected, after a
                          # neighbour caught a failure of a test that shares its Params map
                          dict(name="history", family="history", profile="C07", quick=300, thorough=4000, tags=["params", "msg", "panic"])]),
    "C18": dict(theorems=["C18_float_to_int_exact", "C18_nan_inf_rejected", "C18_float_out_of_range_rejected", "C18_int_from_int_exact", "C18_int_in_range",
                          "C18_int32_in_range", "C18_int32_accepts", "C18_int32_rejects", "C18_int64_accepts", "C18_f64_identity",
                          "C18_f32_rounds_never_to_infinity", "C18_f32_overflow_rejected"],
                cone=["Model/Coerce.v", "Proofs/NumericP.v"],
                rule="every (input representation, numeric schema kind) pair on boundary-directed inputs (+-2^31, +-2^63, 2^24/2^53 neighbours via nextafter, max float32 and successors, decimal/exponent strings, NaN/Inf) plus random bit patterns; the destination is compared bit-exactly with the model and, independently, with an exact big.Rat oracle; the same leaf placed as an element of a []any or of a typed Go slice, as a struct field and behind a pointer must be coerced identically; distinct = distinct (kind, input)",
                families=[sat("numeric", "numeric", 2500, 40000, ["coerce", "numeric_oracle", "numeric_placement"]),
                          # numbers as the front ends deliver them (JSON literals beyond float64, form/query/env strings)
                          dict(name="fe", family="fe", profile="fe", quick=900, thorough=12000, tags=["nil", "issues", "dest", "panic"]),
                          # numbers inside records of every Go map type: refused or exact, never widened through a float
                          sat("dyn", "dyn", 400, 4000, ["root_coerce", "presence", "panic"], shard=300)]),
    "C19": dict(theorems=["C19_default_never_changes", "C19_every_use_like_the_first", "C19_legacy_alias_refuted", "C19_validate_writes_only_through_default_catch_pt"],
                cone=["Model/SliceHeap.v", "Proofs/PurityP.v"] + ENGINE_CONE,
                rule="generated schemas rich in defaults (incl. slice-valued), catches and destination-mutating PostTransforms; inputs as []any and as typed []string / []int slices; reflect-based fingerprints (unexported fields, slice backing-array addresses) of the schema object graph and of the input before and after each execution; the returned destination is then overwritten everywhere and the fingerprints compared again; a second identical use is compared with the first; Validate on schemas without writers must leave the value as it was; every execution is also compared with the Coq engine; distinct = distinct (schema shape, issue codes, mode)",
                families=[dict(name="purity", family="purity", profile="C19", quick=1200, thorough=20000,
                               tags=["schema_modified", "input_modified", "validate_wrote", "dest_aliases_schema", "dest_aliases_input", "second_run_differs", "panic"]),
                          # the caller's *http.Request: Form / PostForm / URL unchanged by Parse, a second Parse of it gives the same result
                          dict(name="fe", family="fe", profile="fe", quick=900, thorough=12000, tags=["request_unchanged", "panic"])]),
    "C20": dict(theorems=["C20_str_min", "C20_str_max", "C20_str_len", "C20_slice_min", "C20_slice_max", "C20_slice_len", "C20_int_cmp", "C20_float_cmp",
                          "C20_nan_fails_every_comparison", "C20_str_oneof", "C20_int_oneof", "C20_slice_contains", "C20_has_prefix", "C20_has_suffix",
                          "C20_contains", "C20_classes", "C20_contains_upper", "C20_contains_digit", "C20_contains_special", "C20_uuid", "C20_email", "C20_email_label",
                          "C20_time_after", "C20_time_before", "C20_time_eq"],
                cone=["Model/Preds.v", "Proofs/PredsP.v", "Proofs/EmailP.v"],
                rule="single-test schemas for every built-in of every type; subjects at n-1, n, n+1, all 256 single bytes for the character classes, class-edge characters, multi-byte and invalid UTF-8, equal instants in three zones +-1ns, NaN/Inf/-0 and nextafter neighbours, near-miss UUIDs and e-mail addresses (every position perturbed, label lengths 61..64), slices of strings, ints and pointers; plus random; distinct = distinct (test, parameter) pairs",
                families=[sat("preds", "preds", 7000, 30000, ["pred"]),
                          # the verdict of a test is its predicate wherever the node stands: next to catching siblings, inside wide structs
                          eng("placed", "C01s", 500, 8000, ["nil", "issues", "panic"])]),
}

# what each check assumes or trusts beyond the common trusted base (hypotheses of the headline theorems,
# oracles taken from the running code, parts that are modelled and not verified)
ASSUMPTIONS = {
    "C01": ["theorem hypotheses: pt_free (a PostTransform may rewrite a tested value afterwards, by design) and wf (the destination has the schema's shape)",
            "user tests and custom functions are pure functions of the value they are given"],
    "C02": ["the observed field visit order is known only for wrapped inputs; otherwise the judge accepts a case if some visit order explains it (counts in correspondence.order_known)"],
    "C03": ["oracles from the running code: strconv.ParseFloat, time.Parse, %v of floats"],
    "C04": ["white space = the 25 code points unicode.IsSpace accepts, in UTF-8"],
    "C05": ["theorem hypotheses: pt_free for the locality statements, no repeated key in a struct schema"],
    "C06": ["schema keys are non-empty (an empty schema key is misconfiguration); panics inside reflect / the standard library are covered only by the harness's recover", "the dynamic-type model (Model/Dyn.v) covers the provider layer, not every Go type"],
    "C07": ["sync.Pool may hand out any pooled object or none (adversarial choice in the model); the caller collects a result at most once and only while holding it"],
    "C08": ["PARTIAL: the Go memory model, sync.Pool internals and user callbacks are outside the model; the race-detector run is a test, not a proof"],
    "C09": ["PARTIAL: pt_free (with PostTransforms the code is order dependent: known finding C09/pt-gating); no repeated key in a struct schema", "messages: parameter keys contain no braces; only the shipped language maps (user-edited templates are exercised by the harness, not covered by the theorem)"],
    "C10": ["no issue is keyed '$first' (a schema key, tag or IssuePath spelled like the reserved entry collides with it: excluded as misconfiguration)", "nested source tags: known findings C10/nested-source-tag, C14/nested-source-tag"],
    "C11": ["finite theorems are about the shipped catalogue and languages as regenerated from the code on this run (Gen/Tables.v)"],
    "C12": ["user callbacks are pure functions of their argument and the call's context values"],
    "C13": ["theorem hypotheses: no Preprocess node (its function sees a pointer in Validate and a value in Parse, by design) and a populated, correctly typed value", "custom functions that write through their pointer are compared between the modes only (model-free)"],
    "C14": ["depth 1 (nested structs over flat sources and nested source tags: known findings)", "encoding/json, url.ParseQuery and net/http produce the model's input for the front ends"],
    "C15": ["media type parsing modelled for ASCII; url.ParseQuery and encoding/json decide what is decodable"],
    "C16": ["append may or may not reallocate (every growth policy is covered by the theorem)"],
    "C17": ["chains on primitive schemas (the model is generic in the kind); slices are covered by the engine family only"],
    "C18": ["oracle from the running code: strconv.ParseFloat for strings; exact big.Rat oracle in the harness"],
    "C19": ["the slice-heap model covers slice-valued defaults; other schema-owned memory (test parameters, captured values) is covered by the harness's fingerprint of the schema object graph, model-free"],
    "C20": ["url.Parse and regexp are table oracles from the running code, not modelled"],
}
for _k, _v in ASSUMPTIONS.items():
    PROPS[_k]["assumptions"] = _v
