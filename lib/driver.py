import argparse, fcntl, glob, json, os, re, shutil, subprocess, sys, time
from concurrent.futures import ThreadPoolExecutor

VERIF = os.path.dirname(os.path.dirname(os.path.abspath(__file__)))
COQ = os.path.join(VERIF, "coq")
HARN = os.path.join(VERIF, "harness")
WORK = os.path.join(VERIF, "work")
REPO = os.environ.get("VERIF_REPO", "/repo")
# quick-tier case counts of props.py are multiplied by this (a single failing case in a few hundred is a fragile detection)
QUICK_SCALE = float(os.environ.get("VERIF_QUICK_SCALE", "1.6"))

GOENV = dict(os.environ, GOFLAGS="-mod=mod", GOPROXY="off", GOSUMDB="off", GOTOOLCHAIN="local",
             CGO_ENABLED=os.environ.get("CGO_ENABLED", "1"))

import props  # noqa: E402  (per-property configuration)


def sh(cmd, cwd=None, timeout=1800, env=None):
    try:
        p = subprocess.run(cmd, cwd=cwd, shell=isinstance(cmd, str), stdout=subprocess.PIPE,
                           stderr=subprocess.STDOUT, timeout=timeout, env=env, text=True, errors="replace")
        return p.returncode, p.stdout
    except subprocess.TimeoutExpired as e:
        out = e.stdout if isinstance(e.stdout, str) else (e.stdout or b"").decode("utf8", "replace")
        return 124, out + "\n[timeout after %ss]" % timeout


class Lock:
    def __init__(self, name):
        os.makedirs(WORK, exist_ok=True)
        self.path = os.path.join(WORK, "." + name + ".lock")

    def __enter__(self):
        self.f = open(self.path, "w")
        fcntl.flock(self.f, fcntl.LOCK_EX)

    def __exit__(self, *a):
        fcntl.flock(self.f, fcntl.LOCK_UN)
        self.f.close()


FORBIDDEN = re.compile(r"\b(Admitted|admit|Axiom|Axioms|Parameter|Parameters|Conjecture|Admit Obligations)\b|Unset Guard|bypass_check|type-in-type|impredicative-set|Unset Universe Checking|Unset Positivity")


def scan_forbidden():
    bad = []
    for f in glob.glob(os.path.join(COQ, "**", "*.v"), recursive=True):
        txt = open(f, errors="replace").read()
        txt = re.sub(r"\(\*.*?\*\)", "", txt, flags=re.S)  # comments may use the words
        for i, line in enumerate(txt.split("\n")):
            if FORBIDDEN.search(line):
                bad.append("%s:%d: %s" % (os.path.relpath(f, VERIF), i + 1, line.strip()[:120]))
    return bad


def build_harness():
    """go build of the harness against /repo's working tree (the module replaces zog by /repo)."""
    with Lock("go"):
        try:
            shutil.copy(os.path.join(REPO, "go.sum"), os.path.join(HARN, "go.sum"))
        except OSError:
            pass
        mod = open(os.path.join(HARN, "go.mod")).read()
        want = "replace github.com/Oudwins/zog => " + REPO
        mod2 = re.sub(r"replace github.com/Oudwins/zog => \S+", want, mod)
        if mod2 != mod:
            open(os.path.join(HARN, "go.mod"), "w").write(mod2)
        rc, out = sh(["go", "build", "-o", "bin/", "./cmd/..."], cwd=HARN, timeout=900, env=GOENV)
        if rc != 0:
            # the harness reaches into internals only to pre-fill the pools with junk objects; when the
            # representation of those objects changed, build without that (pool mode "dirty" = "recycled")
            rc2, out2 = sh(["go", "build", "-tags", "nodirty", "-o", "bin/", "./cmd/..."], cwd=HARN, timeout=900, env=GOENV)
            if rc2 == 0:
                return True, "built with -tags nodirty (junk-filled pool objects unavailable): " + out[-600:]
            # never run stale binaries against a tree they were not built from
            for f in glob.glob(os.path.join(HARN, "bin", "*")):
                try:
                    os.remove(f)
                except OSError:
                    pass
            return False, out + out2
        return rc == 0, out


def gen_tables():
    """Gen/Tables.v: data regenerated from the running code (language maps, codes, catalogue)."""
    exe = os.path.join(HARN, "bin", "zogtables")
    if not os.path.exists(exe):
        return True, ""
    rc, out = sh([exe], cwd=HARN, timeout=120, env=GOENV)
    if rc != 0:
        return False, out
    dst = os.path.join(COQ, "Gen", "Tables.v")
    old = open(dst).read() if os.path.exists(dst) else None
    if old != out:
        os.makedirs(os.path.dirname(dst), exist_ok=True)
        open(dst, "w").write(out)
    return True, ""


def build_coq():
    with Lock("coq"):
        ok, out = gen_tables()
        if not ok:
            return False, "table generation failed:\n" + out
        mk = os.path.join(COQ, "Makefile")
        cp = os.path.join(COQ, "_CoqProject")
        if not os.path.exists(mk) or os.path.getmtime(mk) < os.path.getmtime(cp):
            rc, out = sh("coq_makefile -f _CoqProject -o Makefile", cwd=COQ, timeout=120)
            if rc != 0:
                return False, out
        rc, out = sh("timeout 1500 make -k -j16", cwd=COQ, timeout=1600)   # -k: everything that still checks is built
        return rc == 0, out


def coq_assumptions(pid):
    """Re-compile Properties/<pid>.v and read what Print Assumptions printed under each theorem."""
    f = os.path.join(COQ, "Properties", pid + ".v")
    if not os.path.exists(f):
        return None
    src = open(f).read()
    theorems = re.findall(r"^(?:Theorem|Corollary)\s+(\w+)", src, flags=re.M)
    printed = re.findall(r"^Print Assumptions\s+(\w+)", src, flags=re.M)
    with Lock("coq"):
        rc, out = sh(["coqc", "-Q", ".", "Zog", "-w", "-notation-overridden,-deprecated-syntactic-definition,-deprecated,-abstract-large-number",
                      "Properties/%s.v" % pid], cwd=COQ, timeout=600)
    closed = out.count("Closed under the global context")
    axioms = []
    for m in re.finditer(r"^Axioms:\n((?:.+\n)+?)(?=\S|\Z)", out, flags=re.M):
        axioms.append(m.group(1).strip())
    allowed = props.ALLOWED_AXIOMS
    bad_axioms = []
    for blk in axioms:
        for name in re.findall(r"^(\S+)\s*:", blk, flags=re.M):
            if name not in allowed:
                bad_axioms.append(name)
    return dict(rc=rc, out=out, theorems=theorems, printed=printed, closed=closed, axioms=axioms, bad_axioms=bad_axioms)


def coqchk(pid):
    """Thorough tier: the independent checker re-checks Properties/<pid>.vo and everything it depends on
    and prints the axioms the whole context relies on."""
    with Lock("coq"):
        rc, out = sh(["coqchk", "-silent", "-o", "-Q", ".", "Zog", "Zog.Properties." + pid], cwd=COQ, timeout=3000)
    summary = out[out.find("CONTEXT SUMMARY"):] if "CONTEXT SUMMARY" in out else out[-1500:]
    clean = (rc == 0 and "Axioms: <none>" in summary and "type-in-type: <none>" in summary
             and "unsafe (co)fixpoints: <none>" in summary and "positivity is assumed: <none>" in summary)
    return dict(rc=rc, clean=clean, summary=" ".join(summary.split())[:1200])


def count_qed(files):
    n = 0
    for f in files:
        p = os.path.join(COQ, f)
        if os.path.exists(p):
            n += len(re.findall(r"\b(Qed|Defined)\.", open(p).read()))
    return n


RES_ENTRY = re.compile(r"\((\d+), (Fail \[([^\]]*)\]|Skip \"([^\"]*)\")\)")


def parse_R(out):
    m = re.search(r"^R = (.*?)\n\s+: list", out, flags=re.S | re.M)
    if not m:
        return None
    res = {}
    for e in RES_ENTRY.finditer(m.group(1)):
        cid = int(e.group(1))
        if e.group(2).startswith("Fail"):
            res[cid] = ("fail", re.findall(r'"([^"]*)"', e.group(3)))
        else:
            res[cid] = ("skip", e.group(4))
    return res


def coqc_case(path):
    # (a memory bound as well as a time bound: a runaway evaluation must not take the machine down)
    rc, out = sh("ulimit -v 12000000; exec coqc -Q %s Zog -w -notation-overridden,-deprecated-syntactic-definition,-deprecated,-abstract-large-number %s" % (COQ, os.path.basename(path)),
                 cwd=os.path.dirname(path), timeout=600)
    return path, rc, out


def run_race(pid, fam, tier, seed, outdir):
    """C08: the shared-schema stress under the Go race detector (validates the ownership model; not the proof)."""
    shutil.rmtree(outdir, ignore_errors=True)
    os.makedirs(outdir, exist_ok=True)
    r = dict(name=fam["name"], n=0, results={}, errors=[], meta={}, outdir=outdir, details={})
    with Lock("go"):
        rc, out = sh(["go", "build", "-race", "-o", "bin/zograce", "./race"], cwd=HARN, timeout=900, env=GOENV)
    if rc != 0:
        r["errors"].append("race build failed: " + out[-1500:])
        return r
    workers, iters, schemas = (16, 1500, 60) if tier == "thorough" else (16, 250, 24)
    resf = os.path.join(outdir, "race.json")
    errf = os.path.join(outdir, "race.stderr")
    env = dict(GOENV, GORACE="halt_on_error=0")
    with open(errf, "w") as ef:
        p = subprocess.run([os.path.join(HARN, "bin", "zograce"), "-seed", str(seed), "-workers", str(workers), "-iters", str(iters),
                            "-schemas", str(schemas), "-out", resf], cwd=HARN, env=env, stdout=subprocess.DEVNULL, stderr=ef, timeout=1500)
    err = open(errf, errors="replace").read()
    races = err.count("WARNING: DATA RACE")
    try:
        res = json.load(open(resf))
    except Exception as e:  # noqa
        if races or "fatal error: concurrent map" in err:
            # the Go runtime itself stopped the process on an unsynchronised access to shared state: that is the failing schedule
            i = err.find("fatal error: concurrent map")
            r["results"][0] = ("fail", ["data_race"])
            r["details"][0] = ("%d race report(s); the runtime aborted the stress run (exit %s)\n" % (races, p.returncode)) + err[max(i, 0):max(i, 0) + 6000]
            r["meta"] = dict(cases=0, distinct_nontrivial=0, family="race", workers=workers, iterations=iters, race_reports=races, samples=[])
            return r
        r["errors"].append("race harness produced no result (exit %s): %s" % (p.returncode, err[-1500:]))
        return r
    tags = []
    if races:
        tags.append("data_race")
    if res.get("wrong_results", 0):
        tags.append("concurrent_result")
    if "fatal error" in err or p.returncode not in (0, 66):
        tags.append("data_race")
    if tags:
        r["results"][0] = ("fail", sorted(set(tags)))
        r["details"][0] = ("%d race report(s); %d of %d concurrent calls returned a result different from the same call alone\n" % (races, res.get("wrong_results", 0), res.get("calls", 0))
                           + str(res.get("first_wrong", "")) + "\n" + err[:6000])
    r["meta"] = dict(cases=res.get("calls", 0), distinct_nontrivial=len(set(res.get("shapes", []))), family="race", workers=workers, iterations=iters,
                     shared_schemas=res.get("schemas"), race_reports=races, wrong_results=res.get("wrong_results", 0),
                     samples=["shared schema shapes: " + " ".join(res.get("shapes", [])[:8])])
    return r


def run_family(pid, fam, tier, seed, ids=None, outdir=None):
    """Runs one correspondence family: implementation side (Go), then the model side (coqc)."""
    if fam["family"] == "race":
        return run_race(pid, fam, tier, seed, outdir or os.path.join(WORK, pid, fam["name"]))
    n = fam["thorough"] if tier == "thorough" else int(fam["quick"] * QUICK_SCALE)
    outdir = outdir or os.path.join(WORK, pid, fam["name"])
    shutil.rmtree(outdir, ignore_errors=True)
    os.makedirs(outdir, exist_ok=True)
    cmd = [os.path.join(HARN, "bin", "zogcorr"), "-family", fam["family"], "-profile", fam.get("profile", "default"),
           "-n", str(n), "-seed", str(seed), "-out", outdir, "-shard", str(fam.get("shard", 100))]
    if ids:
        cmd += ["-ids", ",".join(str(i) for i in ids)]
    rc, out = sh(cmd, cwd=HARN, timeout=fam.get("timeout", 1500), env=GOENV)
    r = dict(name=fam["name"], n=n, results={}, errors=[], meta={}, outdir=outdir, harness_out=out[-4000:])
    if rc != 0:
        r["errors"].append("harness exited %d: %s" % (rc, out[-2000:]))
        return r
    try:
        r["meta"] = json.load(open(os.path.join(outdir, "meta.json")))
    except Exception as e:  # noqa
        r["errors"].append("no meta.json: %s" % e)
    # model-free failures the harness itself found (e.g. differential oracles)
    for f in r["meta"].get("failures", []):
        r["results"][f["id"]] = ("fail", f["tags"])
        r.setdefault("details", {})[f["id"]] = f.get("detail", "")
    files = sorted(glob.glob(os.path.join(outdir, "cases_*.v")))
    with ThreadPoolExecutor(max_workers=16) as ex:
        for path, rc, out in ex.map(coqc_case, files):
            res = parse_R(out)
            if rc != 0 or res is None:
                r["errors"].append("coqc %s failed (rc %d): %s" % (os.path.basename(path), rc, out[-1500:]))
                continue
            for cid, v in res.items():
                if cid in r["results"] and r["results"][cid][0] == "fail" and v[0] == "fail":
                    r["results"][cid] = ("fail", r["results"][cid][1] + v[1])
                else:
                    r["results"][cid] = v
            if ids:
                r["explain"] = out[-20000:]
    return r


def load_known():
    p = os.path.join(VERIF, "known_findings.json")
    if not os.path.exists(p):
        return []
    return json.load(open(p)).get("findings", [])


def extract_case(outdir, cid):
    """Finds the Gallina term of case `cid` in the cases_*.v files of a family run."""
    for f in sorted(glob.glob(os.path.join(outdir, "cases_*.v"))):
        txt = open(f).read()
        m = re.search(r"^(.*?)Definition cases : list (\w+) := \[\n(.*)\n\]\.\nDefinition R", txt, flags=re.S)
        if not m:
            continue
        header, typ, body = m.group(1), m.group(2), m.group(3)
        for term in body.split(";\n  ("):
            t = term if term.startswith("  (") else "  (" + term
            if re.search(r"\b(EC|PC|NC|HD|HU|BC|KC|FC|LC|DC) %d\b" % cid, t):
                return t, header, typ
    return None, None, None


def write_replay(pid, fam, seed, tier, cid, tags, detail=""):
    os.makedirs(os.path.join(WORK, pid), exist_ok=True)
    path = os.path.join(WORK, pid, "replay_%s_%s.json" % (fam["name"], cid))
    if fam["family"] == "race":
        rep = dict(property=pid, family="race", seed=seed, tier=tier, failed_projections=tags, detail=detail,
                   rerun="cd /verif/harness && go build -race -o bin/zograce ./race && ./bin/zograce -seed %d" % seed)
        json.dump(rep, open(path, "w"), indent=1)
        return path
    rep = dict(property=pid, family=fam["family"], family_name=fam["name"], profile=fam.get("profile", "default"), seed=seed, tier=tier,
               n=fam["thorough"] if tier == "thorough" else int(fam["quick"] * QUICK_SCALE), case_id=cid, failed_projections=tags, detail=detail,
               rerun="./check %s --replay %s" % (pid, path))
    # capture the very case that failed (term + what the implementation did) from the run's case files
    # and let Coq print the model's outcome next to it
    try:
        src_dir = os.path.join(WORK, pid, fam["name"])
        term, header, typ = extract_case(src_dir, cid)
        if term:
            d = os.path.join(WORK, pid, "replay_%s_%s.d" % (fam["name"], cid))
            shutil.rmtree(d, ignore_errors=True)
            os.makedirs(d)
            body = header + "Definition cases : list " + typ + " := [\n" + term + "\n].\n"
            if typ == "ecase":
                body += "Definition R := Eval vm_compute in check_all cases.\nPrint R.\nDefinition X := Eval vm_compute in explain cases.\nPrint X.\n"
            open(os.path.join(d, "case.v"), "w").write(body)
            rep["case_gallina"] = body[:60000]
            if typ == "ecase":
                _, rc, out = coqc_case(os.path.join(d, "case.v"))
                rep["model_vs_implementation"] = out[-30000:]
    except Exception as e:  # noqa
        rep["replay_capture_error"] = str(e)
    json.dump(rep, open(path, "w"), indent=1)
    return path


def decide(pid, tier, seed):
    t0 = time.time()
    cfg = props.PROPS[pid]
    lines = []          # VIOLATION / KNOWN-FINDING lines
    violations = 0
    notes = []
    # ---- proofs ------------------------------------------------------------------------------
    okh, outh = build_harness()
    if not okh:
        notes.append("harness does not build against /repo: " + outh[-1500:])
    elif "nodirty" in outh:
        notes.append("harness " + outh[:700])
    okc, outc = build_coq()
    forb = scan_forbidden()
    asm = coq_assumptions(pid) if okc else None
    proof_broken = []
    if not okc:
        m = re.findall(r'File "([^"]+)", line (\d+).*?\n(Error:.*?)(?:\n\n|\Z)', outc, flags=re.S)
        proof_broken.append("Coq build failed: " + ("; ".join("%s:%s %s" % (a, b, c.replace("\n", " ")[:300]) for a, b, c in m) or outc[-1500:]))
    if forb:
        proof_broken.append("forbidden constructs: " + "; ".join(forb[:5]))
    if asm is not None:
        if asm["rc"] != 0:
            proof_broken.append("Properties/%s.v does not compile: %s" % (pid, asm["out"][-800:]))
        if asm["bad_axioms"]:
            proof_broken.append("theorems depend on axioms outside the allow-list: %s" % asm["bad_axioms"])
        missing = [t for t in cfg["theorems"] if t not in asm["theorems"]]
        if missing:
            proof_broken.append("property theorems missing from Properties/%s.v: %s" % (pid, missing))
        if set(asm["theorems"]) - set(asm["printed"]):
            proof_broken.append("theorems without Print Assumptions: %s" % sorted(set(asm["theorems"]) - set(asm["printed"])))
    elif okc:
        proof_broken.append("Properties/%s.v is missing" % pid)
    chk = None
    if tier == "thorough" and okc and not proof_broken:
        chk = coqchk(pid)
        if not chk["clean"]:
            proof_broken.append("coqchk does not accept Properties/%s.vo with an empty axiom context: %s" % (pid, chk["summary"]))
    n_theorems = len(asm["theorems"]) if asm else len(cfg["theorems"])
    n_support = count_qed(cfg.get("cone", []))
    obligations = n_theorems + n_support
    discharged = 0 if proof_broken else obligations

    # ---- correspondence ----------------------------------------------------------------------
    known = [k for k in load_known() if k.get("property") == pid and k.get("status") == "known"]
    fam_reports = []
    evaluations = 0
    nontrivial = 0
    samples = []
    dist = {}
    tie_failures = []   # (fam, cid, tags)
    known_hits = {}
    skipped = 0
    tier_eff = tier
    judge = {"engine": "EngineCheck", "fe": "EngineCheck", "modes": "EngineCheck", "builder": "EngineCheck", "purity": "EngineCheck",
             "preds": "SatCheck", "numeric": "SatCheck", "http": "SatCheck", "helpers": "SatCheck2", "messages": "SatCheck3",
             "pools": "EngineCheck", "dyn": "SatCheck4", "history": "EngineCheck", "race": "EngineCheck"}
    if okh:
        for fam in cfg["families"]:
            if not os.path.exists(os.path.join(COQ, "Corr", judge.get(fam["family"], "EngineCheck") + ".vo")):
                proof_broken.append("the judge of family %s does not compile; its cases cannot be evaluated" % fam["name"])
                continue
            r = run_family(pid, fam, tier_eff, seed)
            fam_reports.append(r)
            meta = r["meta"]
            evaluations += meta.get("cases", 0)
            nontrivial += meta.get("distinct_nontrivial", 0)
            samples += [s[:1500] if isinstance(s, str) else s for s in meta.get("samples", [])[:2]]
            dist[fam["name"]] = {k: v for k, v in meta.items() if k not in ("samples", "files", "failures")}
            for e in r["errors"]:
                proof_broken.append("correspondence could not be evaluated (%s): %s" % (fam["name"], e[:600]))
            for cid, (kind, val) in sorted(r["results"].items()):
                if kind == "skip":
                    skipped += 1
                    continue
                rel = [t for t in val if t in fam["tags"]]
                if not rel:
                    continue
                kf = [k for k in known if set(rel) <= set(k.get("tags", []))]
                if kf:
                    known_hits.setdefault(kf[0]["id"], []).append((fam["name"], cid))
                    continue
                tie_failures.append((fam, cid, rel, r.get("details", {}).get(cid, "")))
    # ---- decision ----------------------------------------------------------------------------
    for k in known:
        # a listed finding is reported on every run (it is a property of the unchanged tree)
        lines.append("KNOWN-FINDING: property=%s %s (%s)%s" % (pid, k["id"], k["what"],
                     " [reproduced on %d case(s) this run]" % len(known_hits[k["id"]]) if k["id"] in known_hits else ""))
    if tie_failures:
        for fam, cid, rel, detail in tie_failures[:3]:
            path = write_replay(pid, fam, seed, tier_eff, cid, rel, detail)
            lines.append("VIOLATION property=%s replay=%s" % (pid, path))
            violations += 1
        if len(tie_failures) > 3:
            notes.append("%d further failing cases not written out" % (len(tie_failures) - 3))
        violations = len(tie_failures)
    elif proof_broken:
        # the property is no longer shown to hold; the tie found no failing input
        os.makedirs(os.path.join(WORK, pid), exist_ok=True)
        path = os.path.join(WORK, pid, "replay_proof_obligation.json")
        json.dump(dict(property=pid, no_longer_checks=proof_broken, searched=dict(evaluations=evaluations, tier=tier_eff, seed=seed),
                       note="no input was found on which the implementation violates the property; the theorem or correspondence named above no longer checks"),
                  open(path, "w"), indent=1)
        lines.append("VIOLATION property=%s replay=%s no-failing-input-found" % (pid, path))
        violations = 1
    # ---- evidence ----------------------------------------------------------------------------
    ev = dict(property_id=pid, tier=tier, seed=seed, level="proof", wall_s=round(time.time() - t0, 1), violations=violations,
              coverage=dict(
                  obligations=max(obligations, 1), discharged=discharged,
                  checker_cmd="cd /verif/coq && coq_makefile -f _CoqProject -o Makefile && make -j16  (coqc 8.16.1, full .vo build) ; coqc Properties/%s.v (Print Assumptions)%s" % (pid, " ; coqchk -silent -o -Q . Zog Zog.Properties.%s" % pid if chk else ""),
                  trusted_base=props.TRUSTED_BASE + cfg.get("trusted", []),
                  theorems=asm["theorems"] if asm else cfg["theorems"],
                  print_assumptions=dict(closed_under_global_context=asm["closed"] if asm else 0, axioms=asm["axioms"] if asm else []),
                  supporting_lemmas_qed=n_support,
                  coqchk=(chk["summary"] if chk else "not run (thorough tier only): coqchk -silent -o -Q . Zog Zog.Properties.%s" % pid),
                  evaluations=evaluations, distinct_nontrivial=nontrivial,
                  rule=cfg.get("rule", ""), samples=samples or ["(no correspondence case was produced)"],
                  correspondence=dist, skipped_outside_model=skipped,
                  known_findings_reproduced={k: len(v) for k, v in known_hits.items()},
                  proof_obligations_broken=proof_broken, notes=notes, exhaustive=False),
              assumptions=cfg.get("assumptions", []))
    # (self-tests on deliberately broken trees keep their evidence apart: VERIF_EVIDENCE_DIR)
    evdir = os.environ.get("VERIF_EVIDENCE_DIR") or os.path.join(VERIF, "evidence")
    os.makedirs(evdir, exist_ok=True)
    json.dump(ev, open(os.path.join(evdir, pid + ".json"), "w"), indent=1)
    for l in lines:
        print(l)
    print("%s tier=%s seed=%d theorems=%d/%d evaluations=%d violations=%d wall=%.0fs" % (pid, tier, seed, discharged, obligations, evaluations, violations, time.time() - t0))
    return 1 if violations else 0


def replay(pid, path):
    rep = json.load(open(path))
    if "case_id" not in rep:
        print("replay names a proof obligation, re-running the whole check")
        return decide(pid, rep.get("searched", {}).get("tier", "quick"), rep.get("searched", {}).get("seed", 1))
    okh, outh = build_harness()
    okc, outc = build_coq()
    if not (okh and okc):
        print("build failed", (outh + outc)[-2000:])
        return 1
    fam = [f for f in props.PROPS[pid]["families"] if f["name"] == rep["family_name"]][0]
    r = run_family(pid, fam, rep["tier"], rep["seed"], ids=[rep["case_id"]], outdir=os.path.join(WORK, pid, "replay.d"))
    v = r["results"].get(rep["case_id"])
    print(r.get("explain", "")[-6000:])
    if v and v[0] == "fail" and [t for t in v[1] if t in fam["tags"]]:
        print("VIOLATION property=%s replay=%s" % (pid, path))
        return 1
    print("case %s no longer fails" % rep["case_id"])
    return 0


def main(argv):
    ap = argparse.ArgumentParser()
    ap.add_argument("pid")
    ap.add_argument("--tier", default=os.environ.get("VERIF_TIER", "quick"))
    ap.add_argument("--replay")
    a = ap.parse_args(argv)
    seed = int(os.environ.get("VERIF_SEED", "1") or 1)
    if a.pid not in props.PROPS:
        print("unknown property", a.pid)
        return 2
    if a.replay:
        return replay(a.pid, a.replay)
    return decide(a.pid, a.tier if a.tier in ("quick", "thorough") else "quick", seed)
