From Coq Require Import String List ZArith Lia Bool Ascii Permutation.
From T Require Import Mini2 Mini2Proofs.
Import ListNotations.
Open Scope string_scope.

Lemma dlookup_dset_other k k' v dfs : k <> k' -> dlookup k (dset k' v dfs) = dlookup k dfs.
Proof.
  intros Hne. unfold dlookup. induction dfs as [|[k0 v0] r IH]; cbn [dset find]; [reflexivity|].
  destruct (String.eqb k' k0) eqn:E0; cbn [find fst snd].
  - apply String.eqb_eq in E0. subst k0.
    destruct (String.eqb k' k) eqn:E1; [apply String.eqb_eq in E1; congruence|]. reflexivity.
  - destruct (String.eqb k0 k); [reflexivity|exact IH].
Qed.

Ltac eqb_cases := repeat match goal with
  | |- context [String.eqb ?a ?b] => destruct (String.eqb_spec a b); subst; try congruence; cbn [dset]
  end.
Lemma dset_comm k1 k2 v1 v2 dfs : k1 <> k2 -> dset k1 v1 (dset k2 v2 dfs) = dset k2 v2 (dset k1 v1 dfs).
Proof.
  intros Hne. induction dfs as [|[k0 v0] r IH]; cbn [dset]; [reflexivity|].
  eqb_cases; try reflexivity; try (now rewrite IH).
Qed.

(* spec of a struct's field loop is invariant under permutation of the visit order *)
Lemma sem_fields_perm m : forall l l', Permutation l l' -> NoDup (map fst l) ->
  forall dfs, Permutation (fst (sem_fields sem m l dfs)) (fst (sem_fields sem m l' dfs))
              /\ snd (sem_fields sem m l dfs) = snd (sem_fields sem m l' dfs).
Proof.
  induction 1 as [| [k c] l l' HP IH | [k1 c1] [k2 c2] l | l l' l'' HP1 IH1 HP2 IH2]; intros ND dfs.
  - split; [apply Permutation_refl|reflexivity].
  - cbn [sem_fields]. inversion ND; subst.
    destruct (sem c (lookup k m) (dlookup k dfs)) as [ik dk].
    destruct (IH H2 (dset k dk dfs)) as [P1 E1].
    destruct (sem_fields sem m l (dset k dk dfs)) as [ir dr], (sem_fields sem m l' (dset k dk dfs)) as [ir' dr'].
    cbn [fst snd] in *. split; [now apply Permutation_app_head | assumption].
  - cbn [sem_fields map fst] in *.
    assert (Hne : k1 <> k2) by (inversion ND as [|? ? Hin _]; subst; intros ->; apply Hin; now left).
    destruct (sem c2 (lookup k2 m) (dlookup k2 dfs)) as [i2 d2] eqn:S2.
    destruct (sem c1 (lookup k1 m) (dlookup k1 dfs)) as [i1 d1] eqn:S1.
    rewrite (dlookup_dset_other k1 k2) by congruence.
    rewrite (dlookup_dset_other k2 k1) by congruence.
    rewrite S1, S2.
    rewrite (dset_comm k1 k2 d1 d2) by assumption.
    destruct (sem_fields sem m l (dset k2 d2 (dset k1 d1 dfs))) as [ir dr]. cbn [fst snd].
    split; [|reflexivity]. rewrite !app_assoc. apply Permutation_app_tail, Permutation_app_comm.
  - destruct (IH1 ND dfs) as [P1 E1].
    assert (ND' : NoDup (map fst l')) by (eapply Permutation_NoDup; [apply Permutation_map; eassumption|assumption]).
    destruct (IH2 ND' dfs) as [P2 E2]. split; [eapply Permutation_trans; eassumption | congruence].
Qed.

(* C09 core on the mini engine: any two visit orders of a struct give the same destination and a
   permutation of the same issues *)
Theorem engine_order_independent fs fs' nt data d x f1 d1 x1 f2 d2 x2 :
  Permutation fs fs' -> NoDup (map fst fs) ->
  proc (SS fs nt) fl0 data d x = (f1, d1, x1) ->
  proc (SS fs' nt) fl0 data d x = (f2, d2, x2) ->
  d1 = d2 /\ exists i1 i2, errs x1 = (errs x ++ i1)%list /\ errs x2 = (errs x ++ i2)%list /\ Permutation i1 i2.
Proof.
  intros HP ND H1 H2.
  destruct (proc_refines_sem _ _ _ _ _ _ _ _ H1 eq_refl eq_refl) as (_ & E1 & D1).
  destruct (proc_refines_sem _ _ _ _ _ _ _ _ H2 eq_refl eq_refl) as (_ & E2 & D2).
  cbn [sem] in *.
  set (m := match data with VMap m => m | _ => [] end) in *.
  set (dfs0 := match d with DStruct l => l | _ => [] end) in *.
  destruct (sem_fields_perm m fs fs' HP ND dfs0) as [P E].
  destruct (sem_fields sem m fs dfs0) as [ia da], (sem_fields sem m fs' dfs0) as [ib db]. cbn [fst snd] in *.
  subst. split; [reflexivity|].
  do 2 eexists. split; [eassumption|]. split; [eassumption|].
  unfold abs. apply Permutation_map. now apply Permutation_app_tail.
Qed.
Print Assumptions engine_order_independent.
