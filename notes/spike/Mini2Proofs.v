From Coq Require Import String List ZArith Lia Bool Ascii.
From T Require Import Mini2.
Import ListNotations.
Open Scope string_scope.

Lemma abs_app b l1 l2 : abs b (l1 ++ l2) = (abs b l1 ++ abs b l2)%list.
Proof. unfold abs. apply map_app. Qed.

Lemma abs_under b k l : abs (k :: b) l = abs b (under k l).
Proof.
  unfold abs, under. rewrite map_map. apply map_ext. intros i. cbn [r_path r_code rev].
  now rewrite <- app_assoc.
Qed.

Lemma abs_here b c : abs b [here c] = [{| i_path := render b; i_code := c |}].
Proof. unfold abs, here, render. cbn. now rewrite app_nil_r. Qed.

(* tests without catch: every test runs, each failure appends one issue *)
Lemma run_tests_nocatch ts : forall f z x, cc f = false -> ex f = false ->
  run_tests ts None f z x = (f, z, {| errs := (errs x ++ abs (path x) (failing ts z))%list; path := path x |}).
Proof.
  induction ts as [|t ts IH]; intros [c e] z x Hc He; cbn [cc ex] in Hc, He; subst c e; cbn [run_tests].
  - unfold failing. cbn. rewrite app_nil_r. now destruct x.
  - unfold failing. cbn [filter]. destruct (tok t z) eqn:Ht; cbn [negb].
    + cbn [ex cc andb]. rewrite IH by reflexivity. reflexivity.
    + unfold add. cbn [cc ex andb]. rewrite IH by reflexivity. cbn [errs path map].
      change (here (tcode t) :: ?l) with ([here (tcode t)] ++ l)%list.
      rewrite abs_app, abs_here, <- app_assoc. reflexivity.
Qed.

(* tests with catch: no issue ever; value is z iff all pass *)
Lemma run_tests_catch ts cv : forall f z x, cc f = true -> ex f = false ->
  exists f', run_tests ts (Some cv) f z x = (f', (if forallb (fun t => tok t z) ts then z else cv), x).
Proof.
  induction ts as [|t ts IH]; intros [c e] z x Hc He; cbn [cc ex] in Hc, He; subst c e; cbn [run_tests forallb].
  - eauto.
  - destruct (tok t z) eqn:Ht; cbn [andb ex cc].
    + apply IH; reflexivity.
    + unfold add. cbn [ex cc andb]. eauto.
Qed.

Lemma proc_prim_refines p f data d x f' d' x' :
  proc_prim p f data d x = (f', d', x') -> ex f = false ->
  path x' = path x /\ errs x' = (errs x ++ abs (path x) (fst (sem_prim p data d)))%list /\ d' = snd (sem_prim p data d).
Proof.
  intros H He. unfold proc_prim, sem_prim, sem_tests in *.
  assert (Hnil : forall (y : st), errs y = (errs y ++ abs (path y) [])%list) by (intros; cbn; now rewrite app_nil_r).
  destruct data as [|z|s|l|m].
  - destruct (p_def p) as [dv|].
    + destruct (p_catch p) as [cv|] eqn:Hcatch.
      * destruct (run_tests_catch (p_tests p) cv {| cc := true; ex := ex f |} dv x eq_refl He) as [f1 E].
        rewrite E in H. inversion H; subst. cbn [fst snd]. auto.
      * rewrite run_tests_nocatch in H by (cbn; auto). inversion H; subst. cbn [fst snd errs path]. auto.
    + destruct (p_req p).
      * destruct (p_catch p) as [cv|]; cbn [add cc] in H.
        -- inversion H; subst. cbn [fst snd]. auto.
        -- unfold add in H. cbn [cc] in H. inversion H; subst. cbn [fst snd errs path]. rewrite abs_here. auto.
      * inversion H; subst. cbn [fst snd]. auto.
  - destruct (p_catch p) as [cv|] eqn:Hcatch.
    + destruct (run_tests_catch (p_tests p) cv {| cc := true; ex := ex f |} z x eq_refl He) as [f1 E].
      rewrite E in H. inversion H; subst. cbn [fst snd]. auto.
    + rewrite run_tests_nocatch in H by (cbn; auto). inversion H; subst. cbn [fst snd errs path]. auto.
  - destruct (p_catch p) as [cv|].
    + inversion H; subst; cbn [fst snd]; auto.
    + unfold add in H; cbn [cc] in H; inversion H; subst; cbn [fst snd errs path]; rewrite abs_here; auto.
  - destruct (p_catch p) as [cv|].
    + inversion H; subst; cbn [fst snd]; auto.
    + unfold add in H; cbn [cc] in H; inversion H; subst; cbn [fst snd errs path]; rewrite abs_here; auto.
  - destruct (p_catch p) as [cv|].
    + inversion H; subst; cbn [fst snd]; auto.
    + unfold add in H; cbn [cc] in H; inversion H; subst; cbn [fst snd errs path]; rewrite abs_here; auto.
Qed.

(* nested induction principle for sch *)
Section SchInd.
  Variable P : sch -> Prop.
  Hypothesis HP : forall p, P (SP p).
  Hypothesis HS : forall fs nt, Forall (fun kc => P (snd kc)) fs -> P (SS fs nt).
  Hypothesis HL : forall e ml, P e -> P (SL e ml).
  Fixpoint sch_ind' (s : sch) : P s :=
    match s with
    | SP p => HP p
    | SS fs nt => HS fs nt ((fix go (l : list (string * sch)) : Forall (fun kc => P (snd kc)) l :=
                     match l with [] => Forall_nil _ | kc :: r => Forall_cons kc (sch_ind' (snd kc)) (go r) end) fs)
    | SL e ml => HL e ml (sch_ind' e)
    end.
End SchInd.

Definition refines (s : sch) : Prop := forall f data d x f' d' x',
  proc s f data d x = (f', d', x') -> cc f = false -> ex f = false ->
  path x' = path x /\ errs x' = (errs x ++ abs (path x) (fst (sem s data d)))%list /\ d' = snd (sem s data d).

Lemma fields_refine m : forall l, Forall (fun kc => refines (snd kc)) l -> forall sub dfs y dfs' y',
  fields_loop proc m l sub dfs y = (dfs', y') ->
  path y' = path y /\ errs y' = (errs y ++ abs (path y) (fst (sem_fields sem m l dfs)))%list /\ dfs' = snd (sem_fields sem m l dfs).
Proof.
  induction l as [|[k c] r IHr]; intros HF sub dfs y dfs' y' E; cbn [fields_loop sem_fields] in E |- *.
  - inversion E; subst. cbn. now rewrite app_nil_r.
  - inversion HF as [|? ? Hk Hr]; subst. cbn [snd] in Hk.
    destruct (proc c {| cc := false; ex := false |} (lookup k m) (dlookup k dfs) (push k y)) as [[sub1 dk] y1] eqn:Ek.
    destruct (Hk _ _ _ _ _ _ _ Ek eq_refl eq_refl) as (Hp & Herr & Hd).
    destruct (sem c (lookup k m) (dlookup k dfs)) as [ik dk0] eqn:Es. cbn [fst snd] in *. subst dk.
    destruct (sem_fields sem m r (dset k dk0 dfs)) as [ir dr] eqn:Er.
    destruct (IHr Hr _ _ _ _ _ E) as (Hp2 & Herr2 & Hd2). rewrite Er in *. cbn [fst snd] in *.
    unfold pop, push in *. cbn [path errs] in *. rewrite Hp in *. cbn [tl] in *.
    split; [assumption|]. split; [|assumption].
    rewrite Herr2, Herr, abs_app, <- abs_under, <- app_assoc. reflexivity.
Qed.

Lemma elems_refine e : refines e -> forall l sub ds y i ds' y',
  elems_loop (proc e) l sub ds y i = (ds', y') ->
  path y' = path y /\ errs y' = (errs y ++ abs (path y) (fst (sem_elems (sem e) l i ds)))%list /\ ds' = snd (sem_elems (sem e) l i ds).
Proof.
  intros IH. induction l as [|v r IHr]; intros sub ds y i ds' y' E; cbn [elems_loop sem_elems] in E |- *.
  - inversion E; subst. cbn. now rewrite app_nil_r.
  - destruct (proc e {| cc := false; ex := false |} v (DInt 0) (push (idx i) y)) as [[sub1 dk] y1] eqn:Ek.
    destruct (IH _ _ _ _ _ _ _ Ek eq_refl eq_refl) as (Hp & Herr & Hd).
    destruct (sem e v (DInt 0)) as [ik dk0] eqn:Es. cbn [fst snd] in *. subst dk.
    destruct (sem_elems (sem e) r (S i) (ds ++ [dk0])%list) as [ir dr] eqn:Er.
    destruct (IHr _ _ _ _ _ _ E) as (Hp2 & Herr2 & Hd2). rewrite Er in *. cbn [fst snd] in *.
    unfold pop, push in *. cbn [path errs] in *. rewrite Hp in *. cbn [tl] in *.
    split; [assumption|]. split; [|assumption].
    rewrite Herr2, Herr, abs_app, <- abs_under, <- app_assoc. reflexivity.
Qed.

Theorem proc_refines_sem : forall s, refines s.
Proof.
  induction s as [p | fs nt IH | e ml IH] using sch_ind'; unfold refines; intros f data d x f' d' x' H Hc He.
  - cbn [proc sem] in *. eapply proc_prim_refines; eauto.
  - cbn [proc sem] in H |- *.
    set (m := match data with VMap m => m | _ => [] end) in *.
    set (dfs0 := match d with DStruct l => l | _ => [] end) in *.
    destruct (fields_loop proc m fs fl0 dfs0 x) as [dfs' y'] eqn:E.
    destruct (fields_refine m fs IH _ _ _ _ _ E) as (Hp & Herr & Hd).
    destruct (sem_fields sem m fs dfs0) as [iss dS] eqn:ES. cbn [fst snd] in *. subst dfs'.
    destruct nt.
    + unfold add in H. rewrite Hc in H. inversion H; subst. cbn [errs path fst snd].
      rewrite Hp, Herr, abs_app, abs_here, <- app_assoc. auto.
    + inversion H; subst. cbn [fst snd]. rewrite app_nil_r. auto.
  - cbn [proc sem] in H |- *.
    destruct data as [| | |l|]; try (inversion H; subst; cbn; rewrite app_nil_r; now auto).
    destruct (elems_loop (proc e) l fl0 [] x 0) as [ds y'] eqn:E.
    destruct (elems_refine e IH _ _ _ _ _ _ _ E) as (Hp & Herr & Hd).
    destruct (sem_elems (sem e) l 0 []) as [iss dS] eqn:ES. cbn [fst snd] in *. subst ds.
    destruct ml as [n|].
    + destruct (Nat.leb n (length l)).
      * inversion H; subst. cbn [fst snd]. rewrite app_nil_r. auto.
      * unfold add in H. rewrite Hc in H. inversion H; subst. cbn [errs path fst snd].
        rewrite Hp, Herr, abs_app, abs_here, <- app_assoc. auto.
    + inversion H; subst. cbn [fst snd]. rewrite app_nil_r. auto.
Qed.


