From Coq Require Import String List ZArith Lia Bool Ascii.
Import ListNotations.
Open Scope string_scope.

Inductive val := VNil | VInt (z : Z) | VStr (s : string) | VList (l : list val) | VMap (m : list (string * val)).
Inductive tst := TGt (n : Z) | TLt (n : Z).
Record prim := { p_req : bool; p_def : option Z; p_catch : option Z; p_tests : list tst }.
Inductive sch := SP (p : prim) | SS (fs : list (string * sch)) (nt : bool) | SL (e : sch) (minlen : option nat).
Inductive dst := DInt (z : Z) | DStruct (fs : list (string * dst)) | DSlice (l : list dst).
Record issue := { i_path : string; i_code : string }.
Record st := { errs : list issue; path : list string }.
Record fl := { cc : bool; ex : bool }.
Definition fl0 := {| cc := false; ex := false |}.

Definition render (p : list string) : string := String.concat "." (rev p).
Definition add (f : fl) (x : st) (c : string) : fl * st :=
  if cc f then ({| cc := true; ex := true |}, x)
  else (f, {| errs := (errs x ++ [{| i_path := render (path x); i_code := c |}])%list; path := path x |}).
Definition tcode t := match t with TGt _ => "gt" | TLt _ => "lt" end.
Definition tok t z := match t with TGt n => Z.gtb z n | TLt n => Z.ltb z n end.

Fixpoint run_tests (ts : list tst) (c : option Z) (f : fl) (z : Z) (x : st) : fl * Z * st :=
  match ts with
  | [] => (f, z, x)
  | t :: r =>
     let '(f1, x1) := if tok t z then (f, x) else add f x (tcode t) in
     if ex f1 && cc f1 then (f1, match c with Some cv => cv | None => z end, x1)
     else run_tests r c f1 z x1
  end.

Definition lookup (k : string) (m : list (string * val)) : val :=
  match find (fun kv => String.eqb (fst kv) k) m with Some kv => snd kv | None => VNil end.
Definition dlookup (k : string) (m : list (string * dst)) : dst :=
  match find (fun kv => String.eqb (fst kv) k) m with Some kv => snd kv | None => DInt 0 end.
Fixpoint dset (k : string) (v : dst) (m : list (string * dst)) :=
  match m with [] => [] | (k', v') :: r => if String.eqb k k' then (k, v) :: r else (k', v') :: dset k v r end.

Definition proc_prim (p : prim) (f : fl) (data : val) (d : dst) (x : st) : fl * dst * st :=
  let f0 := {| cc := match p_catch p with Some _ => true | None => false end; ex := ex f |} in
  match data with
  | VNil =>
     match p_def p with
     | Some dv => let '(f1, z, x1) := run_tests (p_tests p) (p_catch p) f0 dv x in (f1, DInt z, x1)
     | None => if p_req p then
                  match p_catch p with Some cv => (f0, DInt cv, x)
                  | None => let '(f1, x1) := add f0 x "required" in (f1, d, x1) end
               else (f0, d, x)
     end
  | VInt z => let '(f1, z', x1) := run_tests (p_tests p) (p_catch p) f0 z x in (f1, DInt z', x1)
  | _ => match p_catch p with Some cv => (f0, DInt cv, x) | None => let '(f1, x1) := add f0 x "coerce" in (f1, d, x1) end
  end.

Definition push k (x : st) := {| errs := errs x; path := k :: path x |}.
Definition pop (x : st) := {| errs := errs x; path := tl (path x) |}.
Definition idx (i : nat) : string := "[" ++ String (ascii_of_nat (48 + i)) EmptyString ++ "]".

Section Loops.
  Variable rec : fl -> val -> dst -> st -> fl * dst * st.
  Fixpoint elems_loop (l : list val) (sub : fl) (ds : list dst) (x : st) (i : nat) : list dst * st :=
    match l with
    | [] => (ds, x)
    | v :: r =>
       let '(sub1, dk, x1) := rec {| cc := false; ex := false |} v (DInt 0) (push (idx i) x) in
       elems_loop r sub1 (ds ++ [dk])%list (pop x1) (S i)
    end.
End Loops.
Section FLoop.
  Variable rec : sch -> fl -> val -> dst -> st -> fl * dst * st.
  Variable m : list (string * val).
  Fixpoint fields_loop (l : list (string * sch)) (sub : fl) (dfs : list (string * dst)) (x : st) : list (string * dst) * st :=
    match l with
    | [] => (dfs, x)
    | (k, c) :: r =>
       let '(sub1, dk, x1) := rec c {| cc := false; ex := false |} (lookup k m) (dlookup k dfs) (push k x) in
       fields_loop r sub1 (dset k dk dfs) (pop x1)
    end.
End FLoop.

Fixpoint proc (s : sch) (f : fl) (data : val) (d : dst) (x : st) {struct s} : fl * dst * st :=
  match s with
  | SP p => proc_prim p f data d x
  | SS fs nt =>
     let m := match data with VMap m => m | _ => [] end in
     let dfs := match d with DStruct l => l | _ => [] end in
     let '(dfs', x') := fields_loop proc m fs fl0 dfs x in
     let '(f1, x1) := if nt then add f x' "custom" else (f, x') in
     (f1, DStruct dfs', x1)
  | SL e ml =>
     match data with
     | VList l =>
        let '(ds, x') := elems_loop (proc e) l fl0 [] x 0 in
        let '(f1, x1) := match ml with Some n => if Nat.leb n (length l) then (f, x') else add f x' "min" | None => (f, x') end in
        (f1, DSlice ds, x1)
     | _ => (f, d, x)
     end
  end.

(* ---------- L0 spec: no flags, no state ---------- *)
Record rissue := { r_path : list string; r_code : string }.
Definition under (k : string) (l : list rissue) := map (fun i => {| r_path := k :: r_path i; r_code := r_code i |}) l.
Definition here c := {| r_path := []; r_code := c |}.

Definition failing (ts : list tst) (z : Z) : list rissue :=
  map (fun t => here (tcode t)) (filter (fun t => negb (tok t z)) ts).
Definition sem_tests (p : prim) (z : Z) : list rissue * dst :=
  match p_catch p with
  | Some cv => ([], DInt (if forallb (fun t => tok t z) (p_tests p) then z else cv))
  | None => (failing (p_tests p) z, DInt z)
  end.
Definition sem_prim (p : prim) (data : val) (d : dst) : list rissue * dst :=
  match data with
  | VNil => match p_def p with
            | Some dv => sem_tests p dv
            | None => if p_req p then match p_catch p with Some cv => ([], DInt cv) | None => ([here "required"], d) end
                      else ([], d) end
  | VInt z => sem_tests p z
  | _ => match p_catch p with Some cv => ([], DInt cv) | None => ([here "coerce"], d) end
  end.

Section SLoops.
  Variable srec : val -> dst -> list rissue * dst.
  Fixpoint sem_elems (l : list val) (i : nat) (ds : list dst) : list rissue * list dst :=
    match l with
    | [] => ([], ds)
    | v :: r => let '(ik, dk) := srec v (DInt 0) in
                let '(ir, dr) := sem_elems r (S i) (ds ++ [dk])%list in
                ((under (idx i) ik ++ ir)%list, dr)
    end.
End SLoops.
Section SFLoop.
  Variable srec : sch -> val -> dst -> list rissue * dst.
  Variable m : list (string * val).
  Fixpoint sem_fields (l : list (string * sch)) (dfs : list (string * dst)) : list rissue * list (string * dst) :=
    match l with
    | [] => ([], dfs)
    | (k, c) :: r =>
       let '(ik, dk) := srec c (lookup k m) (dlookup k dfs) in
       let '(ir, dr) := sem_fields r (dset k dk dfs) in
       ((under k ik ++ ir)%list, dr)
    end.
End SFLoop.

Fixpoint sem (s : sch) (data : val) (d : dst) {struct s} : list rissue * dst :=
  match s with
  | SP p => sem_prim p data d
  | SS fs nt =>
     let m := match data with VMap m => m | _ => [] end in
     let dfs := match d with DStruct l => l | _ => [] end in
     let '(iss, dfs') := sem_fields sem m fs dfs in
     ((iss ++ (if nt then [here "custom"] else []))%list, DStruct dfs')
  | SL e ml =>
     match data with
     | VList l =>
        let '(iss, ds) := sem_elems (sem e) l 0 [] in
        ((iss ++ match ml with Some n => if Nat.leb n (length l) then [] else [here "min"] | None => [] end)%list, DSlice ds)
     | _ => ([], d)
     end
  end.

Definition abs (base : list string) (l : list rissue) : list issue :=
  map (fun i => {| i_path := String.concat "." (rev base ++ r_path i); i_code := r_code i |}) l.
