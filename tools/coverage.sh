#!/bin/bash
# coverage.sh [n]: which statements of /repo's non-test source do the correspondence families reach?
# Builds the harness with Go's coverage instrumentation over github.com/Oudwins/zog/... (scratch
# binaries under work/cover, nothing registered in MANIFEST.json uses them), runs every family/profile
# the checks use once with n cases (default 600), and prints the statements no family reached.
# A measurement of the tie's generators, not a check: the list tells where the model is not yet
# compared with the code.  Output: work/cover/uncovered.txt, summary on stdout.
cd "$(dirname "$0")/.."
N=${1:-600}
export GOFLAGS=-mod=mod GOPROXY=off GOSUMDB=off GOTOOLCHAIN=local
W=$PWD/work/cover
rm -rf $W; mkdir -p $W/bin $W/data $W/out
cp /repo/go.sum harness/go.sum 2>/dev/null
(cd harness && go build -cover -coverpkg=./...,github.com/Oudwins/zog/... -o $W/bin/ ./cmd/zogcorr) || exit 2
export GOCOVERDIR=$W/data
run() { (cd harness && timeout 900 $W/bin/zogcorr -family $1 -profile $2 -n $N -seed ${VERIF_SEED:-1} -out $W/out/$1-$2 -shard 100000 >/dev/null 2>&1); }
for fp in "builder default" "dyn default" "engine C01" "engine C01d" "engine C01s" "engine C02" "engine C03" "engine C04" \
          "engine C05" "engine C06" "engine C09" "engine C10" "engine C11" "engine C12" "engine C17c" "fe fe" "helpers default" \
          "history C07" "http default" "messages default" "modes C13" "numeric default" "preds default" "purity C19"; do
  run $fp &
done
wait
go tool covdata textfmt -i=$W/data -o $W/profile.txt
python3 - $W/profile.txt > $W/uncovered.txt <<'PY'
import sys, collections
cov = collections.defaultdict(int); stm = {}
for l in open(sys.argv[1]):
    if l.startswith("mode:") or not l.startswith("github.com/Oudwins"): continue
    loc, n, c = l.rsplit(" ", 2)
    cov[loc] += int(c); stm[loc] = int(n)
byfile = collections.defaultdict(list); tot = hit = 0
for loc, c in cov.items():
    f, rng = loc.split(":")
    tot += stm[loc]; hit += stm[loc] if c else 0
    if not c: byfile[f].append(rng)
print("statements %d reached %d (%.1f%%)" % (tot, hit, 100.0 * hit / tot))
for f in sorted(byfile):
    print(f)
    for r in sorted(byfile[f], key=lambda r: [int(x) for x in r.replace(",", ".").split(".")]):
        print("   ", r)
PY
head -1 $W/uncovered.txt
rm -rf $W/out $W/data $W/bin
