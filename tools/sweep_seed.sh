#!/bin/bash
# sweep_seed.sh <seed>: tools/sweep.sh under another VERIF_SEED (robustness of the detections)
export VERIF_SEED=$1
exec "$(dirname "$0")/sweep.sh"
