#!/bin/bash
# seedrun.sh <seed dir name, e.g. C05a> <check ids...>: apply the seeded change to the repository under
# check (/repo, or $VERIF_REPO / $VP_RUN_REPO for a snapshot), run the checks, undo.
S=$1; shift
cd "$(dirname "$0")/.."
R=${VERIF_REPO:-${VP_RUN_REPO:-/repo}}
export VERIF_REPO=$R
export VERIF_EVIDENCE_DIR=$PWD/work/seeded-evidence
git -C $R diff --quiet || { echo "$R is dirty"; exit 2; }
git -C $R apply $PWD/seeded/$S/patch.diff || { echo "[$S] patch does not apply"; exit 2; }
trap "git -C $R checkout -- . ; git -C $R clean -fdq" EXIT INT TERM
for c in "$@"; do
  out=$(./check $c 2>&1); rc=$?
  echo "[$S] check $c rc=$rc $(echo "$out" | grep -c '^VIOLATION') violation line(s): $(echo "$out" | grep '^VIOLATION' | head -1)"
done
git -C $R checkout -- . ; git -C $R clean -fdq 2>/dev/null
