#!/bin/bash
# seedrun.sh <seed dir name, e.g. C05a> <check ids...>: apply the seeded change to /repo, run the checks, undo.
S=$1; shift
cd /verif
git -C /repo diff --quiet || { echo "/repo is dirty"; exit 2; }
git -C /repo apply /verif/seeded/$S/patch.diff || exit 2
trap "git -C /repo checkout -- . ; git -C /repo clean -fdq" EXIT INT TERM
for c in "$@"; do
  out=$(./check $c 2>&1); rc=$?
  echo "[$S] check $c rc=$rc $(echo "$out" | grep -c '^VIOLATION') violation line(s): $(echo "$out" | grep '^VIOLATION' | head -1)"
done
git -C /repo checkout -- . ; git -C /repo clean -fdq 2>/dev/null
