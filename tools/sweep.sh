#!/bin/bash
# sweep.sh: every seeded change against its own property's check. Output: one line per seed.
# (seeds whose meta.json says "retired" are no longer breaking changes — a later /repo repair made the
# library immune to them — and are skipped)
cd "$(dirname "$0")/.."
[ -n "$VP_RUN_REPO" ] && export VERIF_REPO=$VP_RUN_REPO
./setup.sh >/dev/null 2>&1
for d in seeded/*/; do
  s=$(basename $d); p=${s:0:3}
  if grep -q '"retired"' $d/meta.json 2>/dev/null; then echo "[$s] retired (skipped)"; continue; fi
  timeout 1200 tools/seedrun.sh $s $p 2>&1 | grep "^\["
done
