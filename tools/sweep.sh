#!/bin/bash
# sweep.sh: every seeded change against its own property's check. Output: one line per seed.
cd "$(dirname "$0")/.."
[ -n "$VP_RUN_REPO" ] && export VERIF_REPO=$VP_RUN_REPO
./setup.sh >/dev/null 2>&1
for d in seeded/*/; do s=$(basename $d); p=${s:0:3}; timeout 1200 tools/seedrun.sh $s $p 2>&1 | grep "^\[" ; done
