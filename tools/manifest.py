#!/usr/bin/env python3
"""Regenerates MANIFEST.json's checks / not_applicable lists from lib/props.py."""
import json, sys, os
V = os.path.dirname(os.path.dirname(os.path.abspath(__file__)))
sys.path.insert(0, os.path.join(V, "lib"))
import props
ids = [json.loads(l)["id"] for l in open(os.path.join(V, "properties.jsonl"))]
m = json.load(open(os.path.join(V, "MANIFEST.json")))
checks = []
for i in ids:
    if i in props.PROPS:
        cfg = props.PROPS[i]
        checks.append(dict(property_id=i, quick_cmd="./check %s --tier quick" % i, thorough_cmd="./check %s --tier thorough" % i,
                           evidence_file="/verif/evidence/%s.json" % i, replay_cmd_template="./check %s --replay {path}" % i,
                           engine="coq-model+correspondence",
                           level_claimed=dict(category="proof", text=cfg.get("level_text", "Coq theorems about the hand-written model (for all inputs, depths, orders, histories the property quantifies over), the model tied to /repo on every run by a differential correspondence check whose verdicts are computed inside Coq"), design_ref="DESIGN.md section 4 (" + i + ", as designed) and section 11.2 (as built)"),
                           level_note=cfg.get("level_note", "trusted: Coq 8.16.1 kernel incl. vm_compute; the Go harness and Python driver; bounded correspondence (sizes and distributions in the evidence); Go runtime and the stdlib functions used as oracles"),
                           technique=cfg.get("technique", "machine-checked proof in Coq 8.16 (theorems: %s) + model/implementation correspondence" % ", ".join(cfg["theorems"][:3]))))
m["checks"] = checks
m["not_applicable"] = [dict(property_id=i, reason="check under construction in this round (not a claim that the technique cannot apply)") for i in ids if i not in props.PROPS]
m["engines"] = [dict(name="coq-model+correspondence", path="/verif/coq, /verif/harness, /verif/lib", serves_properties=[i for i in ids if i in props.PROPS],
                     kind_free_text="Coq 8.16 development (model, spec, proofs, property theorems) + Go differential harness emitting Gallina case files judged by vm_compute")]
json.dump(m, open(os.path.join(V, "MANIFEST.json"), "w"), indent=1)
print(len(checks), "checks;", len(m["not_applicable"]), "not yet claimed")
