#!/bin/bash
# seedbatch.sh <seed>...: the named seeded changes against their own property's quick check
# (meant for `vp run --with-repo -- tools/seedbatch.sh C03m C04m`: works on the run's snapshot of /repo).
cd "$(dirname "$0")/.."
[ -n "$VP_RUN_REPO" ] && export VERIF_REPO=$VP_RUN_REPO
./setup.sh >/dev/null 2>&1
for s in "$@"; do
  timeout 1500 tools/seedrun.sh $s ${s:0:3} 2>&1 | grep "^\["
done
