#!/usr/bin/env python3
"""mkseedprompts.py <round> <letter>: scratch worktrees /tmp/seed<round>/<id> and prompts /tmp/seedout<round>/<id>/prompt.txt
for the sub-agents that produce seeded changes.  An agent is told the property text and the one-line summaries of the
changes already stored for that property, nothing else from /verif."""
import json, os, subprocess, sys

rnd, letter = sys.argv[1], sys.argv[2]
HEAD = """You are helping test a verification framework for the Go library Oudwins/zog (a Zod-like schema validation/coercion library). Your job: produce ONE realistic *breaking change* (mutation) to the library that violates ONE stated property while still compiling and passing the library's whole existing test suite.

Your private scratch git worktree of the library is at {wt} (work ONLY there; never touch /repo or /verif, and do not read anything under /verif). Do NOT use `git stash` (the stash is shared between worktrees); revert with `git apply -R` or `git checkout -- .`. Before any go command run:
  export GOFLAGS=-mod=mod GOPROXY=off GOSUMDB=off GOTOOLCHAIN=local
(the sandbox has no network). The test suite is: cd {wt} && go test -count=1 ./...   (about 5 s; all tests must pass).

"""
TASK = """TASK: produce one change (call it {x}) to the library's non-test source which:
  1. compiles, and the full existing test suite (go test -count=1 ./...) still passes with it, unedited;
  2. breaks the property above — but ONLY under something specific: a particular multi-step sequence of operations, an unusual input, a particular nesting/placement in a schema, a particular visit order or interleaving, a boundary value, or two cooperating sites that each look fine alone. NOT something ordinary use would expose immediately. Prefer a subtle, realistic bug a maintainer could plausibly introduce in a refactor or 'optimisation'. Think about parts of the property the {n} earlier changes did not touch (other clauses of the statement, other schema types, other front ends, the other mode).
  3. comes with a demonstration: a Go test file placed in the worktree that FAILS with the change applied and PASSES without it (on the clean tree), exercising the public API and showing the property being violated.

Write into {out} : patch.diff (output of `git diff` for the non-test source change only, applicable with `git apply` to a clean checkout), the demo test file (name it seed_{x}_test.go; its package clause decides the directory it belongs in), and notes.md (first line: a one-sentence summary; then what it breaks, what it needs in order to manifest, the exact commands you ran and their results: suite passes with change; demo fails with change; demo passes without change). Verify all three claims yourself by actually running them. Leave the worktree clean when done. Do not commit anything. Report briefly what you produced.
"""
here = os.path.dirname(os.path.abspath(__file__))
props = [json.loads(l) for l in open(os.path.join(here, "..", "properties.jsonl"))]
for d in props:
    pid = d["id"]
    prev = []
    for x in "abcdefghijklmnopqrstuvwxyz":
        if x == letter:
            break
        sd = os.path.join(here, "..", "seeded", pid + x)
        if not os.path.exists(os.path.join(sd, "patch.diff")):
            continue
        first = ""
        for line in open(os.path.join(sd, "notes.md")):
            line = line.strip().lstrip("#").strip()
            if line:
                first = line
                break
        files = sorted(set(l.split(" b/")[1].strip() for l in open(os.path.join(sd, "patch.diff")) if l.startswith("diff --git")))
        prev.append("  - %s / %s — %s (%s)" % (pid, x, first[:200], ", ".join(files)))
    wt, out = "/tmp/seed%s/%s" % (rnd, pid), "/tmp/seedout%s/%s/%s/" % (rnd, pid, letter)
    os.makedirs(out, exist_ok=True)
    prop = "THE PROPERTY (%s: %s):\n%s\nIt is quantified: %s\n\n" % (pid, d["title"], d["statement"], d["quantifier"]["text"])
    prevtxt = "%d changes were already produced by others; yours must use a DIFFERENT mechanism and a different place in the code:\n%s\n\n" % (len(prev), "\n".join(prev))
    open("/tmp/seedout%s/%s/prompt.txt" % (rnd, pid), "w").write(HEAD.format(wt=wt) + prop + prevtxt + TASK.format(x=letter, n=len(prev), out=out))
    subprocess.run(["git", "-C", "/repo", "worktree", "add", "--detach", wt, "HEAD"], capture_output=True)
print(len(os.listdir("/tmp/seedout%s" % rnd)), "prompts")
