#!/bin/bash
# soak.sh [seeds...]: every check on the (unchanged) tree under several seeds; prints only failures.
cd "$(dirname "$0")/.."
[ -n "$VP_RUN_REPO" ] && export VERIF_REPO=$VP_RUN_REPO
./setup.sh >/dev/null 2>&1
for seed in "$@"; do
  for p in C01 C02 C03 C04 C05 C06 C07 C08 C09 C10 C11 C12 C13 C14 C15 C16 C17 C18 C19 C20; do
    out=$(VERIF_SEED=$seed ./check $p --tier quick 2>&1); rc=$?
    if [ $rc -ne 0 ]; then echo "SOAK-FAIL seed=$seed $p rc=$rc"; echo "$out" | grep -v KNOWN | tail -4; for f in $(echo "$out" | grep -o 'replay=[^ ]*' | cut -d= -f2 | head -2); do python3 -c "
import json,sys; r=json.load(open('$f')); print(r.get('failed_projections'), r.get('no_longer_checks')); print(str(r.get('detail',''))[:1500]); g=r.get('case_gallina',''); i=g.find('   EC '); print(g[i:i+2500] if i>=0 else g[-2500:])"; done; fi
  done
  echo "seed $seed done"
done
