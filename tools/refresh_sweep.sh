#!/bin/bash
# refresh_sweep.sh <newest sweep log> [older logs...] (for a seed in several logs the first log given wins): writes seeded/SWEEP.txt (one line per seed: reported by its own
# property's check or not, with the number of VIOLATION lines) from the output of tools/sweep.sh.
cd "$(dirname "$0")/.."
{
  echo "# every seeded change against its own property's quick check (tools/sweep.sh), from: $*"
  echo "# commit of /verif at the time of the run: $(git log --format=%h -1)   /repo: $(git -C /repo log --format=%h -1)"
  cat "$@" | grep "^\[" | sed -E 's#replay=[^ ]*/work/#replay=work/#' | sort -s -u -k1,1
  echo "# reported: $(cat "$@" | grep -c 'rc=1')   not reported: $(cat "$@" | grep -c 'rc=0')   retired: $(cat "$@" | grep -c 'retired')"
} > seeded/SWEEP.txt
tail -1 seeded/SWEEP.txt
