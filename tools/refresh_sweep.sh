#!/bin/bash
# refresh_sweep.sh <newest sweep log> [older logs...] (for a seed in several logs the first log given wins): writes
# seeded/SWEEP.txt (one line per seed: reported by its own property's check or not, with the number of VIOLATION
# lines; retired seeds are marked) from the output of tools/sweep.sh.
cd "$(dirname "$0")/.."
lines=$(cat "$@" | grep "^\[" | sed -E 's#replay=[^ ]*/work/#replay=work/#' | sort -s -u -k1,1)
# a seed retired since an older log was written counts as retired
out=""
while IFS= read -r l; do
  s=$(echo "$l" | sed -E 's/^\[([^]]*)\].*/\1/')
  if grep -q '"retired"' seeded/$s/meta.json 2>/dev/null; then l="[$s] retired (skipped)"; fi
  out+="$l"$'\n'
done <<< "$lines"
{
  echo "# every seeded change against its own property's quick check (tools/sweep.sh), from: $*"
  echo "# commit of /verif when this file was written: $(git log --format=%h -1)   /repo: $(git -C /repo log --format=%h -1)"
  printf "%s" "$out"
  echo "# reported: $(printf "%s" "$out" | grep -c 'rc=1')   not reported: $(printf "%s" "$out" | grep -c 'rc=0')   retired: $(printf "%s" "$out" | grep -c 'retired')   seeds stored: $(ls seeded | grep -c '^C')"
} > seeded/SWEEP.txt
tail -1 seeded/SWEEP.txt
