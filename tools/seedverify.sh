#!/bin/bash
# seedverify.sh <Cxx> <a|b>: confirm a seeded change in a scratch worktree:
#   suite passes with it; the demonstration fails with it and passes without it.
# On success stores it under /verif/seeded/<Cxx><x>/ (patch.diff, demo, notes.md, meta.json).
set -u
P=$1; X=$2
SRC=${SEEDOUT:-/tmp/seedout}/$P/$X
WT=/tmp/sv_$P$X
export GOFLAGS=-mod=mod GOPROXY=off GOSUMDB=off GOTOOLCHAIN=local
git -C /repo worktree remove --force $WT >/dev/null 2>&1
git -C /repo worktree add --detach $WT HEAD >/dev/null 2>&1 || { echo "$P$X: cannot create worktree"; exit 2; }
cleanup() { git -C /repo worktree remove --force $WT >/dev/null 2>&1; }
trap cleanup EXIT
cd $WT
DEMO=$(ls $SRC/*_test.go 2>/dev/null | head -1)
[ -f "$SRC/patch.diff" ] && [ -n "$DEMO" ] || { echo "$P$X: missing artifacts"; exit 2; }
# where does the demo go? package clause decides (zhttp_test -> zhttp/, i18n_test -> i18n/ ...)
PKG=$(grep -m1 '^package ' $DEMO | awk '{print $2}')
case $PKG in
  zog|zog_test) DIR=. ;;
  zhttp|zhttp_test) DIR=zhttp ;;
  i18n|i18n_test) DIR=i18n ;;
  zenv|zenv_test) DIR=zenv ;;
  internals|internals_test) DIR=internals ;;
  conf|conf_test) DIR=conf ;;
  zjson|zjson_test) DIR=parsers/zjson ;;
  *) DIR=. ;;
esac
git apply $SRC/patch.diff || { echo "$P$X: patch does not apply"; exit 1; }
go build ./... >/tmp/sv_$P$X.build 2>&1 || { echo "$P$X: does not compile"; exit 1; }
go test -count=1 ./... >/tmp/sv_$P$X.suite 2>&1; SUITE=$?
cp $DEMO $DIR/
go test -count=1 -run . ./$DIR/ >/tmp/sv_$P$X.demo_with 2>&1; WITH=$?
git apply -R $SRC/patch.diff
go test -count=1 -run . ./$DIR/ >/tmp/sv_$P$X.demo_without 2>&1; WITHOUT=$?
echo "$P$X: suite_with_change=$SUITE demo_with_change=$WITH demo_without_change=$WITHOUT"
if [ $SUITE -eq 0 ] && [ $WITH -ne 0 ] && [ $WITHOUT -eq 0 ]; then
  D=/verif/seeded/$P$X; mkdir -p $D
  cp $SRC/patch.diff $DEMO $D/; cp $SRC/notes.md $D/ 2>/dev/null
  python3 - "$P" "$X" "$D" "$DIR" "$(basename $DEMO)" <<'PY'
import json,sys,re,os
p,x,d,dirr,demo=sys.argv[1:]
notes=open(os.path.join(d,'notes.md')).read() if os.path.exists(os.path.join(d,'notes.md')) else ''
meta=dict(property=p, variant=x, breaks=p, demo=demo, demo_dir=dirr,
  confirmed=dict(compiles=True, suite_passes_with_change=True, demo_fails_with_change=True, demo_passes_without_change=True,
                 how="tools/seedverify.sh %s %s in scratch worktree /tmp/sv_%s%s (go test -count=1 ./... ; go test -run . ./%s/)"%(p,x,p,x,dirr)),
  needs=notes[:1500])
json.dump(meta,open(os.path.join(d,'meta.json'),'w'),indent=1)
PY
  exit 0
fi
exit 1
