#!/bin/bash
# thorough_all.sh: the thorough command of every check, one after the other, on the tree under check.
cd "$(dirname "$0")/.."
[ -n "$VP_RUN_REPO" ] && export VERIF_REPO=$VP_RUN_REPO
./setup.sh >/dev/null 2>&1
fails=0
for p in C01 C02 C03 C04 C05 C06 C07 C08 C09 C10 C11 C12 C13 C14 C15 C16 C17 C18 C19 C20; do
  s=$(date +%s); out=$(./check $p --tier thorough 2>&1); rc=$?
  echo "$p rc=$rc $(( $(date +%s) - s ))s :: $(echo "$out" | grep -v '^KNOWN' | tail -1)"
  if [ $rc -ne 0 ]; then fails=$((fails+1)); echo "$out" | grep -v '^KNOWN' | tail -5; fi
done
echo "thorough_all: $fails check(s) failed"
[ $fails -eq 0 ]
