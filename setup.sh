#!/bin/sh
# Build the framework from files on disk only (offline): the Coq development and the Go harness.
set -e
cd "$(dirname "$0")"
export GOFLAGS=-mod=mod GOPROXY=off GOSUMDB=off GOTOOLCHAIN=local
mkdir -p work evidence
cp /repo/go.sum harness/go.sum 2>/dev/null || true
(cd harness && go build -o bin/ ./cmd/...)
if [ -x harness/bin/zogtables ]; then (cd harness && ./bin/zogtables > ../coq/Gen/Tables.v.new && mv ../coq/Gen/Tables.v.new ../coq/Gen/Tables.v); fi
(cd coq && coq_makefile -f _CoqProject -o Makefile >/dev/null && timeout 1500 make -j16 >/dev/null)
echo setup ok
