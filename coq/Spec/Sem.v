(** * L0 semantics: what an execution means, without contexts.

    [sem m s dat d e0] is a pure, compositional function: no CanCatch/Exit flags, no shared child
    context, no mutable path stack, no log.  It returns the entries a node contributes — issues and
    callback invocations with paths *relative* to the node — and the node's destination value.
    Catch is purely local here (it is a property of the primitive that declares it), siblings are
    independent by construction, and the only non-local input is [e0]: "an issue already exists in
    this execution", which gates PostTransforms exactly as the documentation says ("only if no issue
    exists at that moment").

    [Proofs/Refine.v] proves that the L1 engine ([Model/Engine.v]) computes exactly this. *)
From Coq Require Import String List ZArith Bool Ascii.
From Zog Require Import Model.Val Model.Engine.
Import ListNotations.
Open Scope string_scope.
Open Scope list_scope.

(** A relative entry: the key chain from the node down to where it happened (in push order), and
    the entry as a function of the rendered absolute path. *)
Inductive rentry :=
| RI (segs : list string) (mk : string -> issue)
| RC (segs : list string) (mk : string -> call).

Definition r_is_issue (r : rentry) : bool := match r with RI _ _ => true | RC _ _ => false end.
Definition rerrored (l : list rentry) : bool := existsb r_is_issue l.

Definition under (k : string) (l : list rentry) : list rentry :=
  map (fun r => match r with RI s mk => RI (k :: s) mk | RC s mk => RC (k :: s) mk end) l.

(** Render relative entries against the path stack [base] (top first) the node was entered with. *)
Definition abs1 (base : list string) (r : rentry) : entry :=
  match r with
  | RI s mk => EIssue (mk (render (rev s ++ base)))
  | RC s mk => ECall (mk (render (rev s ++ base)))
  end.
Definition abs (base : list string) (l : list rentry) : list entry := map (abs1 base) l.

Definition rcall (id : nat) (k : cbkind) (arg : option dval) : list rentry :=
  if Nat.eqb id 0 then [] else [RC [] (fun p => mk_call p id k arg)].

(** one test on a node that does not catch: the call, and an issue iff it fails *)
Definition sem_test (dtype : string) (t : test) (v : dval) : list rentry :=
  rcall (t_id t) CbTest (Some v) ++ (if t_ok t v then [] else [RI [] (fun p => mk_test_issue p dtype t)]).

(** every test runs, every failure is reported, in declaration order *)
Definition sem_tests_all (dtype : string) (ts : list test) (v : dval) : list rentry :=
  flat_map (fun t => sem_test dtype t v) ts.

(** tests of a catching primitive: no issue; they run up to the first failure; the value is the
    tested one iff all pass, else the catch value *)
Fixpoint sem_tests_catch (ts : list test) (c : dval) (v : dval) : list rentry * dval :=
  match ts with
  | [] => ([], v)
  | t :: r =>
    let call := rcall (t_id t) CbTest (Some v) in
    if t_ok t v then let '(l, d) := sem_tests_catch r c v in (call ++ l, d)
    else (call, c)
  end.

Definition sem_prim_tests (dtype : string) (ts : list test) (catch : option dval) (v : dval) : list rentry * dval :=
  match catch with
  | None => (sem_tests_all dtype ts v, v)
  | Some c => sem_tests_catch ts c v
  end.

(** PostTransforms: skipped when an issue exists; run in order; the first error ends them and is
    reported (unless the node catches: Catch swallows it). *)
Fixpoint sem_pts_loop (wrap : string -> uerr -> issue) (swallow : bool) (ps : list ptr) (v : dval) : list rentry * dval :=
  match ps with
  | [] => ([], v)
  | p :: r =>
    let call := rcall (pt_id p) CbPT (Some v) in
    match pt_fn p v with
    | (v1, None) => let '(l, d) := sem_pts_loop wrap swallow r v1 in (call ++ l, d)
    | (v1, Some e) => (call ++ (if swallow then [] else [RI [] (fun q => wrap q e)]), v1)
    end
  end.
Definition sem_pts (wrap : string -> uerr -> issue) (swallow : bool) (ps : list ptr) (e : bool) (v : dval) : list rentry * dval :=
  if e then ([], v) else sem_pts_loop wrap swallow ps v.

(** sequencing helper: run [k] after entries [l] were produced *)
Definition then_pts (wrap : string -> uerr -> issue) (swallow : bool) (ps : list ptr) (e0 : bool)
           (r : list rentry * dval) : list rentry * dval :=
  let '(l, d) := r in
  let '(l2, d2) := sem_pts wrap swallow ps (e0 || rerrored l) d in
  ((l ++ l2)%list, d2).

Definition sem_prim (m : mode) (p : prim) (dat : val) (d : dval) (e0 : bool) : list rentry * dval :=
  let dtype := dtype_of (p_kind p) in
  let catches := match p_catch p with Some _ => true | None => false end in
  let catchv := match p_catch p with Some c => c | None => d end in
  let zero := match m with Parse => parse_zero dat | Validate => go_zero d end in
  let body :=
    if zero then
      match p_def p with
      | Some dv => sem_prim_tests dtype (p_tests p) (p_catch p) dv
      | None =>
        match p_req p with
        | None => ([], d)
        | Some rt => if catches then ([], catchv) else ([RI [] (fun q => mk_test_issue q dtype rt)], d)
        end
      end
    else
      match m with
      | Parse =>
        match p_coerce p dat with
        | None => if catches then ([], catchv) else ([RI [] (fun q => mk_coerce_issue q dtype)], d)
        | Some v => sem_prim_tests dtype (p_tests p) (p_catch p) v
        end
      | Validate => sem_prim_tests dtype (p_tests p) (p_catch p) d
      end in
  then_pts (fun q e => mk_unknown_issue q dtype e) catches (p_pts p) e0 body.

Section Loops.
  Variable srec : data -> dval -> bool -> list rentry * dval.

  Fixpoint sem_elems_parse (items : list val) (zero : dval) (done : list dval) (i : nat) (e : bool)
    : list rentry * list dval :=
    match items with
    | [] => ([], done)
    | v :: r =>
      let '(lk, dk) := srec (DVal v) zero e in
      let '(lr, dr) := sem_elems_parse r zero (done ++ [dk])%list (S i) (e || rerrored lk) in
      ((under (idx_seg i) lk ++ lr)%list, dr)
    end.

  Fixpoint sem_elems_valid (items : list dval) (done : list dval) (i : nat) (e : bool)
    : list rentry * list dval :=
    match items with
    | [] => ([], done)
    | d :: r =>
      let '(lk, dk) := srec (DVal VNil) d e in
      let '(lr, dr) := sem_elems_valid r (done ++ [dk])%list (S i) (e || rerrored lk) in
      ((under (idx_seg i) lk ++ lr)%list, dr)
    end.
End Loops.

Section FieldLoop.
  Variable srec : sch -> data -> dval -> bool -> list rentry * dval.
  Variable m : mode.
  Variable pv : prov.

  Fixpoint sem_fields (fs : list (string * (list (string * string) * sch)))
           (dfs : list (string * dval)) (e : bool) : list rentry * list (string * dval) :=
    match fs with
    | [] => ([], dfs)
    | (k, (tags, c)) :: r =>
      let '(v, fk) := match m with
                      | Parse => get_by_field pv tags k
                      | Validate => (VNil, match alookup "zog" tags with Some t => t | None => k end)
                      end in
      let '(lk, dk) := srec c (DVal v) (dlookup k dfs) e in
      let '(lr, dr) := sem_fields r (dset k dk dfs) (e || rerrored lk) in
      ((under fk lk ++ lr)%list, dr)
    end.
End FieldLoop.

Fixpoint sem (m : mode) (s : sch) (dat : data) (d : dval) (e0 : bool) {struct s} : list rentry * dval :=
  match s with
  | SPrim p => sem_prim m p (data_val dat) d e0

  | SStruct fs tests pts =>
    let dtype := "struct" in
    let wrap := fun (y : string) e => mk_unknown_issue y dtype e in     (* ctx.IssueFromUnknownError(err), both modes *)
    let body (pv : prov) :=
      let '(lf, dfs) := sem_fields (sem m) m pv fs (dstruct_fields d) e0 in
      let d1 := DStruct dfs in
      then_pts wrap false pts e0 ((lf ++ sem_tests_all dtype tests d1)%list, d1) in
    let fail (i : string -> issue) := then_pts wrap false pts e0 ([RI [] i], d) in
    match m with
    | Validate => body PEmpty
    | Parse =>
      match dat with
      | DFactory (FErr code err) => fail (fun _ => mk_factory_issue code err dtype)
      | DFactory FNil => body PEmpty
      | DFactory (FProv pv) => body pv
      | DProv pv => body pv
      | DVal v =>
        match provider_of_val v with
        | Some pv => body pv
        | None => fail (fun q => mk_coerce_issue q dtype)
        end
      end
    end

  | SSlice e c =>
    let dtype := "slice" in
    let wrap := fun (y : string) err => mk_unknown_issue y dtype err in
    let finish := then_pts wrap false (sl_pts c) e0 in
    let absent :=
      match sl_req c with
      | None => finish ([], d)
      | Some rt => finish ([RI [] (fun q => mk_test_issue q dtype rt)], d)
      end in
    match m with
    | Parse =>
      let v := data_val dat in
      let go (items : list val) :=
        let '(le, ds) := sem_elems_parse (sem m e) items (sl_zero c) [] 0 e0 in
        finish ((le ++ sem_tests_all dtype (sl_tests c) (DSlice ds))%list, DSlice ds) in
      if parse_zero v then
        match sl_def c with
        | Some dl => go (map val_of_dval dl)
        | None => absent
        end
      else
        match sl_coerce c v with
        | None => finish ([RI [] (fun q => mk_coerce_issue q dtype)], d)
        | Some items => go items
        end
    | Validate =>
      let go (items : list dval) :=
        let '(le, ds) := sem_elems_valid (sem m e) items [] 0 e0 in
        finish ((le ++ sem_tests_all dtype (sl_tests c) (DSlice ds))%list, DSlice ds) in
      match dslice_items d with
      | [] => match sl_def c with Some dl => go dl | None => absent end
      | items => go items
      end
    end

  | SPtr e notnil pzero =>
    let idt := sch_dtype e in
    let pointee := match d with DPtr (Some y) => Some y | _ => None end in
    let absent := match notnil with
                  | Some rt => ([RI [] (fun q => mk_test_issue q idt rt)], d)
                  | None => ([], d)
                  end in
    match m with
    | Parse =>
      let continue (dat1 : data) :=
        let isabsent := match dat1 with
                        | DVal v => parse_zero v
                        | DFactory FNil => true
                        | _ => false
                        end in
        if isabsent then absent
        else
          let y := match pointee with Some y => y | None => pzero end in
          let '(l, y1) := sem m e dat1 y e0 in (l, DPtr (Some y1)) in
      match dat with
      | DFactory (FErr code err) => ([RI [] (fun _ => mk_factory_issue code err idt)], d)
      | DFactory FNil => continue (DFactory FNil)
      | DFactory (FProv pv) => continue (DProv pv)
      | _ => continue dat
      end
    | Validate =>
      match pointee with
      | None => absent
      | Some y => let '(l, y1) := sem m e (DVal VNil) y e0 in (l, DPtr (Some y1))
      end
    end

  | SCustom conv t =>
    let dtype := "custom" in
    match m with
    | Parse =>
      match conv (data_val dat) with
      | None => ([RI [] (fun q => mk_coerce_issue q dtype)], d)
      | Some v =>
        ((rcall (t_id t) CbCustom (Some v) ++ (if t_ok t v then [] else [RI [] (fun q => mk_test_issue q dtype t)]))%list, v)
      end
    | Validate =>
      ((rcall (t_id t) CbCustom (Some d) ++ (if t_ok t d then [] else [RI [] (fun q => mk_test_issue q dtype t)]))%list, d)
    end

  | SPre pf e =>
    let dtype := sch_dtype e in
    match m with
    | Parse =>
      match pre_parse pf (data_val dat) with
      | None => ([RI [] (fun q => mk_coerce_issue q dtype)], d)
      | Some (inr err) =>
        ((rcall (pre_id pf) CbPre None ++ [RI [] (fun q => mk_unknown_issue q dtype err)])%list, d)
      | Some (inl v) =>
        let c := rcall (pre_id pf) CbPre None in
        let '(l, d1) := sem m e (DVal v) d (e0 || rerrored c) in ((c ++ l)%list, d1)
      end
    | Validate =>
      let c := rcall (pre_id pf) CbPre (Some d) in
      match pre_valid pf d with
      | inr msg => ((c ++ [RI [] (fun q => mk_msg_issue q dtype msg)])%list, d)
      | inl d1 => let '(l, d2) := sem m e (DVal VNil) d1 (e0 || rerrored c) in ((c ++ l)%list, d2)
      end
    end
  end.

(** Top level, in the engine's vocabulary. *)
Definition sem_run (m : mode) (s : sch) (dat : data) (d : dval) : outcome :=
  let '(l, d1) := sem m s dat d false in
  let el := abs (path st0) l in
  {| o_issues := issues_of el; o_calls := calls_of el; o_dest := d1 |}.
