(** * L0: what "the destination satisfies the schema" means (property C01).

    [satisfies m s dat d] walks schema, input and destination together and says whether every value
    the schema placed or found in the destination passes every test declared on its node, and
    every Required / NotNil node had a present value.  The only exemptions are the documented ones:
    an absent optional node is not tested, and a node with Catch may hold its catch value.

    The function never mentions contexts, flags, paths or issue lists; it is written against the
    documentation, independently of the engine, and is evaluated by the correspondence check on the
    destination the *implementation* returned. *)
From Coq Require Import String List ZArith Bool Ascii.
From Zog Require Import Model.Val Model.Engine.
Import ListNotations.
Open Scope string_scope.

(** no PostTransforms anywhere (a user transform may legitimately change a value after it was tested) *)
Fixpoint pt_free (s : sch) : bool :=
  match s with
  | SPrim p => match p_pts p with [] => true | _ => false end
  | SStruct fs _ pts =>
    match pts with [] => true | _ => false end
    && (fix go (l : list (string * (list (string * string) * sch))) : bool :=
          match l with [] => true | kc :: r => pt_free (snd (snd kc)) && go r end) fs
  | SSlice e c => match sl_pts c with [] => true | _ => false end && pt_free e
  | SPtr e _ _ => pt_free e
  | SCustom _ _ => true
  | SPre _ e => pt_free e
  end.

Definition all_ok (ts : list test) (d : dval) : bool := forallb (fun t => t_ok t d) ts.

Definition is_some {A} (o : option A) : bool := match o with Some _ => true | None => false end.

Definition sat_prim (m : mode) (p : prim) (dat : val) (d : dval) : bool :=
  let tested := all_ok (p_tests p) d in
  let caught := match p_catch p with Some c => true | None => false end in
  match m with
  | Parse =>
    if parse_zero dat then
      match p_def p with
      | Some _ => tested || caught
      | None => negb (is_some (p_req p)) || caught
      end
    else tested || caught
  | Validate =>
    if go_zero d then
      match p_def p with
      | Some _ => tested || caught
      | None => negb (is_some (p_req p)) || caught
      end
    else tested || caught
  end.

Section Loops.
  Variable rec : data -> dval -> bool.
  Fixpoint sat_elems_parse (items : list val) (ds : list dval) : bool :=
    match items, ds with
    | [], [] => true
    | v :: r, d :: rd => rec (DVal v) d && sat_elems_parse r rd
    | _, _ => false
    end.
  Fixpoint sat_elems_valid (ds : list dval) : bool :=
    match ds with [] => true | d :: r => rec (DVal VNil) d && sat_elems_valid r end.
End Loops.

Section Fields.
  Variable rec : sch -> data -> dval -> bool.
  Variable m : mode.
  Variable pv : prov.
  Fixpoint sat_fields (fs : list (string * (list (string * string) * sch))) (dfs : list (string * dval)) : bool :=
    match fs with
    | [] => true
    | (k, (tags, c)) :: r =>
      let v := match m with Parse => fst (get_by_field pv tags k) | Validate => VNil end in
      rec c (DVal v) (dlookup k dfs) && sat_fields r dfs
    end.
End Fields.

Fixpoint satisfies (m : mode) (s : sch) (dat : data) (d : dval) {struct s} : bool :=
  match s with
  | SPrim p => sat_prim m p (data_val dat) d
  | SStruct fs tests _ =>
    let body (pv : prov) := sat_fields (satisfies m) m pv fs (dstruct_fields d) && all_ok tests d in
    match m with
    | Validate => body PEmpty
    | Parse =>
      match dat with
      | DFactory (FErr _ _) => false
      | DFactory FNil => body PEmpty
      | DFactory (FProv pv) => body pv
      | DProv pv => body pv
      | DVal v => match provider_of_val v with Some pv => body pv | None => false end
      end
    end
  | SSlice e c =>
    match m with
    | Parse =>
      let v := data_val dat in
      let go (items : list val) :=
        sat_elems_parse (satisfies m e) items (dslice_items d) && all_ok (sl_tests c) d in
      if parse_zero v then
        match sl_def c with
        | Some dl => go (map val_of_dval dl)
        | None => negb (is_some (sl_req c))
        end
      else match sl_coerce c v with Some items => go items | None => false end
    | Validate =>
      match dslice_items d with
      | [] => match sl_def c with Some _ => all_ok (sl_tests c) d | None => negb (is_some (sl_req c)) end
      | items => sat_elems_valid (satisfies m e) items && all_ok (sl_tests c) d
      end
    end
  | SPtr e nn _ =>
    match m with
    | Parse =>
      let continue (dat1 : data) :=
        let absent := match dat1 with DVal v => parse_zero v | DFactory FNil => true | _ => false end in
        if absent then negb (is_some nn)
        else match d with DPtr (Some y) => satisfies m e dat1 y | _ => false end in
      match dat with
      | DFactory (FErr _ _) => false
      | DFactory (FProv pv) => continue (DProv pv)
      | _ => continue dat
      end
    | Validate =>
      match d with
      | DPtr (Some y) => satisfies m e (DVal VNil) y
      | _ => negb (is_some nn)
      end
    end
  | SCustom conv t =>
    match m with
    | Parse => match conv (data_val dat) with Some _ => t_ok t d | None => false end
    | Validate => t_ok t d
    end
  | SPre pf e =>
    match m with
    | Parse => match pre_parse pf (data_val dat) with Some (inl v) => satisfies m e (DVal v) d | _ => false end
    | Validate => satisfies m e (DVal VNil) d
    end
  end.
