(** * L1 engine: executable model of zog's Parse / Validate execution.

    Mirrors, statement by statement (post "fix:" commits):
      zogSchema.go     primitiveProcessor / primitiveValidator      -> [exec_prim]
      struct.go        StructSchema.process / validate              -> [exec] (SStruct), [fields_loop]
      slices.go        SliceSchema.process / validate               -> [exec] (SSlice), [elems_loop]
      pointers.go      PointerSchema.process / validate             -> [exec] (SPtr)
      custom.go        Custom.process / validate                    -> [exec] (SCustom)
      preprocess.go    PreprocessSchema.process / validate          -> [exec] (SPre)
      internals/contexts.go  SchemaCtx.AddIssue (CanCatch/Exit), IssueFromTest, IssueFromCoerce,
                             Issue, IssueFromUnknownError, HasErrored -> [add], [mk_*], [errored]
      internals/PathBuilder.go  Push / Pop / String                 -> [push], [pop], [render]
      internals/tests.go     TestFuncFromBool                       -> [run_test]
      internals/DataProviders.go  GetKeyFromField, TryNewAnyDataProvider, Map/Empty providers
                                                                    -> [field_key], [provider_of], [get_by_field]

    What is kept on purpose (the hazards): the flags CanCatch/Exit live on a context record [fl] that
    is *shared* by all children of a struct or slice and is reset before each child (that reset is
    the repaired code); the path is a *mutable stack* pushed and popped around each child; the
    PostTransform gate reads the *execution-wide* issue log.  The engine appends to one log both the
    issues it records and the user callbacks it invokes, in execution order. *)
From Coq Require Import String List ZArith Bool Ascii.
From Zog Require Import Model.Val.
Import ListNotations.
Open Scope string_scope.

Inductive mode := Parse | Validate.

(** ** Issues and callback events *)
Record issue := {
  i_path : string;                      (* Path, after an IssuePath override *)
  i_code : string;
  i_dtype : string;
  i_params : list (string * string);    (* the test's Params (key, %v rendering) *)
  i_msg : option string;                (* message fixed by the test's own Message option *)
  i_err : option string                 (* wrapped error text, if any *)
}.

Inductive cbkind := CbTest | CbPT | CbCustom | CbPre.
Record call := {
  c_id : nat;                           (* identity of the user callback (0 = built-in test) *)
  c_kind : cbkind;
  c_path : string;                      (* path of the node it ran at *)
  c_arg : option dval                   (* the value it was given (for pointer arguments: the pointee); None = nil *)
}.

Inductive entry := EIssue (i : issue) | ECall (c : call).

Definition is_issue (e : entry) : bool := match e with EIssue _ => true | ECall _ => false end.
Definition errored (l : list entry) : bool := existsb is_issue l.     (* ctx.HasErrored() *)
Fixpoint issues_of (l : list entry) : list issue :=
  match l with [] => [] | EIssue i :: r => i :: issues_of r | ECall _ :: r => issues_of r end.
Fixpoint calls_of (l : list entry) : list call :=
  match l with [] => [] | ECall c :: r => c :: calls_of r | EIssue _ :: r => calls_of r end.

(** ** Schema *)
Record test := {
  t_id : nat;                           (* 0 for built-in tests; otherwise the user callback's identity *)
  t_code : string;
  t_ipath : option string;              (* IssuePath option *)
  t_msg : option string;                (* Message option *)
  t_params : list (string * string);
  t_ok : dval -> bool                   (* the boolean test function *)
}.

(** An error returned by a PostTransform / Preprocess function: a plain error or a ZogIssue. *)
Inductive uerr := UErr (msg : string) | UIssue (i : issue).
Record ptr := { pt_id : nat; pt_fn : dval -> dval * option uerr }.

Inductive kind := KString | KInt | KInt32 | KInt64 | KFloat32 | KFloat64 | KBool | KTime.
Definition dtype_of (k : kind) : string :=
  match k with
  | KString => "string" | KBool => "bool" | KTime => "time"
  | _ => "number"
  end.

Record prim := {
  p_kind : kind;
  p_coerce : val -> option dval;        (* the coercer in effect for this node; None = it returned an error *)
  p_req : option test;                  (* Required(): the `required` test (options applied) *)
  p_def : option dval;
  p_catch : option dval;
  p_tests : list test;
  p_pts : list ptr
}.

Record slicecfg := {
  sl_coerce : val -> option (list val); (* slice coercer: the elements of the coerced slice; None = error *)
  sl_req : option test;
  sl_def : option (list dval);          (* Default(...): a typed slice *)
  sl_zero : dval;                       (* zero value of the destination's element type (MakeSlice) *)
  sl_tests : list test;
  sl_pts : list ptr
}.

(** Preprocess function, both views: on input data (Parse) and on the destination value (Validate).
    [None] = the input does not have type F. *)
Record prefn := {
  pre_id : nat;
  pre_parse : val -> option (val + uerr);
  pre_valid : dval -> dval + string
}.

Inductive sch :=
| SPrim (p : prim)
| SStruct (fs : list (string * (list (string * string) * sch)))   (* key -> (struct tags of the field, schema), in visit order *)
          (tests : list test) (pts : list ptr)
| SSlice (e : sch) (c : slicecfg)
| SPtr (e : sch) (notnil : option test) (pzero : dval)            (* pzero: zero value of the pointee type (reflect.New) *)
| SCustom (conv : val -> option dval) (t : test)                  (* conv: the type assertion ctx.Data.(T) *)
| SPre (f : prefn) (e : sch).

Fixpoint sch_dtype (s : sch) : string :=                          (* getType() *)
  match s with
  | SPrim p => dtype_of (p_kind p)
  | SStruct _ _ _ => "struct"
  | SSlice _ _ => "slice"
  | SPtr e _ _ => sch_dtype e
  | SCustom _ _ => "custom"
  | SPre _ e => sch_dtype e
  end.

(** ** Data providers (Parse) *)
Inductive prov :=
| PEmpty                                              (* EmptyDataProvider *)
| PMap (tag : option string) (m : list (string * val))        (* MapDataProvider{M, tag} *)
| PUrl (tag : string) (m : list (string * list string))       (* zhttp urlDataProvider *)
| PEnv (env : list (string * string)).                        (* zenv *)

(** What a DpFactory returned. *)
Inductive factory_result :=
| FErr (code : string) (err : string)     (* decode failure: &ZogIssue{Code, Err} *)
| FNil                                    (* nil provider, nil error: `{}` *)
| FProv (p : prov).

(** Data handed to a struct/pointer node: a plain value, a provider, or a factory. *)
Inductive data :=
| DVal (v : val)
| DProv (p : prov)
| DFactory (r : factory_result).

Definition data_val (d : data) : val := match d with DVal v => v | _ => VOther 0 end.

(** GetKeyFromField(field, fallback, tag): provider tag, else `zog` tag, else the schema key. *)
Definition field_key (ptag : option string) (tags : list (string * string)) (fallback : string) : string :=
  match match ptag with Some t => alookup t tags | None => None end with
  | Some k => k
  | None => match alookup "zog" tags with Some k => k | None => fallback end
  end.

Definition has_suffix_brackets (k : string) : bool :=        (* len(key) > 2 && key[len-2:] == "[]" *)
  Nat.ltb 2 (String.length k) && String.eqb (substring (String.length k - 2) 2 k) "[]".

Definition url_get (m : list (string * list string)) (k : string) : val :=
  if has_suffix_brackets k then
    match alookup k m with Some vs => VList (map VStr vs) | None => VNil end
  else match alookup k m with
       | Some (a :: b :: r) => VList (map VStr (a :: b :: r))
       | Some [a] => VStr a
       | _ => VStr ""
       end.

(** strings.TrimSpace on the environment value is applied by the harness-side oracle: [env] holds
    the already-trimmed text (Model/FrontEnds.v models the trimming itself). *)
Definition get_by_field (p : prov) (tags : list (string * string)) (key : string) : val * string :=
  match p with
  | PEmpty => (VNil, key)
  | PMap tag m => let k := field_key tag tags key in
                  (match alookup k m with Some v => v | None => VNil end, k)
  | PUrl tag m => let k := field_key (Some tag) tags key in (url_get m k, k)
  | PEnv env => let k := field_key (Some "env") tags key in
                (VStr (match alookup k env with Some v => v | None => "" end), k)
  end.

(** TryNewAnyDataProvider on a plain value: a map becomes a provider without a source tag
    (empty map: EmptyDataProvider); nil: Empty; anything else is an error. *)
Definition provider_of_val (v : val) : option prov :=
  match v with
  | VNil => Some PEmpty
  | VMap [] => Some PEmpty
  | VMap m => Some (PMap None m)
  | _ => None
  end.

(** ** Execution state *)
Record st := { log : list entry; path : list string }.   (* path: the PathBuilder, top of stack first; bottom is always "" *)
Record fl := { cc : bool; ex : bool }.                   (* SchemaCtx.CanCatch, SchemaCtx.Exit *)
Definition fl0 := {| cc := false; ex := false |}.        (* NewSchemaCtx / NewValidateSchemaCtx *)
Definition st0 := {| log := []; path := [""] |}.         (* NewPathBuilder: the builder truncated to its first element *)

Definition push (k : string) (x : st) := {| log := log x; path := k :: path x |}.
Definition pop (x : st) := {| log := log x; path := tl (path x) |}.
Definition emit (e : entry) (x : st) := {| log := (log x ++ [e])%list; path := path x |}.

Definition starts_with_bracket (s : string) : bool :=
  match s with String a _ => Ascii.eqb a "["%char | EmptyString => false end.
Definition is_empty (s : string) : bool := match s with EmptyString => true | _ => false end.

(** PathBuilder.String() over the segments bottom-first: a "." goes before segment i>0 iff the
    previous segment is non-empty and this one does not start with '['.  (An *empty* segment after a
    non-empty one makes Go index v[0] out of range; the model writes the "." there and the engine
    theorems exclude empty keys.) *)
Fixpoint render_from (prev : string) (segs : list string) : string :=
  match segs with
  | [] => ""
  | v :: r => (if negb (is_empty prev) && negb (starts_with_bracket v) then "." else "") ++ v ++ render_from v r
  end.
Definition render_segs (segs : list string) : string :=
  match segs with [] => "" | v :: r => v ++ render_from v r end.
Definition render (p : list string) : string := render_segs (rev p).

(** SchemaCtx.AddIssue *)
Definition add (f : fl) (x : st) (i : issue) : fl * st :=
  if cc f then ({| cc := cc f; ex := true |}, x) else (f, emit (EIssue i) x).

(** IssueFromTest(test, val): the test's code, the context's path unless IssuePath overrides it. *)
Definition mk_test_issue (here : string) (dtype : string) (t : test) : issue :=
  {| i_path := match t_ipath t with Some p => p | None => here end;
     i_code := t_code t; i_dtype := dtype; i_params := t_params t; i_msg := t_msg t; i_err := None |}.
Definition mk_coerce_issue (here : string) (dtype : string) : issue :=
  {| i_path := here; i_code := "coerce"; i_dtype := dtype; i_params := []; i_msg := None; i_err := Some "coerce" |}.
(** ctx.Issue().SetError(err): empty code *)
Definition mk_err_issue (here : string) (dtype : string) (msg : string) : issue :=
  {| i_path := here; i_code := ""; i_dtype := dtype; i_params := []; i_msg := None; i_err := Some msg |}.
(** ctx.Issue().SetMessage(err.Error()) (Preprocess in Validate) *)
Definition mk_msg_issue (here : string) (dtype : string) (msg : string) : issue :=
  {| i_path := here; i_code := ""; i_dtype := dtype; i_params := []; i_msg := Some msg; i_err := None |}.
(** IssueFromUnknownError: a ZogIssue passes through unchanged, anything else is wrapped. *)
Definition mk_unknown_issue (here : string) (dtype : string) (e : uerr) : issue :=
  match e with UErr m => mk_err_issue here dtype m | UIssue i => i end.
(** the issue a front end's decode failure becomes: no path; the node fills in its type (fix) *)
Definition mk_factory_issue (code err dtype : string) : issue :=
  {| i_path := ""; i_code := code; i_dtype := dtype; i_params := []; i_msg := None; i_err := Some err |}.
Definition here (x : st) : string := render (path x).
(** struct.process wraps every PostTransform error, ZogIssue or not: ctx.Issue().SetError(err) *)
Definition uerr_text (e : uerr) : string := match e with UErr m => m | UIssue _ => "zogissue" end.

Definition mk_call (here : string) (id : nat) (k : cbkind) (arg : option dval) : call :=
  {| c_id := id; c_kind := k; c_path := here; c_arg := arg |}.
Definition ecall (x : st) (id : nat) (k : cbkind) (arg : option dval) : st :=
  if Nat.eqb id 0 then x else emit (ECall (mk_call (here x) id k arg)) x.

(** One test: TestFuncFromBool — call, and on false AddIssue(IssueFromTest(ctx.Test, val)). *)
Definition run_test (dtype : string) (t : test) (f : fl) (v : dval) (x : st) : fl * st :=
  let x1 := ecall x (t_id t) CbTest (Some v) in
  if t_ok t v then (f, x1) else add f x1 (mk_test_issue (here x1) dtype t).

(** Primitive test loop: every test runs; `if ctx.Exit { if ctx.CanCatch { *dest = *catch; return } }`. *)
Fixpoint prim_tests (dtype : string) (ts : list test) (catch : option dval) (f : fl) (v : dval) (x : st)
  : fl * dval * st :=
  match ts with
  | [] => (f, v, x)
  | t :: r =>
    let '(f1, x1) := run_test dtype t f v x in
    if ex f1 && cc f1 then (f1, match catch with Some c => c | None => v end, x1)
    else prim_tests dtype r catch f1 v x1
  end.

(** Struct / slice test loop: `if ctx.Exit { return }` after each test. *)
Fixpoint node_tests (dtype : string) (ts : list test) (f : fl) (v : dval) (x : st) : fl * st :=
  match ts with
  | [] => (f, x)
  | t :: r =>
    let '(f1, x1) := run_test dtype t f v x in
    if ex f1 then (f1, x1) else node_tests dtype r f1 v x1
  end.

(** The deferred PostTransform block: only if no issue exists in the whole execution; each
    transform gets the pointer (so it may change the value even when it returns an error); the
    first error is added as an issue and ends the block.  [wrap]: how the error becomes an issue. *)
Fixpoint pts_loop (wrap : string -> uerr -> issue) (ps : list ptr) (f : fl) (v : dval) (x : st) : fl * dval * st :=
  match ps with
  | [] => (f, v, x)
  | p :: r =>
    let x1 := ecall x (pt_id p) CbPT (Some v) in
    match pt_fn p v with
    | (v1, None) => pts_loop wrap r f v1 x1
    | (v1, Some e) => let '(f1, x2) := add f x1 (wrap (here x1) e) in (f1, v1, x2)
    end
  end.
Definition run_pts (wrap : string -> uerr -> issue) (ps : list ptr) (f : fl) (v : dval) (x : st) : fl * dval * st :=
  if errored (log x) then (f, v, x) else pts_loop wrap ps f v x.

(** ** Primitives: primitiveProcessor (Parse) / primitiveValidator (Validate) *)
Definition exec_prim (m : mode) (p : prim) (f : fl) (dat : val) (d : dval) (x : st) : fl * dval * st :=
  let dtype := dtype_of (p_kind p) in
  let f0 := {| cc := match p_catch p with Some _ => true | None => false end; ex := ex f |} in
  let catchv := match p_catch p with Some c => c | None => d end in
  let zero := match m with Parse => parse_zero dat | Validate => go_zero d end in
  let '(f1, d1, x1) :=
    if zero then
      match p_def p with
      | Some dv => prim_tests dtype (p_tests p) (p_catch p) f0 dv x
      | None =>
        match p_req p with
        | None => (f0, d, x)
        | Some rt =>
          if cc f0 then (f0, catchv, x)
          else let '(f', x') := add f0 x (mk_test_issue (here x) dtype rt) in (f', d, x')
        end
      end
    else
      match m with
      | Parse =>
        match p_coerce p dat with
        | None => if cc f0 then (f0, catchv, x)
                  else let '(f', x') := add f0 x (mk_coerce_issue (here x) dtype) in (f', d, x')
        | Some v => prim_tests dtype (p_tests p) (p_catch p) f0 v x
        end
      | Validate => prim_tests dtype (p_tests p) (p_catch p) f0 d x
      end
  in
  run_pts (fun y e => mk_unknown_issue y dtype e) (p_pts p) f1 d1 x1.

(** ** Loops over children, parameterised by the recursive call *)
Section Loops.
  Variable rec : fl -> data -> dval -> st -> fl * dval * st.

  (** slices.process: per index — Data = element, ValPtr = &dest[i], push "[i]", reset the shared
      child context's CanCatch/Exit, run the element schema, pop. *)
  Fixpoint elems_parse (items : list val) (zero : dval) (sub : fl) (done : list dval) (i : nat) (x : st)
    : fl * list dval * st :=
    match items with
    | [] => (sub, done, x)
    | v :: r =>
      let '(sub1, dk, x1) := rec {| cc := false; ex := false |} (DVal v) zero (push (idx_seg i) x) in
      elems_parse r zero sub1 (done ++ [dk])%list (S i) (pop x1)
    end.

  (** slices.validate: the same over the destination's own elements. *)
  Fixpoint elems_valid (items : list dval) (sub : fl) (done : list dval) (i : nat) (x : st)
    : fl * list dval * st :=
    match items with
    | [] => (sub, done, x)
    | d :: r =>
      let '(sub1, dk, x1) := rec {| cc := false; ex := false |} (DVal VNil) d (push (idx_seg i) x) in
      elems_valid r sub1 (done ++ [dk])%list (S i) (pop x1)
    end.
End Loops.

Section FieldLoop.
  Variable rec : sch -> fl -> data -> dval -> st -> fl * dval * st.
  Variable m : mode.
  Variable pv : prov.

  (** struct.process / struct.validate: for key, schema := range v.schema (the list is the visit
      order): look the field up, push its key, reset the shared child context, run, pop. *)
  Fixpoint fields_loop (fs : list (string * (list (string * string) * sch))) (sub : fl)
           (dfs : list (string * dval)) (x : st) : fl * list (string * dval) * st :=
    match fs with
    | [] => (sub, dfs, x)
    | (k, (tags, c)) :: r =>
      let '(v, fk) := match m with
                      | Parse => get_by_field pv tags k
                      | Validate => (VNil, match alookup "zog" tags with Some t => t | None => k end)
                      end in
      let '(sub1, dk, x1) := rec c {| cc := false; ex := false |} (DVal v) (dlookup k dfs) (push fk x) in
      fields_loop r sub1 (dset k dk dfs) (pop x1)
    end.
End FieldLoop.

Definition dstruct_fields (d : dval) : list (string * dval) := match d with DStruct l => l | _ => [] end.
Definition dslice_items (d : dval) : list dval := match d with DSlice l => l | _ => [] end.

(** ** The engine *)
Fixpoint exec (m : mode) (s : sch) (f : fl) (dat : data) (d : dval) (x : st) {struct s} : fl * dval * st :=
  match s with
  | SPrim p => exec_prim m p f (data_val dat) d x

  | SStruct fs tests pts =>
    let dtype := "struct" in
    let wrap := fun (y : string) e => mk_unknown_issue y dtype e in     (* ctx.IssueFromUnknownError(err), both modes *)
    let body (pv : prov) :=
      let '(_, dfs, x1) := fields_loop (exec m) m pv fs fl0 (dstruct_fields d) x in
      let d1 := DStruct dfs in
      let '(f2, x2) := node_tests dtype tests f d1 x1 in
      run_pts wrap pts f2 d1 x2 in
    match m with
    | Validate => body PEmpty
    | Parse =>
      match dat with
      | DFactory (FErr code err) =>
        (* the front end's issue: no path; the struct fills in its own type (fix) *)
        let '(f1, x1) := add f x (mk_factory_issue code err dtype) in
        run_pts wrap pts f1 d x1
      | DFactory FNil => body PEmpty
      | DFactory (FProv pv) => body pv
      | DProv pv => body pv
      | DVal v =>
        match provider_of_val v with
        | Some pv => body pv
        | None => let '(f1, x1) := add f x (mk_coerce_issue (here x) dtype) in run_pts wrap pts f1 d x1
        end
      end
    end

  | SSlice e c =>
    let dtype := "slice" in
    let wrap := fun (y : string) err => mk_unknown_issue y dtype err in
    let finish (f1 : fl) (d1 : dval) (x1 : st) := run_pts wrap (sl_pts c) f1 d1 x1 in
    let tests_then_pts (d1 : dval) (x1 : st) :=
      let '(f2, x2) := node_tests dtype (sl_tests c) f d1 x1 in finish f2 d1 x2 in
    match m with
    | Parse =>
      let v := data_val dat in
      let go (items : list val) :=
        let '(_, ds, x1) := elems_parse (exec m e) items (sl_zero c) fl0 [] 0 x in
        tests_then_pts (DSlice ds) x1 in
      if parse_zero v then
        match sl_def c with
        | Some dl => go (map val_of_dval dl)
        | None =>
          match sl_req c with
          | None => finish f d x
          | Some rt => let '(f1, x1) := add f x (mk_test_issue (here x) dtype rt) in finish f1 d x1
          end
        end
      else
        match sl_coerce c v with
        | None => let '(f1, x1) := add f x (mk_coerce_issue (here x) dtype) in finish f1 d x1
        | Some items => go items
        end
    | Validate =>
      let go (items : list dval) :=
        let '(_, ds, x1) := elems_valid (exec m e) items fl0 [] 0 x in
        tests_then_pts (DSlice ds) x1 in
      match dslice_items d with
      | [] =>
        match sl_def c with
        | Some dl => go dl
        | None =>
          match sl_req c with
          | None => finish f d x
          | Some rt => let '(f1, x1) := add f x (mk_test_issue (here x) dtype rt) in finish f1 d x1
          end
        end
      | items => go items
      end
    end

  | SPtr e notnil pzero =>
    let idt := sch_dtype e in
    let pointee := match d with DPtr (Some y) => Some y | _ => None end in
    match m with
    | Parse =>
      let continue (dat1 : data) :=
        let absent := match dat1 with
                      | DVal v => parse_zero v
                      | DFactory FNil => true
                      | _ => false
                      end in
        if absent then
          match notnil with
          | Some rt => let '(f1, x1) := add f x (mk_test_issue (here x) idt rt) in (f1, d, x1)
          | None => (f, d, x)
          end
        else
          let y := match pointee with Some y => y | None => pzero end in
          let '(_, y1, x1) := exec m e fl0 dat1 y x in
          (f, DPtr (Some y1), x1) in
      match dat with
      | DFactory (FErr code err) =>
        let '(f1, x1) := add f x (mk_factory_issue code err idt) in (f1, d, x1)
      | DFactory FNil => continue (DFactory FNil)
      | DFactory (FProv pv) => continue (DProv pv)
      | _ => continue dat
      end
    | Validate =>
      match pointee with
      | None =>
        match notnil with
        | Some rt => let '(f1, x1) := add f x (mk_test_issue (here x) idt rt) in (f1, d, x1)
        | None => (f, d, x)
        end
      | Some y => let '(_, y1, x1) := exec m e fl0 (DVal VNil) y x in (f, DPtr (Some y1), x1)
      end
    end

  | SCustom conv t =>
    let dtype := "custom" in
    match m with
    | Parse =>
      match conv (data_val dat) with
      | None => let '(f1, x1) := add f x (mk_coerce_issue (here x) dtype) in (f1, d, x1)
      | Some v =>
        let x1 := ecall x (t_id t) CbCustom (Some v) in
        if t_ok t v then (f, v, x1) else let '(f1, x2) := add f x1 (mk_test_issue (here x1) dtype t) in (f1, v, x2)
      end
    | Validate =>
      let x1 := ecall x (t_id t) CbCustom (Some d) in
      if t_ok t d then (f, d, x1) else let '(f1, x2) := add f x1 (mk_test_issue (here x1) dtype t) in (f1, d, x2)
    end

  | SPre pf e =>
    let dtype := sch_dtype e in
    match m with
    | Parse =>
      match pre_parse pf (data_val dat) with
      | None => let '(f1, x1) := add f x (mk_coerce_issue (here x) dtype) in (f1, d, x1)
      | Some (inr err) =>
        let x1 := ecall x (pre_id pf) CbPre None in
        let '(f1, x2) := add f x1 (mk_unknown_issue (here x1) dtype err) in (f1, d, x2)
      | Some (inl v) =>
        let x1 := ecall x (pre_id pf) CbPre None in
        exec m e f (DVal v) d x1
      end
    | Validate =>
      let x1 := ecall x (pre_id pf) CbPre (Some d) in
      match pre_valid pf d with
      | inr msg => let '(f1, x2) := add f x1 (mk_msg_issue (here x1) dtype msg) in (f1, d, x2)
      | inl d1 => exec m e f (DVal VNil) d1 x1
      end
    end
  end.

(** ** The issue collections (internals/Issues.go) *)
Definition imap := list (string * list issue).       (* ZogIssueMap as an association list, keys in first-insertion order *)

Fixpoint imap_append (k : string) (i : issue) (m : imap) : imap :=
  match m with
  | [] => [(k, [i])]
  | (k', l) :: r => if String.eqb k k' then (k', (l ++ [i])%list) :: r else (k', l) :: imap_append k i r
  end.

(** ErrsMap.Add(path, issue): the very first issue is also stored under "$first"; "" is keyed "$root". *)
Definition errs_add (m : option imap) (i : issue) : option imap :=
  let key := if is_empty (i_path i) then "$root" else i_path i in
  match m with
  | None => Some (imap_append key i [("$first", [i])])
  | Some mm => Some (imap_append key i mm)
  end.
Definition errs_map (l : list issue) : option imap := fold_left errs_add l None.
(** ErrsList.Add: append; nil when nothing was added. *)
Definition errs_list (l : list issue) : option (list issue) := match l with [] => None | _ => Some l end.

(** ** Top level: Schema.Parse(data, &dest) / Schema.Validate(&dest) *)
Record outcome := { o_issues : list issue; o_calls : list call; o_dest : dval }.

Definition run (m : mode) (s : sch) (dat : data) (d : dval) : outcome :=
  let '(_, d1, x1) := exec m s fl0 dat d st0 in
  {| o_issues := issues_of (log x1); o_calls := calls_of (log x1); o_dest := d1 |}.
