(** * L2: the pooled objects (internals/pools.go, contexts.go, Issues.go, PathBuilder.go, utils.go).

    Part A mirrors every acquisition function field by field: what it writes and what it leaves as
    the recycled object had it.  Part B is the pool discipline: addresses, an adversarial Get, Put,
    and the Collect helpers. *)
From Coq Require Import String List Arith Bool.
Import ListNotations.
Open Scope string_scope.

(** ** Part A: acquisition = re-initialisation *)
Record zissue := { zi_code : string; zi_path : string; zi_value : nat; zi_dtype : string;
                   zi_params : option (list (string * string)); zi_msg : string; zi_err : option string }.

(** NewZogIssue *)
Definition new_zog_issue (dirty : zissue) : zissue :=
  {| zi_code := ""; zi_path := ""; zi_value := 0; zi_dtype := ""; zi_params := None; zi_msg := ""; zi_err := None |}.

(** SchemaCtx.Issue(): NewZogIssue().SetPath().SetDType().SetValue() *)
Definition ctx_issue (dirty : zissue) (path dtype : string) (val : nat) : zissue :=
  let e := new_zog_issue dirty in
  {| zi_code := zi_code e; zi_path := path; zi_value := val; zi_dtype := dtype; zi_params := zi_params e; zi_msg := zi_msg e; zi_err := zi_err e |}.

(** SchemaCtx.IssueFromTest(test, val): every field assigned, then the test's own formatter, then IssuePath *)
Definition issue_from_test (dirty : zissue) (tcode : string) (tparams : option (list (string * string))) (tipath : string)
           (tfmt : option (zissue -> string)) (path dtype : string) (val : nat) : zissue :=
  let e := {| zi_code := tcode; zi_path := path; zi_value := val; zi_dtype := dtype; zi_params := tparams; zi_msg := ""; zi_err := None |} in
  let e1 := match tfmt with
            | Some f => {| zi_code := zi_code e; zi_path := zi_path e; zi_value := zi_value e; zi_dtype := zi_dtype e; zi_params := zi_params e;
                           zi_msg := f e; zi_err := zi_err e |}
            | None => e
            end in
  match tipath with
  | EmptyString => e1
  | _ => {| zi_code := zi_code e1; zi_path := tipath; zi_value := zi_value e1; zi_dtype := zi_dtype e1; zi_params := zi_params e1;
            zi_msg := zi_msg e1; zi_err := zi_err e1 |}
  end.

(** SchemaCtx.IssueFromCoerce(err) (repaired: Params reset) *)
Definition issue_from_coerce (dirty : zissue) (path dtype : string) (val : nat) (err : string) : zissue :=
  {| zi_code := "coerce"; zi_path := path; zi_value := val; zi_dtype := dtype; zi_params := None; zi_msg := ""; zi_err := Some err |}.
(** ... as it was: Params kept from the recycled object *)
Definition issue_from_coerce_legacy (dirty : zissue) (path dtype : string) (val : nat) (err : string) : zissue :=
  {| zi_code := "coerce"; zi_path := path; zi_value := val; zi_dtype := dtype; zi_params := zi_params dirty; zi_msg := ""; zi_err := Some err |}.

Record execctx := { x_fmter : nat; x_errors : nat; x_m : list (string * nat) }.
(** NewExecCtx(errs, fmter) (repaired: c.m = nil) *)
Definition new_exec_ctx (dirty : execctx) (errs fmter : nat) : execctx := {| x_fmter := fmter; x_errors := errs; x_m := [] |}.
Definition new_exec_ctx_legacy (dirty : execctx) (errs fmter : nat) : execctx := {| x_fmter := fmter; x_errors := errs; x_m := x_m dirty |}.
Definition ctx_get (c : execctx) (k : string) : option nat :=
  match find (fun kv => String.eqb (fst kv) k) (x_m c) with Some kv => Some (snd kv) | None => None end.
Definition ctx_set (c : execctx) (k : string) (v : nat) : execctx := {| x_fmter := x_fmter c; x_errors := x_errors c; x_m := (k, v) :: x_m c |}.

Record sctx := { s_data : nat; s_valptr : nat; s_path : nat; s_dtype : string; s_cancatch : bool; s_exit : bool; s_hascaught : bool;
                 s_test : nat  (* SchemaCtx.Test: not assigned on acquisition; every test runner assigns it before the test reads it *) }.
(** ExecCtx.NewSchemaCtx / NewValidateSchemaCtx *)
Definition new_schema_ctx (dirty : sctx) (val dest path : nat) (dtype : string) : sctx :=
  {| s_data := val; s_valptr := dest; s_path := path; s_dtype := dtype; s_cancatch := false; s_exit := false; s_hascaught := false; s_test := s_test dirty |}.
Definition new_validate_schema_ctx (dirty : sctx) (valptr path : nat) (dtype : string) : sctx :=
  {| s_data := 0; s_valptr := valptr; s_path := path; s_dtype := dtype; s_cancatch := false; s_exit := false; s_hascaught := false; s_test := s_test dirty |}.
(** as seeded mutations have it: CanCatch left as the recycled object had it *)
Definition new_validate_schema_ctx_legacy (dirty : sctx) (valptr path : nat) (dtype : string) : sctx :=
  {| s_data := 0; s_valptr := valptr; s_path := path; s_dtype := dtype; s_cancatch := s_cancatch dirty; s_exit := false; s_hascaught := false; s_test := s_test dirty |}.

(** NewErrsList / NewErrsMap: the container is emptied *)
Definition new_errs {A} (dirty : option A) : option A := None.
(** NewPathBuilder: truncated to its first element (which is "" on every builder: nothing ever writes index 0) *)
Definition new_path_builder (dirty : list string) : list string := firstn 1 dirty.

(** ** Part B: the pools *)
Record pstate := { pool : list nat;      (* addresses currently in the issue pool *)
                   live : list nat;      (* issues handed to callers and not (yet) given back *)
                   next : nat }.         (* the allocator *)

(** Get: the pool may hand out any of its objects, or drop them all and allocate (sync.Pool may do
    either); [choice] is the adversary *)
Definition pget (x : pstate) (choice : option nat) : nat * pstate :=
  match choice with
  | Some i => match nth_error (pool x) i with
              | Some a => (a, {| pool := firstn i (pool x) ++ skipn (S i) (pool x); live := live x; next := next x |})
              | None => (next x, {| pool := pool x; live := live x; next := S (next x) |})
              end
  | None => (next x, {| pool := pool x; live := live x; next := S (next x) |})
  end.
Definition pput (x : pstate) (a : nat) : pstate := {| pool := a :: pool x; live := live x; next := next x |}.

(** one issue of an execution: taken from the pool, then either swallowed by a Catch (Put back at
    once) or returned to the caller *)
Definition issue_step (x : pstate) (ev : option nat * bool) : pstate :=
  let '(a, x1) := pget x (fst ev) in
  if snd ev then pput x1 a else {| pool := pool x1; live := a :: live x1; next := next x1 |}.

Inductive hop :=
| HCall (issues : list (option nat * bool))       (* an execution producing these issues *)
| HCollect (addrs : list nat)                     (* Collect / CollectList / CollectMap / Sanitize*AndCollect on these live issues *)
| HCollectMapLegacy (first : nat) (addrs : list nat).   (* CollectMap as it was: the $first issue is freed a second time *)

Fixpoint remove_all (l : list nat) (a : nat) : list nat :=
  match l with [] => [] | b :: r => if Nat.eqb a b then remove_all r a else b :: remove_all r a end.

Definition hstep (x : pstate) (o : hop) : pstate :=
  match o with
  | HCall issues => fold_left issue_step issues x
  | HCollect addrs => fold_left (fun y a => {| pool := a :: pool y; live := remove_all (live y) a; next := next y |}) addrs x
  | HCollectMapLegacy first addrs =>
    let y := fold_left (fun y a => {| pool := a :: pool y; live := remove_all (live y) a; next := next y |}) addrs x in
    {| pool := first :: pool y; live := live y; next := next y |}
  end.
Definition hrun (ops : list hop) : pstate := fold_left hstep ops {| pool := []; live := []; next := 0 |}.

(** the API contract: a result is collected at most once and only while the caller still holds it *)
Fixpoint collects_ok (x : pstate) (ops : list hop) : Prop :=
  match ops with
  | [] => True
  | o :: r =>
    match o with
    | HCollect addrs => NoDup addrs /\ (forall a, In a addrs -> In a (live x))
    | HCollectMapLegacy _ _ => False
    | HCall _ => True
    end /\ collects_ok (hstep x o) r
  end.
