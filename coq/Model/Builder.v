(** * Builder chains on a primitive schema (string.go, numbers.go, boolean.go, time.go): each call
    mutates the schema record; [Not()] sets the one-shot flag [isNot], which the next *built-in*
    test consumes in [addTest] (TestFunc / Test / Required / Default / Catch / PostTransform do not
    go through [addTest] and leave the flag alone). *)
From Coq Require Import String List ZArith Bool.
From Zog Require Import Model.Val Model.Engine Model.Preds.
Import ListNotations.
Open Scope string_scope.

(** options passed to one test: Message / MessageFunc, IssueCode, IssuePath, Params (which replaces the
    parameters a built-in test sets itself) *)
Record topts := { o_msg : option string; o_code : option string; o_path : option string; o_params : option (list (string * string)) }.
Definition no_opts := {| o_msg := None; o_code := None; o_path := None; o_params := None |}.

Inductive bcall :=
| CNot
| CBuiltin (code : string) (params : list (string * string)) (b : btest) (o : topts)   (* any test that goes through addTest *)
| CTestFunc (id : nat) (f : dval -> bool) (o : topts)                                   (* user test: TestFunc *)
| CRequired (o : topts) | COptional
| CDefault (d : dval) | CCatch (d : dval)
| CPT (p : ptr).

Record bstate := {
  b_tests : list test; b_req : option test; b_def : option dval; b_catch : option dval; b_pts : list ptr; b_not : bool }.
Definition b0 := {| b_tests := []; b_req := None; b_def := None; b_catch := None; b_pts := []; b_not := false |}.

Definition apply_opts (o : topts) (t : test) : test :=
  {| t_id := t_id t;
     t_code := match o_code o with Some c => c | None => t_code t end;
     t_ipath := match o_path o with Some p => Some p | None => t_ipath t end;
     t_msg := match o_msg o with Some m => Some m | None => t_msg t end;
     t_params := match o_params o with Some ps => ps | None => t_params t end; t_ok := t_ok t |}.

(** zconst.NotIssueCode *)
Definition not_code (c : string) : string := "not_" ++ c.

Definition mk_builtin (neg : bool) (code : string) (params : list (string * string)) (b : btest) (o : topts) : test :=
  apply_opts o {| t_id := 0; t_code := if neg then not_code code else code; t_ipath := None; t_msg := None; t_params := params;
                  t_ok := fun v => if neg then negb (btest_ok b v) else btest_ok b v |}.

Definition bstep (s : bstate) (c : bcall) : bstate :=
  match c with
  | CNot => {| b_tests := b_tests s; b_req := b_req s; b_def := b_def s; b_catch := b_catch s; b_pts := b_pts s; b_not := true |}
  | CBuiltin code params b o =>
    {| b_tests := b_tests s ++ [mk_builtin (b_not s) code params b o]; b_req := b_req s; b_def := b_def s; b_catch := b_catch s;
       b_pts := b_pts s; b_not := false |}
  | CTestFunc id f o =>
    {| b_tests := b_tests s ++ [apply_opts o {| t_id := id; t_code := ""; t_ipath := None; t_msg := None; t_params := []; t_ok := f |}];
       b_req := b_req s; b_def := b_def s; b_catch := b_catch s; b_pts := b_pts s; b_not := b_not s |}
  | CRequired o =>
    {| b_tests := b_tests s;
       b_req := Some (apply_opts o {| t_id := 0; t_code := "required"; t_ipath := None; t_msg := None; t_params := []; t_ok := fun _ => true |});
       b_def := b_def s; b_catch := b_catch s; b_pts := b_pts s; b_not := b_not s |}
  | COptional => {| b_tests := b_tests s; b_req := None; b_def := b_def s; b_catch := b_catch s; b_pts := b_pts s; b_not := b_not s |}
  | CDefault d => {| b_tests := b_tests s; b_req := b_req s; b_def := Some d; b_catch := b_catch s; b_pts := b_pts s; b_not := b_not s |}
  | CCatch d => {| b_tests := b_tests s; b_req := b_req s; b_def := b_def s; b_catch := Some d; b_pts := b_pts s; b_not := b_not s |}
  | CPT p => {| b_tests := b_tests s; b_req := b_req s; b_def := b_def s; b_catch := b_catch s; b_pts := b_pts s ++ [p]; b_not := b_not s |}
  end.

Definition brun (cs : list bcall) : bstate := fold_left bstep cs b0.

(** the primitive schema a chain builds *)
Definition build (k : kind) (co : val -> option dval) (cs : list bcall) : prim :=
  let s := brun cs in
  {| p_kind := k; p_coerce := co; p_req := b_req s; p_def := b_def s; p_catch := b_catch s; p_tests := b_tests s; p_pts := b_pts s |}.

(** ** the declarative reading *)

(** is the flag set after these calls?  (the last call among Not / built-in tests decides) *)
Fixpoint pending_not (cs : list bcall) (acc : bool) : bool :=
  match cs with
  | [] => acc
  | CNot :: r => pending_not r true
  | CBuiltin _ _ _ _ :: r => pending_not r false
  | _ :: r => pending_not r acc
  end.

(** the tests a chain declares, in order: a built-in is negated iff a Not() is pending when it is added *)
Fixpoint denote_tests (cs : list bcall) (pending : bool) : list test :=
  match cs with
  | [] => []
  | CNot :: r => denote_tests r true
  | CBuiltin code params b o :: r => mk_builtin pending code params b o :: denote_tests r false
  | CTestFunc id f o :: r =>
    apply_opts o {| t_id := id; t_code := ""; t_ipath := None; t_msg := None; t_params := []; t_ok := f |} :: denote_tests r pending
  | _ :: r => denote_tests r pending
  end.

Definition last_some {A} (f : bcall -> option (option A)) (cs : list bcall) : option A :=
  fold_left (fun acc c => match f c with Some v => v | None => acc end) cs None.
Definition req_of (c : bcall) : option (option test) :=
  match c with
  | CRequired o => Some (Some (apply_opts o {| t_id := 0; t_code := "required"; t_ipath := None; t_msg := None; t_params := []; t_ok := fun _ => true |}))
  | COptional => Some None
  | _ => None
  end.
Definition def_of (c : bcall) : option (option dval) := match c with CDefault d => Some (Some d) | _ => None end.
Definition catch_of (c : bcall) : option (option dval) := match c with CCatch d => Some (Some d) | _ => None end.
Fixpoint pts_of (cs : list bcall) : list ptr :=
  match cs with [] => [] | CPT p :: r => p :: pts_of r | _ :: r => pts_of r end.
