(** * Pick / Omit / Extend / Merge and later builder calls on struct schemas (struct_helpers.go,
    struct.go Test / PostTransform), over Go slice headers with shared backing arrays.

    A struct schema holds [tests] and [postTransforms] as slices: a header (array, len, cap) over a
    heap of arrays.  [append] writes in place when len < cap — visible to every header over the same
    array — and reallocates otherwise, under an *arbitrary* growth policy.  The field map is an
    association list (later entries win).  The pure semantics next to it assigns every schema an
    immutable value; [Proofs/HelpersP.v] proves the two agree for every sequence of operations. *)
From Coq Require Import String List Arith Bool Lia.
Import ListNotations.
Open Scope string_scope.
Open Scope list_scope.

Record hdr := { h_arr : nat; h_len : nat; h_cap : nat }.
(** an array: the cells written so far and its capacity *)
Definition heap := list (list nat * nat).

Definition cells (h : heap) (a : nat) : list nat := fst (nth a h ([], 0)).
Definition read (h : heap) (s : hdr) : list nat := firstn (h_len s) (cells h (h_arr s)).

Fixpoint upd {A} (l : list A) (i : nat) (x : A) : list A :=
  match l, i with
  | [], _ => []
  | _ :: r, O => x :: r
  | a :: r, S k => a :: upd r k x
  end.

Section Policy.
  Variable grow : nat -> nat.     (* new capacity when an append does not fit (Go: roughly doubling, rounded to a size class) *)
  Variable slack : nat -> nat.    (* spare capacity of a freshly allocated copy of n elements (size-class rounding) *)

  (** append(s, x) *)
  Definition append1 (h : heap) (s : hdr) (x : nat) : heap * hdr :=
    if Nat.ltb (h_len s) (h_cap s) then
      let c := cells h (h_arr s) in
      (upd h (h_arr s) (firstn (h_len s) c ++ x :: skipn (S (h_len s)) c, h_cap s),
       {| h_arr := h_arr s; h_len := S (h_len s); h_cap := h_cap s |})
    else
      let n := S (h_len s) + grow (h_cap s) in
      (h ++ [(read h s ++ [x], n)], {| h_arr := length h; h_len := S (h_len s); h_cap := n |}).

  (** a fresh array holding [l]: append([]T(nil), l...) / make + append *)
  Definition fresh (h : heap) (l : list nat) : heap * hdr :=
    (h ++ [(l, length l + slack (length l))], {| h_arr := length h; h_len := length l; h_cap := length l + slack (length l) |}).

  Record sd := { s_fields : list (string * nat); s_tests : hdr; s_pts : hdr }.
  Record state := { st_heap : heap; st_schemas : list sd }.

  Inductive arg := AStr (k : string) | AMap (m : list (string * bool)).
  Inductive op :=
  | ONew (fields : list (string * nat))
  | OTest (s : nat) (t : nat)
  | OPT (s : nat) (p : nat)
  | OPick (s : nat) (args : list arg)
  | OOmit (s : nat) (args : list arg)
  | OExtend (s : nat) (fields : list (string * nat))
  | OMerge (s o : nat)
  | OMergeN (s : nat) (os : list nat).        (* s.Merge(o1, o2, ...): the variadic form, a left fold of pairwise merges *)

  (** the keys an argument list selects: strings, and map entries that are true *)
  Definition selected (args : list arg) : list string :=
    flat_map (fun a => match a with
                       | AStr k => [k]
                       | AMap m => map fst (filter snd m)
                       end) args.
  Definition mem (k : string) (l : list string) : bool := existsb (String.eqb k) l.
  Definition lookup (k : string) (fs : list (string * nat)) : option nat :=
    match find (fun kv => String.eqb (fst kv) k) (rev fs) with Some kv => Some (snd kv) | None => None end.

  Definition pick_fields (fs : list (string * nat)) (args : list arg) : list (string * nat) :=
    filter (fun kv => mem (fst kv) (selected args)) fs.
  Definition omit_fields (fs : list (string * nat)) (args : list arg) : list (string * nat) :=
    filter (fun kv => negb (mem (fst kv) (selected args))) fs.

  Definition dummy_sd : sd := {| s_fields := []; s_tests := {| h_arr := 0; h_len := 0; h_cap := 0 |}; s_pts := {| h_arr := 0; h_len := 0; h_cap := 0 |} |}.
  Definition get (x : state) (i : nat) : sd := nth i (st_schemas x) dummy_sd.

  (** cloneShallow (repaired): both slices are copied into fresh arrays *)
  Definition clone (x : state) (i : nat) (fields : list (string * nat)) : state :=
    let s := get x i in
    let '(h1, t) := fresh (st_heap x) (read (st_heap x) (s_tests s)) in
    let '(h2, p) := fresh h1 (read h1 (s_pts s)) in
    {| st_heap := h2; st_schemas := st_schemas x ++ [{| s_fields := fields; s_tests := t; s_pts := p |}] |}.

  (** cloneShallow as it was before the repair: the headers are copied, the arrays shared *)
  Definition clone_legacy (x : state) (i : nat) (fields : list (string * nat)) : state :=
    let s := get x i in
    {| st_heap := st_heap x; st_schemas := st_schemas x ++ [{| s_fields := fields; s_tests := s_tests s; s_pts := s_pts s |}] |}.

  Definition step_with (cl : state -> nat -> list (string * nat) -> state) (x : state) (o : op) : state :=
    match o with
    | ONew fields =>
      (* Struct(schema): nil slices (no array yet: len = cap = 0 over a fresh empty array) *)
      let '(h1, t) := (st_heap x ++ [([], 0)], {| h_arr := length (st_heap x); h_len := 0; h_cap := 0 |}) in
      let '(h2, p) := (h1 ++ [([], 0)], {| h_arr := length h1; h_len := 0; h_cap := 0 |}) in
      {| st_heap := h2; st_schemas := st_schemas x ++ [{| s_fields := fields; s_tests := t; s_pts := p |}] |}
    | OTest i t =>
      let s := get x i in
      let '(h1, t') := append1 (st_heap x) (s_tests s) t in
      {| st_heap := h1; st_schemas := upd (st_schemas x) i {| s_fields := s_fields s; s_tests := t'; s_pts := s_pts s |} |}
    | OPT i p =>
      let s := get x i in
      let '(h1, p') := append1 (st_heap x) (s_pts s) p in
      {| st_heap := h1; st_schemas := upd (st_schemas x) i {| s_fields := s_fields s; s_tests := s_tests s; s_pts := p' |} |}
    | OPick i args => cl x i (pick_fields (s_fields (get x i)) args)
    | OOmit i args => cl x i (omit_fields (s_fields (get x i)) args)
    | OExtend i fields => cl x i (s_fields (get x i) ++ fields)
    | OMerge i j =>
      let a := get x i in let b := get x j in
      let '(h1, t) := fresh (st_heap x) (read (st_heap x) (s_tests a) ++ read (st_heap x) (s_tests b)) in
      let '(h2, p) := fresh h1 (read h1 (s_pts a) ++ read h1 (s_pts b)) in
      {| st_heap := h2; st_schemas := st_schemas x ++ [{| s_fields := s_fields a ++ s_fields b; s_tests := t; s_pts := p |}] |}
    | OMergeN i js =>
      (* the intermediate results of the fold are unreachable afterwards: what remains is one schema
         over fresh arrays holding everything in operand order *)
      let parts := map (get x) (i :: js) in
      let '(h1, t) := fresh (st_heap x) (flat_map (fun a => read (st_heap x) (s_tests a)) parts) in
      let '(h2, p) := fresh h1 (flat_map (fun a => read h1 (s_pts a)) parts) in
      {| st_heap := h2; st_schemas := st_schemas x ++ [{| s_fields := flat_map s_fields parts; s_tests := t; s_pts := p |}] |}
    end.

  Definition step := step_with clone.
  Definition step_legacy := step_with clone_legacy.
  Definition init : state := {| st_heap := []; st_schemas := [] |}.
  Definition run (ops : list op) : state := fold_left step ops init.
  Definition run_legacy (ops : list op) : state := fold_left step_legacy ops init.

  (** what a schema is observed to be: its fields, its struct tests and its transforms, in order *)
  Record pschema := { p_fields : list (string * nat); p_tests : list nat; p_pts : list nat }.
  Definition observe (x : state) : list pschema :=
    map (fun s => {| p_fields := s_fields s; p_tests := read (st_heap x) (s_tests s); p_pts := read (st_heap x) (s_pts s) |}) (st_schemas x).

  (** ** the pure semantics: schemas are immutable values *)
  Definition dummy_p : pschema := {| p_fields := []; p_tests := []; p_pts := [] |}.
  Definition pget (l : list pschema) (i : nat) : pschema := nth i l dummy_p.
  Definition pstep (l : list pschema) (o : op) : list pschema :=
    match o with
    | ONew fields => l ++ [{| p_fields := fields; p_tests := []; p_pts := [] |}]
    | OTest i t => let s := pget l i in upd l i {| p_fields := p_fields s; p_tests := p_tests s ++ [t]; p_pts := p_pts s |}
    | OPT i p => let s := pget l i in upd l i {| p_fields := p_fields s; p_tests := p_tests s; p_pts := p_pts s ++ [p] |}
    | OPick i args => let s := pget l i in l ++ [{| p_fields := pick_fields (p_fields s) args; p_tests := p_tests s; p_pts := p_pts s |}]
    | OOmit i args => let s := pget l i in l ++ [{| p_fields := omit_fields (p_fields s) args; p_tests := p_tests s; p_pts := p_pts s |}]
    | OExtend i fields => let s := pget l i in l ++ [{| p_fields := p_fields s ++ fields; p_tests := p_tests s; p_pts := p_pts s |}]
    | OMerge i j => let a := pget l i in let b := pget l j in
                    l ++ [{| p_fields := p_fields a ++ p_fields b; p_tests := p_tests a ++ p_tests b; p_pts := p_pts a ++ p_pts b |}]
    | OMergeN i js => let parts := map (pget l) (i :: js) in
                      l ++ [{| p_fields := flat_map p_fields parts; p_tests := flat_map p_tests parts; p_pts := flat_map p_pts parts |}]
    end.
  Definition prun (ops : list op) : list pschema := fold_left pstep ops [].

  (** operations refer to schemas that exist *)
  Definition op_ok (n : nat) (o : op) : bool :=
    match o with
    | ONew _ => true
    | OTest i _ | OPT i _ | OPick i _ | OOmit i _ | OExtend i _ => Nat.ltb i n
    | OMerge i j => Nat.ltb i n && Nat.ltb j n
    | OMergeN i js => Nat.ltb i n && forallb (fun j => Nat.ltb j n) js
    end.
  Definition grows (o : op) : nat := match o with OTest _ _ | OPT _ _ => 0 | _ => 1 end.
  Fixpoint ops_ok (n : nat) (ops : list op) : bool :=
    match ops with [] => true | o :: r => op_ok n o && ops_ok (n + grows o) r end.
End Policy.
