(** * Built-in tests as boolean functions on destination values.

    Mirrors: internals/tests.go (LenMin LenMax Len In EQ LTE GTE LT GT), string.go (Email URL
    HasPrefix HasSuffix Contains ContainsUpper ContainsDigit ContainsSpecial UUID Match),
    slices.go (sliceMin sliceMax sliceLength Contains), time.go (After Before EQ), boolean.go.
    [url.Parse] and [regexp] are oracles. *)
From Coq Require Import String List ZArith Bool Ascii Lia.
From Coq Require Import Floats.SpecFloat.
From Zog Require Import Model.Val.
Import ListNotations.
Open Scope string_scope.

(** ** structural equality on destination values = reflect.DeepEqual on the types the generator
    uses (floats by ==, times by instant-and-zone) *)
Fixpoint dval_eqb (a b : dval) {struct a} : bool :=
  match a, b with
  | DBool x, DBool y => Bool.eqb x y
  | DInt x, DInt y => Z.eqb x y
  | DFloat x, DFloat y => SFeqb x y
  | DStr x, DStr y => String.eqb x y
  | DTime x, DTime y => time_eqb x y
  | DSlice x, DSlice y =>
    (fix go (l1 l2 : list dval) : bool :=
       match l1, l2 with
       | [], [] => true
       | p :: r1, q :: r2 => dval_eqb p q && go r1 r2
       | _, _ => false
       end) x y
  | DPtr None, DPtr None => true
  | DPtr (Some x), DPtr (Some y) => dval_eqb x y
  | DStruct x, DStruct y =>
    (fix go (l1 l2 : list (string * dval)) : bool :=
       match l1, l2 with
       | [], [] => true
       | (k1, p) :: r1, (k2, q) :: r2 => String.eqb k1 k2 && dval_eqb p q && go r1 r2
       | _, _ => false
       end) x y
  | DOpaque x, DOpaque y => Nat.eqb x y
  | _, _ => false
  end.

(** ** strings *)
Definition slen (s : string) : Z := Z.of_nat (String.length s).

Fixpoint has_prefix (p s : string) : bool :=      (* strings.HasPrefix(s, p) *)
  match p, s with
  | EmptyString, _ => true
  | String a p', String b s' => Ascii.eqb a b && has_prefix p' s'
  | _, _ => false
  end.
Fixpoint contains (sub s : string) : bool :=      (* strings.Contains(s, sub) *)
  has_prefix sub s || match s with EmptyString => false | String _ r => contains sub r end.
Definition has_suffix (suf s : string) : bool :=  (* strings.HasSuffix(s, suf) *)
  let n := String.length s in let k := String.length suf in
  Nat.leb k n && String.eqb (substring (n - k) k s) suf.

Definition byte_in (lo hi : nat) (a : ascii) : bool := let n := nat_of_ascii a in Nat.leb lo n && Nat.leb n hi.
Fixpoint any_byte (f : ascii -> bool) (s : string) : bool :=
  match s with EmptyString => false | String a r => f a || any_byte f r end.
Fixpoint all_bytes (f : ascii -> bool) (s : string) : bool :=
  match s with EmptyString => true | String a r => f a && all_bytes f r end.

Definition is_upper (a : ascii) : bool := byte_in 65 90 a.           (* 'A'..'Z' *)
Definition is_lower (a : ascii) : bool := byte_in 97 122 a.
Definition is_digit (a : ascii) : bool := byte_in 48 57 a.           (* '0'..'9' *)
Definition is_special (a : ascii) : bool :=                          (* '!'..'/' ':'..'@' '['..'`' '{'..'~' *)
  byte_in 33 47 a || byte_in 58 64 a || byte_in 91 96 a || byte_in 123 126 a.
Definition is_alnum (a : ascii) : bool := is_upper a || is_lower a || is_digit a.
Definition is_hex (a : ascii) : bool := is_digit a || byte_in 65 70 a || byte_in 97 102 a.

(** UUID: 8-4-4-4-12 hexadecimal digits (the \b in the regexp are always satisfied between a hex
    digit and '-') *)
Fixpoint take_hex (n : nat) (s : string) : option string :=
  match n with
  | O => Some s
  | S k => match s with String a r => if is_hex a then take_hex k r else None | EmptyString => None end
  end.
Definition take_dash (s : string) : option string :=
  match s with String "-"%char r => Some r | _ => None end.
Definition bind {A B} (o : option A) (f : A -> option B) : option B := match o with Some a => f a | None => None end.
Definition is_uuid (s : string) : bool :=
  match bind (take_hex 8 s) (fun s => bind (take_dash s) (fun s => bind (take_hex 4 s) (fun s =>
        bind (take_dash s) (fun s => bind (take_hex 4 s) (fun s => bind (take_dash s) (fun s =>
        bind (take_hex 4 s) (fun s => bind (take_dash s) (fun s => take_hex 12 s)))))))) with
  | Some EmptyString => true
  | _ => false
  end.

(** Email: ^[a-zA-Z0-9.!#$%&'*+/=?^_`{|}~-]+@label(\.label)*$ with
    label = [a-zA-Z0-9]([a-zA-Z0-9-]{0,61}[a-zA-Z0-9])?  — 1..63 alphanumerics or hyphens, not
    starting or ending with a hyphen. *)
Definition is_local_char (a : ascii) : bool :=
  is_alnum a ||
  existsb (Ascii.eqb a) [".";"!";"#";"$";"%";"&";"'";"*";"+";"/";"=";"?";"^";"_";"`";"{";"|";"}";"~";"-"]%char.

Definition label_ok (l : string) : bool :=
  let n := String.length l in
  Nat.leb 1 n && Nat.leb n 63 &&
  all_bytes (fun a => is_alnum a || Ascii.eqb a "-"%char) l &&
  match l with String a _ => is_alnum a | EmptyString => false end &&
  match get (n - 1) l with Some a => is_alnum a | None => false end.

(** split on a byte *)
Fixpoint split_on (c : ascii) (s : string) (cur : string) : list string :=
  match s with
  | EmptyString => [cur]
  | String a r => if Ascii.eqb a c then cur :: split_on c r "" else split_on c r (cur ++ String a "")
  end.

Fixpoint split_at_first (c : ascii) (s : string) (acc : string) : option (string * string) :=
  match s with
  | EmptyString => None
  | String a r => if Ascii.eqb a c then Some (acc, r) else split_at_first c r (acc ++ String a "")
  end.

(** the local part cannot contain '@', so the first '@' is the separator *)
Definition is_email (s : string) : bool :=
  match split_at_first "@"%char s "" with
  | Some (loc, dom) =>
    negb (match loc with EmptyString => true | _ => false end)
    && all_bytes is_local_char loc && forallb label_ok (split_on "."%char dom "")
  | None => false
  end.

(** ** numbers *)
Inductive cmp := CGt | CGte | CLt | CLte | CEq.
Definition cmp_z (c : cmp) (n v : Z) : bool :=      (* v <op> n *)
  match c with CGt => Z.gtb v n | CGte => Z.geb v n | CLt => Z.ltb v n | CLte => Z.leb v n | CEq => Z.eqb v n end.
Definition cmp_f (c : cmp) (n v : spec_float) : bool :=
  match c with CGt => SFltb n v | CGte => SFleb n v | CLt => SFltb v n | CLte => SFleb v n | CEq => SFeqb v n end.

(** ** The catalogue of built-in tests, as data *)
Inductive btest :=
| BStrMin (n : Z) | BStrMax (n : Z) | BStrLen (n : Z)
| BStrOneOf (l : list string)
| BHasPrefix (p : string) | BHasSuffix (p : string) | BStrContains (p : string)
| BContainsUpper | BContainsDigit | BContainsSpecial
| BEmail | BUUID
| BOracle (b : bool)                      (* URL / Match: the stdlib's verdict on this subject, supplied by the case *)
| BTable (tbl : list (string * bool))     (* URL / Match: the stdlib's verdicts on the candidate subjects of a case *)
| BIntCmp (c : cmp) (n : Z) | BIntOneOf (l : list Z)
| BFloatCmp (c : cmp) (n : spec_float) | BFloatOneOf (l : list spec_float)
| BBoolEq (b : bool)
| BTimeAfter (t : time) | BTimeBefore (t : time) | BTimeEq (t : time)
| BSliceMin (n : Z) | BSliceMax (n : Z) | BSliceLen (n : Z) | BSliceContains (d : dval).

Definition btest_ok (b : btest) (v : dval) : bool :=
  match b, v with
  | BStrMin n, DStr s => Z.geb (slen s) n
  | BStrMax n, DStr s => Z.leb (slen s) n
  | BStrLen n, DStr s => Z.eqb (slen s) n
  | BStrOneOf l, DStr s => existsb (String.eqb s) l
  | BHasPrefix p, DStr s => has_prefix p s
  | BHasSuffix p, DStr s => has_suffix p s
  | BStrContains p, DStr s => contains p s
  | BContainsUpper, DStr s => any_byte is_upper s
  | BContainsDigit, DStr s => any_byte is_digit s
  | BContainsSpecial, DStr s => any_byte is_special s
  | BEmail, DStr s => is_email s
  | BUUID, DStr s => is_uuid s
  | BOracle b, _ => b
  | BTable tbl, DStr s => match alookup s tbl with Some b => b | None => false end
  | BIntCmp c n, DInt z => cmp_z c n z
  | BIntOneOf l, DInt z => existsb (Z.eqb z) l
  | BFloatCmp c n, DFloat f => cmp_f c n f
  | BFloatOneOf l, DFloat f => existsb (SFeqb f) l
  | BBoolEq b, DBool x => Bool.eqb x b
  | BTimeAfter t, DTime x => time_after x t
  | BTimeBefore t, DTime x => time_before x t
  | BTimeEq t, DTime x => time_equal x t
  | BSliceMin n, DSlice l => Z.geb (Z.of_nat (length l)) n
  | BSliceMax n, DSlice l => Z.leb (Z.of_nat (length l)) n
  | BSliceLen n, DSlice l => Z.eqb (Z.of_nat (length l)) n
  | BSliceContains d, DSlice l => existsb (fun e => dval_eqb e d) l
  | _, _ => false
  end.
