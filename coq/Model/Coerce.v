(** * Coercers: conf/Coercers.go (DefaultCoercers, TimeCoercerFactory) and the Int32 / Int64 /
    Float32 adapters of numbers.go, post "fix:" (range checks).

    Exact: strconv.Atoi, strconv.ParseBool, the "on"/"off" forms, int <-> float64 conversions
    (truncation toward zero, round-to-nearest-even), float64 -> float32 rounding, int32 range.
    Oracles (Go stdlib results supplied per case, universally quantified in theorems):
    strconv.ParseFloat, fmt "%v" of non-integers, time.Parse. *)
From Coq Require Import String List ZArith Bool Ascii Lia.
From Coq Require Import Floats.SpecFloat.
From Coq Require Import Numbers.DecimalString Numbers.DecimalZ.
From Zog Require Import Model.Val Model.Engine.
Import ListNotations.
Open Scope string_scope.

Record oracles := {
  o_parse_float : string -> option spec_float;        (* strconv.ParseFloat(s, 64); None = error *)
  o_sprint : val -> string;                           (* fmt.Sprintf("%v", v) for values not rendered exactly below *)
  o_parse_time : string -> string -> option time      (* time.Parse(layout, s); None = error *)
}.

(** ** strconv.Atoi — base 10, optional sign, at least one digit, int64 range *)
Definition digit_val (a : ascii) : option Z :=
  let n := nat_of_ascii a in
  if Nat.leb 48 n && Nat.leb n 57 then Some (Z.of_nat (n - 48)) else None.

Fixpoint digits_val (s : string) (acc : Z) : option Z :=
  match s with
  | EmptyString => Some acc
  | String a r => match digit_val a with Some d => digits_val r (acc * 10 + d)%Z | None => None end
  end.

Definition min_int64 : Z := (- 2 ^ 63)%Z.
Definition max_int64 : Z := (2 ^ 63 - 1)%Z.
Definition min_int32 : Z := (- 2 ^ 31)%Z.
Definition max_int32 : Z := (2 ^ 31 - 1)%Z.
Definition in_int64 (z : Z) : bool := Z.leb min_int64 z && Z.leb z max_int64.
Definition in_int32 (z : Z) : bool := Z.leb min_int32 z && Z.leb z max_int32.

Definition atoi (s : string) : option Z :=
  let '(neg, body) :=
    match s with
    | String "-"%char r => (true, r)
    | String "+"%char r => (false, r)
    | _ => (false, s)
    end in
  match body with
  | EmptyString => None
  | _ => match digits_val body 0 with
         | Some n => let z := if neg then (- n)%Z else n in if in_int64 z then Some z else None
         | None => None
         end
  end.

(** ** strconv.ParseBool *)
Definition parse_bool (s : string) : option bool :=
  if String.eqb s "1" || String.eqb s "t" || String.eqb s "T" || String.eqb s "TRUE" || String.eqb s "true" || String.eqb s "True" then Some true
  else if String.eqb s "0" || String.eqb s "f" || String.eqb s "F" || String.eqb s "FALSE" || String.eqb s "false" || String.eqb s "False" then Some false
  else None.

(** ** floats *)
Definition prec64 : Z := 53.  Definition emax64 : Z := 1024.
Definition prec32 : Z := 24.  Definition emax32 : Z := 128.

(** float64(z): round to nearest even *)
Definition z_to_f64 (z : Z) : spec_float := binary_normalize prec64 emax64 z 0 false.

(** the exact value of a finite float is m * 2^e; truncation toward zero *)
Definition f_trunc (f : spec_float) : option Z :=
  match f with
  | S754_zero _ => Some 0%Z
  | S754_finite s m e =>
    let mag := match e with
               | Z0 => Zpos m
               | Zpos p => (Zpos m * 2 ^ Zpos p)%Z
               | Zneg p => (Zpos m / 2 ^ Zpos p)%Z
               end in
    Some (if s then (- mag)%Z else mag)
  | _ => None     (* NaN, +Inf, -Inf *)
  end.

(** int(v) for float64 v, with the range check -2^63 <= v < 2^63 (which rejects NaN and Inf).
    For finite v the check is equivalent to trunc(v) in int64 range, because 2^63 and -2^63 are
    representable and truncation is monotone. *)
Definition f64_to_int (f : spec_float) : option Z :=
  match f_trunc f with
  | Some z => if in_int64 z then Some z else None
  | None => None
  end.

(** float32(v) for float64 v: round to nearest even at 24 bits; finite overflow is an error (fix),
    Inf and NaN pass through. *)
(** Every float in the model is kept in canonical binary64 form (a float32 is exactly
    representable), so that SpecFloat's comparisons, which assume canonical operands, apply. *)
Definition to64 (f : spec_float) : spec_float :=
  match f with S754_finite s m e => binary_round prec64 emax64 s m e | _ => f end.

Definition f64_to_f32 (f : spec_float) : option spec_float :=
  match f with
  | S754_finite s m e =>
    match binary_round prec32 emax32 s m e with
    | S754_infinity _ => None
    | r => Some (to64 r)
    end
  | _ => Some f
  end.

(** ** "%v" of the values the model renders exactly *)
Definition z_dec (z : Z) : string := NilZero.string_of_int (Z.to_int z).

(** fmt "%v": strings verbatim, integers in decimal, booleans, nil as <nil>, slices as [a b c],
    maps as map[k:v k:v] with the keys in sorted order (association lists in case files are
    key-sorted), floats and everything else through the oracle. *)
Fixpoint join_sp (l : list string) : string :=
  match l with
  | [] => ""
  | [x] => x
  | x :: r => x ++ " " ++ join_sp r
  end.

Fixpoint sprint (o : oracles) (v : val) {struct v} : string :=
  match v with
  | VStr s => s
  | VBool true => "true" | VBool false => "false"
  | VInt z | VI64 z | VI32 z => z_dec z
  | VNil => "<nil>"
  | VList l => "[" ++ join_sp ((fix go (l : list val) : list string :=
                                  match l with [] => [] | x :: r => sprint o x :: go r end) l) ++ "]"
  | VMap m => "map[" ++ join_sp ((fix go (l : list (string * val)) : list string :=
                                    match l with [] => [] | (k, x) :: r => (k ++ ":" ++ sprint o x) :: go r end) m) ++ "]"
  | _ => o_sprint o v
  end.

(** ** conf.DefaultCoercers *)
Definition coerce_bool (v : val) : option bool :=
  match v with
  | VBool b => Some b
  | VStr s => if String.eqb s "on" then Some true else if String.eqb s "off" then Some false else parse_bool s
  | VInt z => if Z.eqb z 0 then Some false else if Z.eqb z 1 then Some true else None
  | _ => None
  end.

Definition coerce_string (o : oracles) (v : val) : option string := Some (sprint o v).

Definition coerce_int (v : val) : option Z :=
  match v with
  | VInt z | VI64 z | VI32 z => Some z
  | VStr s => atoi s
  | VF64 f => f64_to_int f
  | VBool b => Some (if b then 1 else 0)%Z
  | _ => None
  end.

Definition coerce_f64 (o : oracles) (v : val) : option spec_float :=
  match v with
  | VInt z => Some (z_to_f64 z)
  | VStr s => o_parse_float o s
  | VF64 f => Some f
  | VF32 f => Some f          (* float64(float32) is exact *)
  | _ => None
  end.

(** TimeCoercerFactory(format): the layout is the schema's (RFC3339 by default, or Time.Format's). *)
Definition rfc3339 : string := "2006-01-02T15:04:05Z07:00".
Definition coerce_time (o : oracles) (layout : string) (v : val) : option time :=
  match v with
  | VTime t => Some t
  | VStr s => o_parse_time o layout s
  | VInt z | VI64 z => Some {| t_sec := z; t_nsec := 0; t_off := 0 |}   (* time.Unix(v, 0), Local = UTC in the harness *)
  | _ => None
  end.

(** Slice coercer: slice kinds pass, anything else is boxed. *)
Definition coerce_slice (v : val) : option (list val) :=
  match v with
  | VList l => Some l
  | _ => Some [v]
  end.

(** The coercer of a primitive schema of kind [k] with default configuration. *)
Definition coerce_default (o : oracles) (layout : string) (k : kind) (v : val) : option dval :=
  match k with
  | KString => option_map DStr (coerce_string o v)
  | KBool => option_map DBool (coerce_bool v)
  | KInt | KInt64 => option_map DInt (coerce_int v)
  | KInt32 => match coerce_int v with
              | Some z => if in_int32 z then Some (DInt z) else None
              | None => None
              end
  | KFloat64 => option_map DFloat (coerce_f64 o v)
  | KFloat32 => match coerce_f64 o v with
                | Some f => option_map DFloat (f64_to_f32 f)
                | None => None
                end
  | KTime => option_map DTime (coerce_time o layout v)
  end.
