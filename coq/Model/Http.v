(** * zhttp: which source a request is read from (zhttp/zhttp.go, Request) and how a URL-encoded
    source presents a parameter (urlDataProvider.Get — modelled as [url_get] in Model/Engine.v). *)
From Coq Require Import String List Bool Ascii.
From Zog Require Import Model.Val Model.Engine.
Import ListNotations.
Open Scope string_scope.

Inductive src := SrcQuery | SrcJSON | SrcForm.

(** strings.Cut(s, ";"): the text before the first ';' (all of s if there is none) *)
Fixpoint before_semi (s : string) : string :=
  match s with
  | EmptyString => EmptyString
  | String a r => if Ascii.eqb a ";"%char then EmptyString else String a (before_semi r)
  end.

(** ** strings.ToLower(strings.TrimSpace(typ)) == target, for an ASCII target without white space.

    [space_prefix]: the text after one leading white-space rune (Go's unicode.IsSpace set on UTF-8,
    the set of [blank] in Model/Val.v).  [lower_is target s]: the runes of [s] lower-case to the
    characters of [target], and what follows is white space only.  Besides A-Z, exactly two runes
    lower-case into ASCII: U+0130 (C4 B0) to 'i' and U+212A (E2 84 AA) to 'k'; every other
    non-ASCII rune, and every invalid byte (U+FFFD), stays non-ASCII and so never matches. *)
Definition space_prefix (s : string) : option string :=
  match s with
  | EmptyString => None
  | String a r =>
    if ascii_space a then Some r else
    match r with
    | String b r2 =>
      if Nat.eqb (byte a) 194 && (Nat.eqb (byte b) 133 || Nat.eqb (byte b) 160) then Some r2 else
      match r2 with
      | String c r3 =>
        let x := byte a in let y := byte b in let w := byte c in
        if (Nat.eqb x 225 && Nat.eqb y 154 && Nat.eqb w 128)
        || (Nat.eqb x 226 && Nat.eqb y 128 && ((Nat.leb 128 w && Nat.leb w 138)
                                              || Nat.eqb w 168 || Nat.eqb w 169 || Nat.eqb w 175))
        || (Nat.eqb x 226 && Nat.eqb y 129 && Nat.eqb w 159)
        || (Nat.eqb x 227 && Nat.eqb y 128 && Nat.eqb w 128)
        then Some r3 else None
      | EmptyString => None
      end
    | EmptyString => None
    end
  end.

Fixpoint ltrim_fuel (n : nat) (s : string) : string :=
  match n with
  | O => s
  | S n' => match space_prefix s with Some r => ltrim_fuel n' r | None => s end
  end.
Definition ltrim (s : string) : string := ltrim_fuel (String.length s) s.

Definition lower_ascii (a : ascii) : ascii :=
  let n := byte a in if Nat.leb 65 n && Nat.leb n 90 then ascii_of_nat (n + 32) else a.

Fixpoint lower_is (target s : string) : bool :=
  match target with
  | EmptyString => blank s
  | String t tr =>
    match s with
    | EmptyString => false
    | String a r =>
      if Ascii.eqb (lower_ascii a) t then lower_is tr r
      else match r with
           | String b r2 =>
             if Ascii.eqb t "i"%char && Nat.eqb (byte a) 196 && Nat.eqb (byte b) 176 then lower_is tr r2       (* U+0130 *)
             else match r2 with
                  | String c r3 =>
                    if Ascii.eqb t "k"%char && Nat.eqb (byte a) 226 && Nat.eqb (byte b) 132 && Nat.eqb (byte c) 170
                    then lower_is tr r3                                                                        (* U+212A *)
                    else false
                  | EmptyString => false
                  end
           | EmptyString => false
           end
    end
  end.

Definition media_is (target typ : string) : bool := lower_is target (ltrim typ).

Definition by_media_type (typ : string) : src :=
  if media_is "application/json" typ then SrcJSON
  else if media_is "application/x-www-form-urlencoded" typ then SrcForm
  else SrcQuery.

(** zhttp.Request: GET and HEAD read the query; every other method dispatches on the media type *)
Definition http_source (meth ct : string) : src :=
  if String.eqb meth "GET" || String.eqb meth "HEAD" then SrcQuery
  else by_media_type (before_semi ct).

(** the dispatch as it was before the repair: the raw text before the first ';' compared byte for byte *)
Definition by_media_type_legacy (typ : string) : src :=
  if String.eqb typ "application/json" then SrcJSON
  else if String.eqb typ "application/x-www-form-urlencoded" then SrcForm
  else SrcQuery.

(** The tag a source resolves struct fields with, and the code its decode failure carries. *)
Definition src_tag (s : src) : string := match s with SrcQuery => "query" | SrcJSON => "json" | SrcForm => "form" end.
