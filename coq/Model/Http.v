(** * zhttp: which source a request is read from (zhttp/zhttp.go, Request) and how a URL-encoded
    source presents a parameter (urlDataProvider.Get — modelled as [url_get] in Model/Engine.v). *)
From Coq Require Import String List Bool Ascii.
From Zog Require Import Model.Val Model.Engine.
Import ListNotations.
Open Scope string_scope.

Inductive src := SrcQuery | SrcJSON | SrcForm.

(** strings.Cut(s, ";"): the text before the first ';' (all of s if there is none) *)
Fixpoint before_semi (s : string) : string :=
  match s with
  | EmptyString => EmptyString
  | String a r => if Ascii.eqb a ";"%char then EmptyString else String a (before_semi r)
  end.

Definition by_media_type (typ : string) : src :=
  if String.eqb typ "application/json" then SrcJSON
  else if String.eqb typ "application/x-www-form-urlencoded" then SrcForm
  else SrcQuery.

(** zhttp.Request: GET and HEAD read the query; every other method dispatches on the media type *)
Definition http_source (meth ct : string) : src :=
  if String.eqb meth "GET" || String.eqb meth "HEAD" then SrcQuery
  else by_media_type (before_semi ct).

(** The tag a source resolves struct fields with, and the code its decode failure carries. *)
Definition src_tag (s : src) : string := match s with SrcQuery => "query" | SrcJSON => "json" | SrcForm => "form" end.
