(** * Execution options (utilsOptions.go, internals/contexts.go: NewExecCtx, Set, Get, SetIssueFormatter).

    A call builds its execution context from a recycled object and then applies its options in the
    order they were passed.  WithCtxValue stores a value under a key (a Go map: a later value for the
    same key replaces the earlier one); WithIssueFormatter / WithErrFormatter replace the formatter. *)
From Coq Require Import String List Bool.
Import ListNotations.
Open Scope string_scope.

Inductive eopt :=
| OCtx (k v : string)        (* WithCtxValue(k, v); the value is rendered as text *)
| OFmt (prefix : string) (skip : option string).
    (* WithIssueFormatter(f) with f = "set the message to prefix ++ code", except for issues of code [skip], which f leaves
       without a message (they keep the empty message: there is no falling back to another formatter) *)

(** the map as an association list without duplicate keys, newest binding first *)
Fixpoint del (k : string) (m : list (string * string)) : list (string * string) :=
  match m with
  | [] => []
  | (k', v) :: r => if String.eqb k k' then del k r else (k', v) :: del k r
  end.
Definition mset (m : list (string * string)) (k v : string) := (k, v) :: del k m.
Fixpoint mget (m : list (string * string)) (k : string) : option string :=
  match m with
  | [] => None
  | (k', v) :: r => if String.eqb k k' then Some v else mget r k
  end.

Record ectx := { e_fmt : option (string * option string);               (* None: the default formatter (conf.IssueFormatter) *)
                 e_vals : list (string * string) }.

(** NewExecCtx: both fields assigned, whatever the recycled object held *)
Definition new_ectx (dirty : ectx) : ectx := {| e_fmt := None; e_vals := [] |}.
(** ... as seeded mutations have it: the map of the previous call is kept *)
Definition new_ectx_legacy (dirty : ectx) : ectx := {| e_fmt := None; e_vals := e_vals dirty |}.

Definition apply_opt (c : ectx) (o : eopt) : ectx :=
  match o with
  | OCtx k v => {| e_fmt := e_fmt c; e_vals := mset (e_vals c) k v |}
  | OFmt p sk => {| e_fmt := Some (p, sk); e_vals := e_vals c |}
  end.

Definition call_ctx (dirty : ectx) (opts : list eopt) : ectx := fold_left apply_opt opts (new_ectx dirty).
Definition call_ctx_legacy (dirty : ectx) (opts : list eopt) : ectx := fold_left apply_opt opts (new_ectx_legacy dirty).

(** ctx.Get(k) inside any callback of the call *)
Definition ctx_value (dirty : ectx) (opts : list eopt) (k : string) : option string := mget (e_vals (call_ctx dirty opts)) k.
(** the formatter the call's issues go through when their test has none of its own *)
Definition call_fmt (opts : list eopt) : option (string * option string) := e_fmt (call_ctx {| e_fmt := None; e_vals := [] |} opts).

(** the specification: the last option of each kind decides *)
Fixpoint last_ctx (opts : list eopt) (k : string) : option string :=
  match opts with
  | [] => None
  | OCtx k' v :: r => match last_ctx r k with Some w => Some w | None => if String.eqb k k' then Some v else None end
  | OFmt _ _ :: r => last_ctx r k
  end.
Fixpoint last_fmt (opts : list eopt) : option (string * option string) :=
  match opts with
  | [] => None
  | OFmt p sk :: r => match last_fmt r with Some q => Some q | None => Some (p, sk) end
  | OCtx _ _ :: r => last_fmt r
  end.

(** the message a formatter option gives an issue of code [code] *)
Definition fmt_message (f : string * option string) (code : string) : string :=
  match snd f with
  | Some sk => if String.eqb sk code then "" else fst f ++ code
  | None => fst f ++ code
  end.
