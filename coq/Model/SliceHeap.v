(** * Slice-valued defaults over explicit backing arrays (slices.go: Default / process / validate).

    The schema owns one array holding its default.  An execution on an absent input hands the
    caller a destination slice; PostTransforms and, afterwards, the caller may write through it.
    Repaired code (Parse always; Validate since the fix): the destination is a fresh copy.
    Legacy Validate: the destination *is* the schema's array. *)
From Coq Require Import List Arith Lia.
Import ListNotations.

Definition heap := list (list nat).          (* array id -> contents *)
Fixpoint upd {A} (l : list A) (i : nat) (x : A) : list A :=
  match l, i with
  | [], _ => []
  | _ :: r, O => x :: r
  | a :: r, S k => a :: upd r k x
  end.

Record st := { hp : heap; results : list nat }.     (* results: the arrays handed out to callers so far *)
Definition default_id : nat := 0.                   (* the schema's own array *)
Definition init (dflt : list nat) : st := {| hp := [dflt]; results := [] |}.

Inductive op :=
| Exec (pt : list nat -> list nat)                  (* one Parse/Validate on an absent input, with a destination-mutating PostTransform *)
| Scribble (k : nat) (f : list nat -> list nat).    (* the caller overwrites the k-th result it was given *)

(** repaired: copy, then let the PostTransform write the copy *)
Definition step (x : st) (o : op) : st :=
  match o with
  | Exec pt => {| hp := hp x ++ [pt (nth default_id (hp x) [])]; results := results x ++ [length (hp x)] |}
  | Scribble k f =>
    match nth_error (results x) k with
    | Some a => {| hp := upd (hp x) a (f (nth a (hp x) [])); results := results x |}
    | None => x
    end
  end.

(** legacy Validate: refVal.Set(reflect.ValueOf(v.defaultVal)) — the destination aliases the default *)
Definition step_legacy (x : st) (o : op) : st :=
  match o with
  | Exec pt => {| hp := upd (hp x) default_id (pt (nth default_id (hp x) [])); results := results x ++ [default_id] |}
  | Scribble k f =>
    match nth_error (results x) k with
    | Some a => {| hp := upd (hp x) a (f (nth a (hp x) [])); results := results x |}
    | None => x
    end
  end.

Definition run (dflt : list nat) (ops : list op) : st := fold_left step ops (init dflt).
Definition run_legacy (dflt : list nat) (ops : list op) : st := fold_left step_legacy ops (init dflt).

(** what the n-th execution produced at the moment it returned: traced separately *)
Fixpoint produced (x : st) (ops : list op) : list (list nat) :=
  match ops with
  | [] => []
  | Exec pt :: r => pt (nth default_id (hp x) []) :: produced (step x (Exec pt)) r
  | o :: r => produced (step x o) r
  end.
