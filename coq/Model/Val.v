(** * Values: input data ([val]), destination values ([dval]), time, absence.

    Mirrors: the dynamic values zog receives ([any]) and the typed destination it writes through
    pointers; [internals/zeroValues.go] (IsParseZeroValue, IsZeroValue). *)
From Coq Require Import String List ZArith Bool Ascii Lia.
From Coq Require Import Floats.SpecFloat.
From Coq Require Import Numbers.DecimalString Numbers.DecimalNat.
Import ListNotations.
Open Scope string_scope.

(** time.Time as (unix seconds, nanoseconds, zone offset in seconds).  [After/Before/Equal] compare
    the instant (sec, nsec) only; the zone matters only for [IsZero] of the struct. *)
Record time := { t_sec : Z; t_nsec : Z; t_off : Z }.
Definition go_zero_time : time := {| t_sec := (-62135596800)%Z; t_nsec := 0%Z; t_off := 0%Z |}.
Definition time_eqb (a b : time) : bool :=
  Z.eqb (t_sec a) (t_sec b) && Z.eqb (t_nsec a) (t_nsec b) && Z.eqb (t_off a) (t_off b).
Definition time_is_zero (t : time) : bool := time_eqb t go_zero_time.
(* instants *)
Definition time_equal (a b : time) : bool := Z.eqb (t_sec a) (t_sec b) && Z.eqb (t_nsec a) (t_nsec b).
Definition time_before (a b : time) : bool :=
  Z.ltb (t_sec a) (t_sec b) || (Z.eqb (t_sec a) (t_sec b) && Z.ltb (t_nsec a) (t_nsec b)).
Definition time_after (a b : time) : bool := time_before b a.

(** Input data as Go dynamic values.  The constructors are the dynamic types the default coercers
    and the data providers distinguish; anything else is [VOther]. *)
Inductive val : Type :=
| VNil
| VBool (b : bool)
| VInt (z : Z)                 (* int *)
| VI64 (z : Z)                 (* int64 *)
| VI32 (z : Z)                 (* int32 *)
| VF64 (f : spec_float)        (* float64 *)
| VF32 (f : spec_float)        (* float32 *)
| VStr (s : string)
| VTime (t : time)
| VList (l : list val)         (* []any and every other slice kind *)
| VMap (m : list (string * val))   (* map[string]any (key-unique association list) *)
| VOther (n : nat).            (* a value of any other dynamic type (tagged) *)

(** Destination values: what lives behind the destination pointer. *)
Inductive dval : Type :=
| DBool (b : bool)
| DInt (z : Z)                 (* int, int32, int64 destinations *)
| DFloat (f : spec_float)      (* float32, float64 destinations *)
| DStr (s : string)
| DTime (t : time)
| DSlice (l : list dval)       (* nil and empty slices are both [DSlice []]; see [dslice_nil] note *)
| DPtr (o : option dval)
| DStruct (fs : list (string * dval))   (* keyed by schema key; fields the schema does not name are extra entries *)
| DOpaque (n : nat).           (* destination of a custom schema with a type the model does not inspect *)

(** ** strings.TrimSpace(s) == ""  — exactly Go's unicode.IsSpace set, on UTF-8 bytes.
    U+0009..U+000D, U+0020, U+0085, U+00A0, U+1680, U+2000..U+200A, U+2028, U+2029, U+202F, U+205F,
    U+3000.  Invalid UTF-8 decodes to U+FFFD, which is not a space. *)
Definition byte (a : ascii) : nat := nat_of_ascii a.
Definition ascii_space (a : ascii) : bool :=
  let n := byte a in (Nat.leb 9 n && Nat.leb n 13) || Nat.eqb n 32.

Fixpoint blank (s : string) : bool :=
  match s with
  | EmptyString => true
  | String a r =>
    if ascii_space a then blank r else
    match r with
    | String b r2 =>
      if Nat.eqb (byte a) 194 && (Nat.eqb (byte b) 133 || Nat.eqb (byte b) 160) then blank r2 else
      match r2 with
      | String c r3 =>
        let x := byte a in let y := byte b in let w := byte c in
        if (Nat.eqb x 225 && Nat.eqb y 154 && Nat.eqb w 128)                                  (* U+1680 *)
        || (Nat.eqb x 226 && Nat.eqb y 128 && ((Nat.leb 128 w && Nat.leb w 138)               (* U+2000..200A *)
                                              || Nat.eqb w 168 || Nat.eqb w 169 || Nat.eqb w 175)) (* 2028 2029 202F *)
        || (Nat.eqb x 226 && Nat.eqb y 129 && Nat.eqb w 159)                                  (* U+205F *)
        || (Nat.eqb x 227 && Nat.eqb y 128 && Nat.eqb w 128)                                  (* U+3000 *)
        then blank r3 else false
      | EmptyString => false
      end
    | EmptyString => false
    end
  end.

(** internals.IsParseZeroValue: nil, or a string that is blank after trimming. *)
Definition parse_zero (v : val) : bool :=
  match v with
  | VNil => true
  | VStr s => blank s
  | _ => false
  end.

(** Is the float the numeric zero (Go: v.Float() == 0, so -0 counts)? *)
Definition sf_is_zero (f : spec_float) : bool :=
  match f with S754_zero _ => true | _ => false end.

(** internals.IsZeroValue on the value behind the pointer: reflect.Value.IsZero. *)
Fixpoint go_zero (d : dval) : bool :=
  match d with
  | DBool b => negb b
  | DInt z => Z.eqb z 0
  | DFloat f => sf_is_zero f
  | DStr s => match s with EmptyString => true | _ => false end
  | DTime t => time_is_zero t
  | DSlice l => match l with [] => true | _ => false end   (* nil; a non-nil empty slice is handled by Len()==0 at the only call site *)
  | DPtr o => match o with None => true | Some _ => false end
  | DStruct fs => forallb (fun kv => go_zero (snd kv)) fs
  | DOpaque _ => false
  end.

(** Association lists *)
Definition alookup {A} (k : string) (m : list (string * A)) : option A :=
  match find (fun kv => String.eqb (fst kv) k) m with Some kv => Some (snd kv) | None => None end.

Definition dlookup (k : string) (m : list (string * dval)) : dval :=
  match alookup k m with Some v => v | None => DOpaque 0 end.
Fixpoint dset (k : string) (v : dval) (m : list (string * dval)) : list (string * dval) :=
  match m with
  | [] => []
  | (k', v') :: r => if String.eqb k k' then (k, v) :: r else (k', v') :: dset k v r
  end.

(** decimal rendering of a slice index: fmt.Sprintf("[%d]", idx) *)
Definition nat_dec (n : nat) : string := NilZero.string_of_uint (Nat.to_uint n).
Definition idx_seg (i : nat) : string := "[" ++ nat_dec i ++ "]".

(** The input-data view of a destination value (a Go value of the destination type presented as
    data, e.g. the elements of a typed slice default). *)
Fixpoint val_of_dval (d : dval) : val :=
  match d with
  | DBool b => VBool b
  | DInt z => VInt z
  | DFloat f => VF64 f
  | DStr s => VStr s
  | DTime t => VTime t
  | DSlice l => VList (map val_of_dval l)
  | DPtr None => VNil
  | DPtr (Some x) => val_of_dval x
  | DStruct fs => VMap (map (fun kv => (fst kv, val_of_dval (snd kv))) fs)
  | DOpaque n => VOther n
  end.
