(** * Issue messages: conf.NewDefaultFormatter, the i18n formatter and the precedence of formatters
    (conf/issueFormatConf.go, i18n/i18n.go, internals/contexts.go IssueFromTest / ExecCtx.AddIssue). *)
From Coq Require Import String List Bool Ascii.
From Zog Require Import Model.Val Model.Preds.
Import ListNotations.
Open Scope string_scope.

Definition langmap := list (string * list (string * string)).      (* type -> code -> template *)

(** the names between "{{" and "}}" in a template, in order *)
Fixpoint ph_scan (s : string) (cur : option string) : list string :=
  match s with
  | EmptyString => []
  | String a r =>
    match cur with
    | None =>
      match r with
      | String b r2 => if Ascii.eqb a "{"%char && Ascii.eqb b "{"%char then ph_scan r2 (Some "") else ph_scan r None
      | EmptyString => []
      end
    | Some name =>
      match r with
      | String b r2 => if Ascii.eqb a "}"%char && Ascii.eqb b "}"%char then name :: ph_scan r2 None
                       else ph_scan r (Some (name ++ String a ""))
      | EmptyString => []
      end
    end
  end.
Definition placeholders (t : string) : list string := ph_scan t None.

(** strings.ReplaceAll(s, old, new) for a non-empty [old] *)
Fixpoint replace_aux (old new : string) (s : string) (skip : nat) : string :=
  match s with
  | EmptyString => EmptyString
  | String a r =>
    match skip with
    | S k => replace_aux old new r k
    | O => if has_prefix old s then new ++ replace_aux old new r (String.length old - 1)
           else String a (replace_aux old new r 0)
    end
  end.
Definition replace_all (s old new : string) : string := replace_aux old new s 0.

Definition lookup2 (m : langmap) (t c : string) : option string :=
  match alookup t m with Some cs => alookup c cs | None => None end.

(** strings.NewReplacer(old1, new1, old2, new2, ...).Replace(s) for non-empty olds: one pass over s; at
    each position the first pair (in argument order) whose old is a prefix of the rest is applied and
    the scan goes on behind it; what a replacement inserts is not scanned again *)
Fixpoint multi_aux (pairs : list (string * string)) (s : string) (skip : nat) : string :=
  match s with
  | EmptyString => EmptyString
  | String a r =>
    match skip with
    | S k => multi_aux pairs r k
    | O => match find (fun p => has_prefix (fst p) s) pairs with
           | Some p => snd p ++ multi_aux pairs r (String.length (fst p) - 1)
           | None => String a (multi_aux pairs r 0)
           end
    end
  end.
Definition multi_replace (pairs : list (string * string)) (s : string) : string := multi_aux pairs s 0.

Definition ph (name : string) : string := "{{" ++ name ++ "}}".
Definition ph_pairs (params : list (string * string)) : list (string * string) :=
  map (fun kv => (ph (fst kv), snd kv)) params.

(** NewDefaultFormatter(m) (repaired): the template for (type, code), else the type's fallback; every
    {{key}} of the issue's params and {{value}} substituted by the %v rendering, in one pass *)
Definition default_format (m : langmap) (dtype code : string) (params : list (string * string)) (value : string) : string :=
  match lookup2 m dtype code with
  | None => match lookup2 m dtype "fallback" with Some f => f | None => "" end
  | Some tpl => multi_replace (ph_pairs (params ++ [("value", value)])) tpl
  end.

(** ... as it was: one strings.ReplaceAll per parameter, in the order the params map is ranged over,
    then {{value}} *)
Definition default_format_legacy (m : langmap) (dtype code : string) (params : list (string * string)) (value : string) : string :=
  match lookup2 m dtype code with
  | None => match lookup2 m dtype "fallback" with Some f => f | None => "" end
  | Some tpl =>
    let msg := fold_left (fun acc kv => replace_all acc ("{{" ++ fst kv ++ "}}") (snd kv)) params tpl in
    replace_all msg "{{value}}" value
  end.

(** i18n.SetLanguagesErrsMap(m, default): the language named in this execution's context, else the default *)
Definition i18n_format (langs : list (string * langmap)) (default : string) (ctx_lang : option string)
           (dtype code : string) (params : list (string * string)) (value : string) : string :=
  let pick l := match alookup l langs with Some m => Some m | None => None end in
  let m := match ctx_lang with
           | Some l => match pick l with Some m => m | None => match pick default with Some m => m | None => [] end end
           | None => match pick default with Some m => m | None => [] end
           end in
  default_format m dtype code params value.

(** which message an issue gets: the test's own Message / MessageFunc if it sets one, else the
    execution's formatter (WithIssueFormatter) if one was given, else the global formatter *)
Definition choose_message (test_msg : option string) (exec_fmt : option string) (global : string) : string :=
  let outer := match exec_fmt with Some e => e | None => global end in
  match test_msg with
  | Some EmptyString => outer
  | Some m => m
  | None => outer
  end.

(** a catalogue entry is fully described in a language: a non-empty template (or a non-empty
    fallback for the type) whose placeholders are all parameters of the test (or {{value}}) *)
Definition mem_str (k : string) (l : list string) : bool := existsb (String.eqb k) l.
Definition entry_ok (m : langmap) (e : string * string * list string) : bool :=
  let '(dtype, code, keys) := e in
  match lookup2 m dtype code with
  | Some tpl => negb (String.eqb tpl "") && forallb (fun p => mem_str p ("value" :: keys)) (placeholders tpl)
  | None => match lookup2 m dtype "fallback" with
            | Some f => negb (String.eqb f "") && forallb (fun p => mem_str p ["value"]) (placeholders f)
            | None => false
            end
  end.
