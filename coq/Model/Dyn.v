(** * Dynamic types of input data at struct positions (internals/DataProviders.go:
    TryNewAnyDataProvider, convertMap, StructDataProvider.Get, the pointer case) with every Go
    operation that can panic made explicit.  [Panic] is an outcome, never a stuck term. *)
From Coq Require Import String List Bool.
From Zog Require Import Model.Val Model.Engine.
Import ListNotations.
Open Scope string_scope.

Inductive outcome (A : Type) := Done (a : A) | Panic (why : string).
Arguments Done {A} a.
Arguments Panic {A} why.

(** element kind of a map type, as reflect sees it *)
Inductive elemkind := EString | EInt | EFloat64 | EBool | EIface | EOtherKind.

Record maptype := {
  mt_named : bool;          (* the map type itself is a named type: type M map[...]... *)
  mt_key_string_kind : bool;  (* key kind is reflect.String *)
  mt_key_exact : bool;      (* the key type is exactly `string` (not a named string type) *)
  mt_elem : elemkind;
  mt_elem_exact : bool      (* the element type is exactly string / int / float64 / bool / any *)
}.

Inductive gval :=
| GNil                                                      (* untyped nil *)
| GProvider                                                 (* a value that implements DataProvider *)
| GMap (t : maptype) (is_nil : bool) (entries : list (string * bool))   (* entries: key -> is the value present (non-nil, non-blank)? *)
| GStruct (fields : list (string * bool * bool))            (* field name, exported?, value present? *)
| GPtr (v : option gval)                                    (* a pointer: nil, or to a value *)
| GOther.                                                   (* any other kind: string, number, slice, array, chan, func ... *)

(** what a struct schema gets to read: a way to ask "is key k present?" — or an error (coerce issue) *)
Inductive dprov := DEmpty | DKeys (present : list (string * bool)) | DFields (fields : list (string * bool * bool)) | DUser.
Inductive presult := POk (p : dprov) | PErr.

(** convertMap[M]: the checked assertion, else reflect Convert when the types are convertible *)
Definition convertible (t : maptype) : bool := mt_key_exact t && mt_elem_exact t.    (* identical underlying map type *)

Definition map_provider (t : maptype) (entries : list (string * bool)) : presult :=
  if negb (mt_key_string_kind t) then PErr
  else match mt_elem t with
       | EOtherKind => PErr
       | _ => if convertible t then (match entries with [] => POk DEmpty | _ => POk (DKeys entries) end) else PErr
       end.

(** repaired: checked assertions, CanInterface guard, nil check at every pointer level *)
Fixpoint try_provider (g : gval) : outcome presult :=
  match g with
  | GNil => Done (POk DEmpty)
  | GProvider => Done (POk DUser)
  | GMap t _ entries => Done (map_provider t entries)
  | GStruct fs => Done (POk (DFields fs))
  | GPtr None => Done (POk DEmpty)
  | GPtr (Some v) => try_provider v
  | GOther => Done PErr
  end.

(** legacy: `x.Interface().(map[string]X)` unchecked — panics unless the type is exactly map[string]X *)
Definition map_provider_legacy (t : maptype) (entries : list (string * bool)) : outcome presult :=
  if negb (mt_key_string_kind t) then Done PErr
  else match mt_elem t with
       | EOtherKind => Done PErr
       | _ => if negb (mt_named t) && convertible t
              then Done (match entries with [] => POk DEmpty | _ => POk (DKeys entries) end)
              else Panic "interface conversion: interface {} is a named or differently typed map"
       end.
Fixpoint try_provider_legacy (g : gval) : outcome presult :=
  match g with
  | GMap t _ entries => map_provider_legacy t entries
  | GPtr (Some v) => try_provider_legacy v
  | GNil => Done (POk DEmpty) | GProvider => Done (POk DUser) | GStruct fs => Done (POk (DFields fs))
  | GPtr None => Done (POk DEmpty) | GOther => Done PErr
  end.

(** the seeded variant that unwraps all pointer levels at once without a nil check at inner levels *)
Fixpoint unwrap_all (g : gval) : outcome gval :=
  match g with
  | GPtr None => Panic "reflect: call of reflect.Value.Interface on zero Value"
  | GPtr (Some v) => unwrap_all v
  | _ => Done g
  end.

(** field lookup: is the value for key k present?  StructDataProvider.Get: FieldByName, invalid or
    not CanInterface (unexported) => nil *)
Definition lookup_present (p : dprov) (k : string) : outcome bool :=
  match p with
  | DEmpty => Done false
  | DUser => Done false
  | DKeys ps => Done (match alookup k ps with Some b => b | None => false end)
  | DFields fs =>
    match find (fun f => String.eqb (fst (fst f)) k) fs with
    | Some f => Done (if snd (fst f) then snd f else false)     (* exported: its value; unexported: treated as absent *)
    | None => Done false
    end
  end.
(** legacy: field.Interface() on an unexported field panics *)
Definition lookup_present_legacy (p : dprov) (k : string) : outcome bool :=
  match p with
  | DFields fs =>
    match find (fun f => String.eqb (fst (fst f)) k) fs with
    | Some f => if snd (fst f) then Done (snd f) else Panic "reflect.Value.Interface: cannot return value obtained from unexported field or method"
    | None => Done false
    end
  | _ => lookup_present p k
  end.

(** fields promoted from an embedded pointer: [behind_nil] names the fields whose embedded pointer is
    nil.  Repaired: the field is resolved through the type and FieldByIndexErr, an unreachable field is
    absent.  Legacy: reflect's FieldByName panics on the way to it, whether or not it is exported. *)
Definition lookup_promoted (behind_nil : list string) (p : dprov) (k : string) : outcome bool :=
  if existsb (String.eqb k) behind_nil then Done false else lookup_present p k.
Definition lookup_promoted_legacy (behind_nil : list string) (p : dprov) (k : string) : outcome bool :=
  if existsb (String.eqb k) behind_nil then Panic "reflect: indirection through nil pointer to embedded struct" else lookup_present p k.

(** PathBuilder.String as it was: the first byte of every segment that follows a non-empty one is
    read, so an empty segment there (a field keyed [zog:""] below another key) is an index out of
    range.  Repaired: [render_from] (Model/Engine.v) writes an empty segment like any other key. *)
Fixpoint render_legacy (prev : string) (segs : list string) : outcome string :=
  match segs with
  | [] => Done ""
  | v :: r =>
    if negb (is_empty prev) && is_empty v then Panic "index out of range [0] with length 0"
    else match render_legacy v r with
         | Panic w => Panic w
         | Done t => Done ((if negb (is_empty prev) && negb (starts_with_bracket v) then "." else "") ++ v ++ t)
         end
  end.

(** upper-casing the first byte of a schema key (struct.go): any length *)
Definition field_name (key : string) : outcome string :=
  match key with
  | EmptyString => Panic "index out of range [0] with length 0"     (* an empty schema key: misconfiguration *)
  | String a r => let n := Ascii.nat_of_ascii a in
                  Done (if Nat.leb 97 n && Nat.leb n 122 then String (Ascii.ascii_of_nat (n - 32)) r else key)
  end.
(** legacy: through a fixed [32]byte buffer *)
Definition field_name_legacy (key : string) : outcome string :=
  if Nat.ltb 32 (String.length key) then Panic "slice bounds out of range [:33] with capacity 32" else field_name key.

(** one Parse of a struct schema whose fields are the keys [ks]: the root coerce flag and which keys are absent *)
Definition field_step (p : dprov) (acc : outcome (bool * list (string * bool))) (k : string) : outcome (bool * list (string * bool)) :=
  match acc with
  | Panic w => Panic w
  | Done (c, l) => match field_name k with
                   | Panic w => Panic w
                   | Done _ => match lookup_present p k with
                               | Panic w => Panic w
                               | Done b => Done (c, (l ++ [(k, b)])%list)
                               end
                   end
  end.
Definition parse_struct (g : gval) (ks : list string) : outcome (bool * list (string * bool)) :=
  match try_provider g with
  | Panic w => Panic w
  | Done PErr => Done (true, [])
  | Done (POk p) => fold_left (field_step p) ks (Done (false, []))
  end.
