(** * L3: concurrent executions over shared schemas and shared pools.

    Locations are labelled by who may touch them: the schema (shared by everybody), a pooled object
    (held by one execution between Get and Put), a destination or an input (given to one call).
    An execution step is an event with a read set and a write set.  The ownership discipline every
    Parse / Validate follows: it writes only its own destination and the pooled objects it holds,
    and reads, besides those, only the schema and its own input. *)
From Coq Require Import List Arith Bool.
From Zog Require Import Model.Objects.
Import ListNotations.

Inductive loc :=
| LSchema (n : nat)              (* a field of a schema object (tests, defaults, the key map ...) *)
| LObj (addr n : nat)            (* a field of a pooled object *)
| LDest (call n : nat)           (* the destination given to one call *)
| LInput (call n : nat).         (* the input data given to one call *)

Record event := { e_call : nat; e_reads : list loc; e_writes : list loc }.

(** who holds which pooled object right now: at most one call per address *)
Definition owners := list (nat * nat).    (* (address, call) *)
Definition holds (o : owners) (c a : nat) : Prop := In (a, c) o.
Definition functional (o : owners) : Prop := forall a c1 c2, In (a, c1) o -> In (a, c2) o -> c1 = c2.

Definition may_write (o : owners) (c : nat) (l : loc) : Prop :=
  match l with
  | LSchema _ => False
  | LInput _ _ => False
  | LDest c' _ => c' = c
  | LObj a _ => holds o c a
  end.
Definition may_read (o : owners) (c : nat) (l : loc) : Prop :=
  match l with
  | LSchema _ => True
  | LInput c' _ | LDest c' _ => c' = c
  | LObj a _ => holds o c a
  end.

Definition disciplined (o : owners) (e : event) : Prop :=
  (forall l, In l (e_writes e) -> may_write o (e_call e) l) /\ (forall l, In l (e_reads e) -> may_read o (e_call e) l).

(** two events of different calls race when one writes a location the other reads or writes *)
Definition races (e1 e2 : event) : Prop :=
  e_call e1 <> e_call e2 /\ exists l, (In l (e_writes e1) /\ (In l (e_reads e2) \/ In l (e_writes e2)))
                                      \/ (In l (e_writes e2) /\ (In l (e_reads e1) \/ In l (e_writes e1))).

(** the holders of pooled objects, as the pools evolve: [Get] by call c of any object the pool or the
    allocator hands out, [Put] by its holder *)
Record tstate := { t_pool : list nat; t_held : owners; t_next : nat }.
Inductive top := TGet (c : nat) (choice : option nat) | TPut (c a : nat).
Definition tstep (x : tstate) (o : top) : tstate :=
  match o with
  | TGet c choice =>
    match choice with
    | Some i => match nth_error (t_pool x) i with
                | Some a => {| t_pool := firstn i (t_pool x) ++ skipn (S i) (t_pool x); t_held := (a, c) :: t_held x; t_next := t_next x |}
                | None => {| t_pool := t_pool x; t_held := (t_next x, c) :: t_held x; t_next := S (t_next x) |}
                end
    | None => {| t_pool := t_pool x; t_held := (t_next x, c) :: t_held x; t_next := S (t_next x) |}
    end
  | TPut c a =>
    if existsb (fun ac => Nat.eqb (fst ac) a && Nat.eqb (snd ac) c) (t_held x)
    then {| t_pool := a :: t_pool x; t_held := filter (fun ac => negb (Nat.eqb (fst ac) a)) (t_held x); t_next := t_next x |}
    else x   (* only the holder can put an object back *)
  end.
Definition trun (ops : list top) : tstate := fold_left tstep ops {| t_pool := []; t_held := []; t_next := 0 |}.
