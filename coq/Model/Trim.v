(** * strings.TrimSpace (zenv applies it to every environment value before the schema sees it).
    Leading white space is removed rune by rune ([ltrim], Model/Http.v); trailing white space: a
    suffix is dropped as soon as everything from there on is white space ([blank], Model/Val.v).
    Invalid UTF-8 is never white space, exactly as in Go (it decodes to U+FFFD). *)
From Coq Require Import String List Bool Ascii.
From Zog Require Import Model.Val Model.Http.
Import ListNotations.
Open Scope string_scope.

Fixpoint rtrim (s : string) : string :=
  match s with
  | EmptyString => EmptyString
  | String a r => if blank s then EmptyString else String a (rtrim r)
  end.

Definition trim_space (s : string) : string := rtrim (ltrim s).
