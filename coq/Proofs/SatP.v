(** * Success means valid (property C01): if an execution produces no issue, the destination
    satisfies every declared constraint, at every depth — for schemas without PostTransforms (a user
    transform may legitimately change a value after it was tested). *)
From Coq Require Import String List ZArith Bool.
From Zog Require Import Model.Val Model.Engine Spec.Sem Spec.Satisfies Proofs.Refine Proofs.Indep.
Import ListNotations.
Open Scope string_scope.
Open Scope list_scope.

(** the destination has the shape the schema expects (otherwise zog panics: misconfiguration) *)
Fixpoint wf (s : sch) (d : dval) {struct s} : Prop :=
  match s with
  | SStruct fs _ _ =>
    NoDup (map fst fs) /\ exists dfs, d = DStruct dfs /\
      (fix go (l : list field) : Prop :=
         match l with [] => True | kc :: r => In (fst kc) (map fst dfs) /\ wf (snd (snd kc)) (dlookup (fst kc) dfs) /\ go r end) fs
  | SSlice e c => wf e (sl_zero c) /\ (forall x, In x (dslice_items d) -> wf e x)
                  /\ (forall dl x, sl_def c = Some dl -> In x dl -> wf e x)
  | SPtr e _ pz => wf e pz /\ (forall y, d = DPtr (Some y) -> wf e y)
  | SPre f e => wf e d /\ (forall d1, pre_valid f d = inl d1 -> wf e d1)
  | _ => True
  end.

Lemma rerrored_under_app k l r : rerrored (under k l ++ r) = false -> rerrored l = false /\ rerrored r = false.
Proof. rewrite rerrored_app, rerrored_under. apply orb_false_elim. Qed.

Lemma tests_all_ok dtype ts v : rerrored (sem_tests_all dtype ts v) = false -> all_ok ts v = true.
Proof.
  unfold sem_tests_all, all_ok. induction ts as [|t r IH]; cbn; [reflexivity|].
  rewrite rerrored_app. intros H. apply orb_false_elim in H. destruct H as [H1 H2]. rewrite (IH H2), andb_true_r.
  unfold sem_test in H1. rewrite rerrored_app, rerrored_rcall in H1. cbn in H1. now destruct (t_ok t v).
Qed.

Lemma prim_sat m p dat d e0 : p_pts p = [] -> rerrored (fst (sem_prim m p dat d e0)) = false ->
  sat_prim m p dat (snd (sem_prim m p dat d e0)) = true.
Proof.
  intros Ep. unfold sem_prim. rewrite Ep.
  set (dtype := dtype_of (p_kind p)).
  assert (T : forall v, rerrored (fst (sem_prim_tests dtype (p_tests p) (p_catch p) v)) = false ->
                        all_ok (p_tests p) (snd (sem_prim_tests dtype (p_tests p) (p_catch p) v)) = true \/ p_catch p <> None).
  { intros v. unfold sem_prim_tests. destruct (p_catch p); [right; congruence|]. cbn [fst snd]. left. now apply (tests_all_ok dtype). }
  assert (C : forall b : bool, (if b then true else false) = b) by (now intros []).
  unfold sat_prim.
  destruct m.
  - destruct (parse_zero dat) eqn:Z.
    + destruct (p_def p) as [dv|].
      * destruct (sem_prim_tests dtype (p_tests p) (p_catch p) dv) as [l d1] eqn:E. rewrite then_pts_nil. cbn [fst snd].
        rewrite app_nil_r. intros H. specialize (T dv). rewrite E in T. cbn [fst snd] in T. destruct (T H) as [A|A]; [now rewrite A|].
        destruct (p_catch p); [now rewrite orb_true_r | congruence].
      * destruct (p_req p) as [rt|].
        -- destruct (p_catch p); rewrite then_pts_nil; cbn [fst snd]; [reflexivity | discriminate].
        -- rewrite then_pts_nil. reflexivity.
    + destruct (p_coerce p dat) as [v|].
      * destruct (sem_prim_tests dtype (p_tests p) (p_catch p) v) as [l d1] eqn:E. rewrite then_pts_nil. cbn [fst snd].
        rewrite app_nil_r. intros H. specialize (T v). rewrite E in T. cbn [fst snd] in T. destruct (T H) as [A|A]; [now rewrite A|].
        destruct (p_catch p); [now rewrite orb_true_r | congruence].
      * destruct (p_catch p); rewrite then_pts_nil; cbn [fst snd]; [intros _; now rewrite orb_true_r | discriminate].
  - assert (K : forall d1 : dval, (all_ok (p_tests p) d1 = true \/ p_catch p <> None) ->
        (if go_zero d1 then match p_def p with Some _ => all_ok (p_tests p) d1 || match p_catch p with Some _ => true | None => false end
                                              | None => negb (is_some (p_req p)) || match p_catch p with Some _ => true | None => false end end
         else all_ok (p_tests p) d1 || match p_catch p with Some _ => true | None => false end) = true \/ p_def p = None).
    { intros d1 [A|A].
      - rewrite A. destruct (go_zero d1); [destruct (p_def p); [now left | now right] | now left].
      - destruct (p_catch p); [|congruence]. left. rewrite !orb_true_r. destruct (go_zero d1); [destruct (p_def p)|]; reflexivity. }
    destruct (go_zero d) eqn:Z.
    + destruct (p_def p) as [dv|] eqn:Ed.
      * destruct (sem_prim_tests dtype (p_tests p) (p_catch p) dv) as [l d1] eqn:E. rewrite then_pts_nil. cbn [fst snd].
        rewrite app_nil_r. intros H. specialize (T dv). rewrite E in T. cbn [fst snd] in T.
        destruct (K d1 (T H)) as [G|G]; [exact G | discriminate].
      * destruct (p_req p) as [rt|].
        -- destruct (p_catch p) as [cv|]; rewrite then_pts_nil; cbn [fst snd]; [|discriminate]. intros _.
           destruct (go_zero cv); now rewrite ?orb_true_r.
        -- rewrite then_pts_nil. cbn [fst snd]. intros _. now rewrite Z.
    + destruct (sem_prim_tests dtype (p_tests p) (p_catch p) d) as [l d1] eqn:E. rewrite then_pts_nil. cbn [fst snd].
      rewrite app_nil_r. intros H. specialize (T d). rewrite E in T. cbn [fst snd] in T.
      destruct (T H) as [A|A].
      * rewrite A. destruct (go_zero d1) eqn:Z1; [|reflexivity]. destruct (p_def p); [reflexivity|].
        (* the value is still d (no catch fired, or it did and then [caught] holds) *)
        destruct (p_catch p) as [cv|]; [now rewrite orb_true_r|].
        unfold sem_prim_tests in E. inversion E; subst. congruence.
      * destruct (p_catch p); [|congruence]. rewrite !orb_true_r. destruct (go_zero d1); [destruct (p_def p)|]; reflexivity.
Qed.

Definition sat_ok (s : sch) : Prop := forall m dat d e0, pt_free s = true -> wf s d ->
  rerrored (fst (sem m s dat d e0)) = false -> satisfies m s dat (snd (sem m s dat d e0)) = true.

Lemma map_fst_dset k v dfs : map fst (dset k v dfs) = map fst dfs.
Proof. induction dfs as [|[k0 v0] r IH]; cbn; [reflexivity|]. destruct (String.eqb_spec k k0); cbn; [now subst | now rewrite IH]. Qed.
Lemma dlookup_dset_same k v dfs : In k (map fst dfs) -> dlookup k (dset k v dfs) = v.
Proof.
  unfold dlookup, alookup. induction dfs as [|[k0 v0] r IH]; cbn; [tauto|].
  destruct (String.eqb_spec k k0) as [->|N]; cbn.
  - now rewrite String.eqb_refl.
  - intros [E|H]; [congruence|]. destruct (String.eqb_spec k0 k); [congruence | now apply IH].
Qed.

Lemma fields_sat m pv : forall fs, Forall (fun kc : field => sat_ok (snd (snd kc))) fs -> fields_pt_free fs = true -> NoDup (map fst fs) ->
  forall acc e,
  (fix go (l : list field) : Prop :=
     match l with [] => True | kc :: r => In (fst kc) (map fst acc) /\ wf (snd (snd kc)) (dlookup (fst kc) acc) /\ go r end) fs ->
  rerrored (fst (sem_fields (sem m) m pv fs acc e)) = false ->
  sat_fields (satisfies m) m pv fs (snd (sem_fields (sem m) m pv fs acc e)) = true
  /\ map fst (snd (sem_fields (sem m) m pv fs acc e)) = map fst acc
  /\ (forall k, ~ In k (map fst fs) -> dlookup k (snd (sem_fields (sem m) m pv fs acc e)) = dlookup k acc).
Proof.
  induction fs as [|[k [tags c]] r IH]; intros HF W ND acc e Hwf; cbn [sem_fields sat_fields fst snd].
  - intros _. repeat split.
  - inversion HF as [|? ? Hk Hr]; subst. cbn [snd] in Hk. cbn in W. apply andb_prop in W. destruct W as [Wc Wr].
    inversion ND as [|? ? Hn Hd]; subst. destruct Hwf as (Hin & Hwc & Hwr). cbn [fst snd] in *.
    destruct (match m with Parse => get_by_field pv tags k | Validate => (VNil, match alookup "zog" tags with Some t => t | None => k end) end) as [v fk] eqn:Ev.
    pose proof (Hk m (DVal v) (dlookup k acc) e Wc Hwc) as Sk.
    destruct (sem m c (DVal v) (dlookup k acc) e) as [lk dk]. cbn [fst snd] in Sk.
    assert (Hwr' : (fix go (l : list field) : Prop :=
                      match l with [] => True | kc :: r0 => In (fst kc) (map fst (dset k dk acc)) /\ wf (snd (snd kc)) (dlookup (fst kc) (dset k dk acc)) /\ go r0 end) r).
    { clear -Hwr Hn. induction r as [|[k' [t' c']] r IHr]; [exact I|]. cbn [fst snd] in *. destruct Hwr as (A & B & C).
      split; [rewrite map_fst_dset; exact A|]. split.
      - rewrite dlookup_dset_other by (intros E; apply Hn; left; now symmetry). exact B.
      - apply IHr; [exact C | intros H; apply Hn; now right]. }
    specialize (IH Hr Wr Hd (dset k dk acc) (e || rerrored lk) Hwr').
    destruct (sem_fields (sem m) m pv r (dset k dk acc) (e || rerrored lk)) as [lr dr]. cbn [fst snd] in *.
    intros H. apply rerrored_under_app in H. destruct H as [H1 H2]. destruct (IH H2) as (S & Kk & Lk).
    assert (Edk : dlookup k dr = dk) by (rewrite (Lk k Hn); now apply dlookup_dset_same).
    repeat split.
    + rewrite Edk. replace (match m with Parse => fst (get_by_field pv tags k) | Validate => VNil end) with v.
      * rewrite (Sk H1). exact S.
      * destruct m; [now rewrite Ev | now inversion Ev].
    + now rewrite Kk, map_fst_dset.
    + intros k' Hk'. cbn in Hk'. rewrite (Lk k') by tauto. apply dlookup_dset_other. intros ->. apply Hk'. now left.
Qed.

Lemma elems_parse_sat m e : sat_ok e -> pt_free e = true -> forall items zero, wf e zero -> forall done i e0,
  rerrored (fst (sem_elems_parse (sem m e) items zero done i e0)) = false ->
  exists ds, snd (sem_elems_parse (sem m e) items zero done i e0) = done ++ ds /\ sat_elems_parse (satisfies m e) items ds = true.
Proof.
  intros Hs W. induction items as [|v r IH]; intros zero Hz done i e0; cbn [sem_elems_parse].
  - intros _. exists []. split; [now rewrite app_nil_r | reflexivity].
  - pose proof (Hs m (DVal v) zero e0 W Hz) as Sv. destruct (sem m e (DVal v) zero e0) as [lk dk]. cbn [fst snd] in Sv.
    specialize (IH zero Hz (done ++ [dk]) (S i) (e0 || rerrored lk)).
    destruct (sem_elems_parse (sem m e) r zero (done ++ [dk]) (S i) (e0 || rerrored lk)) as [lr dr]. cbn [fst snd] in *.
    intros H. apply rerrored_under_app in H. destruct H as [H1 H2]. destruct (IH H2) as (ds & E & Sd).
    exists (dk :: ds). split; [now rewrite E, <- app_assoc|]. cbn. now rewrite (Sv H1), Sd.
Qed.

Lemma elems_valid_sat m e : sat_ok e -> pt_free e = true -> forall items, (forall x, In x items -> wf e x) -> forall done i e0,
  rerrored (fst (sem_elems_valid (sem m e) items done i e0)) = false ->
  exists ds, snd (sem_elems_valid (sem m e) items done i e0) = done ++ ds /\ length ds = length items
             /\ sat_elems_valid (satisfies m e) ds = true.
Proof.
  intros Hs W. induction items as [|v r IH]; intros Hw done i e0; cbn [sem_elems_valid].
  - intros _. exists []. repeat split. now rewrite app_nil_r.
  - pose proof (Hs m (DVal VNil) v e0 W (Hw v (or_introl eq_refl))) as Sv. destruct (sem m e (DVal VNil) v e0) as [lk dk]. cbn [fst snd] in Sv.
    specialize (IH (fun x Hx => Hw x (or_intror Hx)) (done ++ [dk]) (S i) (e0 || rerrored lk)).
    destruct (sem_elems_valid (sem m e) r (done ++ [dk]) (S i) (e0 || rerrored lk)) as [lr dr]. cbn [fst snd] in *.
    intros H. apply rerrored_under_app in H. destruct H as [H1 H2]. destruct (IH H2) as (ds & E & L & Sd).
    exists (dk :: ds). split; [now rewrite E, <- app_assoc|]. split; [cbn; now rewrite L|]. cbn. now rewrite (Sv H1), Sd.
Qed.

Lemma fields_wf_Forall fs (P : sch -> Prop) : (forall s, P s) -> Forall (fun kc : field => P (snd (snd kc))) fs.
Proof. intros H. induction fs; constructor; auto. Qed.

Theorem sem_sat : forall s, sat_ok s.
Proof.
  induction s as [p | fs tests pts IH | e c IH | e nn pz IH | conv t | pf e IH] using sch_ind'; intros m dat d e0 W Hwf.
  - (* primitive *) cbn in W. destruct (p_pts p) eqn:Ep; [|discriminate]. cbn [sem satisfies]. now apply prim_sat.
  - (* struct *) cbn in W. apply andb_prop in W. destruct W as [Wp Wf]. destruct pts; [|discriminate].
    cbn [wf] in Hwf. destruct Hwf as (ND & dfs & -> & Hgo). cbn [sem satisfies dstruct_fields].
    assert (B : forall pv,
      rerrored (fst (let '(lf, dfs') := sem_fields (sem m) m pv fs dfs e0 in
                     then_pts (fun (y : string) err => mk_unknown_issue y "struct" err) false [] e0 (lf ++ sem_tests_all "struct" tests (DStruct dfs'), DStruct dfs'))) = false ->
      (sat_fields (satisfies m) m pv fs
         (dstruct_fields (snd (let '(lf, dfs') := sem_fields (sem m) m pv fs dfs e0 in
                               then_pts (fun (y : string) err => mk_unknown_issue y "struct" err) false [] e0 (lf ++ sem_tests_all "struct" tests (DStruct dfs'), DStruct dfs'))))
       && all_ok tests (snd (let '(lf, dfs') := sem_fields (sem m) m pv fs dfs e0 in
                             then_pts (fun (y : string) err => mk_unknown_issue y "struct" err) false [] e0 (lf ++ sem_tests_all "struct" tests (DStruct dfs'), DStruct dfs')))) = true).
    { intros pv. pose proof (fields_sat m pv fs IH Wf ND dfs e0 Hgo) as F.
      destruct (sem_fields (sem m) m pv fs dfs e0) as [lf dfs']. rewrite then_pts_nil. cbn [fst snd dstruct_fields] in *.
      rewrite app_nil_r, rerrored_app. intros H. apply orb_false_elim in H. destruct H as [H1 H2].
      destruct (F H1) as (Sf & _ & _). now rewrite Sf, (tests_all_ok "struct" tests _ H2). }
    destruct m; [|apply B].
    destruct dat as [v|pv|[code err| |pv]]; try apply B.
    + destruct (provider_of_val v); [apply B|]. rewrite then_pts_nil. cbn. discriminate.
    + rewrite then_pts_nil. cbn. discriminate.
  - (* slice *) cbn in W. apply andb_prop in W. destruct W as [Wp We]. destruct (sl_pts c) eqn:Ep; [|discriminate].
    cbn [wf] in Hwf. destruct Hwf as (Hz & Hitems & Hdef). cbn [sem satisfies]. rewrite Ep.
    destruct m.
    + assert (G : forall items,
        rerrored (fst (let '(le, ds) := sem_elems_parse (sem Parse e) items (sl_zero c) [] 0 e0 in
                       then_pts (fun (y : string) err => mk_unknown_issue y "slice" err) false [] e0 (le ++ sem_tests_all "slice" (sl_tests c) (DSlice ds), DSlice ds))) = false ->
        (let d1 := snd (let '(le, ds) := sem_elems_parse (sem Parse e) items (sl_zero c) [] 0 e0 in
                        then_pts (fun (y : string) err => mk_unknown_issue y "slice" err) false [] e0 (le ++ sem_tests_all "slice" (sl_tests c) (DSlice ds), DSlice ds)) in
         sat_elems_parse (satisfies Parse e) items (dslice_items d1) && all_ok (sl_tests c) d1) = true).
      { intros items. pose proof (elems_parse_sat Parse e IH We items (sl_zero c) Hz [] 0 e0) as F.
        destruct (sem_elems_parse (sem Parse e) items (sl_zero c) [] 0 e0) as [le ds]. rewrite then_pts_nil. cbn [fst snd] in *.
        rewrite app_nil_r, rerrored_app. intros H. apply orb_false_elim in H. destruct H as [H1 H2].
        destruct (F H1) as (ds' & E & Sd). cbn [app] in E. subst ds'. cbn [dslice_items]. now rewrite Sd, (tests_all_ok "slice" _ _ H2). }
      destruct (parse_zero (data_val dat)).
      * destruct (sl_def c) as [dl|]; [apply G|]. destruct (sl_req c); rewrite then_pts_nil; cbn; [discriminate | reflexivity].
      * destruct (sl_coerce c (data_val dat)) as [items|]; [apply G|]. rewrite then_pts_nil. cbn. discriminate.
    + assert (G : forall items, (forall x, In x items -> wf e x) ->
        rerrored (fst (let '(le, ds) := sem_elems_valid (sem Validate e) items [] 0 e0 in
                       then_pts (fun (y : string) err => mk_unknown_issue y "slice" err) false [] e0 (le ++ sem_tests_all "slice" (sl_tests c) (DSlice ds), DSlice ds))) = false ->
        exists ds, snd (let '(le, ds) := sem_elems_valid (sem Validate e) items [] 0 e0 in
                        then_pts (fun (y : string) err => mk_unknown_issue y "slice" err) false [] e0 (le ++ sem_tests_all "slice" (sl_tests c) (DSlice ds), DSlice ds)) = DSlice ds
                   /\ length ds = length items /\ sat_elems_valid (satisfies Validate e) ds = true /\ all_ok (sl_tests c) (DSlice ds) = true).
      { intros items Hw. pose proof (elems_valid_sat Validate e IH We items Hw [] 0 e0) as F.
        destruct (sem_elems_valid (sem Validate e) items [] 0 e0) as [le ds]. rewrite then_pts_nil. cbn [fst snd] in *.
        rewrite app_nil_r, rerrored_app. intros H. apply orb_false_elim in H. destruct H as [H1 H2].
        destruct (F H1) as (ds' & E & L & Sd). cbn [app] in E. subst ds'. exists ds. repeat split; [exact L | exact Sd | now apply (tests_all_ok "slice")]. }
      destruct (dslice_items d) as [|d0 r] eqn:Ed.
      * destruct (sl_def c) as [dl|] eqn:Edef.
        -- intros H. destruct (G dl (fun x Hx => Hdef dl x eq_refl Hx) H) as (ds & E & L & Sd & T). rewrite E. cbn [dslice_items].
           destruct ds as [|x xs]; [exact T|]. now rewrite Sd, T.
        -- destruct (sl_req c); rewrite then_pts_nil; cbn [fst snd]; [discriminate|]. intros _. now rewrite Ed.
      * intros H. destruct (G (d0 :: r) (fun x Hx => Hitems x Hx) H) as (ds & E & L & Sd & T). rewrite E. cbn [dslice_items].
        destruct ds as [|x xs]; [discriminate|]. now rewrite Sd, T.
  - (* pointer *) cbn in W. cbn [wf] in Hwf. destruct Hwf as (Hpz & Hy). cbn [sem satisfies].
    assert (Hin : wf e (match match d with DPtr (Some y) => Some y | _ => None end with Some y => y | None => pz end)).
    { destruct d as [| | | | | |[y|]| |]; try exact Hpz. now apply Hy. }
    destruct m.
    + assert (G : forall dat1, rerrored (fst (let '(l, y1) := sem Parse e dat1 (match match d with DPtr (Some y) => Some y | _ => None end with Some y => y | None => pz end) e0 in (l, DPtr (Some y1)))) = false ->
                   match snd (let '(l, y1) := sem Parse e dat1 (match match d with DPtr (Some y) => Some y | _ => None end with Some y => y | None => pz end) e0 in (l, DPtr (Some y1))) with
                   | DPtr (Some y) => satisfies Parse e dat1 y | _ => false end = true).
      { intros dat1. pose proof (IH Parse dat1 _ e0 W Hin) as F.
        destruct (sem Parse e dat1 (match match d with DPtr (Some y) => Some y | _ => None end with Some y => y | None => pz end) e0) as [l y1]. exact F. }
      destruct dat as [v|pv|[code err| |pv]].
      * destruct (parse_zero v); [|apply G]. destruct nn; cbn; [discriminate | reflexivity].
      * apply G.
      * cbn. discriminate.
      * destruct nn; cbn; [discriminate | reflexivity].
      * apply G.
    + destruct d as [| | | | | |[y|]| |]; cbn [sem]; try (destruct nn; cbn; [discriminate | reflexivity]).
      pose proof (IH Validate (DVal VNil) y e0 W (Hy y eq_refl)) as F. destruct (sem Validate e (DVal VNil) y e0) as [l y1]. exact F.
  - (* custom *) cbn [sem satisfies]. destruct m.
    + destruct (conv (data_val dat)) as [v|]; [|cbn; discriminate]. cbn [fst snd]. rewrite rerrored_app, rerrored_rcall. cbn. now destruct (t_ok t v).
    + cbn [fst snd]. rewrite rerrored_app, rerrored_rcall. cbn. now destruct (t_ok t d).
  - (* preprocess *) cbn in W. cbn [wf] in Hwf. destruct Hwf as (Hw & Hw1). cbn [sem satisfies]. destruct m.
    + destruct (pre_parse pf (data_val dat)) as [[v|err]|].
      * pose proof (IH Parse (DVal v) d (e0 || rerrored (rcall (pre_id pf) CbPre None)) W Hw) as F.
        destruct (sem Parse e (DVal v) d (e0 || rerrored (rcall (pre_id pf) CbPre None))) as [l d1]. cbn [fst snd] in *.
        rewrite rerrored_app, rerrored_rcall. exact F.
      * cbn [fst]. rewrite rerrored_app. cbn. rewrite orb_true_r. discriminate.
      * cbn. discriminate.
    + destruct (pre_valid pf d) as [d1|msg] eqn:Ev.
      * pose proof (IH Validate (DVal VNil) d1 (e0 || rerrored (rcall (pre_id pf) CbPre (Some d))) W (Hw1 d1 eq_refl)) as F.
        destruct (sem Validate e (DVal VNil) d1 (e0 || rerrored (rcall (pre_id pf) CbPre (Some d)))) as [l d2]. cbn [fst snd] in *.
        rewrite rerrored_app, rerrored_rcall. exact F.
      * cbn [fst]. rewrite rerrored_app. cbn. rewrite orb_true_r. discriminate.
Qed.

(** ** the theorem, about the engine *)
Theorem success_means_valid m s dat d : pt_free s = true -> wf s d ->
  o_issues (run m s dat d) = [] -> satisfies m s dat (o_dest (run m s dat d)) = true.
Proof.
  intros W Hwf. rewrite run_is_sem_run. unfold sem_run. pose proof (sem_sat s m dat d false W Hwf) as S.
  destruct (sem m s dat d false) as [l d1]. cbn [fst snd o_issues o_dest] in *. intros H. apply S.
  clear -H. induction l as [|[sg mk|sg mk] r IH]; cbn in *; [reflexivity | discriminate | exact (IH H)].
Qed.
