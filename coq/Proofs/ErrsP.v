(** * The issue map is well-formed and addresses every issue by its path (property C10):
    internals/Issues.go ErrsMap.Add and internals/PathBuilder.go String. *)
From Coq Require Import String List Bool Ascii Lia.
From Zog Require Import Model.Val Model.Engine.
Import ListNotations.
Open Scope string_scope.
Open Scope list_scope.

Definition ikey (i : issue) : string := if is_empty (i_path i) then "$root" else i_path i.

Lemma alookup_imap_append k k' i m :
  alookup k (imap_append k' i m) =
  if String.eqb k' k then Some (match alookup k m with Some l => l ++ [i] | None => [i] end) else alookup k m.
Proof.
  unfold alookup. induction m as [|[k0 l0] r IH]; cbn.
  - destruct (String.eqb_spec k' k); reflexivity.
  - destruct (String.eqb_spec k' k0) as [->|N]; cbn.
    + destruct (String.eqb_spec k0 k); reflexivity.
    + destruct (String.eqb_spec k0 k) as [->|N2].
      * destruct (String.eqb_spec k' k); [congruence | reflexivity].
      * exact IH.
Qed.

Lemma errs_map_snoc l i : errs_map (l ++ [i]) = errs_add (errs_map l) i.
Proof. unfold errs_map. now rewrite fold_left_app. Qed.

Definition lookup_map (m : option imap) (k : string) : option (list issue) := match m with Some mm => alookup k mm | None => None end.
Definition at_key (k : string) (l : list issue) : list issue := filter (fun i => String.eqb (ikey i) k) l.

(** Every issue appears exactly once, under the key equal to its path ("$root" for the empty
    path), in recording order, and under no other key; "$first" holds exactly the first issue
    recorded.  (No issue's own path is the reserved key "$first".) *)
Theorem errs_map_spec : forall l, Forall (fun i => ikey i <> "$first") l ->
  (l = [] -> errs_map l = None)
  /\ (forall k, k <> "$first" -> lookup_map (errs_map l) k = match at_key k l with [] => None | g => Some g end)
  /\ (forall i r, l = i :: r -> lookup_map (errs_map l) "$first" = Some [i]).
Proof.
  induction l as [|j l IH] using rev_ind; intros HF.
  - split; [reflexivity|]. split; [intros k _; reflexivity | intros i r H; discriminate].
  - apply Forall_app in HF. destruct HF as [HF Hj]. inversion Hj as [|? ? Hjk _]; subst. specialize (IH HF). destruct IH as (I0 & Ik & If).
    rewrite errs_map_snoc. split; [intros H; destruct l; discriminate|]. split.
    + intros k Hk. unfold at_key. rewrite filter_app. cbn [filter]. fold (at_key k l).
      specialize (Ik k Hk). unfold errs_add. fold (ikey j).
      destruct (errs_map l) as [mm|] eqn:Em; cbn [lookup_map] in *.
      * rewrite alookup_imap_append. destruct (String.eqb_spec (ikey j) k) as [E|N].
        -- rewrite Ik. destruct (at_key k l); reflexivity.
        -- rewrite Ik, app_nil_r. reflexivity.
      * assert (l = []) as -> by (destruct l as [|x xs]; [reflexivity|]; pose proof (If x xs eq_refl) as Q; discriminate Q).
        assert (A : alookup k [("$first", [j])] = None).
        { unfold alookup. cbn [find fst]. destruct (String.eqb_spec "$first" k); [congruence | reflexivity]. }
        cbn [at_key filter app]. rewrite alookup_imap_append, A. destruct (String.eqb (ikey j) k); reflexivity.
    + intros i r H. unfold errs_add. fold (ikey j). destruct l as [|x xs].
      * cbn in H. inversion H; subst. change (errs_map []) with (@None imap). cbn [lookup_map]. rewrite alookup_imap_append.
        destruct (String.eqb_spec (ikey i) "$first"); [contradiction|]. unfold alookup. cbn [find fst snd]. now rewrite String.eqb_refl.
      * cbn in H. inversion H; subst. specialize (If i xs eq_refl).
        destruct (errs_map (i :: xs)) as [mm|]; cbn [lookup_map] in *; [|discriminate].
        rewrite alookup_imap_append. destruct (String.eqb_spec (ikey j) "$first"); [contradiction | exact If].
Qed.

(** ** the path of an issue: the chain of keys joined by '.', slice positions written [i] *)
Fixpoint tail_path (ks : list string) : string :=
  match ks with
  | [] => ""
  | k :: r => (if starts_with_bracket k then k else "." ++ k) ++ tail_path r
  end.
Definition join_path (ks : list string) : string := match ks with [] => "" | k :: r => k ++ tail_path r end.

Lemma render_from_nonempty prev ks : is_empty prev = false -> Forall (fun k => is_empty k = false) ks -> render_from prev ks = tail_path ks.
Proof.
  revert prev. induction ks as [|k r IH]; intros prev Hp HF; cbn; [reflexivity|].
  inversion HF as [|? ? Hk Hr]; subst. rewrite Hp. cbn. rewrite (IH k Hk Hr).
  destruct (starts_with_bracket k); cbn; reflexivity.
Qed.

(** after pushing the keys [ks] (all non-empty) onto a fresh path builder, the rendered path is
    their chain *)
Theorem render_pushes ks : Forall (fun k => is_empty k = false) ks -> render (rev ks ++ [""]) = join_path ks.
Proof.
  intros HF. unfold render. rewrite rev_app_distr, rev_involutive. cbn.
  destruct ks as [|k r]; cbn; [reflexivity|]. inversion HF as [|? ? Hk Hr]; subst.
  now rewrite (render_from_nonempty k r Hk Hr).
Qed.

Example path_example : render (rev ["items"; "[0]"; "name"] ++ [""]) = "items[0].name".
Proof. reflexivity. Qed.

(** ** Issues.SanitizeList / SanitizeMap (utils.go): the same keys, the same order, only the messages.
    [msg] is whatever message the issue carries when it is returned (the formatter has run). *)
Section Sanitize.
  Variable msg : issue -> string.
  Definition sanitize_list (l : list issue) : list string := map msg l.
  Definition sanitize_map (m : imap) : list (string * list string) := map (fun kv => (fst kv, sanitize_list (snd kv))) m.

  Lemma sanitize_list_length l : length (sanitize_list l) = length l.
  Proof. apply map_length. Qed.
  Lemma sanitize_list_nth l n d : n < length l -> nth n (sanitize_list l) (msg d) = msg (nth n l d).
  Proof. intros _. apply map_nth. Qed.
  Lemma sanitize_map_keys m : map fst (sanitize_map m) = map fst m.
  Proof. unfold sanitize_map. rewrite map_map. reflexivity. Qed.
  Lemma sanitize_map_lookup m k : alookup k (sanitize_map m) = option_map sanitize_list (alookup k m).
  Proof.
    unfold alookup, sanitize_map. induction m as [|[k0 l0] r IH]; cbn; [reflexivity|].
    destruct (String.eqb k0 k); [reflexivity | exact IH].
  Qed.
End Sanitize.

Theorem sanitize_spec : forall (msg : issue -> string) (m : imap),
  map fst (sanitize_map msg m) = map fst m
  /\ (forall k, alookup k (sanitize_map msg m) = option_map (sanitize_list msg) (alookup k m))
  /\ (forall l, length (sanitize_list msg l) = length l)
  /\ (forall l n d, n < length l -> nth n (sanitize_list msg l) (msg d) = msg (nth n l d)).
Proof.
  intros msg m. split; [apply sanitize_map_keys|]. split; [intros k; apply sanitize_map_lookup|].
  split; [apply sanitize_list_length | apply sanitize_list_nth].
Qed.
