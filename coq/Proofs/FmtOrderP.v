(** * The default formatter's message does not depend on the order in which the parameters are met.

    conf.NewDefaultFormatter ranges over the issue's Params (a Go map: a random order per call).
    As it was, it applied strings.ReplaceAll once per parameter: sequential replacement is order
    dependent (a value may spell another parameter's placeholder) — proved below to coincide with one
    simultaneous substitution only for values without braces, and refuted without that hypothesis;
    the witness replayed on the implementation gave two different messages for the same call.
    Repaired, it makes one pass (strings.NewReplacer): for templates that are a sequence of
    brace-free text and {{name}} placeholders and parameter keys without braces this is the
    simultaneous substitution whatever the values are, hence independent of the order.  Every shipped
    template is such a sequence (finite check over the tables regenerated from the code). *)
From Coq Require Import String List Bool Ascii Arith Lia Permutation.
From Zog Require Import Model.Val Model.Preds Model.Fmt Gen.Tables.
Import ListNotations.
Open Scope string_scope.

Local Arguments Ascii.eqb : simpl never.

Lemma eqb_sym_a (a b : ascii) : Ascii.eqb a b = Ascii.eqb b a.
Proof. destruct (Ascii.eqb_spec a b) as [->|N]; [now rewrite Ascii.eqb_refl|]. destruct (Ascii.eqb_spec b a); congruence. Qed.

(** ** strings.ReplaceAll, characterised *)
Lemma append_assoc (a b c : string) : (a ++ b) ++ c = a ++ (b ++ c).
Proof. induction a as [|x a IH]; cbn; [reflexivity | now rewrite IH]. Qed.

Lemma replace_aux_skip old new : forall p r, replace_aux old new (p ++ r) (String.length p) = replace_aux old new r 0.
Proof. induction p as [|a p IH]; intros r; cbn; [destruct r; reflexivity | apply IH]. Qed.

Lemma has_prefix_app p r : has_prefix p (p ++ r) = true.
Proof. induction p as [|a p IH]; cbn; [reflexivity | now rewrite Ascii.eqb_refl]. Qed.

Lemma replace_all_nil old new : replace_all "" old new = "".
Proof. reflexivity. Qed.

(** a match at the head (for a non-empty pattern) *)
Lemma replace_all_match a old new r :
  replace_all (String a old ++ r) (String a old) new = new ++ replace_all r (String a old) new.
Proof.
  unfold replace_all. cbn [append replace_aux]. change (String a (old ++ r)) with (String a old ++ r).
  rewrite has_prefix_app. cbn [String.length Nat.sub]. rewrite Nat.sub_0_r. now rewrite replace_aux_skip.
Qed.

(** no match at the head *)
Lemma replace_all_step c r old new : has_prefix old (String c r) = false ->
  replace_all (String c r) old new = String c (replace_all r old new).
Proof. intros H. unfold replace_all. cbn [replace_aux]. now rewrite H. Qed.

(** ** brace-free text and templates as token sequences *)
Definition is_brace (c : ascii) : bool := Ascii.eqb c "{"%char || Ascii.eqb c "}"%char.
Fixpoint no_brace (s : string) : bool :=
  match s with EmptyString => true | String c r => negb (is_brace c) && no_brace r end.
Lemma not_brace c : negb (is_brace c) = true ->
  Ascii.eqb "{"%char c = false /\ Ascii.eqb "}"%char c = false /\ Ascii.eqb c "{"%char = false /\ Ascii.eqb c "}"%char = false.
Proof.
  unfold is_brace. intros H. apply negb_true_iff in H. apply orb_false_elim in H. destruct H as [H1 H2].
  rewrite (eqb_sym_a "{"%char c), (eqb_sym_a "}"%char c). auto.
Qed.

Inductive token := TText (s : string) | TPh (name : string).
Fixpoint render (ts : list token) : string :=
  match ts with
  | [] => ""
  | TText s :: r => s ++ render r
  | TPh n :: r => ph n ++ render r
  end.
Definition tok_ok (t : token) : bool := match t with TText s => no_brace s | TPh n => no_brace n end.

(** substituting one parameter, all parameters *)
Definition subst1 (k v : string) (t : token) : token :=
  match t with TPh n => if String.eqb n k then TText v else t | _ => t end.
Definition subst_all (ps : list (string * string)) (t : token) : token :=
  match t with TPh n => match alookup n ps with Some v => TText v | None => t end | _ => t end.

(** ** the pattern {{k}} against rendered tokens *)
Lemma key_mismatch : forall k n rest, no_brace k = true -> no_brace n = true -> n <> k ->
  has_prefix (k ++ "}}") (n ++ "}}" ++ rest) = false.
Proof.
  induction k as [|a k IH]; intros n rest Hk Hn Hne.
  - destruct n as [|c n]; [congruence|]. cbn in Hn. apply andb_prop in Hn. destruct Hn as [Hc _].
    apply not_brace in Hc. destruct Hc as (_ & Hc & _). cbn [append has_prefix]. now rewrite Hc.
  - cbn in Hk. apply andb_prop in Hk. destruct Hk as [Ha Hk]. apply not_brace in Ha. destruct Ha as (_ & _ & _ & Ha).
    destruct n as [|c n].
    + cbn [append has_prefix]. now rewrite Ha.
    + cbn in Hn. apply andb_prop in Hn. destruct Hn as [_ Hn]. cbn [append has_prefix].
      destruct (Ascii.eqb_spec a c) as [->|]; [|reflexivity]. cbn [andb]. apply IH; try assumption. congruence.
Qed.

Lemma no_match_on_text k : forall s rest v, no_brace s = true ->
  replace_all (s ++ rest) (ph k) v = s ++ replace_all rest (ph k) v.
Proof.
  induction s as [|c s IH]; intros rest v H; [reflexivity|]. cbn in H. apply andb_prop in H. destruct H as [Hc Hs].
  cbn [append]. rewrite replace_all_step.
  - now rewrite IH.
  - apply not_brace in Hc. destruct Hc as (Hc & _). unfold ph. cbn [append has_prefix]. now rewrite Hc.
Qed.

(** an opening brace that is followed by something else than a second one *)
Lemma no_match_single_brace k c r v : Ascii.eqb "{"%char c = false ->
  replace_all (String "{" (String c r)) (ph k) v = String "{" (replace_all (String c r) (ph k) v).
Proof. intros H. apply replace_all_step. unfold ph. cbn [append has_prefix]. rewrite Ascii.eqb_refl, H. reflexivity. Qed.

Lemma first_of_name_is_not_brace n rest : no_brace n = true ->
  exists c r, n ++ "}}" ++ rest = String c r /\ Ascii.eqb "{"%char c = false.
Proof.
  destruct n as [|c n]; intros H.
  - exists "}"%char, ("}" ++ rest). split; reflexivity.
  - cbn in H. apply andb_prop in H. destruct H as [Hc _]. exists c, (n ++ "}}" ++ rest). split; [reflexivity|].
    apply not_brace in Hc. tauto.
Qed.

Lemma ph_other_kept k n rest v : no_brace k = true -> no_brace n = true -> n <> k ->
  replace_all (ph n ++ rest) (ph k) v = ph n ++ replace_all rest (ph k) v.
Proof.
  intros Hk Hn Hne. unfold ph at 1 3. rewrite !append_assoc. cbn [append].
  (* position 0: "{{n}}..." against "{{k}}" *)
  rewrite replace_all_step.
  2:{ unfold ph. cbn. change (has_prefix (k ++ "}}") (n ++ "}}" ++ rest) = false). now apply key_mismatch. }
  f_equal.
  (* position 1: "{n}}..." *)
  destruct (first_of_name_is_not_brace n rest Hn) as (c & r & E & Hc).
  change (String "{" (n ++ String "}" (String "}" rest))) with (String "{" (n ++ "}}" ++ rest)).
  rewrite E, no_match_single_brace by exact Hc. f_equal. rewrite <- E.
  (* the name and the closing braces *)
  rewrite (no_match_on_text k n ("}}" ++ rest) v Hn).
  assert (T : replace_all ("}}" ++ rest) (ph k) v = String "}" (String "}" (replace_all rest (ph k) v))).
  { change ("}}" ++ rest) with (String "}" (String "}" rest)).
    rewrite (replace_all_step "}"%char (String "}" rest) (ph k) v eq_refl).
    rewrite (replace_all_step "}"%char rest (ph k) v eq_refl). reflexivity. }
  now rewrite T.
Qed.

Lemma ph_same_replaced k rest v : replace_all (ph k ++ rest) (ph k) v = v ++ replace_all rest (ph k) v.
Proof. unfold ph. cbn [append]. apply (replace_all_match "{"%char ("{" ++ k ++ "}}") v rest). Qed.

(** one ReplaceAll = substituting that parameter in the token sequence *)
Lemma replace_is_subst1 k v : no_brace k = true -> forall ts, forallb tok_ok ts = true ->
  replace_all (render ts) (ph k) v = render (map (subst1 k v) ts).
Proof.
  intros Hk. induction ts as [|t ts IH]; intros H; [reflexivity|]. cbn in H. apply andb_prop in H. destruct H as [Ht Hts].
  destruct t as [s|n]; cbn [render map subst1].
  - rewrite no_match_on_text by exact Ht. now rewrite IH.
  - destruct (String.eqb_spec n k) as [->|Hne]; cbn [render].
    + rewrite ph_same_replaced. now rewrite IH.
    + rewrite ph_other_kept by assumption. now rewrite IH.
Qed.

(** ** all parameters, one after the other = simultaneous substitution *)
Definition params_ok (ps : list (string * string)) : bool :=
  forallb (fun kv => no_brace (fst kv) && no_brace (snd kv)) ps.

Lemma subst1_keeps_ok k v ts : no_brace v = true -> forallb tok_ok ts = true -> forallb tok_ok (map (subst1 k v) ts) = true.
Proof.
  intros Hv. induction ts as [|t ts IH]; cbn; [reflexivity|]. intros H. apply andb_prop in H. destruct H as [Ht Hts].
  rewrite (IH Hts), andb_true_r. destruct t as [s|n]; cbn; [exact Ht|]. destruct (String.eqb n k); cbn; assumption.
Qed.

Definition seq_format (ps : list (string * string)) (tpl : string) : string :=
  fold_left (fun acc kv => replace_all acc (ph (fst kv)) (snd kv)) ps tpl.

Lemma subst_seq_is_first_match : forall ps t,
  fold_left (fun t kv => subst1 (fst kv) (snd kv) t) ps t =
  match t with TPh n => match alookup n ps with Some v => TText v | None => t end | _ => t end.
Proof.
  induction ps as [|[k v] ps IH]; intros t; cbn [fold_left]; [destruct t; reflexivity|].
  rewrite IH. destruct t as [s|n]; cbn [subst1 fst snd]; [reflexivity|].
  unfold alookup. cbn [find fst]. rewrite String.eqb_sym. destruct (String.eqb k n) eqn:E; cbn; reflexivity.
Qed.

Theorem sequential_is_simultaneous : forall ps ts, params_ok ps = true -> forallb tok_ok ts = true ->
  seq_format ps (render ts) = render (map (subst_all ps) ts).
Proof.
  assert (G : forall ps ts, params_ok ps = true -> forallb tok_ok ts = true ->
            seq_format ps (render ts) = render (map (fun t => fold_left (fun t kv => subst1 (fst kv) (snd kv) t) ps t) ts)).
  { induction ps as [|[k v] ps IH]; intros ts Hp Ht; cbn [seq_format fold_left].
    - now rewrite map_id.
    - cbn in Hp. apply andb_prop in Hp. destruct Hp as [Hkv Hp]. apply andb_prop in Hkv. destruct Hkv as [Hk Hv].
      cbn [fst snd]. rewrite replace_is_subst1 by assumption.
      change (fold_left (fun acc kv => replace_all acc (ph (fst kv)) (snd kv)) ps (render (map (subst1 k v) ts)))
        with (seq_format ps (render (map (subst1 k v) ts))).
      rewrite IH by (try assumption; now apply subst1_keeps_ok). rewrite map_map. reflexivity. }
  intros ps ts Hp Ht. rewrite G by assumption. f_equal. apply map_ext. intros t. apply subst_seq_is_first_match.
Qed.

(** ** order independence *)
Lemma alookup_perm_nodup {A} (k : string) : forall (l l' : list (string * A)),
  Permutation l l' -> NoDup (map fst l) -> alookup k l = alookup k l'.
Proof.
  intros l l' P. induction P as [|[k1 v1] l l' P IH|[k1 v1] [k2 v2] l|l l' l'' P1 IH1 P2 IH2]; intros ND.
  - reflexivity.
  - unfold alookup in *. cbn [find fst]. destruct (String.eqb k1 k); [reflexivity|]. apply IH. now inversion ND.
  - unfold alookup. cbn [find fst]. destruct (String.eqb_spec k2 k) as [->|]; destruct (String.eqb_spec k1 k) as [->|]; try reflexivity.
    exfalso. inversion ND as [|? ? Hin _]. apply Hin. now left.
  - rewrite IH1 by exact ND. apply IH2. eapply Permutation_NoDup; [|exact ND]. now apply Permutation_map.
Qed.

Lemma params_ok_perm ps ps' : Permutation ps ps' -> params_ok ps = true -> params_ok ps' = true.
Proof.
  intros P H. unfold params_ok in *. rewrite forallb_forall in *. intros x Hx. apply H.
  eapply Permutation_in; [apply Permutation_sym; exact P | exact Hx].
Qed.

Theorem seq_format_order_independent ps ps' ts :
  Permutation ps ps' -> NoDup (map fst ps) -> params_ok ps = true -> forallb tok_ok ts = true ->
  seq_format ps (render ts) = seq_format ps' (render ts).
Proof.
  intros P ND Hp Ht. rewrite !sequential_is_simultaneous; try assumption; [|now apply (params_ok_perm ps)].
  f_equal. apply map_ext. intros [s|n]; cbn [subst_all]; [reflexivity|]. now rewrite (alookup_perm_nodup n ps ps' P ND).
Qed.

(** ** every shipped template is a token sequence *)
Fixpoint tokenize_aux (fuel : nat) (s : string) (cur : string) : list token :=
  match fuel with
  | O => [TText (cur ++ s)]
  | S f =>
    match s with
    | EmptyString => [TText cur]
    | String "{" (String "{" r) =>
      (* read the name up to the closing braces *)
      (fix name (f2 : nat) (r : string) (acc : string) {struct f2} : list token :=
         match f2 with
         | O => [TText (cur ++ "{{" ++ acc ++ r)]
         | S f3 =>
           match r with
           | String "}" (String "}" r2) => TText cur :: TPh acc :: tokenize_aux f r2 ""
           | String c r2 => name f3 r2 (acc ++ String c "")
           | EmptyString => [TText (cur ++ "{{" ++ acc)]
           end
         end) (String.length r) r ""
    | String c r => tokenize_aux f r (cur ++ String c "")
    end
  end.
Definition tokenize (s : string) : list token := tokenize_aux (String.length s) s "".

Definition template_ok (tpl : string) : bool :=
  let ts := tokenize tpl in String.eqb (render ts) tpl && forallb tok_ok ts.

Definition all_templates : list string :=
  flat_map (fun lm => flat_map (fun tc => map snd (snd tc)) (snd lm)) langs.

Lemma shipped_templates_are_token_sequences : forallb template_ok all_templates = true.
Proof. vm_compute. reflexivity. Qed.

Lemma lookup2_in_all_templates lang m dtype code tpl :
  In (lang, m) langs -> lookup2 m dtype code = Some tpl -> In tpl all_templates.
Proof.
  intros Hm H. unfold all_templates. apply in_flat_map. exists (lang, m). split; [exact Hm|]. cbn [snd].
  unfold lookup2 in H. destruct (alookup dtype m) as [cs|] eqn:E; [|discriminate].
  unfold alookup in E, H. destruct (find (fun kv => String.eqb (fst kv) dtype) m) as [[t cs']|] eqn:F; [|discriminate].
  injection E as ->. apply find_some in F. destruct F as [Fin _].
  apply in_flat_map. exists (t, cs). split; [exact Fin|]. cbn [snd].
  destruct (find (fun kv => String.eqb (fst kv) code) cs) as [[c tp]|] eqn:F2; [|discriminate].
  injection H as ->. apply find_some in F2. destruct F2 as [F2in _]. apply in_map_iff. exists (c, tpl). split; [reflexivity | exact F2in].
Qed.

(** ** the repaired formatter: one pass *)
Lemma multi_aux_skip pairs : forall p r, multi_aux pairs (p ++ r) (String.length p) = multi_aux pairs r 0.
Proof. induction p as [|a p IH]; intros r; cbn; [destruct r; reflexivity | apply IH]. Qed.

Lemma multi_match pairs a old r p : find (fun q => has_prefix (fst q) (String a old ++ r)) pairs = Some p -> fst p = String a old ->
  multi_replace pairs (String a old ++ r) = snd p ++ multi_replace pairs r.
Proof.
  intros F E. unfold multi_replace. cbn [append multi_aux]. change (String a (old ++ r)) with (String a old ++ r).
  rewrite F, E. cbn [String.length Nat.sub]. rewrite Nat.sub_0_r. now rewrite multi_aux_skip.
Qed.
Lemma multi_step pairs c r : find (fun q => has_prefix (fst q) (String c r)) pairs = None ->
  multi_replace pairs (String c r) = String c (multi_replace pairs r).
Proof. intros F. unfold multi_replace. cbn [multi_aux]. now rewrite F. Qed.

Definition keys_ok (ps : list (string * string)) : bool := forallb (fun kv => no_brace (fst kv)) ps.

(** no placeholder pattern starts with anything but an opening brace, nor with a single one *)
Lemma find_none_not_brace ps c r : Ascii.eqb "{"%char c = false ->
  find (fun q => has_prefix (fst q) (String c r)) (ph_pairs ps) = None.
Proof.
  intros H. induction ps as [|[k v] ps IH]; [reflexivity|]. cbn [ph_pairs map find fst]. unfold ph at 1.
  cbn [append has_prefix]. rewrite H. cbn [andb]. exact IH.
Qed.
Lemma find_none_single_brace ps c r : Ascii.eqb "{"%char c = false ->
  find (fun q => has_prefix (fst q) (String "{" (String c r))) (ph_pairs ps) = None.
Proof.
  intros H. induction ps as [|[k v] ps IH]; [reflexivity|]. cbn [ph_pairs map find fst]. unfold ph at 1.
  cbn [append has_prefix]. rewrite Ascii.eqb_refl, H. cbn [andb]. exact IH.
Qed.

(** at a placeholder {{n}}: the first pair whose key is n, if there is one *)
Lemma find_at_placeholder : forall ps n rest, keys_ok ps = true -> no_brace n = true ->
  find (fun q => has_prefix (fst q) (ph n ++ rest)) (ph_pairs ps) =
  match alookup n ps with Some v => Some (ph n, v) | None => None end.
Proof.
  induction ps as [|[k v] ps IH]; intros n rest Hk Hn; [reflexivity|].
  cbn in Hk. apply andb_prop in Hk. destruct Hk as [Hk1 Hk]. cbn [ph_pairs map find fst snd].
  unfold alookup. cbn [find fst]. destruct (String.eqb_spec k n) as [->|Hne].
  - rewrite has_prefix_app. reflexivity.
  - replace (has_prefix (ph k) (ph n ++ rest)) with false.
    + fold (ph_pairs ps). rewrite IH by assumption. unfold alookup. reflexivity.
    + symmetry. unfold ph. rewrite !append_assoc. cbn [append has_prefix]. rewrite !Ascii.eqb_refl. cbn [andb].
      apply key_mismatch; try assumption. congruence.
Qed.

Lemma multi_on_text ps : forall s rest, no_brace s = true ->
  multi_replace (ph_pairs ps) (s ++ rest) = s ++ multi_replace (ph_pairs ps) rest.
Proof.
  induction s as [|c s IH]; intros rest H; [reflexivity|]. cbn in H. apply andb_prop in H. destruct H as [Hc Hs].
  cbn [append]. apply not_brace in Hc. destruct Hc as (Hc & _). rewrite multi_step by now apply find_none_not_brace.
  now rewrite IH.
Qed.

Lemma ph_cons n rest : ph n ++ rest = String "{" (String "{" (n ++ "}}" ++ rest)).
Proof. unfold ph. rewrite !append_assoc. reflexivity. Qed.

Lemma multi_ph_kept ps n rest : keys_ok ps = true -> no_brace n = true -> alookup n ps = None ->
  multi_replace (ph_pairs ps) (ph n ++ rest) = ph n ++ multi_replace (ph_pairs ps) rest.
Proof.
  intros Hk Hn Hnone. pose proof (find_at_placeholder ps n rest Hk Hn) as F. rewrite Hnone in F.
  rewrite (ph_cons n rest) in F. rewrite !ph_cons.
  rewrite multi_step by exact F. f_equal.
  destruct (first_of_name_is_not_brace n rest Hn) as (c & r & E & Hc).
  rewrite E, multi_step by now apply find_none_single_brace. f_equal. rewrite <- E.
  rewrite (multi_on_text ps n ("}}" ++ rest) Hn).
  assert (T : multi_replace (ph_pairs ps) ("}}" ++ rest) = "}}" ++ multi_replace (ph_pairs ps) rest).
  { change ("}}" ++ rest) with (String "}" (String "}" rest)).
    rewrite multi_step by now apply find_none_not_brace. rewrite multi_step by now apply find_none_not_brace. reflexivity. }
  now rewrite T.
Qed.

Lemma multi_ph_replaced ps n v rest : keys_ok ps = true -> no_brace n = true -> alookup n ps = Some v ->
  multi_replace (ph_pairs ps) (ph n ++ rest) = v ++ multi_replace (ph_pairs ps) rest.
Proof.
  intros Hk Hn Hs. pose proof (find_at_placeholder ps n rest Hk Hn) as F. rewrite Hs in F.
  unfold ph in F |- *. cbn [append] in F |- *.
  apply (multi_match (ph_pairs ps) "{"%char ("{" ++ n ++ "}}") rest ("{{" ++ n ++ "}}", v) F eq_refl).
Qed.

(** one pass = the simultaneous substitution, whatever the values are *)
Theorem one_pass_is_simultaneous ps : keys_ok ps = true -> forall ts, forallb tok_ok ts = true ->
  multi_replace (ph_pairs ps) (render ts) = render (map (subst_all ps) ts).
Proof.
  intros Hk. induction ts as [|t ts IH]; intros H; [reflexivity|]. cbn in H. apply andb_prop in H. destruct H as [Ht Hts].
  destruct t as [s|n]; cbn [render map subst_all].
  - rewrite multi_on_text by exact Ht. now rewrite IH.
  - destruct (alookup n ps) as [v|] eqn:E; cbn [render].
    + rewrite (multi_ph_replaced ps n v) by assumption. now rewrite IH.
    + rewrite multi_ph_kept by assumption. now rewrite IH.
Qed.

Lemma keys_ok_perm ps ps' : Permutation ps ps' -> keys_ok ps = true -> keys_ok ps' = true.
Proof.
  intros P H. unfold keys_ok in *. rewrite forallb_forall in *. intros x Hx. apply H.
  eapply Permutation_in; [apply Permutation_sym; exact P | exact Hx].
Qed.
Lemma keys_ok_app a b : keys_ok (a ++ b) = keys_ok a && keys_ok b.
Proof. apply forallb_app. Qed.

Lemma alookup_app {A} k (a b : list (string * A)) : alookup k (a ++ b) = match alookup k a with Some v => Some v | None => alookup k b end.
Proof.
  unfold alookup. induction a as [|[k1 v1] a IH]; cbn [app find fst]; [reflexivity|].
  destruct (String.eqb k1 k); [reflexivity | exact IH].
Qed.

(** The message the (repaired) default formatter builds from a shipped language map does not depend
    on the order in which it meets the issue's parameters: for every parameter list without a
    repeated key whose keys contain no braces — the values are arbitrary. *)
Theorem default_format_order_independent lang m dtype code ps ps' value :
  In (lang, m) langs -> Permutation ps ps' -> NoDup (map fst ps) -> keys_ok ps = true ->
  default_format m dtype code ps value = default_format m dtype code ps' value.
Proof.
  intros Hm P ND Hp. unfold default_format. destruct (lookup2 m dtype code) as [tpl|] eqn:E; [|reflexivity].
  pose proof (lookup2_in_all_templates _ _ _ _ _ Hm E) as Hin.
  pose proof shipped_templates_are_token_sequences as Hall. rewrite forallb_forall in Hall.
  specialize (Hall _ Hin). unfold template_ok in Hall. apply andb_prop in Hall. destruct Hall as [Hr Ht].
  apply String.eqb_eq in Hr. rewrite <- Hr.
  assert (K : forall q, keys_ok q = true -> keys_ok (q ++ [("value", value)]) = true).
  { intros q Hq. rewrite keys_ok_app, Hq. reflexivity. }
  rewrite !one_pass_is_simultaneous; try assumption; try (apply K; try assumption; now apply (keys_ok_perm ps)).
  f_equal. apply map_ext. intros [s|n]; cbn [subst_all]; [reflexivity|].
  rewrite !alookup_app. now rewrite (alookup_perm_nodup n ps ps' P ND).
Qed.

(** what the repair changed: nothing, for parameter values without braces *)
Theorem repair_keeps_brace_free_messages lang m dtype code ps value :
  In (lang, m) langs -> params_ok ps = true ->
  default_format m dtype code ps value = default_format_legacy m dtype code ps value.
Proof.
  intros Hm Hp. unfold default_format, default_format_legacy. destruct (lookup2 m dtype code) as [tpl|] eqn:E; [|reflexivity].
  pose proof (lookup2_in_all_templates _ _ _ _ _ Hm E) as Hin.
  pose proof shipped_templates_are_token_sequences as Hall. rewrite forallb_forall in Hall.
  specialize (Hall _ Hin). unfold template_ok in Hall. apply andb_prop in Hall. destruct Hall as [Hr Ht].
  apply String.eqb_eq in Hr. rewrite <- Hr.
  assert (Hk : keys_ok ps = true).
  { unfold params_ok in Hp. unfold keys_ok. rewrite forallb_forall in *. intros x Hx. specialize (Hp x Hx). now apply andb_prop in Hp. }
  rewrite one_pass_is_simultaneous; [| rewrite keys_ok_app, Hk; reflexivity | exact Ht].
  change (fold_left (fun acc kv => replace_all acc ("{{" ++ fst kv ++ "}}") (snd kv)) ps (render (tokenize tpl)))
    with (seq_format ps (render (tokenize tpl))).
  rewrite sequential_is_simultaneous by assumption.
  change "{{value}}" with (ph "value"). rewrite replace_is_subst1; [| reflexivity |].
  - rewrite map_map. f_equal. apply map_ext. intros [s|n]; cbn [subst_all subst1]; [reflexivity|].
    rewrite alookup_app. destruct (alookup n ps) as [v|]; cbn [subst1]; [reflexivity|].
    unfold alookup. cbn [find fst]. rewrite String.eqb_sym. destruct (String.eqb n "value"); reflexivity.
  - clear - Hp Ht. induction (tokenize tpl) as [|t ts IH]; [reflexivity|]. cbn in Ht. apply andb_prop in Ht. destruct Ht as [H1 H2].
    cbn [map forallb]. rewrite (IH H2), andb_true_r. destruct t as [s|n]; cbn [subst_all tok_ok]; [exact H1|].
    destruct (alookup n ps) as [v|] eqn:E; cbn [tok_ok]; [|exact H1].
    unfold alookup in E. destruct (find (fun kv => String.eqb (fst kv) n) ps) as [[k v']|] eqn:F; [|discriminate].
    injection E as ->. apply find_some in F. destruct F as [Fin _]. unfold params_ok in Hp. rewrite forallb_forall in Hp.
    specialize (Hp _ Fin). cbn in Hp. now apply andb_prop in Hp.
Qed.

(** without the hypotheses sequential replacement does depend on the order (why they are needed):
    a value that spells another parameter's placeholder *)
Example sequential_replacement_is_order_dependent :
  seq_format [("a", "{{b}}"); ("b", "x")] "{{a}}" = "x" /\ seq_format [("b", "x"); ("a", "{{b}}")] "{{a}}" = "{{b}}".
Proof. split; reflexivity. Qed.

(** the witness on the two formatters: the legacy one gives two messages for one issue, the repaired one the same *)
Example legacy_message_depends_on_order :
  default_format_legacy lang_en "string" "min" [("min", "{{hint}}"); ("hint", "three")] "v" = "string must contain at least three character(s)"
  /\ default_format_legacy lang_en "string" "min" [("hint", "three"); ("min", "{{hint}}")] "v" = "string must contain at least {{hint}} character(s)".
Proof. split; reflexivity. Qed.
Example repaired_message_does_not :
  default_format lang_en "string" "min" [("min", "{{hint}}"); ("hint", "three")] "v" = "string must contain at least {{hint}} character(s)"
  /\ default_format lang_en "string" "min" [("hint", "three"); ("min", "{{hint}}")] "v" = "string must contain at least {{hint}} character(s)".
Proof. split; reflexivity. Qed.
