(** * zhttp dispatch, URL parameters and decode failures (property C15). *)
From Coq Require Import String List Bool Ascii Arith Lia.
From Zog Require Import Model.Val Model.Engine Model.Http.
Import ListNotations.
Open Scope string_scope.

Fixpoint no_semi (s : string) : bool :=
  match s with EmptyString => true | String a r => negb (Ascii.eqb a ";"%char) && no_semi r end.

Lemma before_semi_id s : no_semi s = true -> before_semi s = s.
Proof.
  induction s as [|a r IH]; cbn; [reflexivity|]. intros H. apply andb_prop in H. destruct H as [Ha Hr].
  destruct (Ascii.eqb a ";"%char); [discriminate|]. now rewrite IH.
Qed.

Lemma before_semi_app a b : no_semi a = true -> before_semi (a ++ String ";"%char b) = a.
Proof.
  induction a as [|c r IH]; cbn; [reflexivity|]. intros H. apply andb_prop in H. destruct H as [Ha Hr].
  destruct (Ascii.eqb c ";"%char); [discriminate|]. now rewrite IH.
Qed.

(** Parameters after the media type never matter, whatever they are. *)
Lemma params_ignored m mt ps : no_semi mt = true ->
  http_source m (mt ++ String ";"%char ps) = http_source m mt.
Proof. intros H. unfold http_source. now rewrite before_semi_app, before_semi_id. Qed.

Lemma get_head_query ct : http_source "GET" ct = SrcQuery /\ http_source "HEAD" ct = SrcQuery.
Proof. split; reflexivity. Qed.

Lemma other_methods m ct : m <> "GET" -> m <> "HEAD" -> http_source m ct = by_media_type (before_semi ct).
Proof.
  intros H1 H2. unfold http_source.
  destruct (String.eqb_spec m "GET"); [contradiction|]. destruct (String.eqb_spec m "HEAD"); [contradiction|]. reflexivity.
Qed.

Lemma source_json_iff m ct : http_source m ct = SrcJSON <-> (m <> "GET" /\ m <> "HEAD" /\ media_is "application/json" (before_semi ct) = true).
Proof.
  unfold http_source, by_media_type. destruct (String.eqb_spec m "GET"); [cbn; split; [discriminate | tauto]|].
  destruct (String.eqb_spec m "HEAD"); [cbn; split; [discriminate | tauto]|]. cbn [orb].
  destruct (media_is "application/json" (before_semi ct)).
  - tauto.
  - destruct (media_is "application/x-www-form-urlencoded" (before_semi ct)); split; try discriminate; intros (_ & _ & H); discriminate.
Qed.

Lemma source_form_iff m ct : http_source m ct = SrcForm <->
  (m <> "GET" /\ m <> "HEAD" /\ media_is "application/json" (before_semi ct) = false
   /\ media_is "application/x-www-form-urlencoded" (before_semi ct) = true).
Proof.
  unfold http_source, by_media_type. destruct (String.eqb_spec m "GET"); [cbn; split; [discriminate | tauto]|].
  destruct (String.eqb_spec m "HEAD"); [cbn; split; [discriminate | tauto]|]. cbn [orb].
  destruct (media_is "application/json" (before_semi ct)).
  - split; [discriminate|]. intros (_ & _ & H & _). discriminate.
  - destruct (media_is "application/x-www-form-urlencoded" (before_semi ct)); split; try discriminate; try tauto.
    intros (_ & _ & _ & H). discriminate.
Qed.

(** ** What [media_is] accepts.
    Every spelling RFC 9110 allows — any mix of upper and lower case, white space on either side —
    is accepted; and among ASCII texts nothing else is. *)
Fixpoint ws_only (s : string) : bool :=
  match s with EmptyString => true | String a r => ascii_space a && ws_only r end.
Fixpoint lower_str (s : string) : string :=
  match s with EmptyString => EmptyString | String a r => String (lower_ascii a) (lower_str r) end.
Fixpoint all_ascii (s : string) : bool :=
  match s with EmptyString => true | String a r => Nat.ltb (byte a) 128 && all_ascii r end.

Lemma ws_only_blank r : ws_only r = true -> blank r = true.
Proof.
  induction r as [|a r IH]; [reflexivity|]. cbn [ws_only]. intros H. apply andb_prop in H. destruct H as [Ha Hr].
  cbn [blank]. rewrite Ha. now apply IH.
Qed.

Lemma lower_is_core : forall core t r, lower_str core = t -> ws_only r = true -> lower_is t (core ++ r) = true.
Proof.
  induction core as [|c cr IH]; intros t r E W; cbn in E; subst t.
  - cbn. now apply ws_only_blank.
  - cbn [append lower_str lower_is]. rewrite Ascii.eqb_refl. now apply IH.
Qed.

Lemma space_prefix_ws a r : ascii_space a = true -> space_prefix (String a r) = Some r.
Proof. intros H. cbn [space_prefix]. now rewrite H. Qed.

Lemma ltrim_fuel_ws : forall l x n, ws_only l = true -> space_prefix x = None -> String.length l <= n ->
  ltrim_fuel n (l ++ x) = x.
Proof.
  induction l as [|a l IH]; intros x n W N L.
  - cbn [append]. destruct n; [reflexivity|]. cbn [ltrim_fuel]. now rewrite N.
  - cbn [ws_only] in W. apply andb_prop in W. destruct W as [Wa Wl]. cbn [String.length] in L.
    destruct n as [|n]; [lia|]. cbn [append ltrim_fuel]. rewrite (space_prefix_ws a (l ++ x) Wa). apply IH; [assumption | assumption | lia].
Qed.

Lemma length_app_str (a b : string) : String.length (a ++ b) = String.length a + String.length b.
Proof. induction a as [|c a IH]; cbn; [reflexivity | now rewrite IH]. Qed.

Lemma visible_not_space c s : 32 < byte c < 127 -> space_prefix (String c s) = None.
Proof.
  intros Hc. cbn [space_prefix]. unfold ascii_space.
  replace (Nat.leb (byte c) 13) with false by (symmetry; apply Nat.leb_gt; lia).
  replace (Nat.eqb (byte c) 32) with false by (symmetry; apply Nat.eqb_neq; lia). rewrite andb_false_r. cbn [orb].
  destruct s as [|b r2]; [reflexivity|].
  replace (Nat.eqb (byte c) 194) with false by (symmetry; apply Nat.eqb_neq; lia). cbn [andb].
  destruct r2 as [|c3 r3]; [reflexivity|].
  replace (Nat.eqb (byte c) 225) with false by (symmetry; apply Nat.eqb_neq; lia).
  replace (Nat.eqb (byte c) 226) with false by (symmetry; apply Nat.eqb_neq; lia).
  replace (Nat.eqb (byte c) 227) with false by (symmetry; apply Nat.eqb_neq; lia). reflexivity.
Qed.

Lemma lower_ascii_byte a : byte (lower_ascii a) = byte a \/ (65 <= byte a <= 90 /\ byte (lower_ascii a) = byte a + 32).
Proof.
  unfold lower_ascii. destruct (Nat.leb 65 (byte a) && Nat.leb (byte a) 90) eqn:E; [right | now left].
  apply andb_prop in E. destruct E as [E1 E2]. apply Nat.leb_le in E1, E2. split; [lia|].
  unfold byte. rewrite nat_ascii_embedding; [reflexivity|]. unfold byte in *. lia.
Qed.

(** a target: non-empty, and its first character is a visible ASCII character (trimming stops there) *)
Definition starts_visible (t : string) : bool :=
  match t with EmptyString => false | String a _ => Nat.ltb 32 (byte a) && Nat.ltb (byte a) 127 end.

(** every RFC spelling is accepted: case does not matter, white space around the type does not matter *)
Theorem media_is_accepts_every_spelling t l core r :
  starts_visible t = true -> ws_only l = true -> ws_only r = true -> lower_str core = t ->
  media_is t (l ++ core ++ r) = true.
Proof.
  intros V Wl Wr E. unfold media_is, ltrim.
  assert (N : space_prefix (core ++ r) = None).
  { destruct core as [|c cr]; cbn in E; subst t; [discriminate|].
    cbn [starts_visible] in V. apply andb_prop in V. destruct V as [V1 V2]. apply Nat.ltb_lt in V1, V2.
    cbn [append]. apply visible_not_space. destruct (lower_ascii_byte c) as [H | [H1 H2]]; lia. }
  rewrite (ltrim_fuel_ws l (core ++ r) _ Wl N) by (rewrite length_app_str; lia).
  now apply lower_is_core.
Qed.

(** conversely, an ASCII text that is accepted is one of those spellings *)
Lemma space_prefix_ascii s r : all_ascii s = true -> space_prefix s = Some r ->
  exists a, s = String a r /\ ascii_space a = true.
Proof.
  destruct s as [|a s1]; [discriminate|]. cbn [all_ascii space_prefix]. intros A H. apply andb_prop in A. destruct A as [Aa A1].
  apply Nat.ltb_lt in Aa. destruct (ascii_space a) eqn:S; [injection H as <-; now exists a|]. exfalso.
  destruct s1 as [|b s2]; [discriminate|].
  replace (Nat.eqb (byte a) 194) with false in H by (symmetry; apply Nat.eqb_neq; lia). cbn [andb] in H.
  destruct s2 as [|c s3]; [discriminate|].
  replace (Nat.eqb (byte a) 225) with false in H by (symmetry; apply Nat.eqb_neq; lia).
  replace (Nat.eqb (byte a) 226) with false in H by (symmetry; apply Nat.eqb_neq; lia).
  replace (Nat.eqb (byte a) 227) with false in H by (symmetry; apply Nat.eqb_neq; lia). discriminate.
Qed.

Lemma ltrim_fuel_ascii : forall n s, all_ascii s = true -> exists l, s = l ++ ltrim_fuel n s /\ ws_only l = true /\ all_ascii (ltrim_fuel n s) = true.
Proof.
  induction n as [|n IH]; intros s A; [exists EmptyString; now repeat split|]. cbn [ltrim_fuel].
  destruct (space_prefix s) as [r|] eqn:P; [|exists EmptyString; now repeat split].
  destruct (space_prefix_ascii s r A P) as (a & -> & Sa). cbn [all_ascii] in A. apply andb_prop in A. destruct A as [_ Ar].
  destruct (IH r Ar) as (l & El & Wl & Al). exists (String a l). cbn [append ws_only]. rewrite Sa, Wl. repeat split; [now f_equal | assumption].
Qed.

Lemma blank_ascii s : all_ascii s = true -> blank s = true -> ws_only s = true.
Proof.
  induction s as [|a s IH]; [reflexivity|]. cbn [all_ascii]. intros A B. apply andb_prop in A. destruct A as [Aa As]. apply Nat.ltb_lt in Aa.
  cbn [blank] in B. cbn [ws_only]. destruct (ascii_space a) eqn:S; [now apply IH|]. exfalso.
  destruct s as [|b s2]; [discriminate|].
  replace (Nat.eqb (byte a) 194) with false in B by (symmetry; apply Nat.eqb_neq; lia). cbn [andb] in B.
  destruct s2 as [|c s3]; [discriminate|].
  replace (Nat.eqb (byte a) 225) with false in B by (symmetry; apply Nat.eqb_neq; lia).
  replace (Nat.eqb (byte a) 226) with false in B by (symmetry; apply Nat.eqb_neq; lia).
  replace (Nat.eqb (byte a) 227) with false in B by (symmetry; apply Nat.eqb_neq; lia). discriminate.
Qed.

Lemma lower_is_ascii : forall t s, all_ascii s = true -> lower_is t s = true ->
  exists core r, s = core ++ r /\ lower_str core = t /\ ws_only r = true.
Proof.
  induction t as [|a t IH]; intros s A H.
  - exists EmptyString, s. cbn in H. repeat split. now apply blank_ascii.
  - destruct s as [|c s1]; [discriminate|]. cbn [all_ascii] in A. apply andb_prop in A. destruct A as [Ac A1]. apply Nat.ltb_lt in Ac.
    cbn [lower_is] in H. destruct (Ascii.eqb_spec (lower_ascii c) a) as [E|NE].
    + destruct (IH s1 A1 H) as (core & r & -> & El & Wr). exists (String c core), r. cbn [append lower_str]. now rewrite E, El.
    + exfalso. destruct s1 as [|b s2]; [discriminate|].
      replace (Nat.eqb (byte c) 196) with false in H by (symmetry; apply Nat.eqb_neq; lia). rewrite andb_false_r in H. cbn [andb] in H.
      destruct s2 as [|c3 s3]; [discriminate|].
      replace (Nat.eqb (byte c) 226) with false in H by (symmetry; apply Nat.eqb_neq; lia). rewrite andb_false_r in H. discriminate.
Qed.

Theorem media_is_ascii_only_spellings t s : all_ascii s = true -> media_is t s = true ->
  exists l core r, s = l ++ core ++ r /\ ws_only l = true /\ ws_only r = true /\ lower_str core = t.
Proof.
  intros A H. unfold media_is, ltrim in H. destruct (ltrim_fuel_ascii (String.length s) s A) as (l & El & Wl & Al).
  destruct (lower_is_ascii t _ Al H) as (core & r & Ec & Lc & Wr). exists l, core, r. rewrite <- Ec. now repeat split.
Qed.

(** the dispatch before the repair rejected spellings the RFC allows *)
Lemma legacy_dispatch_refuted : exists ct,
  by_media_type_legacy (before_semi ct) = SrcQuery /\ by_media_type (before_semi ct) = SrcJSON.
Proof. exists "Application/JSON ; charset=utf-8". split; reflexivity. Qed.

(** ** URL parameters: repeated or []-suffixed => list, single => string, missing => absent *)
Lemma url_get_missing m k : alookup k m = None -> parse_zero (url_get m k) = true.
Proof. intros H. unfold url_get. rewrite H. now destruct (has_suffix_brackets k). Qed.

Lemma url_get_single m k a : has_suffix_brackets k = false -> alookup k m = Some [a] -> url_get m k = VStr a.
Proof. intros Hk H. unfold url_get. now rewrite Hk, H. Qed.

Lemma url_get_repeated m k a b r : has_suffix_brackets k = false -> alookup k m = Some (a :: b :: r) ->
  url_get m k = VList (map VStr (a :: b :: r)).
Proof. intros Hk H. unfold url_get. now rewrite Hk, H. Qed.

Lemma url_get_brackets m k vs : has_suffix_brackets k = true -> alookup k m = Some vs -> url_get m k = VList (map VStr vs).
Proof. intros Hk H. unfold url_get. now rewrite Hk, H. Qed.

(** ** A body that cannot be decoded: exactly one issue with the front end's code at the root, the
    schema does not run (no callback, no field visited) and the destination is untouched — for a
    struct root and for a pointer-to-struct root, whatever the schema contains. *)
Lemma decode_failure_struct fs tests pts code err d :
  run Parse (SStruct fs tests pts) (DFactory (FErr code err)) d
  = {| o_issues := [mk_factory_issue code err "struct"]; o_calls := []; o_dest := d |}.
Proof. reflexivity. Qed.

Lemma decode_failure_ptr e nn pz code err d :
  run Parse (SPtr e nn pz) (DFactory (FErr code err)) d
  = {| o_issues := [mk_factory_issue code err (sch_dtype e)]; o_calls := []; o_dest := d |}.
Proof. reflexivity. Qed.

(** `{}` (a nil provider without error) is the record in which every field is absent: it behaves
    exactly like the empty provider and like the empty Go map. *)
Lemma empty_object_struct fs tests pts d :
  run Parse (SStruct fs tests pts) (DFactory FNil) d = run Parse (SStruct fs tests pts) (DProv PEmpty) d
  /\ run Parse (SStruct fs tests pts) (DFactory FNil) d = run Parse (SStruct fs tests pts) (DVal (VMap [])) d.
Proof. split; reflexivity. Qed.

Lemma empty_provider_all_absent tags k : parse_zero (fst (get_by_field PEmpty tags k)) = true.
Proof. reflexivity. Qed.
