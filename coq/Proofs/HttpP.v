(** * zhttp dispatch, URL parameters and decode failures (property C15). *)
From Coq Require Import String List Bool Ascii Lia.
From Zog Require Import Model.Val Model.Engine Model.Http.
Import ListNotations.
Open Scope string_scope.

Fixpoint no_semi (s : string) : bool :=
  match s with EmptyString => true | String a r => negb (Ascii.eqb a ";"%char) && no_semi r end.

Lemma before_semi_id s : no_semi s = true -> before_semi s = s.
Proof.
  induction s as [|a r IH]; cbn; [reflexivity|]. intros H. apply andb_prop in H. destruct H as [Ha Hr].
  destruct (Ascii.eqb a ";"%char); [discriminate|]. now rewrite IH.
Qed.

Lemma before_semi_app a b : no_semi a = true -> before_semi (a ++ String ";"%char b) = a.
Proof.
  induction a as [|c r IH]; cbn; [reflexivity|]. intros H. apply andb_prop in H. destruct H as [Ha Hr].
  destruct (Ascii.eqb c ";"%char); [discriminate|]. now rewrite IH.
Qed.

(** Parameters after the media type never matter, whatever they are. *)
Lemma params_ignored m mt ps : no_semi mt = true ->
  http_source m (mt ++ String ";"%char ps) = http_source m mt.
Proof. intros H. unfold http_source. now rewrite before_semi_app, before_semi_id. Qed.

Lemma get_head_query ct : http_source "GET" ct = SrcQuery /\ http_source "HEAD" ct = SrcQuery.
Proof. split; reflexivity. Qed.

Lemma other_methods m ct : m <> "GET" -> m <> "HEAD" -> http_source m ct = by_media_type (before_semi ct).
Proof.
  intros H1 H2. unfold http_source.
  destruct (String.eqb_spec m "GET"); [contradiction|]. destruct (String.eqb_spec m "HEAD"); [contradiction|]. reflexivity.
Qed.

Lemma source_json_iff m ct : http_source m ct = SrcJSON <-> (m <> "GET" /\ m <> "HEAD" /\ before_semi ct = "application/json").
Proof.
  unfold http_source, by_media_type. destruct (String.eqb_spec m "GET"); [cbn; split; [discriminate | tauto]|].
  destruct (String.eqb_spec m "HEAD"); [cbn; split; [discriminate | tauto]|]. cbn [orb].
  destruct (String.eqb_spec (before_semi ct) "application/json").
  - tauto.
  - destruct (String.eqb (before_semi ct) "application/x-www-form-urlencoded"); split; try discriminate; tauto.
Qed.

Lemma source_form_iff m ct : http_source m ct = SrcForm <-> (m <> "GET" /\ m <> "HEAD" /\ before_semi ct = "application/x-www-form-urlencoded").
Proof.
  unfold http_source, by_media_type. destruct (String.eqb_spec m "GET"); [cbn; split; [discriminate | tauto]|].
  destruct (String.eqb_spec m "HEAD"); [cbn; split; [discriminate | tauto]|]. cbn [orb].
  destruct (String.eqb_spec (before_semi ct) "application/json") as [E|E].
  - split; [discriminate|]. intros (_ & _ & H). rewrite E in H. discriminate.
  - destruct (String.eqb_spec (before_semi ct) "application/x-www-form-urlencoded"); split; try discriminate; tauto.
Qed.

(** ** URL parameters: repeated or []-suffixed => list, single => string, missing => absent *)
Lemma url_get_missing m k : alookup k m = None -> parse_zero (url_get m k) = true.
Proof. intros H. unfold url_get. rewrite H. now destruct (has_suffix_brackets k). Qed.

Lemma url_get_single m k a : has_suffix_brackets k = false -> alookup k m = Some [a] -> url_get m k = VStr a.
Proof. intros Hk H. unfold url_get. now rewrite Hk, H. Qed.

Lemma url_get_repeated m k a b r : has_suffix_brackets k = false -> alookup k m = Some (a :: b :: r) ->
  url_get m k = VList (map VStr (a :: b :: r)).
Proof. intros Hk H. unfold url_get. now rewrite Hk, H. Qed.

Lemma url_get_brackets m k vs : has_suffix_brackets k = true -> alookup k m = Some vs -> url_get m k = VList (map VStr vs).
Proof. intros Hk H. unfold url_get. now rewrite Hk, H. Qed.

(** ** A body that cannot be decoded: exactly one issue with the front end's code at the root, the
    schema does not run (no callback, no field visited) and the destination is untouched — for a
    struct root and for a pointer-to-struct root, whatever the schema contains. *)
Lemma decode_failure_struct fs tests pts code err d :
  run Parse (SStruct fs tests pts) (DFactory (FErr code err)) d
  = {| o_issues := [mk_factory_issue code err "struct"]; o_calls := []; o_dest := d |}.
Proof. reflexivity. Qed.

Lemma decode_failure_ptr e nn pz code err d :
  run Parse (SPtr e nn pz) (DFactory (FErr code err)) d
  = {| o_issues := [mk_factory_issue code err (sch_dtype e)]; o_calls := []; o_dest := d |}.
Proof. reflexivity. Qed.

(** `{}` (a nil provider without error) is the record in which every field is absent: it behaves
    exactly like the empty provider and like the empty Go map. *)
Lemma empty_object_struct fs tests pts d :
  run Parse (SStruct fs tests pts) (DFactory FNil) d = run Parse (SStruct fs tests pts) (DProv PEmpty) d
  /\ run Parse (SStruct fs tests pts) (DFactory FNil) d = run Parse (SStruct fs tests pts) (DVal (VMap [])) d.
Proof. split; reflexivity. Qed.

Lemma empty_provider_all_absent tags k : parse_zero (fst (get_by_field PEmpty tags k)) = true.
Proof. reflexivity. Qed.
