(** * The engine computes the semantics:  [exec] (L1) refines [sem] (L0).

    For every schema, mode, input, destination and entry state, if the context the node is entered
    with has CanCatch = Exit = false — which the engine establishes itself before every child (the
    repaired reset) and at the top level — then the node appends to the log exactly the entries
    [sem] assigns to it, rendered against the path stack at entry, leaves the path stack as it
    found it, and produces [sem]'s destination.  No bound on depth, width or length. *)
From Coq Require Import String List ZArith Bool Ascii Lia.
From Zog Require Import Model.Val Model.Engine Spec.Sem.
Import ListNotations.
Open Scope string_scope.
Open Scope list_scope.

(** ** State algebra *)
Definition ext (x : st) (l : list entry) : st := {| log := log x ++ l; path := path x |}.

Lemma ext_nil x : ext x [] = x.
Proof. destruct x; unfold ext; cbn. now rewrite app_nil_r. Qed.
Lemma ext_ext x a b : ext (ext x a) b = ext x (a ++ b).
Proof. unfold ext; cbn. now rewrite app_assoc. Qed.
Lemma emit_ext e x : emit e x = ext x [e].
Proof. reflexivity. Qed.
Lemma push_ext k x l : push k (ext x l) = ext (push k x) l.
Proof. reflexivity. Qed.
Lemma pop_ext_push k x l : pop (ext (push k x) l) = ext x l.
Proof. reflexivity. Qed.
Lemma path_ext x l : path (ext x l) = path x.
Proof. reflexivity. Qed.
Lemma log_ext x l : log (ext x l) = log x ++ l.
Proof. reflexivity. Qed.
Lemma here_ext x l : here (ext x l) = here x.
Proof. reflexivity. Qed.

(** ** Rendering relative entries *)
Lemma abs_app b l1 l2 : abs b (l1 ++ l2) = abs b l1 ++ abs b l2.
Proof. unfold abs. apply map_app. Qed.
Lemma abs_nil b : abs b [] = [].
Proof. reflexivity. Qed.

Lemma abs_under b k l : abs (k :: b) l = abs b (under k l).
Proof.
  unfold abs, under. rewrite map_map. apply map_ext. intros [s mk|s mk]; cbn [abs1 rev];
    now rewrite <- app_assoc.
Qed.

Lemma errored_app l1 l2 : errored (l1 ++ l2) = errored l1 || errored l2.
Proof. unfold errored. apply existsb_app. Qed.
Lemma errored_abs b l : errored (abs b l) = rerrored l.
Proof.
  unfold errored, rerrored, abs. induction l as [|[s mk|s mk] r IH]; cbn; [reflexivity| |]; now rewrite ?IH.
Qed.
Lemma rerrored_app l1 l2 : rerrored (l1 ++ l2) = rerrored l1 || rerrored l2.
Proof. unfold rerrored. apply existsb_app. Qed.
Lemma rerrored_under k l : rerrored (under k l) = rerrored l.
Proof. unfold rerrored, under. induction l as [|[s mk|s mk] r IH]; cbn; now rewrite ?IH. Qed.
Lemma errored_ext x b l : errored (log (ext x (abs b l))) = errored (log x) || rerrored l.
Proof. rewrite log_ext, errored_app, errored_abs. reflexivity. Qed.

Lemma ecall_ext x id k arg : ecall x id k arg = ext x (abs (path x) (rcall id k arg)).
Proof.
  unfold ecall, rcall. destruct (Nat.eqb id 0).
  - now rewrite abs_nil, ext_nil.
  - reflexivity.
Qed.
Lemma rerrored_rcall id k arg : rerrored (rcall id k arg) = false.
Proof. unfold rcall. now destruct (Nat.eqb id 0). Qed.

(** ** Tests *)
Lemma add_nocatch f x i : cc f = false -> add f x i = (f, ext x [EIssue i]).
Proof. intros H. unfold add. now rewrite H. Qed.
Lemma add_catch f x i : cc f = true -> add f x i = ({| cc := true; ex := true |}, x).
Proof. intros H. unfold add. now rewrite H. Qed.

Lemma run_test_nocatch dtype t f v x : cc f = false ->
  run_test dtype t f v x = (f, ext x (abs (path x) (sem_test dtype t v))).
Proof.
  intros Hc. unfold run_test, sem_test. rewrite ecall_ext.
  destruct (t_ok t v).
  - now rewrite app_nil_r.
  - rewrite add_nocatch by assumption. rewrite ext_ext, abs_app, here_ext. reflexivity.
Qed.

Lemma node_tests_refines dtype ts : forall f v x, cc f = false -> ex f = false ->
  node_tests dtype ts f v x = (f, ext x (abs (path x) (sem_tests_all dtype ts v))).
Proof.
  induction ts as [|t ts IH]; intros f v x Hc He; cbn [node_tests sem_tests_all flat_map].
  - now rewrite abs_nil, ext_nil.
  - rewrite run_test_nocatch by assumption. rewrite He.
    rewrite IH by assumption. rewrite ext_ext, path_ext, <- abs_app. reflexivity.
Qed.

Lemma prim_tests_nocatch dtype ts : forall f v x, cc f = false -> ex f = false ->
  prim_tests dtype ts None f v x = (f, v, ext x (abs (path x) (sem_tests_all dtype ts v))).
Proof.
  induction ts as [|t ts IH]; intros f v x Hc He; cbn [prim_tests sem_tests_all flat_map].
  - now rewrite abs_nil, ext_nil.
  - rewrite run_test_nocatch by assumption. rewrite He. cbn [andb].
    rewrite IH by assumption. rewrite ext_ext, path_ext, <- abs_app. reflexivity.
Qed.

Lemma prim_tests_catch dtype ts c : forall f v x, cc f = true -> ex f = false ->
  exists f', cc f' = true /\
    prim_tests dtype ts (Some c) f v x
    = (f', snd (sem_tests_catch ts c v), ext x (abs (path x) (fst (sem_tests_catch ts c v)))).
Proof.
  induction ts as [|t ts IH]; intros f v x Hc He; cbn [prim_tests sem_tests_catch].
  - exists f. split; [assumption|]. cbn [fst snd]. now rewrite abs_nil, ext_nil.
  - unfold run_test. rewrite ecall_ext. destruct (t_ok t v) eqn:Hok.
    + rewrite He. cbn [andb].
      destruct (IH f v (ext x (abs (path x) (rcall (t_id t) CbTest (Some v)))) Hc He) as (f' & Hc' & E).
      exists f'. split; [assumption|]. rewrite E.
      destruct (sem_tests_catch ts c v) as [l d']. cbn [fst snd].
      rewrite ext_ext, path_ext, <- abs_app. reflexivity.
    + rewrite add_catch by assumption. cbn [ex cc andb].
      exists {| cc := true; ex := true |}. split; [reflexivity|]. cbn [fst snd]. reflexivity.
Qed.

(** ** PostTransforms *)
Lemma pts_loop_refines wrap ps : forall f v x,
  exists f', cc f' = cc f /\
    pts_loop wrap ps f v x
    = (f', snd (sem_pts_loop wrap (cc f) ps v), ext x (abs (path x) (fst (sem_pts_loop wrap (cc f) ps v)))).
Proof.
  induction ps as [|p ps IH]; intros f v x; cbn [pts_loop sem_pts_loop].
  - exists f. split; [reflexivity|]. cbn [fst snd]. now rewrite abs_nil, ext_nil.
  - rewrite ecall_ext. destruct (pt_fn p v) as [v1 [e|]].
    + destruct (cc f) eqn:Hc.
      * rewrite add_catch by assumption. exists {| cc := true; ex := true |}. split; [reflexivity|]. cbn [fst snd].
        now rewrite app_nil_r.
      * rewrite add_nocatch by assumption. exists f. split; [assumption|]. cbn [fst snd].
        rewrite ext_ext, abs_app, here_ext. reflexivity.
    + destruct (IH f v1 (ext x (abs (path x) (rcall (pt_id p) CbPT (Some v))))) as (f' & Hc' & E).
      exists f'. split; [assumption|]. rewrite E.
      destruct (sem_pts_loop wrap (cc f) ps v1) as [l d']. cbn [fst snd].
      rewrite ext_ext, path_ext, <- abs_app. reflexivity.
Qed.

(** [then_pts] is what [run_pts] does after a body that produced entries [l]. *)
Lemma run_pts_refines wrap ps f x0 l d :
  exists f', cc f' = cc f /\
    run_pts wrap ps f d (ext x0 (abs (path x0) l))
    = (f', snd (then_pts wrap (cc f) ps (errored (log x0)) (l, d)),
       ext x0 (abs (path x0) (fst (then_pts wrap (cc f) ps (errored (log x0)) (l, d))))).
Proof.
  unfold run_pts, then_pts, sem_pts. rewrite errored_ext.
  destruct (errored (log x0) || rerrored l).
  - exists f. split; [reflexivity|]. cbn [fst snd]. now rewrite app_nil_r.
  - destruct (pts_loop_refines wrap ps f d (ext x0 (abs (path x0) l))) as (f' & Hc & E).
    exists f'. split; [assumption|]. rewrite E.
    destruct (sem_pts_loop wrap (cc f) ps d) as [l2 d2]. cbn [fst snd].
    rewrite ext_ext, path_ext, <- abs_app. reflexivity.
Qed.

(** The shape every node lemma has. *)
Definition result (r : list rentry * dval) (x : st) : dval * st := (snd r, ext x (abs (path x) (fst r))).
Definition computes (out : fl * dval * st) (r : list rentry * dval) (x : st) : Prop :=
  exists f', out = (f', fst (result r x), snd (result r x)).

Lemma computes_intro f' r x : computes (f', snd r, ext x (abs (path x) (fst r))) r x.
Proof. exists f'. reflexivity. Qed.

(** ** Primitives *)
Lemma exec_prim_refines m p f dat d x : ex f = false ->
  computes (exec_prim m p f dat d x) (sem_prim m p dat d (errored (log x))) x.
Proof.
  intros He. unfold exec_prim, sem_prim.
  set (dtype := dtype_of (p_kind p)).
  set (wrap := fun (y : string) (e : uerr) => mk_unknown_issue y dtype e).
  (* a body that produced entries l and value d1 under flags f1 with cc f1 = catches *)
  assert (K : forall f1 l d1, cc f1 = match p_catch p with Some _ => true | None => false end ->
     computes (let '(f2, d2, x2) := (f1, d1, ext x (abs (path x) l)) in run_pts wrap (p_pts p) f2 d2 x2)
              (then_pts wrap (match p_catch p with Some _ => true | None => false end) (p_pts p)
                        (errored (log x)) (l, d1)) x).
  { intros f1 l d1 Hc. cbn beta iota.
    destruct (run_pts_refines wrap (p_pts p) f1 x l d1) as (f' & _ & E). rewrite Hc in E.
    exists f'. rewrite E. reflexivity. }
  assert (KT : forall f0 v, cc f0 = match p_catch p with Some _ => true | None => false end -> ex f0 = false ->
     computes (let '(f2, d2, x2) := prim_tests dtype (p_tests p) (p_catch p) f0 v x in run_pts wrap (p_pts p) f2 d2 x2)
              (then_pts wrap (match p_catch p with Some _ => true | None => false end) (p_pts p)
                        (errored (log x)) (sem_prim_tests dtype (p_tests p) (p_catch p) v)) x).
  { intros f0 v Hc0 He0. unfold sem_prim_tests. destruct (p_catch p) as [c|] eqn:Hcatch.
    - destruct (prim_tests_catch dtype (p_tests p) c f0 v x Hc0 He0) as (f1 & Hc1 & E). rewrite E.
      destruct (sem_tests_catch (p_tests p) c v) as [l d1]. cbn [fst snd].
      apply (K f1 l d1). assumption.
    - rewrite prim_tests_nocatch by assumption.
      apply (K f0 (sem_tests_all dtype (p_tests p) v) v). assumption. }
  set (f0 := {| cc := match p_catch p with Some _ => true | None => false end; ex := ex f |}).
  assert (Hc0 : cc f0 = match p_catch p with Some _ => true | None => false end) by reflexivity.
  assert (He0 : ex f0 = false) by exact He.
  assert (KN : forall d1, computes (let '(f2, d2, x2) := (f0, d1, x) in run_pts wrap (p_pts p) f2 d2 x2)
              (then_pts wrap (match p_catch p with Some _ => true | None => false end) (p_pts p)
                        (errored (log x)) ([], d1)) x).
  { intros d1. specialize (K f0 [] d1 Hc0). rewrite abs_nil, ext_nil in K. exact K. }
  assert (KI : forall i, cc f0 = false ->
      computes (let '(f2, d2, x2) := (let '(f', x') := add f0 x (i (here x)) in (f', d, x')) in run_pts wrap (p_pts p) f2 d2 x2)
              (then_pts wrap (match p_catch p with Some _ => true | None => false end) (p_pts p)
                        (errored (log x)) ([RI [] i], d)) x).
  { intros i Hn. rewrite add_nocatch by assumption.
    specialize (K f0 [RI [] i] d Hc0). exact K. }
  destruct (match m with Parse => parse_zero dat | Validate => go_zero d end).
  - destruct (p_def p) as [dv|].
    + apply KT; assumption.
    + destruct (p_req p) as [rt|].
      * destruct (p_catch p) as [c|] eqn:Hcatch; cbn [cc f0].
        -- subst f0. cbn [cc]. apply KN.
        -- subst f0. cbn [cc]. apply (KI (fun q => mk_test_issue q dtype rt)). reflexivity.
      * apply KN.
  - destruct m.
    + destruct (p_coerce p dat) as [v|].
      * apply KT; assumption.
      * destruct (p_catch p) as [c|] eqn:Hcatch; subst f0; cbn [cc].
        -- apply KN.
        -- apply (KI (fun q => mk_coerce_issue q dtype)). reflexivity.
    + apply KT; assumption.
Qed.

(** ** Nested induction principle for schemas *)
Section SchInd.
  Variable P : sch -> Prop.
  Hypothesis HPrim : forall p, P (SPrim p).
  Hypothesis HStruct : forall fs tests pts, Forall (fun kc => P (snd (snd kc))) fs -> P (SStruct fs tests pts).
  Hypothesis HSlice : forall e c, P e -> P (SSlice e c).
  Hypothesis HPtr : forall e nn pz, P e -> P (SPtr e nn pz).
  Hypothesis HCustom : forall conv t, P (SCustom conv t).
  Hypothesis HPre : forall pf e, P e -> P (SPre pf e).
  Fixpoint sch_ind' (s : sch) : P s :=
    match s with
    | SPrim p => HPrim p
    | SStruct fs tests pts =>
      HStruct fs tests pts
        ((fix go (l : list (string * (list (string * string) * sch))) : Forall (fun kc => P (snd (snd kc))) l :=
            match l with
            | [] => Forall_nil _
            | kc :: r => Forall_cons kc (sch_ind' (snd (snd kc))) (go r)
            end) fs)
    | SSlice e c => HSlice e c (sch_ind' e)
    | SPtr e nn pz => HPtr e nn pz (sch_ind' e)
    | SCustom conv t => HCustom conv t
    | SPre pf e => HPre pf e (sch_ind' e)
    end.
End SchInd.

Definition refines (s : sch) : Prop := forall m f dat d x, cc f = false -> ex f = false ->
  computes (exec m s f dat d x) (sem m s dat d (errored (log x))) x.

(** ** Loops *)
Lemma elems_parse_refines m e : refines e -> forall items zero sub done i x,
  exists sub',
    elems_parse (exec m e) items zero sub done i x
    = (sub', snd (sem_elems_parse (sem m e) items zero done i (errored (log x))),
       ext x (abs (path x) (fst (sem_elems_parse (sem m e) items zero done i (errored (log x)))))).
Proof.
  intros IH. induction items as [|v r IHr]; intros zero sub done i x; cbn [elems_parse sem_elems_parse].
  - exists sub. cbn [fst snd]. now rewrite abs_nil, ext_nil.
  - destruct (IH m {| cc := false; ex := false |} (DVal v) zero (push (idx_seg i) x) eq_refl eq_refl) as (f' & E).
    rewrite E. unfold result. cbn [fst snd].
    change (log (push (idx_seg i) x)) with (log x). change (path (push (idx_seg i) x)) with (idx_seg i :: path x).
    destruct (sem m e (DVal v) zero (errored (log x))) as [lk dk]. cbn [fst snd].
    rewrite pop_ext_push, abs_under.
    destruct (IHr zero f' (done ++ [dk]) (S i) (ext x (abs (path x) (under (idx_seg i) lk)))) as (sub' & E2).
    exists sub'. rewrite E2. rewrite errored_ext, rerrored_under, path_ext.
    destruct (sem_elems_parse (sem m e) r zero (done ++ [dk]) (S i) (errored (log x) || rerrored lk)) as [lr dr].
    cbn [fst snd]. rewrite ext_ext, <- abs_app. reflexivity.
Qed.

Lemma elems_valid_refines m e : refines e -> forall items sub done i x,
  exists sub',
    elems_valid (exec m e) items sub done i x
    = (sub', snd (sem_elems_valid (sem m e) items done i (errored (log x))),
       ext x (abs (path x) (fst (sem_elems_valid (sem m e) items done i (errored (log x)))))).
Proof.
  intros IH. induction items as [|v r IHr]; intros sub done i x; cbn [elems_valid sem_elems_valid].
  - exists sub. cbn [fst snd]. now rewrite abs_nil, ext_nil.
  - destruct (IH m {| cc := false; ex := false |} (DVal VNil) v (push (idx_seg i) x) eq_refl eq_refl) as (f' & E).
    rewrite E. unfold result. cbn [fst snd].
    change (log (push (idx_seg i) x)) with (log x). change (path (push (idx_seg i) x)) with (idx_seg i :: path x).
    destruct (sem m e (DVal VNil) v (errored (log x))) as [lk dk]. cbn [fst snd].
    rewrite pop_ext_push, abs_under.
    destruct (IHr f' (done ++ [dk]) (S i) (ext x (abs (path x) (under (idx_seg i) lk)))) as (sub' & E2).
    exists sub'. rewrite E2. rewrite errored_ext, rerrored_under, path_ext.
    destruct (sem_elems_valid (sem m e) r (done ++ [dk]) (S i) (errored (log x) || rerrored lk)) as [lr dr].
    cbn [fst snd]. rewrite ext_ext, <- abs_app. reflexivity.
Qed.

Lemma fields_loop_refines m pv : forall fs, Forall (fun kc => refines (snd (snd kc))) fs ->
  forall sub dfs x,
  exists sub',
    fields_loop (exec m) m pv fs sub dfs x
    = (sub', snd (sem_fields (sem m) m pv fs dfs (errored (log x))),
       ext x (abs (path x) (fst (sem_fields (sem m) m pv fs dfs (errored (log x)))))).
Proof.
  induction fs as [|[k [tags c]] r IHr]; intros HF sub dfs x; cbn [fields_loop sem_fields].
  - exists sub. cbn [fst snd]. now rewrite abs_nil, ext_nil.
  - inversion HF as [|? ? Hk Hr]; subst. cbn [snd] in Hk.
    destruct (match m with
              | Parse => get_by_field pv tags k
              | Validate => (VNil, match alookup "zog" tags with Some t => t | None => k end)
              end) as [v fk].
    destruct (Hk m {| cc := false; ex := false |} (DVal v) (dlookup k dfs) (push fk x) eq_refl eq_refl) as (f' & E).
    rewrite E. unfold result. cbn [fst snd].
    change (log (push fk x)) with (log x). change (path (push fk x)) with (fk :: path x).
    destruct (sem m c (DVal v) (dlookup k dfs) (errored (log x))) as [lk dk]. cbn [fst snd].
    rewrite pop_ext_push, abs_under.
    destruct (IHr Hr f' (dset k dk dfs) (ext x (abs (path x) (under fk lk)))) as (sub' & E2).
    exists sub'. rewrite E2. rewrite errored_ext, rerrored_under, path_ext.
    destruct (sem_fields (sem m) m pv r (dset k dk dfs) (errored (log x) || rerrored lk)) as [lr dr].
    cbn [fst snd]. rewrite ext_ext, <- abs_app. reflexivity.
Qed.

(** a node body that produced [l] and [d1] and then runs its PostTransforms without catching *)
Lemma finish_refines wrap ps f x l d1 : cc f = false ->
  computes (run_pts wrap ps f d1 (ext x (abs (path x) l)))
           (then_pts wrap false ps (errored (log x)) (l, d1)) x.
Proof.
  intros Hc. destruct (run_pts_refines wrap ps f x l d1) as (f' & _ & E). rewrite Hc in E.
  exists f'. rewrite E. reflexivity.
Qed.

Lemma finish_issue_refines wrap ps f x i d : cc f = false ->
  computes (let '(f1, x1) := add f x (i (here x)) in run_pts wrap ps f1 d x1)
           (then_pts wrap false ps (errored (log x)) ([RI [] i], d)) x.
Proof.
  intros Hc. rewrite add_nocatch by assumption. apply (finish_refines wrap ps f x [RI [] i] d Hc).
Qed.

Lemma finish_nil_refines wrap ps f x d : cc f = false ->
  computes (run_pts wrap ps f d x) (then_pts wrap false ps (errored (log x)) ([], d)) x.
Proof.
  intros Hc. pose proof (finish_refines wrap ps f x [] d Hc) as H. now rewrite abs_nil, ext_nil in H.
Qed.

Ltac fin := unfold computes, result; cbn [fst snd]; rewrite ?abs_app; eexists; reflexivity.

(** ** The theorem *)
Theorem exec_refines_sem : forall s, refines s.
Proof.
  induction s as [p | fs tests pts IH | e c IH | e nn pz IH | conv t | pf e IH] using sch_ind';
    unfold refines; intros m f dat d x Hc He.
  - (* primitive *) cbn [exec sem]. apply exec_prim_refines. assumption.
  - (* struct *)
    cbn [exec sem].
    set (wrap := fun (y : string) (e : uerr) => mk_unknown_issue y "struct" e).
    assert (B : forall pv,
      computes (let '(_, dfs, x1) := fields_loop (exec m) m pv fs fl0 (dstruct_fields d) x in
                let d1 := DStruct dfs in
                let '(f2, x2) := node_tests "struct" tests f d1 x1 in run_pts wrap pts f2 d1 x2)
               (let '(lf, dfs) := sem_fields (sem m) m pv fs (dstruct_fields d) (errored (log x)) in
                let d1 := DStruct dfs in
                then_pts wrap false pts (errored (log x)) (lf ++ sem_tests_all "struct" tests d1, d1)) x).
    { intros pv. destruct (fields_loop_refines m pv fs IH fl0 (dstruct_fields d) x) as (sub' & E). rewrite E.
      destruct (sem_fields (sem m) m pv fs (dstruct_fields d) (errored (log x))) as [lf dfs]. cbn [fst snd].
      rewrite node_tests_refines by assumption. rewrite ext_ext, path_ext, <- abs_app.
      apply finish_refines. assumption. }
    destruct m.
    + destruct dat as [v|pv|[code err| |pv]].
      * destruct (provider_of_val v) as [pv|]; [apply B|].
        apply (finish_issue_refines wrap pts f x (fun q => mk_coerce_issue q "struct") d Hc).
      * apply B.
      * apply (finish_issue_refines wrap pts f x (fun _ => mk_factory_issue code err "struct") d Hc).
      * apply B.
      * apply B.
    + apply B.
  - (* slice *)
    cbn [exec sem].
    set (wrap := fun (y : string) (err : uerr) => mk_unknown_issue y "slice" err).
    assert (A : computes
        match sl_req c with
        | Some rt => let '(f1, x1) := add f x (mk_test_issue (here x) "slice" rt) in run_pts wrap (sl_pts c) f1 d x1
        | None => run_pts wrap (sl_pts c) f d x
        end
        match sl_req c with
        | Some rt => then_pts wrap false (sl_pts c) (errored (log x)) ([RI [] (fun q => mk_test_issue q "slice" rt)], d)
        | None => then_pts wrap false (sl_pts c) (errored (log x)) ([], d)
        end x).
    { destruct (sl_req c) as [rt|].
      - apply (finish_issue_refines wrap (sl_pts c) f x (fun q => mk_test_issue q "slice" rt) d Hc).
      - apply finish_nil_refines. assumption. }
    destruct m.
    + assert (G : forall items,
        computes (let '(_, ds, x1) := elems_parse (exec Parse e) items (sl_zero c) fl0 [] 0 x in
                  let '(f2, x2) := node_tests "slice" (sl_tests c) f (DSlice ds) x1 in
                  run_pts wrap (sl_pts c) f2 (DSlice ds) x2)
                 (let '(le, ds) := sem_elems_parse (sem Parse e) items (sl_zero c) [] 0 (errored (log x)) in
                  then_pts wrap false (sl_pts c) (errored (log x))
                           (le ++ sem_tests_all "slice" (sl_tests c) (DSlice ds), DSlice ds)) x).
      { intros items. destruct (elems_parse_refines Parse e IH items (sl_zero c) fl0 [] 0 x) as (sub' & E). rewrite E.
        destruct (sem_elems_parse (sem Parse e) items (sl_zero c) [] 0 (errored (log x))) as [le ds]. cbn [fst snd].
        rewrite node_tests_refines by assumption. rewrite ext_ext, path_ext, <- abs_app.
        apply finish_refines. assumption. }
      destruct (parse_zero (data_val dat)).
      * destruct (sl_def c) as [dl|]; [apply G | apply A].
      * destruct (sl_coerce c (data_val dat)) as [items|]; [apply G|].
        apply (finish_issue_refines wrap (sl_pts c) f x (fun q => mk_coerce_issue q "slice") d Hc).
    + assert (G : forall items,
        computes (let '(_, ds, x1) := elems_valid (exec Validate e) items fl0 [] 0 x in
                  let '(f2, x2) := node_tests "slice" (sl_tests c) f (DSlice ds) x1 in
                  run_pts wrap (sl_pts c) f2 (DSlice ds) x2)
                 (let '(le, ds) := sem_elems_valid (sem Validate e) items [] 0 (errored (log x)) in
                  then_pts wrap false (sl_pts c) (errored (log x))
                           (le ++ sem_tests_all "slice" (sl_tests c) (DSlice ds), DSlice ds)) x).
      { intros items. destruct (elems_valid_refines Validate e IH items fl0 [] 0 x) as (sub' & E). rewrite E.
        destruct (sem_elems_valid (sem Validate e) items [] 0 (errored (log x))) as [le ds]. cbn [fst snd].
        rewrite node_tests_refines by assumption. rewrite ext_ext, path_ext, <- abs_app.
        apply finish_refines. assumption. }
      destruct (dslice_items d) as [|d0 dr].
      * destruct (sl_def c) as [dl|]; [apply G | apply A].
      * apply G.
  - (* pointer *)
    cbn [exec sem].
    set (pointee := match d with DPtr (Some y) => Some y | _ => None end).
    assert (A : computes
        match nn with
        | Some rt => let '(f1, x1) := add f x (mk_test_issue (here x) (sch_dtype e) rt) in (f1, d, x1)
        | None => (f, d, x)
        end
        match nn with
        | Some rt => ([RI [] (fun q => mk_test_issue q (sch_dtype e) rt)], d)
        | None => ([], d)
        end x).
    { destruct nn as [rt|].
      - rewrite add_nocatch by assumption. fin.
      - exists f. unfold result. cbn [fst snd]. now rewrite abs_nil, ext_nil. }
    assert (G : forall dat1 y,
        computes (let '(_, y1, x1) := exec m e fl0 dat1 y x in (f, DPtr (Some y1), x1))
                 (let '(l, y1) := sem m e dat1 y (errored (log x)) in (l, DPtr (Some y1))) x).
    { intros dat1 y. destruct (IH m fl0 dat1 y x eq_refl eq_refl) as (f' & E). rewrite E.
      unfold result. destruct (sem m e dat1 y (errored (log x))) as [l y1]. cbn [fst snd]. fin. }
    destruct m.
    + destruct dat as [v|pv|[code err| |pv]].
      * destruct (parse_zero v); [apply A | apply G].
      * apply G.
      * rewrite add_nocatch by assumption. fin.
      * apply A.
      * apply G.
    + destruct pointee as [y|]; [apply G | apply A].
  - (* custom *)
    cbn [exec sem]. destruct m.
    + destruct (conv (data_val dat)) as [v|].
      * rewrite ecall_ext. destruct (t_ok t v).
        -- rewrite app_nil_r. fin.
        -- rewrite add_nocatch by assumption. rewrite ext_ext, here_ext. fin.
      * rewrite add_nocatch by assumption. fin.
    + rewrite ecall_ext. destruct (t_ok t d).
      * rewrite app_nil_r. fin.
      * rewrite add_nocatch by assumption. rewrite ext_ext, here_ext. fin.
  - (* preprocess *)
    cbn [exec sem]. destruct m.
    + destruct (pre_parse pf (data_val dat)) as [[v|err]|].
      * rewrite ecall_ext.
        destruct (IH Parse f (DVal v) d (ext x (abs (path x) (rcall (pre_id pf) CbPre None))) Hc He) as (f' & E).
        rewrite E. unfold result. rewrite errored_ext, path_ext.
        destruct (sem Parse e (DVal v) d (errored (log x) || rerrored (rcall (pre_id pf) CbPre None))) as [l d1].
        cbn [fst snd]. rewrite ext_ext, <- abs_app. fin.
      * rewrite ecall_ext. rewrite add_nocatch by assumption. rewrite ext_ext, here_ext. fin.
      * rewrite add_nocatch by assumption. fin.
    + rewrite ecall_ext. destruct (pre_valid pf d) as [d1|msg].
      * destruct (IH Validate f (DVal VNil) d1 (ext x (abs (path x) (rcall (pre_id pf) CbPre (Some d)))) Hc He) as (f' & E).
        rewrite E. unfold result. rewrite errored_ext, path_ext.
        destruct (sem Validate e (DVal VNil) d1 (errored (log x) || rerrored (rcall (pre_id pf) CbPre (Some d)))) as [l d2].
        cbn [fst snd]. rewrite ext_ext, <- abs_app. fin.
      * rewrite add_nocatch by assumption. rewrite ext_ext, here_ext. fin.
Qed.

(** Top level: the engine's outcome is the semantics' outcome. *)
Corollary run_is_sem_run m s dat d : run m s dat d = sem_run m s dat d.
Proof.
  unfold run, sem_run.
  destruct (exec_refines_sem s m fl0 dat d st0 eq_refl eq_refl) as (f' & E). rewrite E.
  unfold result. cbn [fst snd]. change (errored (log st0)) with false.
  destruct (sem m s dat d false) as [l d1]. cbn [fst snd]. reflexivity.
Qed.
