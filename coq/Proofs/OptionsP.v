(** * What a callback reads through ctx.Get, and which formatter a call uses, is decided by the call's own options. *)
From Coq Require Import String List Bool.
From Zog Require Import Model.Options.
Import ListNotations.
Open Scope string_scope.

Lemma mget_del_same k m : mget (del k m) k = None.
Proof.
  induction m as [|[k' v] m IH]; cbn; [reflexivity|].
  destruct (String.eqb k k') eqn:E; [exact IH|]. cbn. now rewrite E.
Qed.
Lemma mget_del_other k k2 m : k2 <> k -> mget (del k m) k2 = mget m k2.
Proof.
  intros N. induction m as [|[k' v] m IH]; cbn; [reflexivity|].
  destruct (String.eqb_spec k k') as [->|N2].
  - rewrite IH. destruct (String.eqb_spec k2 k'); [contradiction | reflexivity].
  - cbn. now rewrite IH.
Qed.
Lemma mget_mset k v m k2 : mget (mset m k v) k2 = if String.eqb k2 k then Some v else mget m k2.
Proof.
  unfold mset. cbn. destruct (String.eqb_spec k2 k) as [->|N]; [reflexivity|]. now apply mget_del_other.
Qed.

(** folding the options over any starting context *)
Lemma fold_vals opts : forall c k,
  mget (e_vals (fold_left apply_opt opts c)) k = match last_ctx opts k with Some v => Some v | None => mget (e_vals c) k end.
Proof.
  induction opts as [|o opts IH]; intros c k; cbn [fold_left last_ctx]; [reflexivity|].
  rewrite IH. destruct o as [k' v|p sk]; cbn [apply_opt e_vals].
  - destruct (last_ctx opts k); [reflexivity|]. rewrite mget_mset. now destruct (String.eqb k k').
  - reflexivity.
Qed.
Lemma fold_fmt opts : forall c,
  e_fmt (fold_left apply_opt opts c) = match last_fmt opts with Some p => Some p | None => e_fmt c end.
Proof.
  induction opts as [|o opts IH]; intros c; cbn [fold_left last_fmt]; [reflexivity|].
  rewrite IH. destruct o as [k' v|p sk]; cbn [apply_opt e_fmt]; [reflexivity|]. now destruct (last_fmt opts).
Qed.

(** ctx.Get(k) is the value of the call's last WithCtxValue(k, _), nil when the call passed none:
    nothing of the recycled context object is visible *)
Theorem ctx_value_is_last_option dirty opts k : ctx_value dirty opts k = last_ctx opts k.
Proof. unfold ctx_value, call_ctx. rewrite fold_vals. cbn. now destruct (last_ctx opts k). Qed.

Corollary ctx_value_ignores_recycled d1 d2 opts k : ctx_value d1 opts k = ctx_value d2 opts k.
Proof. now rewrite !ctx_value_is_last_option. Qed.

Fixpoint mentions (opts : list eopt) (k : string) : bool :=
  match opts with [] => false | OCtx k' _ :: r => String.eqb k k' || mentions r k | OFmt _ _ :: r => mentions r k end.
Lemma last_ctx_none opts k : mentions opts k = false -> last_ctx opts k = None.
Proof.
  induction opts as [|[k' v|p sk] opts IH]; cbn; intros H; [reflexivity| |now apply IH].
  apply orb_false_elim in H. destruct H as [H1 H2]. now rewrite IH, H1.
Qed.
Corollary ctx_value_other_keys_nil dirty opts k : mentions opts k = false -> ctx_value dirty opts k = None.
Proof. intros H. now rewrite ctx_value_is_last_option, last_ctx_none. Qed.

Lemma last_ctx_app a b k : last_ctx (a ++ b) k = match last_ctx b k with Some v => Some v | None => last_ctx a k end.
Proof.
  induction a as [|[k' v|p sk] a IH]; cbn; [now destruct (last_ctx b k)| |exact IH].
  rewrite IH. destruct (last_ctx b k); [reflexivity|]. reflexivity.
Qed.
Corollary ctx_last_call_wins dirty before k v after :
  mentions after k = false -> ctx_value dirty (before ++ OCtx k v :: after) k = Some v.
Proof.
  intros H. rewrite ctx_value_is_last_option, last_ctx_app. cbn. rewrite (last_ctx_none _ _ H), String.eqb_refl.
  reflexivity.
Qed.

(** the formatter: the call's last WithIssueFormatter, the default one when there is none *)
Theorem call_fmt_is_last_option opts : call_fmt opts = last_fmt opts.
Proof. unfold call_fmt, call_ctx. rewrite fold_fmt. cbn. now destruct (last_fmt opts). Qed.

(** options of different kinds do not interfere; context values of different keys do not interfere *)
Lemma last_ctx_skip_fmt a p sk b k : last_ctx (a ++ OFmt p sk :: b) k = last_ctx (a ++ b) k.
Proof. rewrite !last_ctx_app. reflexivity. Qed.
Lemma last_ctx_skip_other a k' v b k : k <> k' -> last_ctx (a ++ OCtx k' v :: b) k = last_ctx (a ++ b) k.
Proof.
  intros N. rewrite !last_ctx_app. cbn. destruct (last_ctx b k); [reflexivity|].
  destruct (String.eqb_spec k k'); [contradiction | reflexivity].
Qed.

(** the seeded defect (a context map kept from the previous call) breaks it: regression witness *)
Theorem legacy_ctx_refuted :
  mget (e_vals (call_ctx_legacy {| e_fmt := None; e_vals := [("tenant", "A")] |} [])) "tenant" = Some "A"
  /\ ctx_value {| e_fmt := None; e_vals := [("tenant", "A")] |} [] "tenant" = None.
Proof. split; reflexivity. Qed.

Example options_example :
  ctx_value {| e_fmt := Some ("X", None); e_vals := [("k1", "old")] |} [OCtx "k8" "shared"; OCtx "k1" "a"; OFmt "F1:" None; OCtx "k1" "b"; OFmt "F2:" (Some "required")] "k1" = Some "b"
  /\ call_fmt [OCtx "k8" "shared"; OCtx "k1" "a"; OFmt "F1:" None; OCtx "k1" "b"; OFmt "F2:" (Some "required")] = Some ("F2:", Some "required")
  /\ ctx_value {| e_fmt := Some ("X", None); e_vals := [("k1", "old")] |} [OCtx "k8" "shared"] "k1" = None.
Proof. repeat split. Qed.
