(** * No input data can make Parse panic (property C06): the provider layer. *)
From Coq Require Import String List Bool.
From Zog Require Import Model.Val Model.Engine Model.Dyn.
Import ListNotations.
Open Scope string_scope.

Theorem try_provider_never_panics : forall g, exists r, try_provider g = Done r.
Proof.
  fix IH 1. intros [| | t n es | fs | [v|] | ]; cbn; try (eexists; reflexivity). apply IH.
Qed.

Theorem lookup_never_panics p k : exists b, lookup_present p k = Done b.
Proof.
  destruct p as [| ps | fs |]; cbn; try (eexists; reflexivity).
  destruct (find (fun f => String.eqb (fst (fst f)) k) fs); eexists; reflexivity.
Qed.

Theorem lookup_promoted_never_panics bn p k : exists b, lookup_promoted bn p k = Done b.
Proof. unfold lookup_promoted. destruct (existsb (String.eqb k) bn); [eexists; reflexivity | apply lookup_never_panics]. Qed.
Theorem promoted_behind_nil_is_absent bn p k : In k bn -> lookup_promoted bn p k = Done false.
Proof.
  intros H. unfold lookup_promoted. replace (existsb (String.eqb k) bn) with true; [reflexivity|].
  symmetry. apply existsb_exists. exists k. split; [exact H | apply String.eqb_refl].
Qed.

Theorem field_name_never_panics_on_nonempty_keys k : k <> "" -> exists n, field_name k = Done n.
Proof. destruct k; [congruence|]. intros _. eexists; reflexivity. Qed.

(** For every input value at a struct position — named or unnamed maps with any key and element
    types, structs with exported and unexported fields, nil and typed-nil values, pointers of any
    depth with nil at any level — and every non-empty set of non-empty schema keys of any length,
    the struct schema's prologue and its field lookups return normally. *)
Theorem parse_struct_never_panics g ks : Forall (fun k => k <> "") ks -> exists r, parse_struct g ks = Done r.
Proof.
  intros HK. unfold parse_struct. destruct (try_provider_never_panics g) as (r & E). rewrite E.
  destruct r as [p|]; [|eexists; reflexivity].
  assert (G : forall acc, (exists r, acc = Done r) -> exists r, fold_left (field_step p) ks acc = Done r).
  { induction ks as [|k r IH]; intros acc (a & ->); cbn [fold_left]; [eexists; reflexivity|].
    inversion HK as [|? ? Hk Hr]; subst. destruct a as [c l]. unfold field_step at 2.
    destruct (field_name_never_panics_on_nonempty_keys k Hk) as (n & En). rewrite En.
    destruct (lookup_never_panics p k) as (b & Eb). rewrite Eb. apply IH; [exact Hr | eexists; reflexivity]. }
  apply G. eexists; reflexivity.
Qed.

(** the repaired defects, as witnesses on the legacy variants *)
Definition named_string_map : maptype := {| mt_named := true; mt_key_string_kind := true; mt_key_exact := true; mt_elem := EString; mt_elem_exact := true |}.
Example legacy_named_map_panics : exists w, try_provider_legacy (GMap named_string_map false [("a", true)]) = Panic w.
Proof. eexists; reflexivity. Qed.
Example named_map_is_accepted : try_provider (GMap named_string_map false [("a", true)]) = Done (POk (DKeys [("a", true)])).
Proof. reflexivity. Qed.
Example legacy_unexported_field_panics : exists w, lookup_present_legacy (DFields [("name", false, true)]) "name" = Panic w.
Proof. eexists; reflexivity. Qed.
Example legacy_long_key_panics : exists w, field_name_legacy "aVeryLongFieldNameThatIsLongerThanThirtyTwoBytes" = Panic w.
Proof. eexists; reflexivity. Qed.
Example inner_nil_pointer_unwrap_panics : exists w, unwrap_all (GPtr (Some (GPtr None))) = Panic w.
Proof. eexists; reflexivity. Qed.
Example inner_nil_pointer_is_empty : try_provider (GPtr (Some (GPtr None))) = Done (POk DEmpty).
Proof. reflexivity. Qed.
Example legacy_nil_embedded_pointer_panics : exists w, lookup_promoted_legacy ["name"] (DFields [("B", true, true)]) "name" = Panic w.
Proof. eexists; reflexivity. Qed.
Example nil_embedded_pointer_is_absent : lookup_promoted ["name"] (DFields [("B", true, true)]) "name" = Done false.
Proof. reflexivity. Qed.

(** rendering a path: the repaired function is total; the legacy one agreed with it on paths without
    empty segments and panicked on the others *)
Theorem render_legacy_agrees_without_empty_segments : forall segs prev,
  Forall (fun v => v <> "") segs -> render_legacy prev segs = Done (render_from prev segs).
Proof.
  induction segs as [|v r IH]; intros prev H; cbn [render_legacy render_from]; [reflexivity|].
  inversion H as [|? ? Hv Hr]; subst. destruct v as [|a v']; [congruence|]. cbn [is_empty].
  rewrite andb_false_r. rewrite (IH _ Hr). reflexivity.
Qed.
Example legacy_empty_key_below_a_key_panics : exists w, render_legacy "" ["inner"; ""] = Panic w.
Proof. eexists; reflexivity. Qed.
Example empty_key_below_a_key_is_rendered : render_from "" ["inner"; ""] = "inner.".
Proof. reflexivity. Qed.
