(** * Every issue is fully described; the message is chosen most-specific-first (property C11).
    The finite statements are proved against [Gen/Tables.v], which is regenerated from the running
    code on every check. *)
From Coq Require Import String List Bool Ascii.
From Zog Require Import Model.Val Model.Preds Model.Fmt Gen.Tables.
Import ListNotations.
Open Scope string_scope.

(** the shipped languages *)
Definition shipped : list (string * langmap) := langs.

(** custom schemas (type "custom") have no entry in any shipped language map: recorded finding
    C11/custom-no-message; every other catalogue entry must be fully described *)
Definition entry_ok_but_custom (m : langmap) (e : string * string * list string) : bool :=
  String.eqb (fst (fst e)) "custom" || entry_ok m e.

Definition all_ok : bool := forallb (fun lm => forallb (entry_ok_but_custom (snd lm)) catalogue) shipped.
Lemma all_ok_true : all_ok = true.
Proof. vm_compute. reflexivity. Qed.

Theorem catalogue_ok_partial : forall l m e, In (l, m) shipped -> In e catalogue -> fst (fst e) <> "custom" -> entry_ok m e = true.
Proof.
  intros l m e Hl He Hc. pose proof all_ok_true as A. unfold all_ok in A. rewrite forallb_forall in A.
  specialize (A (l, m) Hl). cbn [snd] in A. rewrite forallb_forall in A. specialize (A e He).
  unfold entry_ok_but_custom in A. apply orb_prop in A. destruct A as [A|A]; [|exact A].
  apply String.eqb_eq in A. contradiction.
Qed.

Lemma custom_refuted : entry_ok lang_en ("custom", "", []) = false /\ entry_ok lang_es ("custom", "", []) = false.
Proof. split; vm_compute; reflexivity. Qed.

(** substitution: with brace-free parameter values no placeholder is left in any message of the catalogue *)
Definition sample_message (m : langmap) (e : string * string * list string) : string :=
  let '(dtype, code, keys) := e in default_format m dtype code (map (fun k => (k, "V")) keys) "V".
Definition none_left : bool :=
  forallb (fun lm => forallb (fun e => String.eqb (fst (fst e)) "custom"
                                       || match placeholders (sample_message (snd lm) e) with [] => negb (String.eqb (sample_message (snd lm) e) "") | _ => false end)
                             catalogue) shipped.
Lemma none_left_true : none_left = true.
Proof. vm_compute. reflexivity. Qed.
Theorem no_placeholder_left : forall l m e, In (l, m) shipped -> In e catalogue -> fst (fst e) <> "custom" ->
  placeholders (sample_message m e) = [] /\ sample_message m e <> "".
Proof.
  intros l m e Hl He Hc. pose proof none_left_true as A. unfold none_left in A. rewrite forallb_forall in A.
  specialize (A (l, m) Hl). cbn [snd] in A. rewrite forallb_forall in A. specialize (A e He).
  apply orb_prop in A. destruct A as [A|A]; [apply String.eqb_eq in A; contradiction|].
  destruct (placeholders (sample_message m e)); [|discriminate]. split; [reflexivity|].
  intros E. rewrite E in A. discriminate.
Qed.

(** precedence: the test's own message, else the execution's formatter, else the global one *)
Theorem precedence_test m e g : m <> "" -> choose_message (Some m) e g = m.
Proof. destruct m; [congruence | reflexivity]. Qed.
Theorem precedence_exec e g : choose_message None (Some e) g = e /\ choose_message (Some "") (Some e) g = e.
Proof. split; reflexivity. Qed.
Theorem precedence_global g : choose_message None None g = g /\ choose_message (Some "") None g = g.
Proof. split; reflexivity. Qed.

(** i18n: the language named in the execution's context when it is shipped, the default otherwise *)
Theorem i18n_uses_context_language ls d l m dtype code ps v : alookup l ls = Some m ->
  i18n_format ls d (Some l) dtype code ps v = default_format m dtype code ps v.
Proof. intros H. unfold i18n_format. now rewrite H. Qed.
Theorem i18n_falls_back_to_default ls d dtype code ps v m : alookup d ls = Some m ->
  i18n_format ls d None dtype code ps v = default_format m dtype code ps v
  /\ forall l, alookup l ls = None -> i18n_format ls d (Some l) dtype code ps v = default_format m dtype code ps v.
Proof. intros H. unfold i18n_format. rewrite H. split; [reflexivity|]. intros l Hl. now rewrite Hl. Qed.

Example ex_min_message : default_format lang_en "string" "min" [("min", "3")] "ab" = "string must contain at least 3 character(s)".
Proof. vm_compute. reflexivity. Qed.
