(** * Every issue is fully described; the message is chosen most-specific-first (property C11).
    The finite statements are proved against [Gen/Tables.v], which is regenerated from the running
    code on every check. *)
From Coq Require Import String List Bool Ascii.
From Zog Require Import Model.Val Model.Preds Model.Fmt Gen.Tables.
Import ListNotations.
Open Scope string_scope.

(** the shipped languages *)
Definition shipped : list (string * langmap) := langs.

(** every catalogue entry — every built-in test of every type, the front ends, and schemas made
    with CustomFunc (type "custom") — is fully described in every shipped language *)
Definition all_ok : bool := forallb (fun lm => forallb (entry_ok (snd lm)) catalogue) shipped.
Lemma all_ok_true : all_ok = true.
Proof. vm_compute. reflexivity. Qed.

Theorem catalogue_ok : forall l m e, In (l, m) shipped -> In e catalogue -> entry_ok m e = true.
Proof.
  intros l m e Hl He. pose proof all_ok_true as A. unfold all_ok in A. rewrite forallb_forall in A.
  specialize (A (l, m) Hl). cbn [snd] in A. rewrite forallb_forall in A. exact (A e He).
Qed.

(** the catalogue does contain the custom type, and it is described (non-vacuity of the above for it) *)
Lemma custom_in_catalogue : existsb (fun e => String.eqb (fst (fst e)) "custom") catalogue = true.
Proof. vm_compute. reflexivity. Qed.
Lemma custom_described : entry_ok lang_en ("custom", "", []) = true /\ entry_ok lang_es ("custom", "", []) = true.
Proof. split; vm_compute; reflexivity. Qed.

(** the language maps as they were before the repair had no entry for the custom type: without it
    a CustomFunc issue had an empty message *)
Definition without_type (t : string) (m : langmap) : langmap := filter (fun kv => negb (String.eqb (fst kv) t)) m.
Lemma legacy_custom_refuted : entry_ok (without_type "custom" lang_en) ("custom", "", []) = false
                              /\ default_format (without_type "custom" lang_en) "custom" "custom" [] "" = "".
Proof. split; vm_compute; reflexivity. Qed.

(** substitution: with brace-free parameter values no placeholder is left in any message of the catalogue *)
Definition sample_message (m : langmap) (e : string * string * list string) : string :=
  let '(dtype, code, keys) := e in default_format m dtype code (map (fun k => (k, "V")) keys) "V".
Definition none_left : bool :=
  forallb (fun lm => forallb (fun e => match placeholders (sample_message (snd lm) e) with [] => negb (String.eqb (sample_message (snd lm) e) "") | _ => false end)
                             catalogue) shipped.
Lemma none_left_true : none_left = true.
Proof. vm_compute. reflexivity. Qed.
Theorem no_placeholder_left : forall l m e, In (l, m) shipped -> In e catalogue ->
  placeholders (sample_message m e) = [] /\ sample_message m e <> "".
Proof.
  intros l m e Hl He. pose proof none_left_true as A. unfold none_left in A. rewrite forallb_forall in A.
  specialize (A (l, m) Hl). cbn [snd] in A. rewrite forallb_forall in A. specialize (A e He).
  destruct (placeholders (sample_message m e)); [|discriminate]. split; [reflexivity|].
  intros E. rewrite E in A. discriminate.
Qed.

(** precedence: the test's own message, else the execution's formatter, else the global one *)
Theorem precedence_test m e g : m <> "" -> choose_message (Some m) e g = m.
Proof. destruct m; [congruence | reflexivity]. Qed.
Theorem precedence_exec e g : choose_message None (Some e) g = e /\ choose_message (Some "") (Some e) g = e.
Proof. split; reflexivity. Qed.
Theorem precedence_global g : choose_message None None g = g /\ choose_message (Some "") None g = g.
Proof. split; reflexivity. Qed.

(** i18n: the language named in the execution's context when it is shipped, the default otherwise *)
Theorem i18n_uses_context_language ls d l m dtype code ps v : alookup l ls = Some m ->
  i18n_format ls d (Some l) dtype code ps v = default_format m dtype code ps v.
Proof. intros H. unfold i18n_format. now rewrite H. Qed.
Theorem i18n_falls_back_to_default ls d dtype code ps v m : alookup d ls = Some m ->
  i18n_format ls d None dtype code ps v = default_format m dtype code ps v
  /\ forall l, alookup l ls = None -> i18n_format ls d (Some l) dtype code ps v = default_format m dtype code ps v.
Proof. intros H. unfold i18n_format. rewrite H. split; [reflexivity|]. intros l Hl. now rewrite Hl. Qed.

Example ex_min_message : default_format lang_en "string" "min" [("min", "3")] "ab" = "string must contain at least 3 character(s)".
Proof. vm_compute. reflexivity. Qed.
