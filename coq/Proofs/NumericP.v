(** * Numeric coercion never silently changes a number (property C18). *)
From Coq Require Import String List ZArith Bool Ascii Lia.
From Coq Require Import Floats.SpecFloat.
From Zog Require Import Model.Val Model.Engine Model.Coerce.
Import ListNotations.
Open Scope Z_scope.

Definition finite (f : spec_float) : bool :=
  match f with S754_zero _ | S754_finite _ _ _ => true | _ => false end.

(** truncation toward zero of the exact value m * 2^e of a finite float, as a relation on integers *)
Definition is_trunc (s : bool) (m : positive) (e : Z) (z : Z) : Prop :=
  exists q, z = (if s then - q else q) /\ 0 <= q /\
    match e with
    | Z0 => q = Zpos m
    | Zpos p => q = Zpos m * 2 ^ Zpos p
    | Zneg p => q * 2 ^ Zpos p <= Zpos m < (q + 1) * 2 ^ Zpos p
    end.

Lemma f_trunc_spec f z : f_trunc f = Some z ->
  (exists b, f = S754_zero b /\ z = 0) \/ (exists s m e, f = S754_finite s m e /\ is_trunc s m e z).
Proof.
  destruct f as [b | b | | s m e]; cbn; try discriminate.
  - intros H; inversion H; left; eauto.
  - intros H; inversion H; subst; clear H. right. exists s, m, e. split; [reflexivity|].
    destruct e as [|p|p].
    + exists (Zpos m). repeat split; lia.
    + exists (Zpos m * 2 ^ Zpos p). repeat split; try lia.
    + exists (Zpos m / 2 ^ Zpos p). assert (P : 0 < 2 ^ Zpos p) by (apply Z.pow_pos_nonneg; lia).
      repeat split.
      * apply Z.div_pos; lia.
      * rewrite Z.mul_comm. apply Z.mul_div_le. exact P.
      * pose proof (Z.mul_succ_div_gt (Zpos m) (2 ^ Zpos p) P) as H. unfold Z.succ in H. lia.
Qed.

(** An integer produced from a float is its truncation, and lies in the int64 range; NaN and the
    infinities are rejected. *)
Lemma float_to_int_exact f z : f64_to_int f = Some z ->
  in_int64 z = true /\
  ((exists b, f = S754_zero b /\ z = 0) \/ (exists s m e, f = S754_finite s m e /\ is_trunc s m e z)).
Proof.
  unfold f64_to_int. destruct (f_trunc f) as [t|] eqn:E; [|discriminate].
  destruct (in_int64 t) eqn:R; [|discriminate]. intros H; inversion H; subst. split; [exact R|]. now apply f_trunc_spec.
Qed.

Lemma nan_inf_to_int_rejected : f64_to_int S754_nan = None /\ forall b, f64_to_int (S754_infinity b) = None.
Proof. split; reflexivity. Qed.

Lemma float_out_of_range_rejected f t : f_trunc f = Some t -> in_int64 t = false -> f64_to_int f = None.
Proof. intros E R. unfold f64_to_int. now rewrite E, R. Qed.

(** Integers are never changed by the Int coercer. *)
Lemma int_from_int_exact z : coerce_int (VInt z) = Some z /\ coerce_int (VI64 z) = Some z /\ coerce_int (VI32 z) = Some z.
Proof. repeat split. Qed.

(** strconv.Atoi yields only values in range. *)
Lemma atoi_in_range s z : atoi s = Some z -> in_int64 z = true.
Proof.
  unfold atoi.
  destruct (match s with
            | String "-"%char r => (true, r)
            | String "+"%char r => (false, r)
            | _ => (false, s)
            end) as [neg body].
  destruct body as [|a r]; [discriminate|].
  destruct (digits_val (String a r) 0) as [n|]; [|discriminate].
  destruct (in_int64 (if neg then - n else n)) eqn:R; [|discriminate]. intros H; inversion H; subst. exact R.
Qed.

(** Every integer the Int / Int64 coercer returns is in the 64-bit range whenever its integer
    inputs are (they are Go ints), and every integer the Int32 coercer returns is in the 32-bit range. *)
Definition int_input_ok (v : val) : bool :=
  match v with VInt z | VI64 z => in_int64 z | VI32 z => in_int32 z | _ => true end.

Lemma coerce_int_in_range v z : int_input_ok v = true -> coerce_int v = Some z -> in_int64 z = true.
Proof.
  destruct v; cbn; try discriminate; intros Hok H.
  - destruct b; inversion H; reflexivity.
  - inversion H; subst; exact Hok.
  - inversion H; subst; exact Hok.
  - inversion H; subst. unfold in_int32, in_int64, min_int32, max_int32, min_int64, max_int64 in *. lia.
  - now apply float_to_int_exact in H.
  - now apply atoi_in_range in H.
Qed.

Lemma int32_result_in_range o l v d : coerce_default o l KInt32 v = Some d -> exists z, d = DInt z /\ in_int32 z = true.
Proof.
  cbn. destruct (coerce_int v) as [z|]; [|discriminate]. destruct (in_int32 z) eqn:R; [|discriminate].
  intros H; inversion H; eauto.
Qed.

(** ... and it accepts exactly the in-range ones ("reject everything" does not satisfy the property). *)
Lemma int32_accepts o l v z : coerce_int v = Some z -> in_int32 z = true -> coerce_default o l KInt32 v = Some (DInt z).
Proof. intros E R. cbn. now rewrite E, R. Qed.
Lemma int32_rejects o l v z : coerce_int v = Some z -> in_int32 z = false -> coerce_default o l KInt32 v = None.
Proof. intros E R. cbn. now rewrite E, R. Qed.
Lemma int64_accepts o l v z : coerce_int v = Some z -> coerce_default o l KInt64 v = Some (DInt z) /\ coerce_default o l KInt v = Some (DInt z).
Proof. intros E. cbn. now rewrite E. Qed.

(** Float64 destinations receive float inputs unchanged; Float32 destinations receive the
    round-to-nearest-even float32, and a finite input never becomes an infinity. *)
Lemma f64_identity o f : coerce_f64 o (VF64 f) = Some f /\ coerce_f64 o (VF32 f) = Some f.
Proof. split; reflexivity. Qed.


Lemma f32_spec f r : f64_to_f32 f = Some r ->
  match f with
  | S754_finite s m e => exists r0, binary_round prec32 emax32 s m e = r0 /\ r = to64 r0 /\ (forall b, r0 <> S754_infinity b)
  | _ => r = f
  end.
Proof.
  destruct f as [b|b| |s m e]; cbn; try (intros H; inversion H; reflexivity).
  destruct (binary_round prec32 emax32 s m e) as [b|b| |s' m' e'] eqn:E; try discriminate;
    intros H; inversion H; subst; eexists; (split; [reflexivity|]); (split; [reflexivity|]); intros b0; discriminate.
Qed.

(** A finite float64 outside the float32 range is rejected rather than stored as an infinity. *)
Lemma f32_overflow_rejected s m e b : binary_round prec32 emax32 s m e = S754_infinity b -> f64_to_f32 (S754_finite s m e) = None.
Proof. intros E. cbn. now rewrite E. Qed.

(** NaN / Inf / out-of-range examples of the property text, evaluated in the model. *)
Example ex_3e9_int32 o l : coerce_default o l KInt32 (VStr "3000000000") = None.
Proof. reflexivity. Qed.
Example ex_1e19_int o l : coerce_default o l KInt (VF64 (S754_finite false 5421010862427522 11)) = None.  (* 1e19 *)
Proof. reflexivity. Qed.
Example ex_nan_int64 o l : coerce_default o l KInt64 (VF64 S754_nan) = None.
Proof. reflexivity. Qed.
Example ex_two63_int o l : coerce_default o l KInt (VF64 (S754_finite false 4503599627370496 11)) = None.   (* 2^63 *)
Proof. reflexivity. Qed.
Example ex_max_ok o l : coerce_default o l KInt (VF64 (S754_finite false 9007199254740991 10)) = Some (DInt 9223372036854774784).
Proof. reflexivity. Qed.
Example ex_6_5 o l : coerce_default o l KInt (VF64 (S754_finite false 7318349394477056 (-50))) = Some (DInt 6)
                     /\ coerce_default o l KInt (VF64 (S754_finite true 7318349394477056 (-50))) = Some (DInt (-6)).
Proof. split; reflexivity. Qed.
