(** * Built-in tests decide exactly their documented predicate (property C20). *)
From Coq Require Import String List ZArith Bool Ascii Lia.
From Coq Require Import Floats.SpecFloat.
From Zog Require Import Model.Val Model.Preds.
Import ListNotations.
Open Scope string_scope.

(** ** lengths: inclusive comparisons of len() in bytes (strings) or elements (slices) *)
Lemma str_min_iff n s : btest_ok (BStrMin n) (DStr s) = true <-> (n <= Z.of_nat (String.length s))%Z.
Proof. cbn. unfold slen. rewrite Z.geb_le. tauto. Qed.
Lemma str_max_iff n s : btest_ok (BStrMax n) (DStr s) = true <-> (Z.of_nat (String.length s) <= n)%Z.
Proof. cbn. unfold slen. rewrite Z.leb_le. tauto. Qed.
Lemma str_len_iff n s : btest_ok (BStrLen n) (DStr s) = true <-> Z.of_nat (String.length s) = n.
Proof. cbn. unfold slen. rewrite Z.eqb_eq. tauto. Qed.
Lemma slice_min_iff n l : btest_ok (BSliceMin n) (DSlice l) = true <-> (n <= Z.of_nat (length l))%Z.
Proof. cbn. rewrite Z.geb_le. tauto. Qed.
Lemma slice_max_iff n l : btest_ok (BSliceMax n) (DSlice l) = true <-> (Z.of_nat (length l) <= n)%Z.
Proof. cbn. rewrite Z.leb_le. tauto. Qed.
Lemma slice_len_iff n l : btest_ok (BSliceLen n) (DSlice l) = true <-> Z.of_nat (length l) = n.
Proof. cbn. rewrite Z.eqb_eq. tauto. Qed.

(** ** integer comparisons are the order on Z *)
Lemma int_cmp_iff c n v : btest_ok (BIntCmp c n) (DInt v) = true <->
  match c with CGt => (v > n)%Z | CGte => (v >= n)%Z | CLt => (v < n)%Z | CLte => (v <= n)%Z | CEq => v = n end.
Proof.
  destruct c; cbn.
  - rewrite Z.gtb_lt. lia.
  - rewrite Z.geb_le. lia.
  - rewrite Z.ltb_lt. lia.
  - rewrite Z.leb_le. lia.
  - rewrite Z.eqb_eq. tauto.
Qed.

(** ** float comparisons are the IEEE comparisons (SFcompare); NaN is unordered, so every
    comparison with NaN fails, LTE/GTE included *)
Lemma float_cmp_iff c n v : btest_ok (BFloatCmp c n) (DFloat v) = true <->
  match c with
  | CGt => SFcompare n v = Some Lt
  | CGte => SFcompare n v = Some Lt \/ SFcompare n v = Some Eq
  | CLt => SFcompare v n = Some Lt
  | CLte => SFcompare v n = Some Lt \/ SFcompare v n = Some Eq
  | CEq => SFcompare v n = Some Eq
  end.
Proof.
  destruct c; cbn; unfold SFltb, SFleb, SFeqb.
  - destruct (SFcompare n v) as [[]|]; split; congruence.
  - destruct (SFcompare n v) as [[]|]; split; try congruence; intros []; congruence || auto.
  - destruct (SFcompare v n) as [[]|]; split; congruence.
  - destruct (SFcompare v n) as [[]|]; split; try congruence; intros []; congruence || auto.
  - destruct (SFcompare v n) as [[]|]; split; congruence.
Qed.

Lemma nan_fails_every_comparison c n : btest_ok (BFloatCmp c n) (DFloat S754_nan) = false.
Proof. destruct c; cbn; unfold SFltb, SFleb, SFeqb; destruct n; reflexivity. Qed.

(** ** OneOf / Contains: membership *)
Lemma str_oneof_iff l s : btest_ok (BStrOneOf l) (DStr s) = true <-> In s l.
Proof.
  cbn. rewrite existsb_exists. split.
  - intros (x & Hx & E). apply String.eqb_eq in E. now subst.
  - intros H. exists s. split; [exact H | apply String.eqb_refl].
Qed.
Lemma int_oneof_iff l z : btest_ok (BIntOneOf l) (DInt z) = true <-> In z l.
Proof.
  cbn. rewrite existsb_exists. split.
  - intros (x & Hx & E). apply Z.eqb_eq in E. now subst.
  - intros H. exists z. split; [exact H | apply Z.eqb_refl].
Qed.
Lemma slice_contains_iff d l : btest_ok (BSliceContains d) (DSlice l) = true <-> exists e, In e l /\ dval_eqb e d = true.
Proof. cbn. apply existsb_exists. Qed.

(** ** prefix / suffix / substring *)
Lemma has_prefix_iff p s : has_prefix p s = true <-> exists w, s = p ++ w.
Proof.
  revert s. induction p as [|a p IH]; intros s; cbn.
  - split; [intros _; now exists s | reflexivity].
  - destruct s as [|b s]; [split; [discriminate | intros (w & H); discriminate]|].
    rewrite andb_true_iff, IH. split.
    + intros (E & w & H). apply Ascii.eqb_eq in E. subst. now exists w.
    + intros (w & H). inversion H; subst. split; [apply Ascii.eqb_refl | now exists w].
Qed.

Lemma contains_iff sub s : contains sub s = true <-> exists u w, s = u ++ sub ++ w.
Proof.
  induction s as [|b s IH]; cbn [contains].
  - rewrite orb_false_r, has_prefix_iff. split.
    + intros (w & H). exists "", w. exact H.
    + intros (u & w & H). destruct u; cbn in H; [now exists w | discriminate].
  - rewrite orb_true_iff, has_prefix_iff, IH. split.
    + intros [(w & H) | (u & w & H)]; [exists "", w; exact H | exists (String b u), w; cbn; now rewrite H].
    + intros (u & w & H). destruct u as [|c u]; cbn in H.
      * left. now exists w.
      * right. inversion H; subst. now exists u, w.
Qed.

Lemma length_append a b : String.length (a ++ b) = String.length a + String.length b.
Proof. induction a; cbn; [reflexivity | now rewrite IHa]. Qed.

Lemma substring_app_r u suf : substring (String.length u) (String.length suf) (u ++ suf) = suf.
Proof.
  induction u as [|a u IH]; cbn.
  - induction suf as [|b suf IHs]; cbn; [reflexivity|]. now rewrite IHs.
  - exact IH.
Qed.

Lemma substring_split n s : n <= String.length s -> exists u, String.length u = n /\ s = u ++ substring n (String.length s - n) s.
Proof.
  revert s. induction n as [|n IH]; intros s H.
  - exists "". split; [reflexivity|]. cbn. rewrite Nat.sub_0_r.
    clear H. induction s as [|a s IHs]; cbn; [reflexivity|]. now rewrite <- IHs.
  - destruct s as [|a s]; cbn in H; [lia|]. destruct (IH s) as (u & Hu & E); [lia|].
    exists (String a u). split; [cbn; now rewrite Hu|]. cbn. now rewrite <- E.
Qed.

Lemma has_suffix_iff suf s : has_suffix suf s = true <-> exists u, s = u ++ suf.
Proof.
  unfold has_suffix. rewrite andb_true_iff, Nat.leb_le, String.eqb_eq. split.
  - intros (Hle & E). destruct (substring_split (String.length s - String.length suf) s) as (u & Hu & Hs); [lia|].
    exists u. rewrite Hs at 1. f_equal. replace (String.length s - (String.length s - String.length suf)) with (String.length suf) by lia. exact E.
  - intros (u & H). subst s. rewrite length_append. split; [lia|].
    replace (String.length u + String.length suf - String.length suf) with (String.length u) by lia.
    apply substring_app_r.
Qed.

(** ** character classes: the range tests equal the documented sets, for all 256 bytes *)
Definition upper_letters : list ascii := list_ascii_of_string "ABCDEFGHIJKLMNOPQRSTUVWXYZ".
Definition digit_chars : list ascii := list_ascii_of_string "0123456789".
Definition punct_chars : list ascii := list_ascii_of_string "!""#$%&'()*+,-./:;<=>?@[\]^_`{|}~".
Definition mem (a : ascii) (l : list ascii) : bool := existsb (Ascii.eqb a) l.

Definition all_bytes_ok (f : ascii -> bool) : bool := forallb (fun n => f (ascii_of_nat n)) (seq 0 256).
Lemma all_bytes_lift f : all_bytes_ok f = true -> forall a, f a = true.
Proof.
  intros H a. unfold all_bytes_ok in H. rewrite forallb_forall in H.
  rewrite <- (ascii_nat_embedding a). apply H. apply in_seq. pose proof (nat_ascii_bounded a). lia.
Qed.

Lemma class_sweep : all_bytes_ok (fun a => Bool.eqb (is_upper a) (mem a upper_letters) && Bool.eqb (is_digit a) (mem a digit_chars)
                                           && Bool.eqb (is_special a) (mem a punct_chars)) = true.
Proof. vm_compute. reflexivity. Qed.

Lemma classes_extensional a :
  is_upper a = mem a upper_letters /\ is_digit a = mem a digit_chars /\ is_special a = mem a punct_chars.
Proof.
  pose proof (all_bytes_lift _ class_sweep a) as H. cbv beta in H.
  apply andb_prop in H. destruct H as [H H3]. apply andb_prop in H. destruct H as [H1 H2].
  apply eqb_prop in H1. apply eqb_prop in H2. apply eqb_prop in H3. tauto.
Qed.

Lemma punct_count : length punct_chars = 32 /\ length upper_letters = 26 /\ length digit_chars = 10.
Proof. repeat split. Qed.

Lemma any_byte_iff f s : any_byte f s = true <-> exists a, In a (list_ascii_of_string s) /\ f a = true.
Proof.
  induction s as [|b s IH]; cbn.
  - split; [discriminate | intros (a & [] & _)].
  - rewrite orb_true_iff, IH. split.
    + intros [H | (a & Ha & Hf)]; [exists b; auto | exists a; auto].
    + intros (a & [E | Ha] & Hf); [subst; auto | right; eauto].
Qed.

Lemma mem_iff a l : mem a l = true <-> In a l.
Proof.
  unfold mem. rewrite existsb_exists. split.
  - intros (x & Hx & E). apply Ascii.eqb_eq in E. now subst.
  - intros H. exists a. split; [exact H | apply Ascii.eqb_refl].
Qed.

Lemma any_class_iff f l s : (forall a, f a = mem a l) ->
  (any_byte f s = true <-> exists a, In a (list_ascii_of_string s) /\ In a l).
Proof.
  intros E. rewrite any_byte_iff. split; intros (a & Ha & H); exists a; (split; [exact Ha|]).
  - rewrite E in H. apply (proj1 (mem_iff a l)). exact H.
  - rewrite E. apply (proj2 (mem_iff a l)). exact H.
Qed.

Lemma contains_upper_iff s : btest_ok BContainsUpper (DStr s) = true <-> exists a, In a (list_ascii_of_string s) /\ In a upper_letters.
Proof. apply any_class_iff. intros a. apply classes_extensional. Qed.
Lemma contains_digit_iff s : btest_ok BContainsDigit (DStr s) = true <-> exists a, In a (list_ascii_of_string s) /\ In a digit_chars.
Proof. apply any_class_iff. intros a. apply classes_extensional. Qed.
Lemma contains_special_iff s : btest_ok BContainsSpecial (DStr s) = true <-> exists a, In a (list_ascii_of_string s) /\ In a punct_chars.
Proof. apply any_class_iff. intros a. apply classes_extensional. Qed.

(** ** time: After / Before / Equal compare the instant, never the zone *)
Definition instant (t : time) : Z := (t_sec t * 1000000000 + t_nsec t)%Z.
Definition nsec_ok (t : time) : Prop := (0 <= t_nsec t < 1000000000)%Z.

Lemma time_before_iff a b : nsec_ok a -> nsec_ok b -> (time_before a b = true <-> (instant a < instant b)%Z).
Proof.
  unfold nsec_ok, time_before, instant. intros Ha Hb.
  rewrite orb_true_iff, andb_true_iff, !Z.ltb_lt, Z.eqb_eq. lia.
Qed.
Lemma time_after_iff a b : nsec_ok a -> nsec_ok b -> (btest_ok (BTimeAfter b) (DTime a) = true <-> (instant a > instant b)%Z).
Proof. intros Ha Hb. cbn. unfold time_after. rewrite time_before_iff by assumption. lia. Qed.
Lemma time_before_test_iff a b : nsec_ok a -> nsec_ok b -> (btest_ok (BTimeBefore b) (DTime a) = true <-> (instant a < instant b)%Z).
Proof. intros Ha Hb. cbn. now apply time_before_iff. Qed.
Lemma time_eq_iff a b : nsec_ok a -> nsec_ok b -> (btest_ok (BTimeEq b) (DTime a) = true <-> instant a = instant b).
Proof.
  unfold nsec_ok, instant. intros Ha Hb. cbn. unfold time_equal. rewrite andb_true_iff, !Z.eqb_eq. lia.
Qed.
Lemma time_tests_ignore_zone a b off : 
  btest_ok (BTimeAfter b) (DTime a) = btest_ok (BTimeAfter b) (DTime {| t_sec := t_sec a; t_nsec := t_nsec a; t_off := off |})
  /\ btest_ok (BTimeBefore b) (DTime a) = btest_ok (BTimeBefore b) (DTime {| t_sec := t_sec a; t_nsec := t_nsec a; t_off := off |})
  /\ btest_ok (BTimeEq b) (DTime a) = btest_ok (BTimeEq b) (DTime {| t_sec := t_sec a; t_nsec := t_nsec a; t_off := off |}).
Proof. repeat split. Qed.

(** ** UUID: 8-4-4-4-12 hexadecimal digits separated by '-' *)
Definition hexes (n : nat) (h : string) : Prop := String.length h = n /\ all_bytes is_hex h = true.

Lemma take_hex_spec n : forall s r, take_hex n s = Some r <-> exists h, hexes n h /\ s = h ++ r.
Proof.
  induction n as [|n IH]; intros s r; cbn.
  - split.
    + intros H; inversion H; subst. exists "". repeat split.
    + intros (h & (Hl & _) & E). destruct h; [|discriminate]. cbn in E. now subst.
  - destruct s as [|a s].
    + split; [discriminate|]. intros (h & (Hl & _) & E). destruct h; discriminate.
    + destruct (is_hex a) eqn:Ha.
      * rewrite IH. split.
        -- intros (h & (Hl & Hh) & E). exists (String a h). repeat split; cbn; [now rewrite Hl | now rewrite Ha, Hh | now rewrite E].
        -- intros (h & (Hl & Hh) & E). destruct h as [|b h]; [discriminate|]. cbn in E. inversion E; subst.
           cbn in Hh. rewrite Ha in Hh. cbn in Hl. exists h. repeat split; [lia | exact Hh].
      * split; [discriminate|]. intros (h & (Hl & Hh) & E). destruct h as [|b h]; [discriminate|]. cbn in E. inversion E; subst.
        cbn in Hh. rewrite Ha in Hh. discriminate.
Qed.

Lemma take_dash_spec s r : take_dash s = Some r <-> s = String "-"%char r.
Proof.
  unfold take_dash. destruct s as [|a s]; [split; discriminate|].
  destruct (Ascii.eqb_spec a "-"%char) as [->|N].
  - split; intros H; inversion H; reflexivity.
  - split; [|intros H; inversion H; contradiction].
    destruct a as [[] [] [] [] [] [] [] []]; try discriminate. exfalso; apply N; reflexivity.
Qed.

Lemma bind_some {A B} (o : option A) (f : A -> option B) r : bind o f = Some r <-> exists a, o = Some a /\ f a = Some r.
Proof. destruct o; cbn; split; [eauto | intros (a0 & E & H); now inversion E | discriminate | intros (a0 & E & _); discriminate]. Qed.

Lemma append_nil_r s : s ++ "" = s.
Proof. induction s; cbn; [reflexivity | now rewrite IHs]. Qed.

Theorem uuid_iff s : is_uuid s = true <->
  exists h1 h2 h3 h4 h5, hexes 8 h1 /\ hexes 4 h2 /\ hexes 4 h3 /\ hexes 4 h4 /\ hexes 12 h5 /\
    s = h1 ++ "-" ++ h2 ++ "-" ++ h3 ++ "-" ++ h4 ++ "-" ++ h5.
Proof.
  unfold is_uuid. split.
  - destruct (bind (take_hex 8 s) _) as [r|] eqn:E; [|discriminate]. destruct r; [|discriminate]. intros _.
    repeat (apply bind_some in E; destruct E as (? & ?E & E)).
    repeat match goal with
           | H : take_hex _ _ = Some _ |- _ => apply take_hex_spec in H; destruct H as (? & ? & ?)
           | H : take_dash _ = Some _ |- _ => apply take_dash_spec in H
           end. subst.
    do 5 eexists. refine (conj _ (conj _ (conj _ (conj _ (conj _ _))))).
    6: (rewrite append_nil_r; reflexivity). all: eassumption.
  - intros (h1 & h2 & h3 & h4 & h5 & H1 & H2 & H3 & H4 & H5 & E). subst s.
    assert (K : forall n h r, hexes n h -> take_hex n (h ++ r) = Some r) by (intros n h r Hh; apply take_hex_spec; eauto).
    cbn [append]. 
    rewrite (K 8 h1 _ H1). cbn [bind take_dash]. rewrite (K 4 h2 _ H2). cbn [bind take_dash]. rewrite (K 4 h3 _ H3). cbn [bind take_dash].
    rewrite (K 4 h4 _ H4). cbn [bind take_dash]. 
    rewrite <- (append_nil_r h5). rewrite (K 12 h5 "" H5). reflexivity.
Qed.
