(** * The Email test accepts exactly the stated grammar (property C20):
      local@label(.label)*  with a non-empty local part over the allowed characters and labels of
      1..63 alphanumerics or hyphens that neither start nor end with a hyphen. *)
From Coq Require Import String List Bool Ascii Arith Lia.
From Zog Require Import Model.Val Model.Preds.
Import ListNotations.
Open Scope string_scope.

Fixpoint join_with (c : ascii) (ls : list string) : string :=
  match ls with
  | [] => ""
  | [l] => l
  | l :: r => l ++ String c (join_with c r)
  end.

Fixpoint no_byte (c : ascii) (s : string) : bool :=
  match s with EmptyString => true | String a r => negb (Ascii.eqb a c) && no_byte c r end.

Lemma app_assoc_s (a b c : string) : (a ++ b) ++ c = a ++ (b ++ c).
Proof. induction a as [|x a IH]; cbn; [reflexivity | now rewrite IH]. Qed.
Lemma app_nil_r_s (a : string) : a ++ "" = a.
Proof. induction a as [|x a IH]; cbn; [reflexivity | now rewrite IH]. Qed.

(** splitting at the first occurrence *)
Lemma split_at_first_spec c : forall s acc l r,
  split_at_first c s acc = Some (l, r) <-> exists p, l = acc ++ p /\ s = p ++ String c r /\ no_byte c p = true.
Proof.
  induction s as [|a s IH]; intros acc l r; cbn [split_at_first].
  - split; [discriminate|]. intros (p & _ & E & _). destruct p; discriminate.
  - destruct (Ascii.eqb_spec a c) as [->|N].
    + split.
      * intros H. injection H as <- <-. exists "". now rewrite app_nil_r_s.
      * intros (p & -> & E & NB). destruct p as [|x p].
        -- cbn in E. injection E as <-. now rewrite app_nil_r_s.
        -- cbn in E. injection E as <- _. cbn in NB. rewrite Ascii.eqb_refl in NB. discriminate.
    + rewrite IH. split.
      * intros (p & -> & -> & NB). exists (String a p). rewrite app_assoc_s. cbn. repeat split.
        destruct (Ascii.eqb_spec a c); [contradiction | exact NB].
      * intros (p & -> & E & NB). destruct p as [|x p].
        -- cbn in E. injection E as -> _. contradiction.
        -- cbn in E. injection E as <- ->. cbn in NB. apply andb_prop in NB. destruct NB as [_ NB].
           exists p. rewrite app_assoc_s. now repeat split.
Qed.

(** splitting on every occurrence, and joining again *)
Lemma split_on_nonempty c s cur : split_on c s cur <> [].
Proof.
  revert cur. induction s as [|a s IH]; intros cur; cbn; [discriminate|].
  destruct (Ascii.eqb a c); [discriminate | apply IH].
Qed.

Lemma split_on_join c : forall s cur, join_with c (split_on c s cur) = cur ++ s.
Proof.
  induction s as [|a s IH]; intros cur; cbn [split_on].
  - cbn. now rewrite app_nil_r_s.
  - destruct (Ascii.eqb_spec a c) as [->|N].
    + cbn [join_with]. destruct (split_on c s "") eqn:E.
      * exfalso. exact (split_on_nonempty c s "" E).
      * rewrite <- E, IH. reflexivity.
    + rewrite IH, app_assoc_s. reflexivity.
Qed.

Lemma split_on_no_byte c : forall p cur, no_byte c p = true -> split_on c p cur = [cur ++ p].
Proof.
  induction p as [|a p IH]; intros cur NB; cbn.
  - now rewrite app_nil_r_s.
  - cbn in NB. apply andb_prop in NB. destruct NB as [Na NB]. destruct (Ascii.eqb a c); [discriminate|].
    rewrite IH by assumption. now rewrite app_assoc_s.
Qed.

Lemma split_on_app c : forall p cur rest, no_byte c p = true ->
  split_on c (p ++ String c rest) cur = (cur ++ p) :: split_on c rest "".
Proof.
  induction p as [|a p IH]; intros cur rest NB; cbn.
  - rewrite Ascii.eqb_refl. now rewrite app_nil_r_s.
  - cbn in NB. apply andb_prop in NB. destruct NB as [Na NB]. destruct (Ascii.eqb a c); [discriminate|].
    rewrite IH by assumption. now rewrite app_assoc_s.
Qed.

Lemma split_on_join_inv c : forall ls, ls <> [] -> Forall (fun l => no_byte c l = true) ls ->
  split_on c (join_with c ls) "" = ls.
Proof.
  induction ls as [|l r IH]; intros NE F; [contradiction|]. inversion F as [|? ? Hl Hr]; subst.
  destruct r as [|l2 r2].
  - cbn [join_with]. now rewrite split_on_no_byte.
  - change (join_with c (l :: l2 :: r2)) with (l ++ String c (join_with c (l2 :: r2))).
    rewrite split_on_app by assumption. cbn [append]. f_equal. apply IH; [discriminate | assumption].
Qed.

(** the characters of the two parts exclude the separators *)
Lemma local_has_no_at l : all_bytes is_local_char l = true -> no_byte "@" l = true.
Proof.
  induction l as [|a l IH]; [reflexivity|]. cbn. intros H. apply andb_prop in H. destruct H as [Ha Hl].
  rewrite (IH Hl), andb_true_r. destruct (Ascii.eqb_spec a "@"%char) as [->|]; [discriminate Ha | reflexivity].
Qed.

Lemma label_has_no_dot l : label_ok l = true -> no_byte "." l = true.
Proof.
  unfold label_ok. intros H. repeat (apply andb_prop in H; destruct H as [H ?]).
  match goal with A : all_bytes _ l = true |- _ => revert A end. clear.
  induction l as [|a l IH]; [reflexivity|]. cbn. intros H. apply andb_prop in H. destruct H as [Ha Hl].
  rewrite (IH Hl), andb_true_r. destruct (Ascii.eqb_spec a "."%char) as [->|]; [discriminate Ha | reflexivity].
Qed.

Lemma forallb_Forall {A} (f : A -> bool) l : forallb f l = true <-> Forall (fun x => f x = true) l.
Proof.
  induction l as [|x l IH]; cbn; [split; [constructor | reflexivity]|].
  rewrite andb_true_iff, IH. split; [intros (a & b); now constructor | intros H; inversion H; tauto].
Qed.

Theorem email_iff s : is_email s = true <->
  exists loc labels, s = loc ++ String "@" (join_with "." labels)
    /\ loc <> "" /\ all_bytes is_local_char loc = true
    /\ labels <> [] /\ Forall (fun l => label_ok l = true) labels.
Proof.
  unfold is_email. split.
  - destruct (split_at_first "@" s "") as [[loc dom]|] eqn:E; [|discriminate]. intros H.
    apply andb_prop in H. destruct H as [H Hl]. apply andb_prop in H. destruct H as [Hne Hloc].
    apply split_at_first_spec in E. destruct E as (p & -> & -> & _). cbn [append] in *.
    exists p, (split_on "." dom ""). rewrite split_on_join. cbn [append]. repeat split.
    + intros ->. discriminate.
    + exact Hloc.
    + apply split_on_nonempty.
    + now apply forallb_Forall.
  - intros (loc & labels & -> & NE & Hloc & LNE & F).
    assert (E : split_at_first "@" (loc ++ String "@" (join_with "." labels)) "" = Some (loc, join_with "." labels)).
    { apply split_at_first_spec. exists loc. repeat split. now apply local_has_no_at. }
    rewrite E. rewrite Hloc. rewrite split_on_join_inv; [| exact LNE | eapply Forall_impl; [|exact F]; intros l; apply label_has_no_dot].
    apply forallb_Forall in F. rewrite F. destruct loc; [contradiction | reflexivity].
Qed.

(** what a label is *)
Theorem label_iff l : label_ok l = true <->
  1 <= String.length l <= 63
  /\ all_bytes (fun a => is_alnum a || Ascii.eqb a "-"%char) l = true
  /\ (exists a r, l = String a r /\ is_alnum a = true)
  /\ (exists a, get (String.length l - 1) l = Some a /\ is_alnum a = true).
Proof.
  unfold label_ok. rewrite !andb_true_iff, !Nat.leb_le. split.
  - intros ((((L1 & L2) & A) & F) & E). repeat split; try assumption.
    + destruct l as [|a r]; [discriminate|]. now exists a, r.
    + destruct (get (String.length l - 1) l) as [a|]; [now exists a | discriminate].
  - intros ((L1 & L2) & A & (a & r & -> & Ha) & (b & Eb & Hb)). repeat split; try assumption. now rewrite Eb.
Qed.

Example email_examples :
  is_email "a.b+c@d-e.f" = true /\ is_email "a@b" = true /\ is_email "a@-b.c" = false /\ is_email "a@b..c" = false
  /\ is_email "@b.c" = false /\ is_email "a b@c.d" = false.
Proof. repeat split. Qed.
