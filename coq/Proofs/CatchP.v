(** * Catch replaces any failure of its own node (property C05, own-node part). *)
From Coq Require Import String List ZArith Bool.
From Zog Require Import Model.Val Model.Engine Spec.Sem Spec.Satisfies Proofs.Refine Proofs.Indep.
Import ListNotations.
Open Scope string_scope.
Open Scope list_scope.

Lemma tests_catch_spec ts c v : rerrored (fst (sem_tests_catch ts c v)) = false
                                /\ snd (sem_tests_catch ts c v) = if all_ok ts v then v else c.
Proof.
  unfold all_ok. induction ts as [|t r IH]; cbn [sem_tests_catch forallb]; [split; reflexivity|].
  destruct (t_ok t v); cbn [andb].
  - destruct (sem_tests_catch r c v) as [l d]. cbn [fst snd] in *. destruct IH as (A & B). split; [|exact B].
    now rewrite rerrored_app, rerrored_rcall, A.
  - cbn [fst snd]. split; [apply rerrored_rcall | reflexivity].
Qed.

(** A node with Catch(c) never contributes an issue — for a missing required value, a coercion
    failure or a failed test — and its destination is c exactly when one of those happened,
    otherwise the value that was parsed (or the default, or the value being validated). *)
Theorem catch_own_node m p dat d e0 c : p_catch p = Some c -> p_pts p = [] ->
  rerrored (fst (sem_prim m p dat d e0)) = false
  /\ snd (sem_prim m p dat d e0) =
     let absent := match m with Parse => parse_zero dat | Validate => go_zero d end in
     if absent then
       match p_def p with
       | Some dv => if all_ok (p_tests p) dv then dv else c
       | None => match p_req p with Some _ => c | None => d end
       end
     else match m with
          | Parse => match p_coerce p dat with
                     | Some v => if all_ok (p_tests p) v then v else c
                     | None => c
                     end
          | Validate => if all_ok (p_tests p) d then d else c
          end.
Proof.
  intros Ec Ep. unfold sem_prim. rewrite Ec, Ep. unfold sem_prim_tests.
  assert (T : forall v, rerrored (fst (then_pts (fun q e => mk_unknown_issue q (dtype_of (p_kind p)) e) true [] e0 (sem_tests_catch (p_tests p) c v))) = false
                        /\ snd (then_pts (fun q e => mk_unknown_issue q (dtype_of (p_kind p)) e) true [] e0 (sem_tests_catch (p_tests p) c v))
                           = if all_ok (p_tests p) v then v else c).
  { intros v. destruct (tests_catch_spec (p_tests p) c v) as (A & B). destruct (sem_tests_catch (p_tests p) c v) as [l d1].
    rewrite then_pts_nil. cbn [fst snd] in *. now rewrite app_nil_r. }
  cbv zeta. destruct m.
  - destruct (parse_zero dat).
    + destruct (p_def p) as [dv|]; [apply T|]. destruct (p_req p); rewrite then_pts_nil; split; reflexivity.
    + destruct (p_coerce p dat) as [v|]; [apply T|]. rewrite then_pts_nil. split; reflexivity.
  - destruct (go_zero d).
    + destruct (p_def p) as [dv|]; [apply T|]. destruct (p_req p); rewrite then_pts_nil; split; reflexivity.
    + apply T.
Qed.

(** several catching nodes, anywhere: slice elements are independent of one another as well *)
Theorem elements_are_independent m e : pt_free e = true -> forall items zero done i e0,
  sem_elems_parse (sem m e) items zero done i e0
  = (flat_map (fun iv => under (idx_seg (fst iv)) (fst (sem m e (DVal (snd iv)) zero false))) (combine (seq i (length items)) items),
     done ++ map (fun v => snd (sem m e (DVal v) zero false)) items).
Proof.
  intros W. induction items as [|v r IH]; intros zero done i e0; cbn [sem_elems_parse length seq combine flat_map map fst snd]; [now rewrite app_nil_r|].
  rewrite (pt_free_e0_free e W m (DVal v) zero e0 false). destruct (sem m e (DVal v) zero false) as [lk dk] eqn:E.
  rewrite (IH zero (done ++ [dk]) (S i) (e0 || rerrored lk)). cbn [fst snd]. now rewrite <- app_assoc.
Qed.

(** ** ... and its PostTransforms: a catching node runs them exactly when no issue existed before the
    node was reached — whether or not its Catch fired, whichever failure it swallowed — on the value
    the node ends up with (the catch value when it fired); their errors are swallowed as well. *)
Definition without_pts (p : prim) : prim :=
  {| p_kind := p_kind p; p_coerce := p_coerce p; p_req := p_req p; p_def := p_def p; p_catch := p_catch p;
     p_tests := p_tests p; p_pts := [] |}.

Lemma sem_pts_loop_swallow_never_errors wrap ps : forall v, rerrored (fst (sem_pts_loop wrap true ps v)) = false.
Proof.
  induction ps as [|q ps IH]; intros v; cbn [sem_pts_loop]; [reflexivity|].
  destruct (pt_fn q v) as [v1 [e|]].
  - cbn [fst]. rewrite app_nil_r. apply rerrored_rcall.
  - specialize (IH v1). destruct (sem_pts_loop wrap true ps v1) as [l d1]. cbn [fst] in *.
    rewrite rerrored_app, rerrored_rcall, IH. reflexivity.
Qed.

Lemma sem_prim_is_body_then_pts m p dat d e0 :
  sem_prim m p dat d e0 =
  then_pts (fun q e => mk_unknown_issue q (dtype_of (p_kind p)) e) (match p_catch p with Some _ => true | None => false end)
           (p_pts p) e0 (sem_prim m (without_pts p) dat d e0).
Proof.
  unfold sem_prim. cbn [without_pts p_kind p_coerce p_req p_def p_catch p_tests p_pts].
  match goal with |- then_pts _ _ _ _ ?b = _ => destruct b as [l dv] end.
  rewrite then_pts_nil, app_nil_r. reflexivity.
Qed.

Theorem catch_with_transforms m p dat d e0 c : p_catch p = Some c ->
  let v := snd (sem_prim m (without_pts p) dat d e0) in
  rerrored (fst (sem_prim m p dat d e0)) = false
  /\ snd (sem_prim m p dat d e0) =
     if e0 then v else snd (sem_pts_loop (fun q e => mk_unknown_issue q (dtype_of (p_kind p)) e) true (p_pts p) v).
Proof.
  intros Ec v. destruct (catch_own_node m (without_pts p) dat d e0 c Ec eq_refl) as [NoErr _].
  rewrite sem_prim_is_body_then_pts, Ec. subst v.
  destruct (sem_prim m (without_pts p) dat d e0) as [l dv] eqn:E. cbn [fst snd] in *.
  unfold then_pts, sem_pts. rewrite NoErr, orb_false_r. destruct e0.
  - cbn [fst snd]. rewrite app_nil_r. split; [exact NoErr | reflexivity].
  - pose proof (sem_pts_loop_swallow_never_errors (fun q e => mk_unknown_issue q (dtype_of (p_kind p)) e) (p_pts p) dv) as S.
    destruct (sem_pts_loop (fun q e => mk_unknown_issue q (dtype_of (p_kind p)) e) true (p_pts p) dv) as [l2 d2].
    cbn [fst snd] in *. rewrite rerrored_app, NoErr, S. split; reflexivity.
Qed.

(** behind a pointer: a present input allocates the pointer, and what it points to is the catching
    node's value — the catch value when the node failed, the parsed value otherwise *)
Theorem catch_behind_pointer p pz v e0 c : p_catch p = Some c -> p_pts p = [] -> parse_zero v = false ->
  snd (sem Parse (SPtr (SPrim p) None pz) (DVal v) (DPtr None) e0)
  = DPtr (Some (match p_coerce p v with Some x => if all_ok (p_tests p) x then x else c | None => c end))
  /\ rerrored (fst (sem Parse (SPtr (SPrim p) None pz) (DVal v) (DPtr None) e0)) = false.
Proof.
  intros Ec Ep Z. cbn [sem]. rewrite Z. cbn [data_val].
  destruct (catch_own_node Parse p v pz e0 c Ec Ep) as [NoErr Val]. cbv zeta in Val. rewrite Z in Val.
  destruct (sem_prim Parse p v pz e0) as [l y] eqn:E. cbn [fst snd] in *. subst y. split; [reflexivity | exact NoErr].
Qed.
