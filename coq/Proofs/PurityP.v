(** * Executions never modify the schema (property C19). *)
From Coq Require Import String List Arith Bool Lia.
From Zog Require Import Model.Val Model.Engine Spec.Sem Proofs.Refine Model.SliceHeap.
Import ListNotations.
Open Scope list_scope.

(** ** slice defaults *)
Lemma nth_upd_neq {A} (l : list A) i j x d : i <> j -> nth j (upd l i x) d = nth j l d.
Proof. revert i j; induction l as [|a r IH]; intros [|k] [|m] H; cbn; auto; try lia. Qed.
Lemma length_upd {A} (l : list A) i x : length (upd l i x) = length l.
Proof. revert i; induction l as [|a r IH]; intros [|k]; cbn; auto. Qed.

Definition Inv (dflt : list nat) (x : st) : Prop :=
  nth default_id (hp x) [] = dflt /\ 1 <= length (hp x) /\ Forall (fun a => 1 <= a < length (hp x)) (results x).

Lemma step_Inv dflt x o : Inv dflt x -> Inv dflt (step x o).
Proof.
  intros (D & L & R). destruct o as [pt | k f]; cbn [step].
  - unfold Inv. cbn [hp results]. rewrite app_length. cbn [length]. repeat split.
    + unfold default_id in *. rewrite app_nth1 by lia. exact D.
    + lia.
    + apply Forall_app. split.
      * eapply Forall_impl; [|exact R]. cbn. intros a Ha. lia.
      * constructor; [lia | constructor].
  - destruct (nth_error (results x) k) as [a|] eqn:E; [|repeat split; assumption].
    assert (Ha : 1 <= a < length (hp x)) by (rewrite Forall_forall in R; apply R; eapply nth_error_In; exact E).
    unfold Inv. cbn [hp results]. rewrite length_upd. repeat split; try assumption.
    unfold default_id in *. rewrite nth_upd_neq by lia. exact D.
Qed.

(** The schema's default is never changed, whatever the PostTransforms and the callers write. *)
Theorem default_never_changes dflt ops : nth default_id (hp (run dflt ops)) [] = dflt.
Proof.
  unfold run. assert (I : Inv dflt (init dflt)) by (unfold Inv, init; cbn; repeat split; auto).
  revert I. generalize (init dflt). induction ops as [|o ops IH]; intros x I; cbn [fold_left]; [apply I|].
  apply IH. now apply step_Inv.
Qed.

(** Every execution starts from the same default: the n-th use equals the first. *)
Lemma produced_spec dflt : forall ops x, Inv dflt x -> Forall2 (fun o r => match o with Exec pt => r = pt dflt | _ => True end)
                                                               (filter (fun o => match o with Exec _ => true | _ => false end) ops) (produced x ops).
Proof.
  induction ops as [|o ops IH]; intros x I; cbn [produced filter]; [constructor|].
  destruct o as [pt | k f].
  - constructor; [now rewrite (proj1 I) | apply IH; now apply (step_Inv dflt x (Exec pt))].
  - apply IH. now apply (step_Inv dflt x (Scribble k f)).
Qed.
Theorem every_use_like_the_first dflt ops :
  Forall2 (fun o r => match o with Exec pt => r = pt dflt | _ => True end)
          (filter (fun o => match o with Exec _ => true | _ => false end) ops) (produced (init dflt) ops).
Proof. apply produced_spec. unfold Inv, init; cbn; repeat split; auto. Qed.

(** The aliasing the repair removed: one execution whose result the caller mutates changes the
    schema's default under the legacy step, not under the repaired one. *)
Example legacy_alias_refuted :
  nth default_id (hp (run_legacy [1; 2] [Exec (fun l => l); Scribble 0 (fun _ => [9; 9])])) [] = [9; 9]
  /\ nth default_id (hp (run [1; 2] [Exec (fun l => l); Scribble 0 (fun _ => [9; 9])])) [] = [1; 2].
Proof. split; reflexivity. Qed.

(** ** Validate changes the validated value only through Default, Catch and PostTransform *)
Fixpoint writer_free (s : sch) : bool :=
  match s with
  | SPrim p => match p_def p, p_catch p, p_pts p with None, None, [] => true | _, _, _ => false end
  | SStruct fs _ pts =>
    match pts with [] => true | _ => false end
    && (fix go (l : list (string * (list (string * string) * sch))) : bool :=
          match l with [] => true | kc :: r => writer_free (snd (snd kc)) && go r end) fs
  | SSlice e c => match sl_def c, sl_pts c with None, [] => writer_free e | _, _ => false end
  | SPtr e _ _ => writer_free e
  | SCustom _ _ => true
  | SPre _ _ => false
  end.

Lemma dset_same k dfs : dset k (dlookup k dfs) dfs = dfs.
Proof.
  unfold dlookup, alookup. induction dfs as [|[k' v'] r IH]; cbn; [reflexivity|].
  rewrite (String.eqb_sym k' k). destruct (String.eqb k k') eqn:E.
  - apply String.eqb_eq in E. now subst.
  - cbn. f_equal. destruct (find (fun kv => String.eqb (fst kv) k) r); exact IH.
Qed.

(** the destination has the shape the schema expects (struct nodes meet struct values, all the way down) *)
Fixpoint typed (s : sch) (d : dval) {struct s} : bool :=
  match s with
  | SStruct fs _ _ =>
    match d with
    | DStruct dfs =>
      (fix go (l : list (string * (list (string * string) * sch))) : bool :=
         match l with [] => true | kc :: r => typed (snd (snd kc)) (dlookup (fst kc) dfs) && go r end) fs
    | _ => false
    end
  | SSlice e _ => match d with DSlice l => forallb (typed e) l | _ => true end
  | SPtr e _ _ => match d with DPtr (Some y) => typed e y | _ => true end
  | SPre _ e => typed e d
  | _ => true
  end.

Definition keeps (s : sch) : Prop := forall dat d e0, writer_free s = true -> typed s d = true -> snd (sem Validate s dat d e0) = d.

Lemma prim_keeps p : keeps (SPrim p).
Proof.
  intros dat d e0 W _. cbn in W. destruct (p_def p) eqn:Ed; [discriminate|]. destruct (p_catch p) eqn:Ec; [discriminate|].
  destruct (p_pts p) eqn:Ep; [|discriminate].
  cbn [sem]. unfold sem_prim. rewrite Ed, Ec, Ep. unfold then_pts, sem_pts, sem_prim_tests.
  destruct (go_zero d).
  - destruct (p_req p); cbn; destruct (e0 || _); reflexivity.
  - cbn. destruct (e0 || _); reflexivity.
Qed.

Lemma elems_keep e : keeps e -> writer_free e = true -> forall items, forallb (typed e) items = true -> forall done i e0,
  snd (sem_elems_valid (sem Validate e) items done i e0) = done ++ items.
Proof.
  intros K W. induction items as [|d r IH]; intros T done i e0; cbn [sem_elems_valid]; [now rewrite app_nil_r|].
  cbn in T. apply andb_prop in T. destruct T as [Td Tr].
  pose proof (K (DVal VNil) d e0 W Td) as Kd. destruct (sem Validate e (DVal VNil) d e0) as [lk dk]. cbn [snd] in Kd. subst dk.
  specialize (IH Tr (done ++ [d]) (S i) (e0 || rerrored lk)).
  destruct (sem_elems_valid (sem Validate e) r (done ++ [d]) (S i) (e0 || rerrored lk)) as [lr dr]. cbn [snd] in *.
  rewrite IH. now rewrite <- app_assoc.
Qed.

Lemma fields_keep pv dfs : forall fs, Forall (fun kc => keeps (snd (snd kc))) fs ->
  (fix go (l : list (string * (list (string * string) * sch))) : bool :=
     match l with [] => true | kc :: r => writer_free (snd (snd kc)) && go r end) fs = true ->
  (fix go (l : list (string * (list (string * string) * sch))) : bool :=
     match l with [] => true | kc :: r => typed (snd (snd kc)) (dlookup (fst kc) dfs) && go r end) fs = true ->
  forall e0, snd (sem_fields (sem Validate) Validate pv fs dfs e0) = dfs.
Proof.
  induction fs as [|[k [tags c]] r IH]; intros HF W T e0; cbn [sem_fields]; [reflexivity|].
  inversion HF as [|? ? Hk Hr]; subst. cbn [snd fst] in *. apply andb_prop in W. destruct W as [Wc Wr].
  apply andb_prop in T. destruct T as [Tc Tr].
  pose proof (Hk (DVal VNil) (dlookup k dfs) e0 Wc Tc) as Kd.
  destruct (sem Validate c (DVal VNil) (dlookup k dfs) e0) as [lk dk]. cbn [snd] in Kd. subst dk.
  rewrite dset_same. specialize (IH Hr Wr Tr (e0 || rerrored lk)).
  destruct (sem_fields (sem Validate) Validate pv r dfs (e0 || rerrored lk)) as [lr dr]. cbn [snd] in *. exact IH.
Qed.

Lemma snd_then_pts_nil wrap sw e0 l d : snd (then_pts wrap sw [] e0 (l, d)) = d.
Proof. unfold then_pts, sem_pts. cbn [sem_pts_loop]. now destruct (e0 || rerrored l). Qed.

Theorem validate_writes_only_through_default_catch_pt : forall s, keeps s.
Proof.
  induction s as [p | fs tests pts IH | e c IH | e nn pz IH | conv t | pf e IH] using sch_ind'.
  - apply prim_keeps.
  - intros dat d e0 W T. cbn in W. apply andb_prop in W. destruct W as [Wp Wf]. destruct pts; [|discriminate].
    cbn in T. destruct d as [| | | | | | |dfs|]; try discriminate.
    cbn [sem dstruct_fields]. pose proof (fields_keep PEmpty dfs fs IH Wf T e0) as F.
    destruct (sem_fields (sem Validate) Validate PEmpty fs dfs e0) as [lf dfs']. cbn [snd] in F. subst dfs'.
    apply snd_then_pts_nil.
  - intros dat d e0 W T. cbn in W. destruct (sl_def c) eqn:Ed; [discriminate|]. destruct (sl_pts c) eqn:Ep; [|discriminate].
    cbn [sem]. rewrite Ed, Ep.
    destruct d as [| | | | |l| | |]; cbn [dslice_items]; try (destruct (sl_req c); apply snd_then_pts_nil).
    destruct l as [|d0 r]; [destruct (sl_req c); apply snd_then_pts_nil|].
    cbn in T. pose proof (elems_keep e IH W (d0 :: r) T [] 0 e0) as E.
    destruct (sem_elems_valid (sem Validate e) (d0 :: r) [] 0 e0) as [le ds]. cbn [snd app] in E. subst ds.
    apply snd_then_pts_nil.
  - intros dat d e0 W T. cbn in W. cbn [sem].
    destruct d as [| | | | | |[y|]| |]; try (destruct nn; reflexivity).
    cbn in T. pose proof (IH (DVal VNil) y e0 W T) as K. destruct (sem Validate e (DVal VNil) y e0) as [l y1]. cbn [snd] in *. now subst.
  - intros dat d e0 _ _. reflexivity.
  - intros dat d e0 W. discriminate.
Qed.
