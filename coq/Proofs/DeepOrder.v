(** * Order independence at every depth (property C09).

    [sch_perm s s']: [s'] is [s] with the fields of any of its struct nodes, at any depth, visited
    in another order.  For a schema without PostTransforms whose struct nodes have distinct keys,
    every such reordering yields the same final value and the same entries (issues and callback
    invocations, with their paths) up to their order — for every mode, data, destination and
    incoming error state. *)
From Coq Require Import String List Bool Permutation Lia.
From Zog Require Import Model.Val Model.Engine Spec.Sem Spec.Satisfies Proofs.Refine Proofs.Indep.
Import ListNotations.
Open Scope string_scope.
Open Scope list_scope.

Inductive sch_perm : sch -> sch -> Prop :=
| SP_refl s : sch_perm s s
| SP_struct fs fs1 fs' tests pts :
    Forall2 (fun f g : field => fst f = fst g /\ fst (snd f) = fst (snd g) /\ sch_perm (snd (snd f)) (snd (snd g))) fs fs1 ->
    Permutation fs1 fs' -> sch_perm (SStruct fs tests pts) (SStruct fs' tests pts)
| SP_slice e e' c : sch_perm e e' -> sch_perm (SSlice e c) (SSlice e' c)
| SP_ptr e e' nn pz : sch_perm e e' -> sch_perm (SPtr e nn pz) (SPtr e' nn pz)
| SP_pre f e e' : sch_perm e e' -> sch_perm (SPre f e) (SPre f e').

(** every struct node has distinct keys (a Go map) *)
Fixpoint keys_nodup (s : sch) : Prop :=
  match s with
  | SStruct fs _ _ =>
    NoDup (map fst fs) /\ (fix go (l : list field) : Prop := match l with [] => True | f :: r => keys_nodup (snd (snd f)) /\ go r end) fs
  | SSlice e _ | SPtr e _ _ | SPre _ e => keys_nodup e
  | _ => True
  end.

Definition req {A} (a b : list rentry * A) : Prop := Permutation (fst a) (fst b) /\ snd a = snd b.
Definition sim (m : mode) (c c' : sch) : Prop := forall dat d e, req (sem m c dat d e) (sem m c' dat d e).

Lemma req_refl {A} (a : list rentry * A) : req a a.
Proof. split; reflexivity. Qed.
Lemma req_trans {A} (a b c : list rentry * A) : req a b -> req b c -> req a c.
Proof. intros (P1 & E1) (P2 & E2). split; [eapply Permutation_trans; eassumption | congruence]. Qed.

Lemma rerrored_perm l l' : Permutation l l' -> rerrored l = rerrored l'.
Proof.
  unfold rerrored. induction 1 as [| x l l' _ IH | x y l | l1 l2 l3 _ IH1 _ IH2]; cbn.
  - reflexivity.
  - now rewrite IH.
  - destruct (r_is_issue x), (r_is_issue y); reflexivity.
  - congruence.
Qed.

Lemma under_perm k l l' : Permutation l l' -> Permutation (under k l) (under k l').
Proof. apply Permutation_map. Qed.

Lemma sch_perm_dtype s s' : sch_perm s s' -> sch_dtype s = sch_dtype s'.
Proof. induction 1; cbn; congruence. Qed.

(** ** loops: pointwise similar children give similar loops *)
Lemma fields_pointwise m pv : forall fs fs1,
  Forall2 (fun f g : field => fst f = fst g /\ fst (snd f) = fst (snd g) /\ sim m (snd (snd f)) (snd (snd g))) fs fs1 ->
  forall dfs e, req (sem_fields (sem m) m pv fs dfs e) (sem_fields (sem m) m pv fs1 dfs e).
Proof.
  induction 1 as [| [k [tags c]] [k' [tags' c']] r r' Hh _ IH]; intros dfs e; [apply req_refl|].
  cbn [fst snd] in Hh. destruct Hh as (<- & <- & S). cbn [sem_fields].
  destruct (match m with Parse => get_by_field pv tags k | Validate => (VNil, match alookup "zog" tags with Some t => t | None => k end) end) as [v fk].
  specialize (S (DVal v) (dlookup k dfs) e).
  destruct (sem m c (DVal v) (dlookup k dfs) e) as [lk dk]. destruct (sem m c' (DVal v) (dlookup k dfs) e) as [lk' dk'].
  destruct S as (P & E). cbn [fst snd] in P, E. subst dk'. rewrite (rerrored_perm _ _ P).
  specialize (IH (dset k dk dfs) (e || rerrored lk')).
  destruct (sem_fields (sem m) m pv r (dset k dk dfs) (e || rerrored lk')) as [lr dr].
  destruct (sem_fields (sem m) m pv r' (dset k dk dfs) (e || rerrored lk')) as [lr' dr'].
  destruct IH as (P2 & E2). cbn [fst snd] in *. subst dr'. split; [|reflexivity]. cbn [fst].
  apply Permutation_app; [now apply under_perm | assumption].
Qed.

Lemma elems_parse_pointwise m c c' : sim m c c' -> forall items zero done i e,
  req (sem_elems_parse (sem m c) items zero done i e) (sem_elems_parse (sem m c') items zero done i e).
Proof.
  intros Sm. induction items as [|v r IH]; intros zero done i e; [apply req_refl|]. cbn [sem_elems_parse].
  pose proof (Sm (DVal v) zero e) as Sv.
  destruct (sem m c (DVal v) zero e) as [lk dk]. destruct (sem m c' (DVal v) zero e) as [lk' dk'].
  destruct Sv as (P & E). cbn [fst snd] in P, E. subst dk'. rewrite (rerrored_perm _ _ P).
  specialize (IH zero (done ++ [dk]) (S i) (e || rerrored lk')).
  destruct (sem_elems_parse (sem m c) r zero (done ++ [dk]) (S i) (e || rerrored lk')) as [lr dr].
  destruct (sem_elems_parse (sem m c') r zero (done ++ [dk]) (S i) (e || rerrored lk')) as [lr' dr'].
  destruct IH as (P2 & E2). cbn [fst snd] in *. subst dr'. split; [|reflexivity]. cbn [fst].
  apply Permutation_app; [now apply under_perm | assumption].
Qed.

Lemma elems_valid_pointwise m c c' : sim m c c' -> forall items done i e,
  req (sem_elems_valid (sem m c) items done i e) (sem_elems_valid (sem m c') items done i e).
Proof.
  intros Sm. induction items as [|x r IH]; intros done i e; [apply req_refl|]. cbn [sem_elems_valid].
  pose proof (Sm (DVal VNil) x e) as Sv.
  destruct (sem m c (DVal VNil) x e) as [lk dk]. destruct (sem m c' (DVal VNil) x e) as [lk' dk'].
  destruct Sv as (P & E). cbn [fst snd] in P, E. subst dk'. rewrite (rerrored_perm _ _ P).
  specialize (IH (done ++ [dk]) (S i) (e || rerrored lk')).
  destruct (sem_elems_valid (sem m c) r (done ++ [dk]) (S i) (e || rerrored lk')) as [lr dr].
  destruct (sem_elems_valid (sem m c') r (done ++ [dk]) (S i) (e || rerrored lk')) as [lr' dr'].
  destruct IH as (P2 & E2). cbn [fst snd] in *. subst dr'. split; [|reflexivity]. cbn [fst].
  apply Permutation_app; [now apply under_perm | assumption].
Qed.

(** without PostTransforms the closing step of a node appends nothing *)
Lemma finish_nil_req {A} wrap e (l l' : list rentry) (tl : list rentry) (d : dval) (_ : A) :
  Permutation l l' ->
  req (then_pts wrap false [] e (l ++ tl, d)) (then_pts wrap false [] e (l' ++ tl, d)).
Proof.
  intros P. rewrite !then_pts_nil. split; cbn [fst snd]; [|reflexivity].
  rewrite !app_nil_r. now apply Permutation_app_tail.
Qed.

(** ** combining the induction hypotheses of the fields with the field-wise relation *)
Definition deep (s : sch) : Prop := forall s', sch_perm s s' -> pt_free s = true -> keys_nodup s ->
  pt_free s' = true /\ forall m, sim m s s'.

Lemma fields_deep : forall fs fs1 : list field,
  Forall (fun f : field => deep (snd (snd f))) fs ->
  Forall2 (fun f g : field => fst f = fst g /\ fst (snd f) = fst (snd g) /\ sch_perm (snd (snd f)) (snd (snd g))) fs fs1 ->
  fields_pt_free fs = true ->
  (fix go (l : list field) : Prop := match l with [] => True | f :: r => keys_nodup (snd (snd f)) /\ go r end) fs ->
  fields_pt_free fs1 = true /\ map fst fs1 = map fst fs
  /\ forall m, Forall2 (fun f g : field => fst f = fst g /\ fst (snd f) = fst (snd g) /\ sim m (snd (snd f)) (snd (snd g))) fs fs1.
Proof.
  intros fs fs1 IH F2. revert IH. induction F2 as [| f g r r' Hh _ IHr]; intros IH W K.
  - repeat split; constructor.
  - inversion IH as [|? ? Df Dr]; subst.
    change (fields_pt_free (f :: r)) with (pt_free (snd (snd f)) && fields_pt_free r) in W.
    apply andb_prop in W. destruct W as [Wf Wr]. destruct K as [Kf Kr].
    destruct Hh as (E1 & E2 & SP). destruct (Df _ SP Wf Kf) as (Wg & Sg).
    destruct (IHr Dr Wr Kr) as (Wr' & Er & Sr). split; [|split].
    + change (fields_pt_free (g :: r')) with (pt_free (snd (snd g)) && fields_pt_free r'). now rewrite Wg, Wr'.
    + cbn. now rewrite E1, Er.
    + intros m. constructor; [split; [assumption | split; [assumption | apply Sg]] | apply Sr].
Qed.

Theorem deep_order_independent : forall s, deep s.
Proof.
  induction s as [p | fs tests pts IH | e c IH | e nn pz IH | conv t | pf e IH] using sch_ind'; intros s' SP W K.
  - (* primitive *) inversion SP; subst. split; [assumption | intros m dat d e0; apply req_refl].
  - (* struct *)
    inversion SP as [ | fs0 fs1 fs' tests0 pts0 F2 HP | | | ]; subst; [split; [assumption | intros m dat d e0; apply req_refl]|].
    cbn [pt_free] in W. apply andb_prop in W. destruct W as [Wp Wf]. destruct pts as [|pt0 ptr0]; [|discriminate].
    change ((fix go (l : list (string * (list (string * string) * sch))) : bool :=
               match l with [] => true | kc :: r => pt_free (snd (snd kc)) && go r end) fs) with (fields_pt_free fs) in Wf.
    cbn [keys_nodup] in K. destruct K as [ND Kf].
    destruct (fields_deep fs fs1 IH F2 Wf Kf) as (W1 & Ek & S1).
    assert (ND1 : NoDup (map fst fs1)) by (rewrite Ek; exact ND).
    assert (W' : fields_pt_free fs' = true).
    { apply fields_pt_free_Forall. apply fields_pt_free_Forall in W1. eapply Permutation_Forall; eassumption. }
    split.
    + cbn [pt_free]. change ((fix go (l : list (string * (list (string * string) * sch))) : bool :=
               match l with [] => true | kc :: r => pt_free (snd (snd kc)) && go r end) fs') with (fields_pt_free fs'). now rewrite W'.
    + intros m dat d e0. cbn [sem].
      set (wrap := fun (y : string) (err : uerr) => mk_unknown_issue y "struct" err).
      assert (B : forall pv,
        req (let '(lf, dfs) := sem_fields (sem m) m pv fs (dstruct_fields d) e0 in
             then_pts wrap false [] e0 (lf ++ sem_tests_all "struct" tests (DStruct dfs), DStruct dfs))
            (let '(lf, dfs) := sem_fields (sem m) m pv fs' (dstruct_fields d) e0 in
             then_pts wrap false [] e0 (lf ++ sem_tests_all "struct" tests (DStruct dfs), DStruct dfs))).
      { intros pv.
        pose proof (fields_pointwise m pv fs fs1 (S1 m) (dstruct_fields d) e0) as R1.
        pose proof (fields_order_independent m pv fs1 fs' (dstruct_fields d) e0 HP W1 ND1) as R2.
        pose proof (req_trans _ _ _ R1 R2) as R.
        destruct (sem_fields (sem m) m pv fs (dstruct_fields d) e0) as [lf dfs].
        destruct (sem_fields (sem m) m pv fs' (dstruct_fields d) e0) as [lf' dfs'].
        destruct R as (P & E). cbn [fst snd] in P, E. subst dfs'. now apply (finish_nil_req wrap e0 lf lf' _ _ tt). }
      destruct m; [|apply B].
      destruct dat as [v|pv|[code err| |pv]]; try apply B.
      * destruct (provider_of_val v); [apply B | apply req_refl].
      * apply req_refl.
  - (* slice *)
    inversion SP as [ | | e0' e' c0 SPe | | ]; subst; [split; [assumption | intros m dat d e0; apply req_refl]|].
    cbn [pt_free] in W. apply andb_prop in W. destruct W as [Wp We]. cbn [keys_nodup] in K.
    destruct (IH e' SPe We K) as (We' & Se). split; [cbn [pt_free]; now rewrite Wp, We'|].
    intros m dat d e0. cbn [sem]. destruct (sl_pts c) as [|p0 pr0]; [|discriminate].
    set (wrap := fun (y : string) (err : uerr) => mk_unknown_issue y "slice" err).
    destruct m.
    + (* Parse *)
      assert (G : forall items,
        req (let '(le, ds) := sem_elems_parse (sem Parse e) items (sl_zero c) [] 0 e0 in
             then_pts wrap false [] e0 (le ++ sem_tests_all "slice" (sl_tests c) (DSlice ds), DSlice ds))
            (let '(le, ds) := sem_elems_parse (sem Parse e') items (sl_zero c) [] 0 e0 in
             then_pts wrap false [] e0 (le ++ sem_tests_all "slice" (sl_tests c) (DSlice ds), DSlice ds))).
      { intros items. pose proof (elems_parse_pointwise Parse e e' (Se Parse) items (sl_zero c) [] 0 e0) as R.
        destruct (sem_elems_parse (sem Parse e) items (sl_zero c) [] 0 e0) as [le ds].
        destruct (sem_elems_parse (sem Parse e') items (sl_zero c) [] 0 e0) as [le' ds'].
        destruct R as (P & E). cbn [fst snd] in P, E. subst ds'. now apply (finish_nil_req wrap e0 le le' _ _ tt). }
      destruct (parse_zero (data_val dat)).
      * destruct (sl_def c); [apply G | apply req_refl].
      * destruct (sl_coerce c (data_val dat)); [apply G | apply req_refl].
    + (* Validate *)
      assert (G : forall items,
        req (let '(le, ds) := sem_elems_valid (sem Validate e) items [] 0 e0 in
             then_pts wrap false [] e0 (le ++ sem_tests_all "slice" (sl_tests c) (DSlice ds), DSlice ds))
            (let '(le, ds) := sem_elems_valid (sem Validate e') items [] 0 e0 in
             then_pts wrap false [] e0 (le ++ sem_tests_all "slice" (sl_tests c) (DSlice ds), DSlice ds))).
      { intros items. pose proof (elems_valid_pointwise Validate e e' (Se Validate) items [] 0 e0) as R.
        destruct (sem_elems_valid (sem Validate e) items [] 0 e0) as [le ds].
        destruct (sem_elems_valid (sem Validate e') items [] 0 e0) as [le' ds'].
        destruct R as (P & E). cbn [fst snd] in P, E. subst ds'. now apply (finish_nil_req wrap e0 le le' _ _ tt). }
      destruct (dslice_items d) as [|x r]; [destruct (sl_def c); [apply G | apply req_refl] | apply G].
  - (* pointer *)
    inversion SP as [ | | | e0' e' nn0 pz0 SPe | ]; subst; [split; [assumption | intros m dat d e0; apply req_refl]|].
    cbn [pt_free] in W. cbn [keys_nodup] in K. destruct (IH e' SPe W K) as (We' & Se).
    split; [exact We'|]. intros m dat d e0. cbn [sem]. rewrite <- (sch_perm_dtype e e' SPe).
    assert (C : forall dat1 y, req (let '(l, y1) := sem m e dat1 y e0 in (l, DPtr (Some y1)))
                                   (let '(l, y1) := sem m e' dat1 y e0 in (l, DPtr (Some y1)))).
    { intros dat1 y. pose proof (Se m dat1 y e0) as R.
      destruct (sem m e dat1 y e0) as [l y1]. destruct (sem m e' dat1 y e0) as [l' y1'].
      destruct R as (P & E). cbn [fst snd] in *. subst y1'. split; [exact P | reflexivity]. }
    destruct m.
    + destruct dat as [v|pv|[code err| |pv]]; cbn.
      * destruct (parse_zero v); [apply req_refl | apply C].
      * apply C.
      * apply req_refl.
      * apply req_refl.
      * apply C.
    + destruct d as [| | | | | | o | |]; try apply req_refl. destruct o as [y|]; [apply C | apply req_refl].
  - (* custom *) inversion SP; subst. split; [assumption | intros m dat d e0; apply req_refl].
  - (* preprocess *)
    inversion SP as [ | | | | pf0 e0' e' SPe ]; subst; [split; [assumption | intros m dat d e0; apply req_refl]|].
    cbn [pt_free] in W. cbn [keys_nodup] in K. destruct (IH e' SPe W K) as (We' & Se).
    split; [exact We'|]. intros m dat d e0. cbn [sem]. rewrite <- (sch_perm_dtype e e' SPe).
    assert (C : forall c dat1 d1 e1, req (let '(l, d2) := sem m e dat1 d1 e1 in (c ++ l, d2))
                                         (let '(l, d2) := sem m e' dat1 d1 e1 in (c ++ l, d2))).
    { intros c dat1 d1 e1. pose proof (Se m dat1 d1 e1) as R.
      destruct (sem m e dat1 d1 e1) as [l d2]. destruct (sem m e' dat1 d1 e1) as [l' d2'].
      destruct R as (P & E). cbn [fst snd] in *. subst d2'. split; [now apply Permutation_app_head | reflexivity]. }
    destruct m.
    + destruct (pre_parse pf (data_val dat)) as [[v|err]|]; [apply C | apply req_refl | apply req_refl].
    + destruct (pre_valid pf d) as [d1|msg]; [apply C | apply req_refl].
Qed.

(** the property-level statement: the same final value, the same entries up to order *)
Corollary deep_order_independent_sem s s' m dat d e :
  sch_perm s s' -> pt_free s = true -> keys_nodup s ->
  Permutation (fst (sem m s dat d e)) (fst (sem m s' dat d e)) /\ snd (sem m s dat d e) = snd (sem m s' dat d e).
Proof. intros SP W K. exact (proj2 (deep_order_independent s s' SP W K) m dat d e). Qed.

(** the order of the input's keys: a map provider is only ever looked up by key, so any
    rearrangement of an association list with distinct keys is the same input *)
Lemma alookup_perm {A} (k : string) (l l' : list (string * A)) :
  Permutation l l' -> NoDup (map fst l) -> alookup k l = alookup k l'.
Proof.
  unfold alookup.
  induction 1 as [| [a x] l l' _ IH | [a x] [b y] l | l1 l2 l3 H1 IH1 H2 IH2]; intros ND.
  - reflexivity.
  - cbn [find fst]. inversion ND; subst. destruct (String.eqb a k); [reflexivity | now apply IH].
  - cbn [find fst]. cbn in ND. inversion ND as [|? ? Hn Hd]; subst.
    destruct (String.eqb_spec b k) as [Eb|Nb], (String.eqb_spec a k) as [Ea|Na]; try reflexivity.
    exfalso. apply Hn. left. congruence.
  - rewrite IH1 by assumption. apply IH2. eapply Permutation_NoDup; [apply Permutation_map; exact H1 | exact ND].
Qed.

(** non-vacuity: a nested schema and a reordering of it at both levels *)
Definition ex_leaf : sch := SPrim {| p_kind := KString; p_coerce := fun v => match v with VStr x => Some (DStr x) | _ => None end;
                                     p_req := None; p_def := None; p_catch := None; p_tests := []; p_pts := [] |}.
Definition ex_inner : sch := SStruct [("a", ([], ex_leaf)); ("b", ([], ex_leaf))] [] [].
Definition ex_inner' : sch := SStruct [("b", ([], ex_leaf)); ("a", ([], ex_leaf))] [] [].
Definition ex_outer : sch := SStruct [("x", ([], ex_inner)); ("y", ([], ex_leaf))] [] [].
Definition ex_outer' : sch := SStruct [("y", ([], ex_leaf)); ("x", ([], ex_inner'))] [] [].
Example ex_deep_perm : sch_perm ex_outer ex_outer' /\ pt_free ex_outer = true /\ keys_nodup ex_outer.
Proof.
  split; [|split].
  - unfold ex_outer, ex_outer'. eapply (SP_struct _ [("x", ([], ex_inner')); ("y", ([], ex_leaf))]).
    + constructor; [repeat split|].
      * cbn. unfold ex_inner, ex_inner'. eapply (SP_struct _ [("a", ([], ex_leaf)); ("b", ([], ex_leaf))]).
        -- repeat constructor.
        -- apply perm_swap.
      * constructor; [repeat split; apply SP_refl | constructor].
    + apply perm_swap.
  - reflexivity.
  - cbn. repeat split; repeat constructor; cbn; intuition congruence.
Qed.

(** a map input is only ever consulted through key lookups: rearranging the keys of the input map
    of a struct (distinct keys) changes nothing, whatever the schema *)
Lemma sem_fields_provider_ext (srec : sch -> data -> dval -> bool -> list rentry * dval) m pv pv' :
  (forall tags k, get_by_field pv tags k = get_by_field pv' tags k) ->
  forall fs dfs e, sem_fields srec m pv fs dfs e = sem_fields srec m pv' fs dfs e.
Proof.
  intros H. induction fs as [|[k [tags c]] r IH]; intros dfs e; cbn [sem_fields]; [reflexivity|].
  rewrite (H tags k). destruct m.
  - destruct (get_by_field pv' tags k) as [v fk]. destruct (srec c (DVal v) (dlookup k dfs) e) as [lk dk]. now rewrite IH.
  - destruct (srec c (DVal VNil) (dlookup k dfs) e) as [lk dk]. now rewrite IH.
Qed.

Theorem input_key_order_irrelevant tag (mp mp' : list (string * val)) fs tests pts m d e0 :
  Permutation mp mp' -> NoDup (map fst mp) ->
  sem m (SStruct fs tests pts) (DProv (PMap tag mp)) d e0 = sem m (SStruct fs tests pts) (DProv (PMap tag mp')) d e0.
Proof.
  intros HP ND. cbn [sem]. destruct m; [|reflexivity].
  rewrite (sem_fields_provider_ext (sem Parse) Parse (PMap tag mp) (PMap tag mp')); [reflexivity|].
  intros tags k. cbn [get_by_field]. now rewrite (alookup_perm _ mp mp' HP ND).
Qed.
