(** * Every violation is reported exactly once, where it occurred (C02); the destination holds the
    coercion of the input and nothing else is written (C03); callbacks run at the documented
    times (C12).  Node-level facts about the context-free semantics; [Proofs/Refine.v] transports
    them to the engine at every depth. *)
From Coq Require Import String List ZArith Bool Lia.
From Zog Require Import Model.Val Model.Engine Model.Coerce Spec.Sem Spec.Satisfies Proofs.Refine Proofs.Indep Proofs.CatchP.
Import ListNotations.
Open Scope string_scope.
Open Scope list_scope.

(** the codes of the issues among some entries, in order *)
Definition codes (l : list rentry) : list string :=
  flat_map (fun r => match r with RI _ mk => [i_code (mk "")] | RC _ _ => [] end) l.
Definition ids (l : list rentry) : list nat :=
  flat_map (fun r => match r with RC _ mk => [c_id (mk "")] | RI _ _ => [] end) l.

Lemma codes_app a b : codes (a ++ b) = codes a ++ codes b.
Proof. unfold codes. apply flat_map_app. Qed.
Lemma codes_rcall id k arg : codes (rcall id k arg) = [].
Proof. unfold rcall. now destruct (Nat.eqb id 0). Qed.

(** C02: all failing tests of a node are reported — one issue each, with the test's code, in
    declaration order — and the passing ones contribute nothing *)
Theorem all_failing_tests_reported dtype ts v :
  codes (sem_tests_all dtype ts v) = map t_code (filter (fun t => negb (t_ok t v)) ts).
Proof.
  unfold sem_tests_all. induction ts as [|t r IH]; cbn [flat_map filter]; [reflexivity|].
  rewrite codes_app, IH. unfold sem_test. rewrite codes_app, codes_rcall. destruct (t_ok t v); reflexivity.
Qed.

(** the issues a node reports sit at the node's own path (IssuePath options aside): relative chain [] *)
Theorem test_issues_at_own_path dtype ts v r : In r (sem_tests_all dtype ts v) -> match r with RI s _ | RC s _ => s = [] end.
Proof.
  unfold sem_tests_all. rewrite in_flat_map. intros (t & _ & H). unfold sem_test, rcall in H.
  apply in_app_or in H. destruct H as [H|H].
  - destruct (Nat.eqb (t_id t) 0); [contradiction|]. destruct H as [<-|[]]. reflexivity.
  - destruct (t_ok t v); [contradiction|]. destruct H as [<-|[]]. reflexivity.
Qed.

(** an un-coercible value yields exactly one `coerce` issue; the node's tests do not run *)
Theorem coerce_failure_is_one_issue p dat d e0 : p_pts p = [] -> p_catch p = None -> parse_zero dat = false -> p_coerce p dat = None ->
  sem_prim Parse p dat d e0 = ([RI [] (fun q => mk_coerce_issue q (dtype_of (p_kind p)))], d).
Proof. intros Ep Ec Z C. unfold sem_prim. rewrite Ep, Ec, Z, C. now rewrite then_pts_nil. Qed.

(** a struct whose data is not a record: one `coerce` issue, no field is visited, no test runs *)
Theorem struct_not_a_record fs tests v d e0 : provider_of_val v = None ->
  sem Parse (SStruct fs tests []) (DVal v) d e0 = ([RI [] (fun q => mk_coerce_issue q "struct")], d).
Proof. intros H. cbn [sem]. rewrite H. now rewrite then_pts_nil. Qed.

(** the result is nil iff there is no violation *)
Theorem nil_iff_no_violation m s dat d : o_issues (run m s dat d) = [] <-> rerrored (fst (sem m s dat d false)) = false.
Proof.
  rewrite run_is_sem_run. unfold sem_run. destruct (sem m s dat d false) as [l d1]. cbn [o_issues fst].
  induction l as [|[sg mk|sg mk] r IH]; cbn; [tauto | split; discriminate | exact IH].
Qed.

(** C03: a present, coercible input: the destination is the coercer's result (tests do not change it) *)
Theorem leaf_is_coercion p dat d e0 v : p_pts p = [] -> p_catch p = None -> parse_zero dat = false -> p_coerce p dat = Some v ->
  snd (sem_prim Parse p dat d e0) = v.
Proof. intros Ep Ec Z C. unfold sem_prim. rewrite Ep, Ec, Z, C. unfold sem_prim_tests. now rewrite then_pts_nil. Qed.

(** destination fields the schema does not name are never written, and no field is added or removed *)
Theorem unnamed_fields_untouched m pv srec : forall fs dfs e,
  map fst (snd (sem_fields srec m pv fs dfs e)) = map fst dfs
  /\ forall k, ~ In k (map fst fs) -> dlookup k (snd (sem_fields srec m pv fs dfs e)) = dlookup k dfs.
Proof.
  induction fs as [|[k [tags c]] r IH]; intros dfs e; cbn [sem_fields]; [split; reflexivity|].
  destruct (match m with Parse => get_by_field pv tags k | Validate => (VNil, match alookup "zog" tags with Some t => t | None => k end) end) as [v fk].
  destruct (srec c (DVal v) (dlookup k dfs) e) as [lk dk]. specialize (IH (dset k dk dfs) (e || rerrored lk)).
  destruct (sem_fields srec m pv r (dset k dk dfs) (e || rerrored lk)) as [lr dr]. cbn [fst snd] in *. destruct IH as (A & B). split.
  - rewrite A. clear. induction dfs as [|[k0 v0] r IH]; cbn; [reflexivity|]. destruct (String.eqb_spec k k0); cbn; [now subst | now rewrite IH].
  - intros k' Hk'. cbn in Hk'. rewrite B by tauto. apply dlookup_dset_other. intros ->. apply Hk'. now left.
Qed.

(** slice length and element order equal the input's (element schemas without PostTransforms) *)
Theorem slice_keeps_length_and_order m e items zero e0 : pt_free e = true ->
  snd (sem_elems_parse (sem m e) items zero [] 0 e0) = map (fun v => snd (sem m e (DVal v) zero false)) items.
Proof. intros W. now rewrite (elements_are_independent m e W items zero [] 0 e0). Qed.

(** a present pointer input allocates; an absent one leaves the pointer as it was *)
Theorem pointer_allocates e pz v e0 : parse_zero v = false ->
  exists y, snd (sem Parse (SPtr e None pz) (DVal v) (DPtr None) e0) = DPtr (Some y) /\ y = snd (sem Parse e (DVal v) pz e0).
Proof. intros Z. cbn [sem]. rewrite Z. destruct (sem Parse e (DVal v) pz e0) as [l y1]. eexists; split; reflexivity. Qed.

(** the documented coercions, evaluated in the model (for any oracle of the stdlib functions) *)
Theorem documented_coercions o l :
  coerce_default o l KInt (VStr "1") = Some (DInt 1)
  /\ coerce_default o l KBool (VStr "on") = Some (DBool true) /\ coerce_default o l KBool (VStr "off") = Some (DBool false)
  /\ coerce_default o l KBool (VStr "true") = Some (DBool true) /\ coerce_default o l KBool (VInt 1) = Some (DBool true)
  /\ (forall z, coerce_default o l KTime (VInt z) = Some (DTime {| t_sec := z; t_nsec := 0; t_off := 0 |}))
  /\ (forall s, coerce_default o l KTime (VStr s) = option_map DTime (o_parse_time o l s))
  /\ (forall v, coerce_default o l KString v = Some (DStr (sprint o v)))
  /\ (forall v, match v with VList _ => True | _ => coerce_slice v = Some [v] end)
  /\ (forall items, coerce_slice (VList items) = Some items).
Proof. repeat split; try reflexivity. intros v. destruct v; exact I || reflexivity. Qed.

(** C12: PostTransforms run in declaration order, each at most once, up to and including the first
    one that returns an error, which is reported as one issue; none runs if an issue already exists *)
Theorem pts_prefix_in_order wrap sw ps v : exists k, ids (fst (sem_pts_loop wrap sw ps v)) = filter (fun i => negb (Nat.eqb i 0)) (map pt_id (firstn k ps))
                                                  /\ length (codes (fst (sem_pts_loop wrap sw ps v))) <= 1.
Proof.
  revert v. induction ps as [|p r IH]; intros v; cbn [sem_pts_loop].
  - exists 0. split; [reflexivity | cbn; lia].
  - destruct (pt_fn p v) as [v1 [err|]].
    + exists 1. cbn [fst firstn map filter]. unfold ids, codes. rewrite !flat_map_app. unfold rcall.
      destruct (Nat.eqb (pt_id p) 0); destruct sw; cbn; split; reflexivity || lia.
    + destruct (IH v1) as (k & E & L). destruct (sem_pts_loop wrap sw r v1) as [l d']. cbn [fst] in *.
      exists (S k). cbn [firstn map filter]. unfold ids, codes in *. rewrite !flat_map_app. unfold rcall.
      destruct (Nat.eqb (pt_id p) 0); cbn; [split; [exact E | exact L] | split; [now rewrite E | exact L]].
Qed.
Theorem pts_skipped_when_an_issue_exists wrap sw ps v : sem_pts wrap sw ps true v = ([], v).
Proof. reflexivity. Qed.

(** a Preprocess error becomes an issue and the wrapped schema does not run; a type mismatch likewise *)
Theorem preprocess_error_skips_schema pf e v d e0 err : pre_parse pf v = Some (inr err) ->
  sem Parse (SPre pf e) (DVal v) d e0 = (rcall (pre_id pf) CbPre None ++ [RI [] (fun q => mk_unknown_issue q (sch_dtype e) err)], d).
Proof. intros H. cbn [sem data_val]. now rewrite H. Qed.
Theorem preprocess_type_mismatch_skips_schema pf e v d e0 : pre_parse pf v = None ->
  sem Parse (SPre pf e) (DVal v) d e0 = ([RI [] (fun q => mk_coerce_issue q (sch_dtype e))], d).
Proof. intros H. cbn [sem data_val]. now rewrite H. Qed.

(** a primitive test function receives the value that is being tested *)
Theorem test_receives_the_tested_value dtype t v : t_id t <> 0 ->
  exists rest, sem_test dtype t v = RC [] (fun p => mk_call p (t_id t) CbTest (Some v)) :: rest.
Proof. intros H. unfold sem_test, rcall. destruct (Nat.eqb_spec (t_id t) 0); [contradiction|]. eexists; reflexivity. Qed.

(** ** CustomFunc and Preprocess as the execution root (their typed Parse / Validate): the function is
    called once, with the value the type assertion yields (Parse) or the value that is there (Validate);
    a false verdict is one issue of type custom at the root; the destination is that value *)
Theorem custom_root_parse conv t v x d e0 : conv v = Some x ->
  sem Parse (SCustom conv t) (DVal v) d e0
  = ((rcall (t_id t) CbCustom (Some x) ++ (if t_ok t x then [] else [RI [] (fun q => mk_test_issue q "custom" t)]))%list, x).
Proof. intros E. cbn [sem data_val]. rewrite E. reflexivity. Qed.

Theorem custom_root_wrong_type conv t v d e0 : conv v = None ->
  sem Parse (SCustom conv t) (DVal v) d e0 = ([RI [] (fun q => mk_coerce_issue q "custom")], d).
Proof. intros E. cbn [sem data_val]. rewrite E. reflexivity. Qed.

Theorem custom_root_validate conv t dat d e0 :
  sem Validate (SCustom conv t) dat d e0
  = ((rcall (t_id t) CbCustom (Some d) ++ (if t_ok t d then [] else [RI [] (fun q => mk_test_issue q "custom" t)]))%list, d).
Proof. reflexivity. Qed.

(** ... and through the engine, as an execution of its own *)
Corollary custom_root_engine conv t v x d : conv v = Some x ->
  o_dest (run Parse (SCustom conv t) (DVal v) d) = x /\
  (t_ok t x = true -> o_issues (run Parse (SCustom conv t) (DVal v) d) = []).
Proof.
  intros E. rewrite run_is_sem_run. unfold sem_run. rewrite (custom_root_parse conv t v x d false E).
  split; [reflexivity|]. intros Hok. rewrite Hok. rewrite app_nil_r. cbn [o_issues]. unfold rcall. destruct (Nat.eqb (t_id t) 0); reflexivity.
Qed.
