(** * Pick / Omit / Extend / Merge build independent schemas (property C16): for every sequence of
    derivations and later Test / PostTransform calls, under every growth policy of the slices, every
    schema ever created reads as the immutable value the pure semantics assigns it. *)
From Coq Require Import String List Arith Bool Lia.
From Zog Require Import Model.Helpers.
Import ListNotations.
Open Scope list_scope.

Lemma length_upd {A} (l : list A) i x : length (upd l i x) = length l.
Proof. revert i; induction l as [|a r IH]; intros [|k]; cbn; auto. Qed.
Lemma nth_upd_eq {A} (l : list A) i x d : i < length l -> nth i (upd l i x) d = x.
Proof. revert i; induction l as [|a r IH]; intros [|k] H; cbn in *; try lia; auto. apply IH. lia. Qed.
Lemma nth_upd_neq {A} (l : list A) i j x d : i <> j -> nth j (upd l i x) d = nth j l d.
Proof. revert i j; induction l as [|a r IH]; intros [|k] [|m] H; cbn; auto; try lia. Qed.

Section P.
  Variable grow slack : nat -> nat.
  Notation state := (state).
  Notation step := (step grow slack).

  Definition slot (s : sd) (b : bool) : hdr := if b then s_tests s else s_pts s.
  Definition pslot (p : pschema) (b : bool) : list nat := if b then p_tests p else p_pts p.

  (** a header owns its array: in bounds, every written cell is its own, capacity as recorded *)
  Definition valid (h : heap) (hd : hdr) : Prop :=
    h_arr hd < length h /\ h_len hd = length (cells h (h_arr hd)) /\ h_len hd <= h_cap hd.

  Definition Inv (x : state) (l : list pschema) : Prop :=
    length (st_schemas x) = length l
    /\ (forall i b, i < length l -> valid (st_heap x) (slot (get x i) b))
    /\ (forall i j b b', i < length l -> j < length l -> (i, b) <> (j, b') ->
          h_arr (slot (get x i) b) <> h_arr (slot (get x j) b'))
    /\ (forall i, i < length l -> s_fields (get x i) = p_fields (pget l i)
                                   /\ forall b, read (st_heap x) (slot (get x i) b) = pslot (pget l i) b).

  Lemma cells_app_l h t a : a < length h -> cells (h ++ t) a = cells h a.
  Proof. intros H. unfold cells. now rewrite app_nth1. Qed.
  Lemma cells_app_new h c n : cells (h ++ [(c, n)]) (length h) = c.
  Proof. unfold cells. rewrite app_nth2 by lia. now rewrite Nat.sub_diag. Qed.
  Lemma read_app_l h t hd : h_arr hd < length h -> read (h ++ t) hd = read h hd.
  Proof. intros H. unfold read. now rewrite cells_app_l. Qed.
  Lemma read_valid h hd : valid h hd -> read h hd = cells h (h_arr hd).
  Proof. intros (_ & E & _). unfold read. rewrite E. apply firstn_all. Qed.
  Lemma valid_app_l h t hd : valid h hd -> valid (h ++ t) hd.
  Proof. intros (A & B & C). unfold valid. rewrite app_length, cells_app_l by assumption. repeat split; [lia | exact B | exact C]. Qed.

  Lemma valid_new h c n : length c <= n -> valid (h ++ [(c, n)]) {| h_arr := length h; h_len := length c; h_cap := n |}.
  Proof. intros H. unfold valid. cbn [h_arr h_len h_cap]. rewrite app_length, cells_app_new. cbn. lia. Qed.

  Lemma fresh_spec h l : let '(h1, hd) := fresh slack h l in
    h1 = h ++ [(l, length l + slack (length l))] /\ h_arr hd = length h /\ valid h1 hd /\ read h1 hd = l.
  Proof.
    unfold fresh. repeat split; cbn [h_arr h_len h_cap]; rewrite ?app_length; cbn; try lia.
    - now rewrite cells_app_new.
    - unfold read. cbn [h_arr h_len]. rewrite cells_app_new. apply firstn_all.
  Qed.

  (** append on an owned header: the header reads as before plus the new element; every other
      array is untouched *)
  Lemma append1_spec h hd x : valid h hd ->
    let '(h1, hd1) := append1 grow h hd x in
    valid h1 hd1 /\ read h1 hd1 = read h hd ++ [x] /\ length h <= length h1
    /\ (h_arr hd1 = h_arr hd \/ h_arr hd1 = length h)
    /\ (forall a, a < length h -> a <> h_arr hd -> cells h1 a = cells h a).
  Proof.
    intros V. pose proof V as (A & B & C). unfold append1. cbv zeta. destruct (Nat.ltb_spec (h_len hd) (h_cap hd)) as [L|L].
    - rewrite B, (firstn_all (cells h (h_arr hd))). rewrite skipn_all2 by lia. cbn [h_arr h_len h_cap].
      assert (Ec : cells (upd h (h_arr hd) (cells h (h_arr hd) ++ [x], h_cap hd)) (h_arr hd) = cells h (h_arr hd) ++ [x]).
      { unfold cells at 1. now rewrite nth_upd_eq. }
      repeat split.
      + now rewrite length_upd.
      + cbn. rewrite Ec, app_length. cbn. lia.
      + cbn. lia.
      + unfold read. cbn [h_arr h_len]. rewrite Ec, B, (firstn_all (cells h (h_arr hd))).
        replace (S (length (cells h (h_arr hd)))) with (length (cells h (h_arr hd) ++ [x])) by (rewrite app_length; cbn; lia).
        apply firstn_all.
      + rewrite length_upd. lia.
      + now left.
      + intros a Ha Hn. unfold cells. now rewrite nth_upd_neq by congruence.
    - cbn [h_arr h_len h_cap]. repeat split.
      + rewrite app_length. cbn. lia.
      + cbn. rewrite cells_app_new, app_length. cbn. rewrite (read_valid h hd V). lia.
      + cbn. lia.
      + unfold read at 1. cbn [h_arr h_len]. rewrite cells_app_new.
        replace (S (h_len hd)) with (length (read h hd ++ [x])).
        * apply firstn_all.
        * rewrite app_length, (read_valid h hd V). cbn. lia.
      + rewrite app_length. lia.
      + now right.
      + intros a Ha _. now apply cells_app_l.
  Qed.

  Lemma get_app_l x s i : i < length (st_schemas x) ->
    nth i (st_schemas x ++ [s]) dummy_sd = nth i (st_schemas x) dummy_sd.
  Proof. intros H. now rewrite app_nth1. Qed.
  Lemma get_app_new (l : list sd) s : nth (length l) (l ++ [s]) dummy_sd = s.
  Proof. rewrite app_nth2 by lia. now rewrite Nat.sub_diag. Qed.
  Lemma pget_app_l (l : list pschema) p i : i < length l -> pget (l ++ [p]) i = pget l i.
  Proof. intros H. unfold pget. now rewrite app_nth1. Qed.
  Lemma pget_app_new (l : list pschema) p : pget (l ++ [p]) (length l) = p.
  Proof. unfold pget. rewrite app_nth2 by lia. now rewrite Nat.sub_diag. Qed.

  (** adding a schema whose two slices live in two fresh arrays appended to the heap *)
  Lemma Inv_add x l h2 t p fs pv :
    Inv x l ->
    (exists a1 a2, h2 = st_heap x ++ [a1; a2] /\ h_arr t = length (st_heap x) /\ h_arr p = S (length (st_heap x))) ->
    valid h2 t -> valid h2 p -> read h2 t = p_tests pv -> read h2 p = p_pts pv -> fs = p_fields pv ->
    Inv {| st_heap := h2; st_schemas := st_schemas x ++ [{| s_fields := fs; s_tests := t; s_pts := p |}] |} (l ++ [pv]).
  Proof.
    intros (IL & IV & IS & IO) (a1 & a2 & Eh & Et & Ep) Vt Vp Rt Rp Ef.
    assert (G : forall i, i < length l -> get {| st_heap := h2; st_schemas := st_schemas x ++ [{| s_fields := fs; s_tests := t; s_pts := p |}] |} i = get x i).
    { intros i Hi. unfold get. cbn [st_schemas]. apply get_app_l. lia. }
    assert (GN : get {| st_heap := h2; st_schemas := st_schemas x ++ [{| s_fields := fs; s_tests := t; s_pts := p |}] |} (length l)
                 = {| s_fields := fs; s_tests := t; s_pts := p |}).
    { unfold get. cbn [st_schemas]. rewrite <- IL. apply get_app_new. }
    assert (Vold : forall i b, i < length l -> h_arr (slot (get x i) b) < length (st_heap x)) by (intros i b Hi; apply IV; exact Hi).
    unfold Inv. cbn [st_heap st_schemas]. rewrite !app_length. cbn [length]. split; [lia|]. split; [|split].
    - intros i b Hi. destruct (Nat.eq_dec i (length l)) as [->|N].
      + rewrite GN. destruct b; assumption.
      + rewrite G by lia. subst h2. apply valid_app_l. apply IV. lia.
    - intros i j b b' Hi Hj Hne.
      destruct (Nat.eq_dec i (length l)) as [->|Ni]; destruct (Nat.eq_dec j (length l)) as [->|Nj].
      + rewrite GN. destruct b, b'; cbn [slot s_tests s_pts]; try congruence; lia.
      + rewrite GN, G by lia. specialize (Vold j b' ltac:(lia)). destruct b; cbn [slot s_tests s_pts]; lia.
      + rewrite GN, G by lia. specialize (Vold i b ltac:(lia)). destruct b'; cbn [slot s_tests s_pts]; lia.
      + rewrite !G by lia. apply IS; lia || assumption.
    - intros i Hi. split.
      + destruct (Nat.eq_dec i (length l)) as [->|N].
        * rewrite GN, pget_app_new. cbn. exact Ef.
        * rewrite G, pget_app_l by lia. apply IO. lia.
      + intros b. destruct (Nat.eq_dec i (length l)) as [->|N].
        * rewrite GN, pget_app_new. destruct b; assumption.
        * rewrite G, pget_app_l by lia. subst h2. rewrite read_app_l by (apply Vold; lia). apply IO. lia.
  Qed.

  (** two consecutive [fresh] allocations *)
  Lemma two_fresh h l1 l2f :
    let '(h1, t) := fresh slack h l1 in
    forall l2, l2 = l2f h1 ->
    let '(h2, p) := fresh slack h1 l2 in
    (exists a1 a2, h2 = h ++ [a1; a2] /\ h_arr t = length h /\ h_arr p = S (length h))
    /\ valid h2 t /\ valid h2 p /\ read h2 t = l1 /\ read h2 p = l2.
  Proof.
    pose proof (fresh_spec h l1) as F1. destruct (fresh slack h l1) as [h1 t]. destruct F1 as (E1 & A1 & V1 & R1).
    intros l2 _. pose proof (fresh_spec h1 l2) as F2. destruct (fresh slack h1 l2) as [h2 p]. destruct F2 as (E2 & A2 & V2 & R2).
    split; [|split; [|split; [|split]]]; try assumption.
    - do 2 eexists. subst h2 h1. rewrite <- app_assoc. cbn. split; [reflexivity|]. split; [exact A1|]. rewrite A2, app_length. cbn. lia.
    - subst h2. now apply valid_app_l.
    - subst h2. rewrite read_app_l by apply V1. exact R1.
  Qed.

  Lemma Inv_clone x l i fs pf : Inv x l -> i < length l -> fs = pf ->
    Inv (clone slack x i fs) (l ++ [{| p_fields := pf; p_tests := p_tests (pget l i); p_pts := p_pts (pget l i) |}]).
  Proof.
    intros I Hi Ef. pose proof I as (IL & IV & IS & IO). unfold clone.
    pose proof (two_fresh (st_heap x) (read (st_heap x) (s_tests (get x i))) (fun h1 => read h1 (s_pts (get x i)))) as T.
    destruct (fresh slack (st_heap x) (read (st_heap x) (s_tests (get x i)))) as [h1 t] eqn:F1.
    specialize (T (read h1 (s_pts (get x i))) eq_refl).
    destruct (fresh slack h1 (read h1 (s_pts (get x i)))) as [h2 p]. destruct T as (Ex & Vt & Vp & Rt & Rp).
    apply Inv_add; try assumption.
    - cbn. rewrite Rt. apply (proj2 (IO i Hi) true).
    - cbn. rewrite Rp.
      pose proof (fresh_spec (st_heap x) (read (st_heap x) (s_tests (get x i)))) as Fs. rewrite F1 in Fs. destruct Fs as (E1 & _).
      subst h1. rewrite read_app_l by (apply (IV i false Hi)). apply (proj2 (IO i Hi) false).
  Qed.

  Lemma Inv_append x l i b v : Inv x l -> i < length l ->
    let s := get x i in
    let '(h1, hd1) := append1 grow (st_heap x) (slot s b) v in
    Inv {| st_heap := h1;
           st_schemas := upd (st_schemas x) i (if b then {| s_fields := s_fields s; s_tests := hd1; s_pts := s_pts s |}
                                               else {| s_fields := s_fields s; s_tests := s_tests s; s_pts := hd1 |}) |}
        (upd l i (let p := pget l i in
                  if b then {| p_fields := p_fields p; p_tests := p_tests p ++ [v]; p_pts := p_pts p |}
                  else {| p_fields := p_fields p; p_tests := p_tests p; p_pts := p_pts p ++ [v] |})).
  Proof.
    intros I Hi s. pose proof I as (IL & IV & IS & IO).
    pose proof (append1_spec (st_heap x) (slot s b) v (IV i b Hi)) as A.
    destruct (append1 grow (st_heap x) (slot s b) v) as [h1 hd1]. destruct A as (V1 & R1 & Lh & Ar & Oth).
    set (s' := if b then {| s_fields := s_fields s; s_tests := hd1; s_pts := s_pts s |} else {| s_fields := s_fields s; s_tests := s_tests s; s_pts := hd1 |}).
    set (x' := {| st_heap := h1; st_schemas := upd (st_schemas x) i s' |}).
    assert (Gi : get x' i = s') by (unfold get, x'; cbn [st_schemas]; apply nth_upd_eq; lia).
    assert (Go : forall j, j <> i -> get x' j = get x j) by (intros j Hj; unfold get, x'; cbn [st_schemas]; apply nth_upd_neq; congruence).
    assert (Si : forall b', slot s' b' = if Bool.eqb b b' then hd1 else slot s b') by (intros b'; unfold s'; destruct b, b'; reflexivity).
    (* every other slot keeps its cells *)
    assert (Keep : forall j b', j < length l -> (j, b') <> (i, b) -> cells h1 (h_arr (slot (get x j) b')) = cells (st_heap x) (h_arr (slot (get x j) b'))).
    { intros j b' Hj Hne. apply Oth; [apply (IV j b' Hj)|]. fold s. apply IS; assumption. }
    unfold Inv. rewrite ?length_upd. change (st_heap x') with h1.
    split; [unfold x'; cbn [st_schemas]; rewrite length_upd; exact IL|]. split; [|split].
    - intros j b' Hj. destruct (Nat.eq_dec j i) as [->|N].
      + fold x'. rewrite Gi, Si. destruct (Bool.eqb b b') eqn:E; [exact V1|].
        assert (Hne : (i, b') <> (i, b)) by (intros H; inversion H; subst; now rewrite Bool.eqb_reflx in E).
        destruct (IV i b' Hi) as (A1 & A2 & A3). unfold valid. fold s in A1, A2, A3 |- *.
        specialize (Keep i b' Hi Hne). fold s in Keep. rewrite Keep. repeat split; [lia | exact A2 | exact A3].
      + fold x'. rewrite Go by assumption.
        assert (Hne : (j, b') <> (i, b)) by congruence.
        destruct (IV j b' Hj) as (A1 & A2 & A3). unfold valid. rewrite (Keep j b' Hj Hne). repeat split; [lia | exact A2 | exact A3].
    - intros j k b1 b2 Hj Hk Hne. fold x'.
      assert (Old : forall j' b', j' < length l -> h_arr (slot (get x j') b') < length (st_heap x)) by (intros; now apply IV).
      assert (New : forall j' b', j' < length l -> (j', b') <> (i, b) -> h_arr (slot (get x j') b') <> h_arr hd1).
      { intros j' b' Hj' Hn. destruct Ar as [E|E]; rewrite E; [fold s; apply IS; assumption | specialize (Old j' b' Hj'); lia]. }
      destruct (Nat.eq_dec j i) as [->|Nj]; destruct (Nat.eq_dec k i) as [->|Nk]; rewrite ?Gi, ?Go, ?Si by assumption.
      + destruct (Bool.eqb b b1) eqn:E1; destruct (Bool.eqb b b2) eqn:E2.
        * apply Bool.eqb_prop in E1, E2. subst. congruence.
        * intros H. symmetry in H. revert H. fold s. change (slot s b2) with (slot (get x i) b2). apply New; [exact Hi|].
          intros H; inversion H; subst; now rewrite Bool.eqb_reflx in E2.
        * fold s. change (slot s b1) with (slot (get x i) b1). apply New; [exact Hi|].
          intros H; inversion H; subst; now rewrite Bool.eqb_reflx in E1.
        * fold s. change (slot s b1) with (slot (get x i) b1). change (slot s b2) with (slot (get x i) b2). apply IS; assumption.
      + destruct (Bool.eqb b b1) eqn:E1.
        * intros H. symmetry in H. revert H. apply New; [exact Hk | congruence].
        * fold s. change (slot s b1) with (slot (get x i) b1). apply IS; assumption.
      + destruct (Bool.eqb b b2) eqn:E2.
        * apply New; [exact Hj | congruence].
        * fold s. change (slot s b2) with (slot (get x i) b2). apply IS; assumption.
      + apply IS; assumption.
    - intros i0 H. split.
     { fold x'. destruct (Nat.eq_dec i0 i) as [->|N].
      + rewrite Gi. unfold pget. rewrite nth_upd_eq by lia. fold (pget l i). unfold s'. destruct b; cbn; apply (proj1 (IO i Hi)).
      + rewrite Go by assumption. unfold pget. rewrite nth_upd_neq by congruence. apply (proj1 (IO i0 H)). }
      intros b'. fold x'. destruct (Nat.eq_dec i0 i) as [->|N].
      + rewrite Gi, Si. unfold pget. rewrite nth_upd_eq by lia. fold (pget l i).
        destruct (Bool.eqb b b') eqn:E.
        * apply Bool.eqb_prop in E. subst b'. rewrite R1. fold s. change (slot s b) with (slot (get x i) b). rewrite (proj2 (IO i Hi) b).
          destruct b; reflexivity.
        * assert (Hne : (i, b') <> (i, b)) by (intros H'; inversion H'; subst; now rewrite Bool.eqb_reflx in E).
          unfold read. specialize (Keep i b' Hi Hne). fold s in Keep. rewrite Keep.
          pose proof (proj2 (IO i Hi) b') as R. unfold read in R. fold s in R. rewrite R.
          destruct b, b'; try reflexivity; cbn in E; discriminate.
      + rewrite Go by assumption. unfold pget. rewrite nth_upd_neq by congruence. fold (pget l i0).
        assert (Hne : (i0, b') <> (i, b)) by congruence.
        unfold read. rewrite (Keep i0 b' H Hne). apply (proj2 (IO i0 H) b').
  Qed.

  Lemma Inv_init : Inv (init) [].
  Proof. unfold Inv, init. cbn. repeat split; intros; lia. Qed.

  Lemma step_Inv x l o : Inv x l -> op_ok (length l) o = true -> Inv (step x o) (pstep l o) /\ length (pstep l o) = length l + grows o.
  Proof.
    intros I Hok. pose proof I as (IL & IV & IS & IO). destruct o as [fields | i t | i p | i args | i args | i fields | i j | i js]; cbn [op_ok] in Hok; cbn [grows].
    - (* ONew *) split; [|cbn; rewrite app_length; cbn; lia]. unfold step, step_with, pstep.
      apply Inv_add; try assumption; try reflexivity.
      + do 2 eexists. rewrite <- app_assoc. cbn. repeat split. rewrite app_length. cbn. lia.
      + apply valid_app_l. apply (valid_new (st_heap x) [] 0). cbn. lia.
      + apply (valid_new (st_heap x ++ [([], 0)]) [] 0). cbn. lia.
    - (* OTest *) apply Nat.ltb_lt in Hok. split; [|cbn; rewrite length_upd; lia].
      pose proof (Inv_append x l i true t I Hok) as A. unfold step, step_with, pstep. cbn [slot] in A.
      destruct (append1 grow (st_heap x) (s_tests (get x i)) t) as [h1 hd1]. exact A.
    - (* OPT *) apply Nat.ltb_lt in Hok. split; [|cbn; rewrite length_upd; lia].
      pose proof (Inv_append x l i false p I Hok) as A. unfold step, step_with, pstep. cbn [slot] in A.
      destruct (append1 grow (st_heap x) (s_pts (get x i)) p) as [h1 hd1]. exact A.
    - (* OPick *) apply Nat.ltb_lt in Hok. split; [|cbn; rewrite app_length; cbn; lia].
      unfold step, step_with, pstep. apply Inv_clone; try assumption. now rewrite (proj1 (IO i Hok)).
    - (* OOmit *) apply Nat.ltb_lt in Hok. split; [|cbn; rewrite app_length; cbn; lia].
      unfold step, step_with, pstep. apply Inv_clone; try assumption. now rewrite (proj1 (IO i Hok)).
    - (* OExtend *) apply Nat.ltb_lt in Hok. split; [|cbn; rewrite app_length; cbn; lia].
      unfold step, step_with, pstep. apply Inv_clone; try assumption. now rewrite (proj1 (IO i Hok)).
    - (* OMerge *) apply andb_prop in Hok. destruct Hok as [Hi Hj]. apply Nat.ltb_lt in Hi, Hj. split; [|cbn; rewrite app_length; cbn; lia].
      unfold step, step_with, pstep.
      pose proof (two_fresh (st_heap x) (read (st_heap x) (s_tests (get x i)) ++ read (st_heap x) (s_tests (get x j)))
                            (fun h1 => read h1 (s_pts (get x i)) ++ read h1 (s_pts (get x j)))) as T.
      destruct (fresh slack (st_heap x) (read (st_heap x) (s_tests (get x i)) ++ read (st_heap x) (s_tests (get x j)))) as [h1 t] eqn:F1.
      specialize (T _ eq_refl).
      destruct (fresh slack h1 (read h1 (s_pts (get x i)) ++ read h1 (s_pts (get x j)))) as [h2 p]. destruct T as (Ex & Vt & Vp & Rt & Rp).
      pose proof (fresh_spec (st_heap x) (read (st_heap x) (s_tests (get x i)) ++ read (st_heap x) (s_tests (get x j)))) as Fs.
      rewrite F1 in Fs. destruct Fs as (E1 & _).
      apply Inv_add; try assumption.
      + cbn [p_tests]. rewrite Rt. pose proof (proj2 (IO i Hi) true) as Q1. pose proof (proj2 (IO j Hj) true) as Q2.
        cbn [slot pslot] in Q1, Q2. now rewrite Q1, Q2.
      + cbn [p_pts]. rewrite Rp. subst h1.
        pose proof (IV i false Hi) as W1. pose proof (IV j false Hj) as W2. cbn [slot] in W1, W2.
        rewrite !read_app_l by (apply W1 || apply W2).
        pose proof (proj2 (IO i Hi) false) as Q1. pose proof (proj2 (IO j Hj) false) as Q2.
        cbn [slot pslot] in Q1, Q2. now rewrite Q1, Q2.
      + cbn [p_fields]. now rewrite (proj1 (IO i Hi)), (proj1 (IO j Hj)).
    - (* OMergeN *) apply andb_prop in Hok. destruct Hok as [Hi Hjs]. apply Nat.ltb_lt in Hi.
      assert (Hall : Forall (fun k => k < length l) (i :: js)).
      { constructor; [exact Hi|]. rewrite forallb_forall in Hjs. apply Forall_forall. intros k Hk. apply Nat.ltb_lt. now apply Hjs. }
      split; [|cbn; rewrite app_length; cbn; lia].
      unfold step, step_with, pstep. set (ks := i :: js) in *.
      pose proof (two_fresh (st_heap x) (flat_map (fun a => read (st_heap x) (s_tests a)) (map (get x) ks))
                            (fun h1 => flat_map (fun a => read h1 (s_pts a)) (map (get x) ks))) as T.
      destruct (fresh slack (st_heap x) (flat_map (fun a => read (st_heap x) (s_tests a)) (map (get x) ks))) as [h1 t] eqn:F1.
      specialize (T _ eq_refl).
      destruct (fresh slack h1 (flat_map (fun a => read h1 (s_pts a)) (map (get x) ks))) as [h2 p]. destruct T as (Ex & Vt & Vp & Rt & Rp).
      pose proof (fresh_spec (st_heap x) (flat_map (fun a => read (st_heap x) (s_tests a)) (map (get x) ks))) as Fs.
      rewrite F1 in Fs. destruct Fs as (E1 & _).
      apply Inv_add; try assumption.
      + cbn [p_tests]. rewrite Rt. clear -Hall IO. induction Hall as [|k r Hk _ IHr]; cbn; [reflexivity|].
        pose proof (proj2 (IO k Hk) true) as Q. cbn [slot pslot] in Q. now rewrite Q, IHr.
      + cbn [p_pts]. rewrite Rp. subst h1.
        assert (Lp : forall tl ks', Forall (fun k => k < length l) ks' ->
                  flat_map (fun a => read (st_heap x ++ tl) (s_pts a)) (map (get x) ks') = flat_map p_pts (map (pget l) ks')).
        { intros tl ks' H. induction H as [|k r Hk _ IHr]; cbn; [reflexivity|].
          pose proof (IV k false Hk) as W. cbn [slot] in W. rewrite read_app_l by apply W.
          pose proof (proj2 (IO k Hk) false) as Q. cbn [slot pslot] in Q. now rewrite Q, IHr. }
        now apply Lp.
      + cbn [p_fields]. clear -Hall IO. induction Hall as [|k r Hk _ IHr]; cbn; [reflexivity|].
        now rewrite (proj1 (IO k Hk)), IHr.
  Qed.

  Lemma run_Inv ops : forall x l, Inv x l -> ops_ok (length l) ops = true -> Inv (fold_left step ops x) (fold_left pstep ops l).
  Proof.
    induction ops as [|o ops IH]; intros x l I Hok; cbn [fold_left]; [exact I|].
    cbn [ops_ok] in Hok. apply andb_prop in Hok. destruct Hok as [H1 H2].
    destruct (step_Inv x l o I H1) as (I' & Len). apply IH; [exact I'|]. now rewrite Len.
  Qed.

  (** The theorem: every schema ever created, after all later derivations and builder calls, reads
      as its immutable value — so no operand is ever modified and siblings never influence each other. *)
  Theorem helpers_refine_pure ops : ops_ok 0 ops = true -> observe (run grow slack ops) = prun ops.
  Proof.
    intros Hok. pose proof (run_Inv ops init [] Inv_init Hok) as (IL & _ & _ & IO).
    unfold run, prun. set (x := fold_left step ops init) in *. set (l := fold_left pstep ops []) in *.
    unfold observe.
    set (f := fun s : sd => {| p_fields := s_fields s; p_tests := read (st_heap x) (s_tests s); p_pts := read (st_heap x) (s_pts s) |}).
    apply nth_ext with (d := f dummy_sd) (d' := dummy_p).
    - now rewrite map_length.
    - intros n Hn. rewrite map_length in Hn. rewrite map_nth. fold (get x n). rewrite IL in Hn.
      destruct (IO n Hn) as (Ef & Er). fold (pget l n). unfold f.
      pose proof (Er true) as R1. pose proof (Er false) as R2. cbn [slot pslot] in R1, R2.
      rewrite Ef, R1, R2. now destruct (pget l n).
  Qed.
End P.

(** ** set semantics of the selections (on the pure values) *)
Lemma pick_spec fs args k v : In (k, v) (pick_fields fs args) <-> In (k, v) fs /\ mem k (selected args) = true.
Proof. unfold pick_fields. rewrite filter_In. cbn. tauto. Qed.
Lemma omit_spec fs args k v : In (k, v) (omit_fields fs args) <-> In (k, v) fs /\ mem k (selected args) = false.
Proof. unfold omit_fields. rewrite filter_In. cbn. rewrite negb_true_iff. tauto. Qed.

(** a key is selected iff some argument names it as a string or maps it to true: a later `false`
    never un-selects it *)
Lemma selected_spec args k : mem k (selected args) = true <->
  exists a, In a args /\ match a with AStr k' => k' = k | AMap m => In (k, true) m end.
Proof.
  unfold mem, selected. rewrite existsb_exists. split.
  - intros (k' & Hin & E). apply String.eqb_eq in E. subst k'. apply in_flat_map in Hin. destruct Hin as (a & Ha & Hk).
    exists a. split; [exact Ha|]. destruct a as [k'|m].
    + destruct Hk as [->|[]]. reflexivity.
    + apply in_map_iff in Hk. destruct Hk as ([k' b] & E & Hf). cbn in E. subst k'. apply filter_In in Hf. destruct Hf as (Hm & Hb). cbn in Hb. now subst b.
  - intros (a & Ha & Hk). exists k. split; [|apply String.eqb_refl]. apply in_flat_map. exists a. split; [exact Ha|].
    destruct a as [k'|m].
    + subst. now left.
    + apply in_map_iff. exists (k, true). split; [reflexivity|]. apply filter_In. split; [exact Hk | reflexivity].
Qed.

(** Extend / Merge: later operands win on conflicts *)
Lemma lookup_app_later k a b v : lookup k b = Some v -> lookup k (a ++ b) = Some v.
Proof.
  unfold lookup. rewrite rev_app_distr. intros H.
  destruct (find (fun kv => String.eqb (fst kv) k) (rev b)) as [kv|] eqn:E; [|discriminate].
  assert (F : find (fun kv : string * nat => String.eqb (fst kv) k) (rev b ++ rev a) = Some kv).
  { clear H. induction (rev b) as [|x r IH]; cbn in *; [discriminate|]. destruct (String.eqb (fst x) k); [exact E | now apply IH]. }
  now rewrite F.
Qed.
Lemma lookup_app_earlier k a b : lookup k b = None -> lookup k (a ++ b) = lookup k a.
Proof.
  unfold lookup. rewrite rev_app_distr. intros H.
  destruct (find (fun kv => String.eqb (fst kv) k) (rev b)) as [kv|] eqn:E; [discriminate|].
  assert (F : find (fun kv : string * nat => String.eqb (fst kv) k) (rev b ++ rev a) = find (fun kv => String.eqb (fst kv) k) (rev a)).
  { clear H. induction (rev b) as [|x r IH]; cbn in *; [reflexivity|]. destruct (String.eqb (fst x) k); [discriminate | now apply IH]. }
  now rewrite F.
Qed.

(** the aliasing the repair removed, as a witness on the legacy clone: two schemas picked from a
    base with spare capacity — the test added to the second one shows up in the first *)
Example legacy_clone_refuted :
  let ops := [ONew [("a"%string, 1)]; OTest 0 10; OTest 0 11; OTest 0 12;   (* base: 3 tests, capacity 4 *)
              OPick 0 [AStr "a"%string]; OTest 1 100;                        (* A := base.Pick("a").TestFunc(failA) *)
              OPick 0 [AStr "a"%string]; OTest 2 200] in                     (* B := base.Pick("a").TestFunc(failB) *)
  map p_tests (observe (run_legacy (fun c => c + 1) (fun _ => 0) ops)) = [[10; 11; 12]; [10; 11; 12; 200]; [10; 11; 12; 200]]
  /\ map p_tests (observe (run (fun c => c + 1) (fun _ => 0) ops)) = [[10; 11; 12]; [10; 11; 12; 100]; [10; 11; 12; 200]].
Proof. split; vm_compute; reflexivity. Qed.

(** ** the variadic Merge is the left fold of pairwise merges *)
Definition pmerge (a b : pschema) : pschema :=
  {| p_fields := p_fields a ++ p_fields b; p_tests := p_tests a ++ p_tests b; p_pts := p_pts a ++ p_pts b |}.
Definition pmerge_all (parts : list pschema) : pschema :=
  {| p_fields := flat_map p_fields parts; p_tests := flat_map p_tests parts; p_pts := flat_map p_pts parts |}.

Lemma pmerge_fold : forall rest a, fold_left pmerge rest a = pmerge a (pmerge_all rest).
Proof.
  induction rest as [|b r IH]; intros a.
  - cbn. unfold pmerge, pmerge_all. cbn. rewrite !app_nil_r. now destruct a.
  - cbn [fold_left]. rewrite IH. unfold pmerge, pmerge_all. cbn. now rewrite !app_assoc.
Qed.

Theorem merge_many_is_fold l i js :
  pstep l (OMergeN i js) = l ++ [fold_left pmerge (map (pget l) js) (pget l i)]
  /\ pstep l (OMerge i (hd 0 js)) = l ++ [pmerge (pget l i) (pget l (hd 0 js))].
Proof.
  split; [|reflexivity]. cbn [pstep]. rewrite pmerge_fold. unfold pmerge, pmerge_all. cbn [map flat_map]. reflexivity.
Qed.
