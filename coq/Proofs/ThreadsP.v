(** * Schemas are safe to share between goroutines (property C08) — the ownership logic.
    Trusted, not modelled: the Go memory model, the atomicity of sync.Pool's Get and Put, the
    runtime's map and reflect internals. *)
From Coq Require Import List Arith Bool Lia.
From Zog Require Import Model.Objects Model.Threads Proofs.ObjectsP.
Import ListNotations.

(** Disciplined events of different calls never race, whenever no pooled object has two holders. *)
Theorem disciplined_events_do_not_race o e1 e2 : functional o -> disciplined o e1 -> disciplined o e2 -> ~ races e1 e2.
Proof.
  intros F (W1 & R1) (W2 & R2) (Hne & l & H).
  assert (K : forall ea eb, e_call ea <> e_call eb -> may_write o (e_call ea) l -> (may_read o (e_call eb) l \/ may_write o (e_call eb) l) -> False).
  { intros ea eb Hn Hw Hr. destruct l as [n | a n | c n | c n]; cbn in *; try contradiction.
    - destruct Hr as [Hr|Hr]; apply Hn; eapply F; eassumption.
    - destruct Hr as [Hr|Hr]; congruence. }
  destruct H as [(Hw & [Hr|Hr]) | (Hw & [Hr|Hr])].
  - apply (K e1 e2 Hne (W1 l Hw)). left. now apply R2.
  - apply (K e1 e2 Hne (W1 l Hw)). right. now apply W2.
  - apply (K e2 e1 (fun E => Hne (eq_sym E)) (W2 l Hw)). left. now apply R1.
  - apply (K e2 e1 (fun E => Hne (eq_sym E)) (W2 l Hw)). right. now apply W1.
Qed.

(** A schema location is never written by a disciplined event, whatever it holds. *)
Theorem schema_is_read_only o e n : disciplined o e -> ~ In (LSchema n) (e_writes e).
Proof. intros (W & _) H. exact (W _ H). Qed.
Theorem input_is_read_only o e c n : disciplined o e -> ~ In (LInput c n) (e_writes e).
Proof. intros (W & _) H. exact (W _ H). Qed.

(** The pools hand every object to at most one holder at a time, under any interleaving of Gets and
    Puts of any number of calls and any choice the pools make. *)
Definition TInv (x : tstate) : Prop :=
  NoDup (t_pool x ++ map fst (t_held x)) /\ (forall a, In a (t_pool x ++ map fst (t_held x)) -> a < t_next x).

Lemma nth_error_split {A} (l : list A) i a : nth_error l i = Some a -> l = firstn i l ++ a :: skipn (S i) l.
Proof.
  revert i. induction l as [|b r IH]; intros [|i] H; cbn in *; try discriminate.
  - inversion H. reflexivity.
  - f_equal. now apply IH.
Qed.

Lemma tstep_Inv x o : TInv x -> TInv (tstep x o).
Proof.
  intros (ND & LT). destruct o as [c choice | c a]; cbn [tstep].
  - assert (Fresh : TInv {| t_pool := t_pool x; t_held := (t_next x, c) :: t_held x; t_next := S (t_next x) |}).
    { unfold TInv. cbn [t_pool t_held t_next map fst]. split.
      - apply NoDup_Add with (a := t_next x) (l := t_pool x ++ map fst (t_held x)); [apply Add_app|].
        split; [exact ND | intros H; specialize (LT _ H); lia].
      - intros b Hb. apply in_app_or in Hb. destruct Hb as [Hb|[<-|Hb]]; [|lia|].
        + specialize (LT b (in_or_app _ _ _ (or_introl Hb))). lia.
        + specialize (LT b (in_or_app _ _ _ (or_intror Hb))). lia. }
    destruct choice as [i|]; [|exact Fresh]. destruct (nth_error (t_pool x) i) as [a|] eqn:E; [|exact Fresh].
    pose proof (nth_error_split _ _ _ E) as Sp. unfold TInv. cbn [t_pool t_held t_next map fst]. split.
    + rewrite Sp in ND. rewrite <- app_assoc in ND. cbn in ND.
      apply NoDup_Add with (a := a) (l := (firstn i (t_pool x) ++ skipn (S i) (t_pool x)) ++ map fst (t_held x)); [apply Add_app|].
      apply NoDup_remove in ND. destruct ND as (ND & NI). rewrite app_assoc in ND, NI. split; assumption.
    + intros b Hb. apply LT. rewrite Sp. apply in_app_or in Hb. destruct Hb as [Hb|[<-|Hb]].
      * apply in_or_app. left. apply in_app_or in Hb. apply in_or_app. destruct Hb; [now left | right; now right].
      * apply in_or_app. left. apply in_or_app. right. now left.
      * apply in_or_app. now right.
  - destruct (existsb (fun ac => Nat.eqb (fst ac) a && Nat.eqb (snd ac) c) (t_held x)) eqn:E; [|split; assumption].
    apply existsb_exists in E. destruct E as ([a' c'] & Hin & Heq). cbn in Heq. apply andb_prop in Heq. destruct Heq as [Ea Ec].
    apply Nat.eqb_eq in Ea, Ec. subst a' c'.
    assert (Hf : forall b, In b (map fst (filter (fun ac => negb (Nat.eqb (fst ac) a)) (t_held x))) <-> In b (map fst (t_held x)) /\ b <> a).
    { intros b. rewrite !in_map_iff. split.
      - intros ([b' c'] & Eb & Hb). cbn in Eb. subst b'. apply filter_In in Hb. destruct Hb as (Hb & Hn). cbn in Hn.
        apply negb_true_iff, Nat.eqb_neq in Hn. split; [exists (b, c'); auto | exact Hn].
      - intros (([b' c'] & Eb & Hb) & Hn). cbn in Eb. subst b'. exists (b, c'). split; [reflexivity|]. apply filter_In. split; [exact Hb|].
        cbn. apply negb_true_iff, Nat.eqb_neq. exact Hn. }
    destruct (nodup_app_inv _ _ ND) as (Np & Nh & D).
    assert (Ha : In a (map fst (t_held x))) by (apply in_map_iff; exists (a, c); auto).
    unfold TInv. cbn [t_pool t_held t_next]. split.
    + apply nodup_app_intro.
      * constructor; [|exact Np]. intros Hp. exact (D a Hp Ha).
      * clear -Nh. induction (t_held x) as [|[b c'] r IH]; cbn in *; [constructor|].
        inversion Nh as [|? ? Hn Hd]; subst. destruct (Nat.eqb b a); cbn; [now apply IH|].
        constructor; [|now apply IH]. intros H. apply Hn. clear -H. induction r as [|[b' c''] r IH]; cbn in *; [tauto|].
        destruct (Nat.eqb b' a); cbn in *; [right; now apply IH | destruct H as [H|H]; [now left | right; now apply IH]].
      * intros b [<-|Hb] H; [apply Hf in H; tauto | apply Hf in H; exact (D b Hb (proj1 H))].
    + intros b [<-|Hb].
      * apply LT. apply in_or_app. now right.
      * apply LT. apply in_app_or in Hb. apply in_or_app. destruct Hb as [Hb|Hb]; [now left | right; now apply Hf in Hb].
Qed.

Theorem pooled_objects_have_one_holder ops : functional (t_held (trun ops)).
Proof.
  assert (I : TInv (trun ops)).
  { unfold trun. assert (I0 : TInv {| t_pool := []; t_held := []; t_next := 0 |}) by (split; cbn; [constructor | tauto]).
    revert I0. generalize {| t_pool := []; t_held := []; t_next := 0 |}. induction ops as [|o r IH]; intros x I; cbn [fold_left]; [exact I|].
    apply IH. now apply tstep_Inv. }
  destruct I as (ND & _). intros a c1 c2 H1 H2.
  assert (N : NoDup (map fst (t_held (trun ops)))).
  { revert ND. generalize (t_pool (trun ops)). intros p. induction p as [|b r IH]; cbn; [tauto|]. intros ND. inversion ND; subst. now apply IH. }
  revert N H1 H2. generalize (t_held (trun ops)). intros h. induction h as [|[b c] r IH]; cbn; [tauto|].
  intros N. inversion N as [|? ? Hn Hd]; subst. intros [E1|H1] [E2|H2].
  - congruence.
  - inversion E1; subst. exfalso. apply Hn. apply in_map_iff. exists (a, c2). auto.
  - inversion E2; subst. exfalso. apply Hn. apply in_map_iff. exists (a, c1). auto.
  - now apply IH.
Qed.

(** Hence: in every state any interleaving of any number of executions can reach, no two
    disciplined events of different executions race. *)
Corollary race_free ops e1 e2 : disciplined (t_held (trun ops)) e1 -> disciplined (t_held (trun ops)) e2 -> ~ races e1 e2.
Proof. apply disciplined_events_do_not_race. apply pooled_objects_have_one_holder. Qed.
