(** * Parse and Validate agree on fully populated values (property C13).

    For a schema without Preprocess and a fully populated value [d] of its destination type,
    validating [d] in place and parsing [to_data s d] — the plain data [d] would be decoded from —
    into a fresh destination produce the same entries (issues and callback invocations, with their
    relative paths) and the same final value. *)
From Coq Require Import String List ZArith Bool Lia.
From Zog Require Import Model.Val Model.Engine Spec.Sem Proofs.Refine.
Import ListNotations.
Open Scope string_scope.
Open Scope list_scope.

Definition field := (string * (list (string * string) * sch))%type.
Definition fkey (f : field) : string := field_key None (fst (snd f)) (fst f).

(** the data a value is decoded from: structs become maps keyed by the zog tag or the schema key,
    slices become lists, pointers are dereferenced *)
Fixpoint to_data (s : sch) (d : dval) {struct s} : val :=
  match s with
  | SStruct fs _ _ =>
    VMap ((fix go (l : list field) : list (string * val) :=
             match l with [] => [] | f :: r => (fkey f, to_data (snd (snd f)) (dlookup (fst f) (dstruct_fields d))) :: go r end) fs)
  | SSlice e _ => VList (map (to_data e) (dslice_items d))
  | SPtr e _ _ => match d with DPtr (Some y) => to_data e y | _ => VNil end
  | SPre _ e => to_data e d
  | _ => val_of_dval d
  end.

(** the fresh destination the value is parsed into *)
Fixpoint fresh (s : sch) (d : dval) {struct s} : dval :=
  match s with
  | SStruct fs _ _ =>
    DStruct ((fix go (l : list field) : list (string * dval) :=
                match l with [] => [] | f :: r => (fst f, fresh (snd (snd f)) (dlookup (fst f) (dstruct_fields d))) :: go r end) fs)
  | SSlice _ _ => DSlice []
  | SPtr _ _ _ => DPtr None
  | SPre _ e => fresh e d
  | _ => DOpaque 0
  end.

(** fully populated, correctly typed: no zero leaf, no blank string, no empty slice, no nil pointer;
    every coercer is the identity on values of its own type; the struct value has exactly the
    schema's fields, in the schema's order *)
Fixpoint populated (s : sch) (d : dval) {struct s} : Prop :=
  match s with
  | SPrim p => go_zero d = false /\ parse_zero (val_of_dval d) = false /\ p_coerce p (val_of_dval d) = Some d
  | SStruct fs _ _ =>
    NoDup (map fst fs) /\ NoDup (map fkey fs) /\ map fst (dstruct_fields d) = map fst fs /\ fs <> []
    /\ (fix go (l : list field) : Prop :=
          match l with [] => True | f :: r => populated (snd (snd f)) (dlookup (fst f) (dstruct_fields d)) /\ go r end) fs
  | SSlice e c =>
    dslice_items d <> [] /\ (forall x, In x (dslice_items d) -> populated e x /\ sl_zero c = fresh e x)
    /\ (forall vs, sl_coerce c (VList vs) = Some vs)
  | SPtr e _ pz => exists y, d = DPtr (Some y) /\ populated e y /\ pz = fresh e y
  | SCustom conv _ => conv (val_of_dval d) = Some d /\ parse_zero (val_of_dval d) = false
  | SPre _ _ => False
  end.

Definition agrees (s : sch) : Prop := forall d e0, populated s d ->
  sem Parse s (DVal (to_data s d)) (fresh s d) e0 = sem Validate s (DVal VNil) d e0.

Lemma populated_not_blank : forall s d, populated s d -> parse_zero (to_data s d) = false.
Proof.
  induction s as [p | fs tests pts IH | e c IH | e nn pz IH | conv t | pf e IH] using sch_ind'; intros d; cbn [populated to_data].
  - tauto.
  - reflexivity.
  - reflexivity.
  - intros (y & -> & Hy & _). now apply IH.
  - tauto.
  - tauto.
Qed.

(** association lists with the same keys (in the same order, without duplicates) and the same
    value under every key are equal *)
Lemma assoc_ext (a b : list (string * dval)) : NoDup (map fst a) -> map fst a = map fst b ->
  (forall k, In k (map fst a) -> dlookup k a = dlookup k b) -> a = b.
Proof.
  revert b. induction a as [|[k v] r IH]; intros [|[k' v'] r'] ND EK H; cbn in *; try discriminate; [reflexivity|].
  inversion EK; subst k'. inversion ND as [|? ? Hn Hd]; subst.
  assert (Ev : v = v').
  { specialize (H k (or_introl eq_refl)). unfold dlookup, alookup in H. cbn in H. now rewrite String.eqb_refl in H. }
  subst v'. f_equal. apply IH; [exact Hd | assumption|].
  intros k0 Hk0. specialize (H k0 (or_intror Hk0)). unfold dlookup, alookup in *. cbn in H.
  destruct (String.eqb_spec k k0) as [->|N]; [contradiction | exact H].
Qed.

Lemma map_fst_dset k v dfs : map fst (dset k v dfs) = map fst dfs.
Proof. induction dfs as [|[k0 v0] r IH]; cbn; [reflexivity|]. destruct (String.eqb_spec k k0); cbn; [now subst | now rewrite IH]. Qed.
Lemma dlookup_dset_same k v dfs : In k (map fst dfs) -> dlookup k (dset k v dfs) = v.
Proof.
  unfold dlookup, alookup. induction dfs as [|[k0 v0] r IH]; cbn; [tauto|].
  destruct (String.eqb_spec k k0) as [->|N]; cbn.
  - now rewrite String.eqb_refl.
  - intros [E|H]; [congruence|]. destruct (String.eqb_spec k0 k); [congruence | now apply IH].
Qed.
Lemma dlookup_dset_other k k' v dfs : k <> k' -> dlookup k' (dset k v dfs) = dlookup k' dfs.
Proof.
  intros N. unfold dlookup, alookup. induction dfs as [|[k0 v0] r IH]; cbn; [reflexivity|].
  destruct (String.eqb_spec k k0) as [->|N0]; cbn.
  - destruct (String.eqb_spec k0 k'); [congruence | reflexivity].
  - destruct (String.eqb k0 k'); [reflexivity | exact IH].
Qed.

(** the data map and the fresh destination of a struct, field by field *)
Definition data_of (dfs : list (string * dval)) (fs : list field) : list (string * val) :=
  (fix go (l : list field) : list (string * val) :=
     match l with [] => [] | f :: r => (fkey f, to_data (snd (snd f)) (dlookup (fst f) dfs)) :: go r end) fs.
Definition fresh_of (dfs : list (string * dval)) (fs : list field) : list (string * dval) :=
  (fix go (l : list field) : list (string * dval) :=
     match l with [] => [] | f :: r => (fst f, fresh (snd (snd f)) (dlookup (fst f) dfs)) :: go r end) fs.

Lemma data_of_lookup dfs : forall fs f, NoDup (map fkey fs) -> In f fs ->
  alookup (fkey f) (data_of dfs fs) = Some (to_data (snd (snd f)) (dlookup (fst f) dfs)).
Proof.
  induction fs as [|g r IH]; intros f ND Hin; [contradiction|]. change (map fkey (g :: r)) with (fkey g :: map fkey r) in ND. inversion ND as [|? ? Hn Hd]; subst.
  change (data_of dfs (g :: r)) with ((fkey g, to_data (snd (snd g)) (dlookup (fst g) dfs)) :: data_of dfs r).
  unfold alookup. cbn [find fst snd]. destruct Hin as [->|Hin].
  - now rewrite String.eqb_refl.
  - destruct (String.eqb_spec (fkey g) (fkey f)) as [E|N].
    + exfalso. apply Hn. rewrite E. now apply in_map.
    + apply (IH f Hd Hin).
Qed.
Lemma fresh_of_lookup dfs : forall fs f, NoDup (map fst fs) -> In f fs ->
  dlookup (fst f) (fresh_of dfs fs) = fresh (snd (snd f)) (dlookup (fst f) dfs).
Proof.
  induction fs as [|g r IH]; intros f ND Hin; [contradiction|]. change (map fst (g :: r)) with (fst g :: map fst r) in ND. inversion ND as [|? ? Hn Hd]; subst.
  change (fresh_of dfs (g :: r)) with ((fst g, fresh (snd (snd g)) (dlookup (fst g) dfs)) :: fresh_of dfs r).
  unfold dlookup, alookup. cbn [find fst snd]. destruct Hin as [->|Hin].
  - now rewrite String.eqb_refl.
  - destruct (String.eqb_spec (fst g) (fst f)) as [E|N].
    + exfalso. apply Hn. rewrite E. now apply in_map.
    + apply (IH f Hd Hin).
Qed.
Lemma fresh_of_keys dfs fs : map fst (fresh_of dfs fs) = map fst fs.
Proof.
  induction fs as [|g r IH]; [reflexivity|].
  change (fresh_of dfs (g :: r)) with ((fst g, fresh (snd (snd g)) (dlookup (fst g) dfs)) :: fresh_of dfs r). cbn [map fst]. now rewrite IH.
Qed.

(** the field loop, from any point on: the fields still to visit read the original values *)
Lemma fields_agree dfs0 m : forall suf, NoDup (map fst suf) ->
  (forall f, In f suf -> agrees (snd (snd f)) /\ populated (snd (snd f)) (dlookup (fst f) dfs0)
                        /\ get_by_field (PMap None m) (fst (snd f)) (fst f) = (to_data (snd (snd f)) (dlookup (fst f) dfs0), fkey f)) ->
  forall accP accV e,
  (forall f, In f suf -> In (fst f) (map fst accP) /\ In (fst f) (map fst accV)
                         /\ dlookup (fst f) accP = fresh (snd (snd f)) (dlookup (fst f) dfs0) /\ dlookup (fst f) accV = dlookup (fst f) dfs0) ->
  fst (sem_fields (sem Parse) Parse (PMap None m) suf accP e) = fst (sem_fields (sem Validate) Validate PEmpty suf accV e)
  /\ map fst (snd (sem_fields (sem Parse) Parse (PMap None m) suf accP e)) = map fst accP
  /\ map fst (snd (sem_fields (sem Validate) Validate PEmpty suf accV e)) = map fst accV
  /\ (forall k, In k (map fst suf) -> dlookup k (snd (sem_fields (sem Parse) Parse (PMap None m) suf accP e))
                                       = dlookup k (snd (sem_fields (sem Validate) Validate PEmpty suf accV e)))
  /\ (forall k, ~ In k (map fst suf) -> dlookup k (snd (sem_fields (sem Parse) Parse (PMap None m) suf accP e)) = dlookup k accP
                                          /\ dlookup k (snd (sem_fields (sem Validate) Validate PEmpty suf accV e)) = dlookup k accV).
Proof.
  induction suf as [|[k [tags c]] r IH]; intros ND Hf accP accV e Hacc; cbn [sem_fields].
  - cbn [fst snd map]. repeat split; intros; try contradiction; reflexivity.
  - inversion ND as [|? ? Hn Hd]; subst.
    destruct (Hf (k, (tags, c)) (or_introl eq_refl)) as (Ag & Pop & Get). cbn [fst snd] in *.
    destruct (Hacc (k, (tags, c)) (or_introl eq_refl)) as (InP & InV & LP & LV). cbn [fst snd] in *.
    rewrite Get. unfold fkey. cbn [fst snd]. fold (field_key None tags k).
    replace (match alookup "zog" tags with Some t => t | None => k end) with (field_key None tags k) by reflexivity.
    rewrite LP, LV. rewrite (Ag (dlookup k dfs0) e Pop).
    destruct (sem Validate c (DVal VNil) (dlookup k dfs0) e) as [lk dk].
    assert (Hacc' : forall f, In f r -> In (fst f) (map fst (dset k dk accP)) /\ In (fst f) (map fst (dset k dk accV))
                      /\ dlookup (fst f) (dset k dk accP) = fresh (snd (snd f)) (dlookup (fst f) dfs0)
                      /\ dlookup (fst f) (dset k dk accV) = dlookup (fst f) dfs0).
    { intros f Hin. destruct (Hacc f (or_intror Hin)) as (A & B & C & D).
      assert (N : k <> fst f) by (intros ->; apply Hn; now apply in_map).
      rewrite !map_fst_dset, !dlookup_dset_other by exact N. tauto. }
    specialize (IH Hd (fun f Hin => Hf f (or_intror Hin)) (dset k dk accP) (dset k dk accV) (e || rerrored lk) Hacc').
    destruct (sem_fields (sem Parse) Parse (PMap None m) r (dset k dk accP) (e || rerrored lk)) as [lP rP].
    destruct (sem_fields (sem Validate) Validate PEmpty r (dset k dk accV) (e || rerrored lk)) as [lV rV].
    cbn [fst snd] in *. destruct IH as (E & KP & KV & In_ & Out).
    split; [now rewrite E|]. split; [now rewrite KP, map_fst_dset|]. split; [now rewrite KV, map_fst_dset|]. split.
    + intros k0 [<-|Hk0].
      * cbn [fst]. destruct (Out k Hn) as (OP & OV). rewrite OP, OV. now rewrite !dlookup_dset_same.
      * now apply In_.
    + intros k0 Hk0. assert (N : k <> k0) by (intros ->; apply Hk0; now left).
      destruct (Out k0 (fun H => Hk0 (or_intror H))) as (OP & OV). rewrite OP, OV. now rewrite !dlookup_dset_other.
Qed.

Lemma elems_agree e c : agrees e -> forall items done i e0, (forall x, In x items -> populated e x /\ sl_zero c = fresh e x) ->
  sem_elems_parse (sem Parse e) (map (to_data e) items) (sl_zero c) done i e0 = sem_elems_valid (sem Validate e) items done i e0.
Proof.
  intros Ag. induction items as [|x r IH]; intros done i e0 H; cbn [map sem_elems_parse sem_elems_valid]; [reflexivity|].
  destruct (H x (or_introl eq_refl)) as (Px & Ez). rewrite Ez, (Ag x e0 Px).
  destruct (sem Validate e (DVal VNil) x e0) as [lk dk].
  rewrite <- Ez. now rewrite (IH (done ++ [dk]) (S i) (e0 || rerrored lk) (fun y Hy => H y (or_intror Hy))).
Qed.

Fixpoint no_pre (s : sch) : bool :=
  match s with
  | SPre _ _ => false
  | SStruct fs _ _ => (fix go (l : list field) : bool := match l with [] => true | f :: r => no_pre (snd (snd f)) && go r end) fs
  | SSlice e _ | SPtr e _ _ => no_pre e
  | _ => true
  end.

Theorem modes_agree : forall s, agrees s.
Proof.
  induction s as [p | fs tests pts IH | e c IH | e nn pz IH | conv t | pf e IH] using sch_ind'; intros d e0 Pop.
  - (* primitive *) cbn [populated] in Pop. destruct Pop as (Z & B & C). cbn [sem to_data fresh data_val]. unfold sem_prim. now rewrite Z, B, C.
  - (* struct *) cbn [populated] in Pop. destruct Pop as (ND & NDk & Keys & Ne & Pf).
    set (dfs := dstruct_fields d) in *.
    cbn [sem]. change (to_data (SStruct fs tests pts) d) with (VMap (data_of dfs fs)).
    change (fresh (SStruct fs tests pts) d) with (DStruct (fresh_of dfs fs)). cbn [dstruct_fields]. fold dfs.
    assert (Em : provider_of_val (VMap (data_of dfs fs)) = Some (PMap None (data_of dfs fs))).
    { destruct fs as [|f r]; [exfalso; now apply Ne |].
      change (data_of dfs (f :: r)) with ((fkey f, to_data (snd (snd f)) (dlookup (fst f) dfs)) :: data_of dfs r). reflexivity. }
    rewrite Em.
    assert (Hf : forall f, In f fs -> agrees (snd (snd f)) /\ populated (snd (snd f)) (dlookup (fst f) dfs)
                           /\ get_by_field (PMap None (data_of dfs fs)) (fst (snd f)) (fst f) = (to_data (snd (snd f)) (dlookup (fst f) dfs), fkey f)).
    { intros f Hin. split; [|split].
      - rewrite Forall_forall in IH. exact (IH f Hin).
      - clear -Pf Hin. induction fs as [|g r IHr]; [contradiction|]. destruct Pf as (A & B). destruct Hin as [->|Hin]; [exact A | now apply IHr].
      - unfold get_by_field. fold (fkey f). now rewrite (data_of_lookup dfs fs f NDk Hin). }
    assert (Hacc : forall f, In f fs -> In (fst f) (map fst (fresh_of dfs fs)) /\ In (fst f) (map fst dfs)
                             /\ dlookup (fst f) (fresh_of dfs fs) = fresh (snd (snd f)) (dlookup (fst f) dfs) /\ dlookup (fst f) dfs = dlookup (fst f) dfs).
    { intros f Hin. rewrite fresh_of_keys, Keys. repeat split; try (now apply in_map). now apply fresh_of_lookup. }
    destruct (fields_agree dfs (data_of dfs fs) fs ND Hf (fresh_of dfs fs) dfs e0 Hacc) as (E & KP & KV & In_ & _).
    destruct (sem_fields (sem Parse) Parse (PMap None (data_of dfs fs)) fs (fresh_of dfs fs) e0) as [lP rP].
    destruct (sem_fields (sem Validate) Validate PEmpty fs dfs e0) as [lV rV]. cbn [fst snd] in *.
    assert (Er : rP = rV).
    { apply assoc_ext.
      - rewrite KP, fresh_of_keys. exact ND.
      - now rewrite KP, KV, fresh_of_keys, Keys.
      - intros k Hk. apply In_. now rewrite KP, fresh_of_keys in Hk. }
    now rewrite E, Er.
  - (* slice *) cbn [populated] in Pop. destruct Pop as (Ne & Pe & Co).
    cbn [sem to_data fresh data_val]. cbn [parse_zero]. rewrite Co.
    destruct (dslice_items d) as [|x r] eqn:Ed; [congruence|].
    rewrite (elems_agree e c IH (x :: r) [] 0 e0 Pe). reflexivity.
  - (* pointer *) cbn [populated] in Pop. destruct Pop as (y & -> & Py & Epz).
    cbn [sem to_data fresh]. rewrite (populated_not_blank e y Py). rewrite Epz, (IH y e0 Py). reflexivity.
  - (* custom *) cbn [populated] in Pop. destruct Pop as (C & _). cbn [sem to_data fresh data_val]. now rewrite C.
  - contradiction.
Qed.

(** the engine: validating in place and parsing the map form give the same issues, the same
    callback invocations and the same final value *)
Theorem engine_modes_agree s d : populated s d ->
  run Parse s (DVal (to_data s d)) (fresh s d) = run Validate s (DVal VNil) d.
Proof. intros P. rewrite !run_is_sem_run. unfold sem_run. now rewrite (modes_agree s d false P). Qed.

(** on a value of the right dynamic type the default coercers are the identity *)
From Zog Require Import Model.Coerce.
Theorem default_coercers_are_identity_on_typed_values o l :
  (forall s, coerce_default o l KString (VStr s) = Some (DStr s))
  /\ (forall b, coerce_default o l KBool (VBool b) = Some (DBool b))
  /\ (forall z, coerce_default o l KInt (VInt z) = Some (DInt z))
  /\ (forall z, coerce_default o l KInt64 (VInt z) = Some (DInt z))
  /\ (forall z, in_int32 z = true -> coerce_default o l KInt32 (VInt z) = Some (DInt z))
  /\ (forall f, coerce_default o l KFloat64 (VF64 f) = Some (DFloat f))
  /\ (forall t, coerce_default o l KTime (VTime t) = Some (DTime t)).
Proof. repeat split; try reflexivity. intros z H. cbn. now rewrite H. Qed.

(** non-vacuity: a concrete struct with a string field (tagged), an int field and a slice of strings
    is populated, so the premise of [modes_agree] is met by a non-trivial value *)
Definition ex_or : oracles := {| o_parse_float := fun _ => None; o_sprint := fun _ => ""; o_parse_time := fun _ _ => None |}.
Definition ex_str : prim := {| p_kind := KString; p_coerce := coerce_default ex_or "" KString; p_req := None; p_def := None;
                               p_catch := None; p_tests := []; p_pts := [] |}.
Definition ex_int : prim := {| p_kind := KInt; p_coerce := coerce_default ex_or "" KInt; p_req := None; p_def := None;
                               p_catch := None; p_tests := []; p_pts := [] |}.
Definition ex_cfg : slicecfg := {| sl_coerce := fun v => match v with VList l => Some l | _ => None end; sl_req := None;
                                   sl_def := None; sl_zero := DOpaque 0; sl_tests := []; sl_pts := [] |}.
Definition ex_schema : sch :=
  SStruct [("Name", ([("zog", "name")], SPrim ex_str)); ("Age", ([], SPrim ex_int)); ("Tags", ([], SSlice (SPrim ex_str) ex_cfg))] [] [].
Definition ex_value : dval :=
  DStruct [("Name", DStr "ann"); ("Age", DInt 7); ("Tags", DSlice [DStr "a"; DStr "b"])].
Example populated_holds_somewhere : populated ex_schema ex_value.
Proof.
  cbn [populated ex_schema]. repeat split.
  all: try (repeat constructor; cbn; intuition congruence).
  all: try (cbn; discriminate).
  all: try (cbn in H; destruct H as [<-|[<-|[]]]; repeat split; reflexivity).
Qed.
