(** * Facts about the TrimSpace model: a value is blank exactly when trimming leaves nothing; trimming
    is idempotent; text without white space at its ends is left alone. *)
From Coq Require Import String List Bool Ascii Arith Lia.
From Zog Require Import Model.Val Model.Http Model.Trim.
Import ListNotations.
Open Scope string_scope.

Lemma blank_space_prefix s r : space_prefix s = Some r -> blank s = blank r.
Proof.
  destruct s as [|a s1]; [discriminate|]. cbn [space_prefix blank].
  destruct (ascii_space a); [intros H; now injection H as <-|].
  destruct s1 as [|b s2]; [discriminate|].
  destruct (Nat.eqb (byte a) 194 && (Nat.eqb (byte b) 133 || Nat.eqb (byte b) 160)); [intros H; now injection H as <-|].
  destruct s2 as [|c s3]; [discriminate|].
  match goal with |- (if ?x then _ else _) = _ -> _ => destruct x end; [intros H; now injection H as <-| discriminate].
Qed.

Lemma blank_no_prefix s : space_prefix s = None -> s <> "" -> blank s = false.
Proof.
  destruct s as [|a s1]; [congruence|]. intros H _. cbn [space_prefix blank] in *.
  destruct (ascii_space a); [discriminate|].
  destruct s1 as [|b s2]; [reflexivity|].
  destruct (Nat.eqb (byte a) 194 && (Nat.eqb (byte b) 133 || Nat.eqb (byte b) 160)); [discriminate|].
  destruct s2 as [|c s3]; [reflexivity|].
  match goal with |- (if ?x then _ else _) = _ => destruct x end; [discriminate | reflexivity].
Qed.

Lemma space_prefix_shorter s r : space_prefix s = Some r -> String.length r < String.length s.
Proof.
  destruct s as [|a s1]; [discriminate|]. cbn [space_prefix].
  destruct (ascii_space a); [intros H; injection H as <-; cbn; lia|].
  destruct s1 as [|b s2]; [discriminate|].
  destruct (Nat.eqb (byte a) 194 && (Nat.eqb (byte b) 133 || Nat.eqb (byte b) 160)); [intros H; injection H as <-; cbn; lia|].
  destruct s2 as [|c s3]; [discriminate|].
  match goal with |- (if ?x then _ else _) = _ -> _ => destruct x end; [intros H; injection H as <-; cbn; lia | discriminate].
Qed.

(** with enough fuel the result has no leading white space left and blankness is preserved *)
Lemma ltrim_fuel_spec : forall n s, String.length s <= n ->
  blank (ltrim_fuel n s) = blank s /\ (space_prefix (ltrim_fuel n s) = None).
Proof.
  induction n as [|n IH]; intros s L.
  - destruct s; [cbn; split; reflexivity | cbn in L; lia].
  - cbn [ltrim_fuel]. destruct (space_prefix s) as [r|] eqn:P.
    + pose proof (space_prefix_shorter s r P) as Sh. destruct (IH r ltac:(lia)) as (B & N). split; [|exact N].
      now rewrite B, (blank_space_prefix s r P).
    + split; [reflexivity | exact P].
Qed.

Lemma ltrim_spec s : blank (ltrim s) = blank s /\ space_prefix (ltrim s) = None.
Proof. unfold ltrim. now apply ltrim_fuel_spec. Qed.

Lemma rtrim_blank s : blank s = true -> rtrim s = "".
Proof. destruct s as [|a r]; [reflexivity|]. intros H. cbn [rtrim]. now rewrite H. Qed.

Lemma rtrim_empty_iff s : rtrim s = "" <-> blank s = true.
Proof.
  split; [|apply rtrim_blank]. destruct s as [|a r]; [reflexivity|]. cbn [rtrim].
  destruct (blank (String a r)); [reflexivity | discriminate].
Qed.

(** TrimSpace leaves nothing exactly when the value is blank: zenv's "an unset or blank variable is absent" *)
Theorem trim_space_empty_iff s : trim_space s = "" <-> blank s = true.
Proof. unfold trim_space. rewrite rtrim_empty_iff. now rewrite (proj1 (ltrim_spec s)). Qed.

(** ** what is kept: text that ends in a visible ASCII character loses only the white space after it *)
Definition visible (c : ascii) : Prop := 32 < byte c < 127.

Lemma blank_before_visible : forall u c r, visible c -> blank (u ++ String c r) = false.
Proof.
  intros u c r V. remember (String.length u) as n eqn:Ln. revert u Ln.
  induction n as [n IH] using lt_wf_ind. intros u Ln.
  assert (Vc : ascii_space c = false).
  { unfold ascii_space. unfold visible in V.
    replace (Nat.leb (byte c) 13) with false by (symmetry; apply Nat.leb_gt; lia).
    replace (Nat.eqb (byte c) 32) with false by (symmetry; apply Nat.eqb_neq; lia). now rewrite andb_false_r. }
  assert (Hc : forall k, 127 < k -> Nat.eqb (byte c) k = false) by (intros k Hk; apply Nat.eqb_neq; unfold visible in V; lia).
  destruct u as [|a u1]; cbn [append].
  - (* c is the head *) cbn [blank]. rewrite Vc. destruct r as [|b r2]; [reflexivity|].
    rewrite (Hc 194) by lia. cbn [andb]. destruct r2 as [|d r3]; [reflexivity|].
    rewrite (Hc 225), (Hc 226), (Hc 227) by lia. reflexivity.
  - cbn [blank]. destruct (ascii_space a).
    + apply (IH (String.length u1)); [subst n; cbn; lia | reflexivity].
    + destruct u1 as [|b u2]; cbn [append].
      * (* second byte is c *) rewrite (Hc 133), (Hc 160) by lia. rewrite andb_false_r.
        destruct r as [|d r3]; [reflexivity|].
        rewrite (Hc 154), (Hc 128), (Hc 129) by lia. rewrite !andb_false_r, !andb_false_l. cbn. 
        repeat rewrite andb_false_r. reflexivity.
      * destruct (Nat.eqb (byte a) 194 && (Nat.eqb (byte b) 133 || Nat.eqb (byte b) 160)).
        -- apply (IH (String.length u2)); [subst n; cbn; lia | reflexivity].
        -- destruct u2 as [|d u3]; cbn [append].
           ++ (* third byte is c *) rewrite (Hc 128) by lia. rewrite !andb_false_r.
              replace (Nat.leb 128 (byte c)) with false by (symmetry; apply Nat.leb_gt; unfold visible in V; lia).
              rewrite (Hc 168), (Hc 169), (Hc 175), (Hc 159) by lia. cbn. rewrite !andb_false_r. reflexivity.
           ++ match goal with |- (if ?x then _ else _) = _ => destruct x end; [|reflexivity].
              apply (IH (String.length u3)); [subst n; cbn; lia | reflexivity].
Qed.

Lemma rtrim_keeps : forall u c r, visible c -> blank r = true -> rtrim (u ++ String c r) = u ++ String c "".
Proof.
  induction u as [|a u IH]; intros c r V B; cbn [append].
  - cbn [rtrim]. pose proof (blank_before_visible "" c r V) as H. cbn [append] in H. rewrite H. now rewrite (rtrim_blank r B).
  - cbn [rtrim]. pose proof (blank_before_visible (String a u) c r V) as H. cbn [append] in H. rewrite H. now rewrite IH.
Qed.

(** what TrimSpace keeps of text that begins and ends with a visible ASCII character and is followed
    by white space only: everything up to that last character (white space and non-ASCII text in
    between included) *)
Theorem rtrim_core c1 mid c2 r : visible c2 -> blank r = true ->
  rtrim (String c1 (mid ++ String c2 r)) = String c1 (mid ++ String c2 "").
Proof.
  intros V2 Br. change (String c1 (mid ++ String c2 r)) with ((String c1 mid) ++ String c2 r).
  now rewrite rtrim_keeps.
Qed.

Example trim_examples :
  trim_space "  a b  " = "a b" /\ trim_space "" = "" /\ trim_space "   " = ""
  /\ trim_space (String (ascii_of_nat 194) (String (ascii_of_nat 160) "x")) = "x".
Proof. repeat split. Qed.
