(** * Required, Optional and Default decide what an absent value means (property C04). *)
From Coq Require Import String List ZArith Bool Ascii Lia.
From Zog Require Import Model.Val Model.Engine Spec.Sem Proofs.Refine Proofs.Indep.
Import ListNotations.
Open Scope string_scope.

(** ** what "blank" means: a concatenation of UTF-8 encodings of Go's white space code points *)
Definition bs (l : list nat) : string := fold_right (fun n s => String (ascii_of_nat n) s) EmptyString l.
Definition space_encodings : list string :=
  [ bs [9]; bs [10]; bs [11]; bs [12]; bs [13]; bs [32];                  (* U+0009..U+000D, U+0020 *)
    bs [194; 133]; bs [194; 160];                                           (* U+0085, U+00A0 *)
    bs [225; 154; 128];                                                     (* U+1680 *)
    bs [226; 128; 128]; bs [226; 128; 129]; bs [226; 128; 130]; bs [226; 128; 131]; bs [226; 128; 132]; bs [226; 128; 133];
    bs [226; 128; 134]; bs [226; 128; 135]; bs [226; 128; 136]; bs [226; 128; 137]; bs [226; 128; 138];   (* U+2000..U+200A *)
    bs [226; 128; 168]; bs [226; 128; 169]; bs [226; 128; 175];             (* U+2028, U+2029, U+202F *)
    bs [226; 129; 159];                                                     (* U+205F *)
    bs [227; 128; 128] ].                                                   (* U+3000 *)

Definition all_spaces (s : string) : Prop := exists l, Forall (fun x => In x space_encodings) l /\ fold_right append "" l = s.

Lemma blank_prefix e s : In e space_encodings -> blank (e ++ s) = blank s.
Proof.
  intros H. unfold space_encodings in H. cbn [In] in H.
  repeat (destruct H as [<-|H]; [reflexivity|]). contradiction.
Qed.

Lemma all_spaces_blank s : all_spaces s -> blank s = true.
Proof.
  intros (l & HF & <-). induction l as [|e r IH]; cbn [fold_right]; [reflexivity|].
  inversion HF as [|? ? He Hr]; subst. rewrite (blank_prefix e _ He). now apply IH.
Qed.

(** one decoding step of [blank]: either it rejects, or it strips one encoding of the list *)
Lemma blank_step s : blank s = true -> s = "" \/ exists e r, In e space_encodings /\ s = e ++ r /\ blank r = true.
Proof.
  destruct s as [|a r]; [now left|]. intros H. right.
  assert (A : ascii_space a = true -> In (String a "") space_encodings).
  { clear. destruct a as [[] [] [] [] [] [] [] []]; cbn; intros E; try discriminate; unfold space_encodings; cbn; tauto. }
  cbn [blank] in H. destruct (ascii_space a) eqn:Ea.
  - exists (String a ""), r. repeat split; [now apply A | exact H].
  - destruct r as [|b r2]; [discriminate|].
    destruct (Nat.eqb (byte a) 194 && (Nat.eqb (byte b) 133 || Nat.eqb (byte b) 160)) eqn:E2.
    + apply andb_prop in E2. destruct E2 as [Ha Hb]. apply Nat.eqb_eq in Ha. apply orb_prop in Hb.
      assert (Ea' : a = ascii_of_nat 194) by (rewrite <- Ha; unfold byte; now rewrite ascii_nat_embedding).
      destruct Hb as [Hb|Hb]; apply Nat.eqb_eq in Hb;
        assert (Eb' : b = ascii_of_nat (byte b)) by (unfold byte; now rewrite ascii_nat_embedding); rewrite Hb in Eb'; subst a b.
      * exists (bs [194; 133]), r2. repeat split; [unfold space_encodings; cbn; tauto | exact H].
      * exists (bs [194; 160]), r2. repeat split; [unfold space_encodings; cbn; tauto | exact H].
    + destruct r2 as [|c r3]; [discriminate|].
      match type of H with (if ?cond then _ else _) = true => destruct cond eqn:E3; [|discriminate] end.
      assert (Ea' : a = ascii_of_nat (byte a)) by (unfold byte; now rewrite ascii_nat_embedding).
      assert (Eb' : b = ascii_of_nat (byte b)) by (unfold byte; now rewrite ascii_nat_embedding).
      assert (Ec' : c = ascii_of_nat (byte c)) by (unfold byte; now rewrite ascii_nat_embedding).
      assert (Bc : byte c < 256) by (unfold byte; apply nat_ascii_bounded).
      exists (String a (String b (String c ""))), r3. split; [|split; [reflexivity | exact H]].
      rewrite Ea', Eb', Ec'. clear Ea' Eb' Ec' H Ea E2 A.
      repeat (apply orb_prop in E3; destruct E3 as [E3|E3]);
        repeat (match goal with
                | H : _ && _ = true |- _ => apply andb_prop in H; destruct H
                | H : Nat.eqb _ _ = true |- _ => apply Nat.eqb_eq in H; rewrite H
                | H : _ || _ = true |- _ => apply orb_prop in H; destruct H
                end);
        try (unfold space_encodings; cbn; tauto).
      (* U+2000..U+200A: the third byte ranges over 128..138 *)
      match goal with H1 : Nat.leb 128 (byte c) = true, H2 : Nat.leb (byte c) 138 = true |- _ =>
        apply Nat.leb_le in H1; apply Nat.leb_le in H2 end.
      assert (R : byte c = 128 \/ byte c = 129 \/ byte c = 130 \/ byte c = 131 \/ byte c = 132 \/ byte c = 133 \/ byte c = 134
                  \/ byte c = 135 \/ byte c = 136 \/ byte c = 137 \/ byte c = 138) by lia.
      repeat (destruct R as [R|R]; [rewrite R; unfold space_encodings; cbn; tauto|]). rewrite R. unfold space_encodings; cbn; tauto.
Qed.

Lemma length_append a b : String.length (a ++ b) = String.length a + String.length b.
Proof. induction a; cbn; [reflexivity | now rewrite IHa]. Qed.

Lemma blank_all_spaces s : blank s = true -> all_spaces s.
Proof.
  remember (String.length s) as n eqn:En. revert s En. induction n as [n IH] using lt_wf_ind. intros s En H.
  destruct (blank_step s H) as [->|(e & r & He & -> & Hr)]; [exists []; split; [constructor | reflexivity]|].
  assert (L : 0 < String.length e).
  { unfold space_encodings in He. cbn [In] in He. repeat (destruct He as [<-|He]; [cbn; lia|]). contradiction. }
  destruct (IH (String.length r) ltac:(rewrite En, length_append; lia) r eq_refl Hr) as (l & HF & El).
  exists (e :: l). split; [now constructor | cbn; now rewrite El].
Qed.

(** In Parse a value is absent iff it is nil or a string made only of white space. *)
Theorem parse_absent_iff v : parse_zero v = true <-> v = VNil \/ exists s, v = VStr s /\ all_spaces s.
Proof.
  split.
  - destruct v; cbn; try discriminate; [now left|]. intros H. right. exists s. split; [reflexivity | now apply blank_all_spaces].
  - intros [->|(s & -> & H)]; [reflexivity | now apply all_spaces_blank].
Qed.
(** 0, false and the zero time are present *)
Theorem falsy_values_are_present : parse_zero (VInt 0) = false /\ parse_zero (VBool false) = false /\ parse_zero (VTime go_zero_time) = false
                                   /\ parse_zero (VF64 (Floats.SpecFloat.S754_zero false)) = false /\ parse_zero (VList []) = false.
Proof. repeat split. Qed.
(** In Validate a value is absent iff it is the Go zero value (empty slice and nil pointer included). *)
Theorem validate_absent_examples : go_zero (DSlice []) = true /\ go_zero (DPtr None) = true /\ go_zero (DStr "") = true /\ go_zero (DInt 0) = true
                                   /\ go_zero (DBool false) = true /\ go_zero (DTime go_zero_time) = true /\ go_zero (DStr " ") = false.
Proof. repeat split. Qed.

(** ** the decision table of a primitive node (no PostTransforms) *)
Section Prim.
  Variable m : mode.
  Variable p : prim.
  Variables (dat : val) (d : dval) (e0 : bool).
  Hypothesis no_pts : p_pts p = [].
  Let absent := match m with Parse => parse_zero dat | Validate => go_zero d end.

  (** absent and a Default is set: the default is tested like any other value, whatever Required says *)
  Theorem absent_default dv : absent = true -> p_def p = Some dv ->
    sem_prim m p dat d e0 = ((fst (sem_prim_tests (dtype_of (p_kind p)) (p_tests p) (p_catch p) dv) ++ [])%list,
                             snd (sem_prim_tests (dtype_of (p_kind p)) (p_tests p) (p_catch p) dv)).
  Proof.
    intros A D. unfold sem_prim. fold absent. rewrite A, D, no_pts.
    destruct (sem_prim_tests (dtype_of (p_kind p)) (p_tests p) (p_catch p) dv). apply then_pts_nil.
  Qed.
  (** absent, no default, required (and no Catch): exactly one `required` issue at the node; the
      destination is not written and no test runs *)
  Theorem absent_required rt : absent = true -> p_def p = None -> p_req p = Some rt -> p_catch p = None ->
    sem_prim m p dat d e0 = ([RI [] (fun q => mk_test_issue q (dtype_of (p_kind p)) rt)], d).
  Proof. intros A D R C. unfold sem_prim. fold absent. rewrite A, D, R, C, no_pts. now rewrite then_pts_nil. Qed.
  (** absent, no default, optional: nothing — no issue, no test, the destination is not written *)
  Theorem absent_optional : absent = true -> p_def p = None -> p_req p = None -> sem_prim m p dat d e0 = ([], d).
  Proof. intros A D R. unfold sem_prim. fold absent. rewrite A, D, R, no_pts. now rewrite then_pts_nil. Qed.
End Prim.

(** slices and pointers *)
Theorem slice_absent_required m e c dat d e0 rt : sl_pts c = [] -> sl_def c = None -> sl_req c = Some rt ->
  match m with Parse => parse_zero (data_val dat) = true | Validate => dslice_items d = [] end ->
  sem m (SSlice e c) dat d e0 = ([RI [] (fun q => mk_test_issue q "slice" rt)], d).
Proof. intros P D R A. cbn [sem]. rewrite P, D, R. destruct m; rewrite A; now rewrite then_pts_nil. Qed.
Theorem slice_absent_optional m e c dat d e0 : sl_pts c = [] -> sl_def c = None -> sl_req c = None ->
  match m with Parse => parse_zero (data_val dat) = true | Validate => dslice_items d = [] end ->
  sem m (SSlice e c) dat d e0 = ([], d).
Proof. intros P D R A. cbn [sem]. rewrite P, D, R. destruct m; rewrite A; now rewrite then_pts_nil. Qed.
Theorem ptr_absent_notnil e rt pz v d e0 : parse_zero v = true ->
  sem Parse (SPtr e (Some rt) pz) (DVal v) d e0 = ([RI [] (fun q => mk_test_issue q (sch_dtype e) rt)], d)
  /\ sem Validate (SPtr e (Some rt) pz) (DVal v) (DPtr None) e0 = ([RI [] (fun q => mk_test_issue q (sch_dtype e) rt)], DPtr None).
Proof. intros A. cbn [sem]. now rewrite A. Qed.
Theorem ptr_absent_optional e pz v d e0 : parse_zero v = true ->
  sem Parse (SPtr e None pz) (DVal v) d e0 = ([], d) /\ sem Validate (SPtr e None pz) (DVal v) (DPtr None) e0 = ([], DPtr None).
Proof. intros A. cbn [sem]. now rewrite A. Qed.

(** ** Preprocess: what is absent is decided on the function's output, by the rule of the mode *)
Lemma rerrored_rcall_pre id a : rerrored (rcall id CbPre a) = false.
Proof. apply rerrored_rcall. Qed.

(** Parse: the wrapped schema parses the function's output as its input — so its Required / Default /
    Optional decisions are the Parse decisions (nil, blank string) on that output, and its destination
    is written by the wrapped schema alone *)
Theorem preprocess_output_is_parsed pf e v v' d e0 : pre_parse pf v = Some (inl v') ->
  sem Parse (SPre pf e) (DVal v) d e0
  = ((rcall (pre_id pf) CbPre None ++ fst (sem Parse e (DVal v') d e0))%list, snd (sem Parse e (DVal v') d e0)).
Proof.
  intros E. cbn [sem data_val]. rewrite E. rewrite rerrored_rcall_pre, orb_false_r.
  destruct (sem Parse e (DVal v') d e0) as [l d1]. reflexivity.
Qed.

(** Validate: the wrapped schema validates the function's output in place, by the Validate rule (zero value) *)
Theorem preprocess_output_is_validated pf e dat d d' e0 : pre_valid pf d = inl d' ->
  sem Validate (SPre pf e) dat d e0
  = ((rcall (pre_id pf) CbPre (Some d) ++ fst (sem Validate e (DVal VNil) d' e0))%list, snd (sem Validate e (DVal VNil) d' e0)).
Proof.
  intros E. cbn [sem]. rewrite E. rewrite rerrored_rcall_pre, orb_false_r.
  destruct (sem Validate e (DVal VNil) d' e0) as [l d1]. reflexivity.
Qed.

(** in particular a required primitive below a Preprocess whose output is blank is reported, a falsy
    output (0, false) is a value *)
Corollary preprocess_blank_output_is_absent pf p v v' d e0 rt : pre_parse pf v = Some (inl v') -> parse_zero v' = true ->
  p_def p = None -> p_req p = Some rt -> p_catch p = None -> p_pts p = [] ->
  sem Parse (SPre pf (SPrim p)) (DVal v) d e0
  = ((rcall (pre_id pf) CbPre None ++ [RI [] (fun q => mk_test_issue q (dtype_of (p_kind p)) rt)])%list, d).
Proof.
  intros E Z Hd Hr Hc Hp. rewrite (preprocess_output_is_parsed pf (SPrim p) v v' d e0 E).
  cbn [sem data_val]. unfold sem_prim. rewrite Z, Hd, Hr, Hc, Hp. rewrite then_pts_nil. cbn [fst snd]. now rewrite app_nil_r.
Qed.

(** a pointer whose input is there hands that input on as it is: the pointed-to schema decides for itself.  A
    Preprocess behind the pointer therefore decides absence again, on its own output, by the wrapped schema's
    modifiers - the pointer's verdict "present" is not inherited by what lies behind it *)
Theorem ptr_present_hands_input_on e nn pz v d e0 : parse_zero v = false ->
  sem Parse (SPtr e nn pz) (DVal v) d e0 =
  (fst (sem Parse e (DVal v) (match d with DPtr (Some y) => y | _ => pz end) e0),
   DPtr (Some (snd (sem Parse e (DVal v) (match d with DPtr (Some y) => y | _ => pz end) e0)))).
Proof.
  intros Z. cbn [sem]. rewrite Z.
  assert (H : match match d with DPtr (Some y) => Some y | _ => None end with Some y => y | None => pz end
              = match d with DPtr (Some y) => y | _ => pz end).
  { destruct d as [| | | | | | [y|] | |]; reflexivity. }
  rewrite H. destruct (sem Parse e (DVal v) _ e0) as [l y1]. reflexivity.
Qed.

Corollary preprocess_blank_output_behind_pointer pf p nn pz v v' d e0 rt :
  parse_zero v = false -> pre_parse pf v = Some (inl v') -> parse_zero v' = true ->
  p_def p = None -> p_req p = Some rt -> p_catch p = None -> p_pts p = [] ->
  fst (sem Parse (SPtr (SPre pf (SPrim p)) nn pz) (DVal v) d e0)
  = (rcall (pre_id pf) CbPre None ++ [RI [] (fun q => mk_test_issue q (dtype_of (p_kind p)) rt)])%list.
Proof.
  intros Z E Z' Hd Hr Hc Hp. rewrite (ptr_present_hands_input_on _ nn pz v d e0 Z). cbn [fst].
  now rewrite (preprocess_blank_output_is_absent pf p v v' _ e0 rt E Z' Hd Hr Hc Hp).
Qed.
