(** * Each execution is isolated from every other (property C07), at the level of pooled objects. *)
From Coq Require Import String List Arith Bool Lia.
From Zog Require Import Model.Objects.
Import ListNotations.
Open Scope list_scope.

(** ** Part A: whatever a pool hands out, an acquired object is the same as one acquired from a
    freshly allocated object — on every field. *)
Theorem reinit_zog_issue d1 d2 : new_zog_issue d1 = new_zog_issue d2.
Proof. reflexivity. Qed.
Theorem reinit_ctx_issue d1 d2 p t v : ctx_issue d1 p t v = ctx_issue d2 p t v.
Proof. reflexivity. Qed.
Theorem reinit_issue_from_test d1 d2 c ps ip f p t v : issue_from_test d1 c ps ip f p t v = issue_from_test d2 c ps ip f p t v.
Proof. reflexivity. Qed.
Theorem reinit_issue_from_coerce d1 d2 p t v e : issue_from_coerce d1 p t v e = issue_from_coerce d2 p t v e.
Proof. reflexivity. Qed.
Theorem reinit_exec_ctx d1 d2 errs f : new_exec_ctx d1 errs f = new_exec_ctx d2 errs f.
Proof. reflexivity. Qed.
(** context values never carry over: a fresh context answers None for every key, and after the
    options of this call exactly their values *)
Theorem fresh_ctx_has_no_values d errs f k : ctx_get (new_exec_ctx d errs f) k = None.
Proof. reflexivity. Qed.
Theorem ctx_values_are_this_calls d errs f k v k' :
  ctx_get (ctx_set (new_exec_ctx d errs f) k v) k' = if String.eqb k k' then Some v else None.
Proof. unfold ctx_get, ctx_set. cbn. destruct (String.eqb k k'); reflexivity. Qed.

(** the schema context: every field but [Test], which each test runner assigns before its test reads it *)
Definition sctx_same_but_test (a b : sctx) : Prop :=
  s_data a = s_data b /\ s_valptr a = s_valptr b /\ s_path a = s_path b /\ s_dtype a = s_dtype b
  /\ s_cancatch a = s_cancatch b /\ s_exit a = s_exit b /\ s_hascaught a = s_hascaught b.
Theorem reinit_schema_ctx d1 d2 v dst p t : sctx_same_but_test (new_schema_ctx d1 v dst p t) (new_schema_ctx d2 v dst p t)
                                            /\ s_cancatch (new_schema_ctx d1 v dst p t) = false /\ s_exit (new_schema_ctx d1 v dst p t) = false.
Proof. repeat split. Qed.
Theorem reinit_validate_schema_ctx d1 d2 v p t :
  sctx_same_but_test (new_validate_schema_ctx d1 v p t) (new_validate_schema_ctx d2 v p t)
  /\ s_cancatch (new_validate_schema_ctx d1 v p t) = false /\ s_exit (new_validate_schema_ctx d1 v p t) = false.
Proof. repeat split. Qed.
Theorem reinit_errs {A} (d1 d2 : option A) : new_errs d1 = new_errs d2.
Proof. reflexivity. Qed.
Theorem reinit_path_builder d1 d2 : hd "" d1 = ""%string -> hd "" d2 = ""%string -> d1 <> [] -> d2 <> [] -> new_path_builder d1 = new_path_builder d2.
Proof. destruct d1, d2; cbn; intros; try congruence. Qed.

(** the defects the repairs removed, as witnesses on the legacy variants *)
Example legacy_exec_ctx_leaks : ctx_get (new_exec_ctx_legacy {| x_fmter := 0; x_errors := 0; x_m := [("k"%string, 7)] |} 1 1) "k" = Some 7.
Proof. reflexivity. Qed.
Example legacy_coerce_keeps_params :
  zi_params (issue_from_coerce_legacy {| zi_code := ""; zi_path := ""; zi_value := 0; zi_dtype := ""; zi_params := Some [("min"%string, "3"%string)]; zi_msg := ""; zi_err := None |} "" "" 0 "e")
  = Some [("min"%string, "3"%string)].
Proof. reflexivity. Qed.
Example legacy_validate_ctx_keeps_cancatch :
  s_cancatch (new_validate_schema_ctx_legacy {| s_data := 0; s_valptr := 0; s_path := 0; s_dtype := ""; s_cancatch := true; s_exit := false; s_hascaught := false; s_test := 0 |} 1 1 "x") = true.
Proof. reflexivity. Qed.

(** ** Part B: the pools never hold an object twice and never an object a caller still holds *)
Definition PInv (x : pstate) : Prop := NoDup (pool x ++ live x) /\ forall a, In a (pool x ++ live x) -> a < next x.

Lemma NoDup_remove_mid {A} (l1 l2 : list A) a : NoDup (l1 ++ a :: l2) -> NoDup (l1 ++ l2) /\ ~ In a (l1 ++ l2).
Proof. apply NoDup_remove. Qed.

Lemma nth_error_split_firstn {A} (l : list A) i a : nth_error l i = Some a -> l = firstn i l ++ a :: skipn (S i) l.
Proof.
  revert i. induction l as [|b r IH]; intros [|i] H; cbn in *; try discriminate.
  - inversion H. reflexivity.
  - f_equal. now apply IH.
Qed.

Lemma pget_spec x c : PInv x -> let '(a, x1) := pget x c in
  PInv x1 /\ ~ In a (pool x1 ++ live x1) /\ a < next x1 /\ live x1 = live x.
Proof.
  intros (ND & LT). unfold pget.
  assert (Fresh : PInv {| pool := pool x; live := live x; next := S (next x) |} /\ ~ In (next x) (pool x ++ live x) /\ next x < S (next x)).
  { split; [split|split].
    - cbn. exact ND.
    - cbn. intros a Ha. specialize (LT a Ha). lia.
    - cbn. intros H. specialize (LT _ H). lia.
    - lia. }
  destruct c as [i|]; [|cbn; tauto].
  destruct (nth_error (pool x) i) as [a|] eqn:E; [|cbn; tauto].
  pose proof (nth_error_split_firstn _ _ _ E) as S. cbn [pool live next].
  rewrite S in ND. rewrite <- app_assoc in ND. cbn in ND. apply NoDup_remove in ND. destruct ND as (ND & NI). rewrite app_assoc in ND, NI.
  repeat split.
  - exact ND.
  - intros b Hb. apply LT. rewrite S. apply in_app_or in Hb. destruct Hb as [Hb|Hb]; [|apply in_or_app; now right].
    apply in_or_app. left. apply in_app_or in Hb. apply in_or_app. destruct Hb; [now left | right; now right].
  - exact NI.
  - apply LT. apply in_or_app. left. eapply nth_error_In. exact E.
Qed.

Lemma issue_step_Inv x ev : PInv x -> PInv (issue_step x ev).
Proof.
  intros I. unfold issue_step. pose proof (pget_spec x (fst ev) I) as P. destruct (pget x (fst ev)) as [a x1].
  destruct P as ((ND & LT) & NI & Lt & _). destruct (snd ev).
  - unfold pput, PInv. cbn [pool live next]. split.
    + cbn. constructor; assumption.
    + intros b [<-|Hb]; [exact Lt | now apply LT].
  - unfold PInv. cbn [pool live next]. split.
    + apply NoDup_Add with (a := a) (l := pool x1 ++ live x1); [|constructor; assumption].
      apply Add_app.
    + intros b Hb. apply in_app_or in Hb. destruct Hb as [Hb|[<-|Hb]]; [apply LT; apply in_or_app; now left | exact Lt | apply LT; apply in_or_app; now right].
Qed.

Lemma remove_all_notin l a : ~ In a (remove_all l a).
Proof. induction l as [|b r IH]; cbn; [tauto|]. destruct (Nat.eqb_spec a b); [exact IH|]. cbn. intros [H|H]; [congruence | now apply IH]. Qed.
Lemma remove_all_in l a b : In b (remove_all l a) <-> In b l /\ b <> a.
Proof.
  induction l as [|c r IH]; cbn; [tauto|]. destruct (Nat.eqb_spec a c).
  - rewrite IH. subst. split; [intros (H & N); tauto | intros ([H|H] & N); [congruence | tauto]].
  - cbn. rewrite IH. split; [intros [H|(H & N)]; [subst; split; [now left | congruence] | tauto] | intros ([H|H] & N); tauto].
Qed.
Lemma NoDup_remove_all l a : NoDup l -> NoDup (remove_all l a).
Proof.
  induction 1 as [|b r Hn Hd IH]; cbn; [constructor|]. destruct (Nat.eqb_spec a b); [exact IH|].
  constructor; [|exact IH]. rewrite remove_all_in. tauto.
Qed.

Lemma nodup_app_inv {A} (l1 l2 : list A) : NoDup (l1 ++ l2) -> NoDup l1 /\ NoDup l2 /\ (forall a, In a l1 -> ~ In a l2).
Proof.
  induction l1 as [|b r IH]; cbn; intros ND.
  - repeat split; [constructor | exact ND | tauto].
  - inversion ND as [|? ? Hn Hd]; subst. destruct (IH Hd) as (N1 & N2 & D). repeat split.
    + constructor; [|exact N1]. intros H. apply Hn. apply in_or_app. now left.
    + exact N2.
    + intros a [<-|Ha] H2; [apply Hn; apply in_or_app; now right | now apply (D a)].
Qed.
Lemma nodup_app_intro {A} (l1 l2 : list A) : NoDup l1 -> NoDup l2 -> (forall a, In a l1 -> ~ In a l2) -> NoDup (l1 ++ l2).
Proof.
  induction l1 as [|b r IH]; cbn; intros N1 N2 D; [exact N2|].
  inversion N1 as [|? ? Hn Hd]; subst. constructor.
  - intros H. apply in_app_or in H. destruct H as [H|H]; [contradiction | apply (D b); [now left | exact H]].
  - apply IH; [exact Hd | exact N2 | intros a Ha; apply D; now right].
Qed.

Lemma collect_one_Inv x a : PInv x -> In a (live x) -> PInv {| pool := a :: pool x; live := remove_all (live x) a; next := next x |}.
Proof.
  intros (ND & LT) Ha. destruct (nodup_app_inv _ _ ND) as (Np & Nl & D). unfold PInv. cbn [pool live next]. split.
  - apply nodup_app_intro.
    + constructor; [|exact Np]. intros Hp. now apply (D a Hp).
    + now apply NoDup_remove_all.
    + intros b [<-|Hb] H; [now apply remove_all_notin in H | apply remove_all_in in H; now apply (D b Hb)].
  - intros b Hb. apply in_app_or in Hb. destruct Hb as [[<-|Hb]|Hb].
    + apply LT. apply in_or_app. now right.
    + apply LT. apply in_or_app. now left.
    + apply LT. apply in_or_app. right. now apply remove_all_in in Hb.
Qed.

Lemma collect_Inv addrs : forall x, PInv x -> NoDup addrs -> (forall a, In a addrs -> In a (live x)) ->
  PInv (fold_left (fun y a => {| pool := a :: pool y; live := remove_all (live y) a; next := next y |}) addrs x).
Proof.
  induction addrs as [|a r IH]; intros x I ND Hl; cbn [fold_left]; [exact I|].
  inversion ND as [|? ? Hn Hd]; subst. apply IH.
  - apply collect_one_Inv; [exact I | apply Hl; now left].
  - exact Hd.
  - intros b Hb. cbn [live]. apply remove_all_in. split; [apply Hl; now right | intros ->; contradiction].
Qed.

Lemma hstep_Inv x o : PInv x -> (match o with
                                  | HCollect addrs => NoDup addrs /\ (forall a, In a addrs -> In a (live x))
                                  | HCollectMapLegacy _ _ => False
                                  | HCall _ => True
                                  end) -> PInv (hstep x o).
Proof.
  intros I H. destruct o as [issues | addrs | f addrs]; cbn [hstep].
  - clear H. revert x I. induction issues as [|ev r IH]; intros x I; cbn [fold_left]; [exact I|]. apply IH. now apply issue_step_Inv.
  - destruct H as (ND & Hl). now apply collect_Inv.
  - contradiction.
Qed.

(** For every history of executions and collections that respects the API contract (a result is
    collected at most once, and only while held), and for every choice the pools make: no object is
    in a pool twice, no object a caller holds is in a pool, and all objects callers hold are distinct. *)
Theorem pools_stay_linear ops : collects_ok {| pool := []; live := []; next := 0 |} ops -> PInv (hrun ops).
Proof.
  unfold hrun. assert (I : PInv {| pool := []; live := []; next := 0 |}) by (split; cbn; [constructor | tauto]).
  revert I. generalize {| pool := []; live := []; next := 0 |}. induction ops as [|o r IH]; intros x I C; cbn [fold_left]; [exact I|].
  cbn [collects_ok] in C. destruct C as (Ho & Cr). apply IH; [|exact Cr]. now apply hstep_Inv.
Qed.

Corollary held_issues_are_distinct_and_not_pooled ops : collects_ok {| pool := []; live := []; next := 0 |} ops ->
  NoDup (live (hrun ops)) /\ forall a, In a (live (hrun ops)) -> ~ In a (pool (hrun ops)).
Proof.
  intros C. destruct (pools_stay_linear ops C) as (ND & _). split.
  - now destruct (nodup_app_inv _ _ ND) as (_ & N & _).
  - intros a Ha Hp. destruct (nodup_app_inv _ _ ND) as (_ & _ & D). now apply (D a Hp).
Qed.

(** the double free CollectMap used to perform: afterwards one object is in the pool twice, and the
    next execution is handed the same object for two different issues *)
Example legacy_collect_map_refuted :
  let ops := [HCall [(None, false); (None, false)];            (* an execution returns two issues: addresses 0 and 1; $first = 0 (the first recorded) *)
              HCollectMapLegacy 0 [0; 1];                      (* CollectMap frees both, and $first once more *)
              HCall [(Some 0, false); (Some 1, false)]] in     (* the next execution's two issues: one object *)
  live (hrun ops) = [0; 0].
Proof. reflexivity. Qed.
