(** * Siblings are independent: for schemas without PostTransforms the semantics of a node does not
    depend on whether an issue already exists, every struct field contributes entries and a
    destination value that are functions of that field alone, and therefore (a) Catch — or any other
    change to one field's schema — has no effect beyond its node (C05) and (b) the order in which a
    struct's fields are visited does not matter (C09). *)
From Coq Require Import String List ZArith Bool Permutation.
From Zog Require Import Model.Val Model.Engine Spec.Sem Spec.Satisfies Proofs.Refine.
Import ListNotations.
Open Scope string_scope.
Open Scope list_scope.

Definition field := (string * (list (string * string) * sch))%type.
Definition fields_pt_free (fs : list field) : bool :=
  (fix go (l : list field) : bool := match l with [] => true | kc :: r => pt_free (snd (snd kc)) && go r end) fs.

Lemma then_pts_nil wrap sw e l d : then_pts wrap sw [] e (l, d) = (l ++ [], d).
Proof. unfold then_pts, sem_pts. cbn [sem_pts_loop]. now destruct (e || rerrored l). Qed.

(** ** the "an issue already exists" input only matters to PostTransforms *)
Definition e0_free (s : sch) : Prop := forall m dat d e0 e1, sem m s dat d e0 = sem m s dat d e1.

Lemma fields_e0_free m pv : forall fs, Forall (fun kc : field => e0_free (snd (snd kc))) fs ->
  forall dfs e0 e1, sem_fields (sem m) m pv fs dfs e0 = sem_fields (sem m) m pv fs dfs e1.
Proof.
  induction fs as [|[k [tags c]] r IH]; intros HF dfs e0 e1; cbn [sem_fields]; [reflexivity|].
  inversion HF as [|? ? Hk Hr]; subst. cbn [snd] in Hk.
  destruct (match m with Parse => get_by_field pv tags k | Validate => (VNil, match alookup "zog" tags with Some t => t | None => k end) end) as [v fk].
  rewrite (Hk m (DVal v) (dlookup k dfs) e0 e1). destruct (sem m c (DVal v) (dlookup k dfs) e1) as [lk dk].
  now rewrite (IH Hr (dset k dk dfs) (e0 || rerrored lk) (e1 || rerrored lk)).
Qed.

Lemma elems_parse_e0_free m e : e0_free e -> forall items zero done i e0 e1,
  sem_elems_parse (sem m e) items zero done i e0 = sem_elems_parse (sem m e) items zero done i e1.
Proof.
  intros H. induction items as [|v r IH]; intros zero done i e0 e1; cbn [sem_elems_parse]; [reflexivity|].
  rewrite (H m (DVal v) zero e0 e1). destruct (sem m e (DVal v) zero e1) as [lk dk].
  now rewrite (IH zero (done ++ [dk]) (S i) (e0 || rerrored lk) (e1 || rerrored lk)).
Qed.
Lemma elems_valid_e0_free m e : e0_free e -> forall items done i e0 e1,
  sem_elems_valid (sem m e) items done i e0 = sem_elems_valid (sem m e) items done i e1.
Proof.
  intros H. induction items as [|v r IH]; intros done i e0 e1; cbn [sem_elems_valid]; [reflexivity|].
  rewrite (H m (DVal VNil) v e0 e1). destruct (sem m e (DVal VNil) v e1) as [lk dk].
  now rewrite (IH (done ++ [dk]) (S i) (e0 || rerrored lk) (e1 || rerrored lk)).
Qed.

Theorem pt_free_e0_free : forall s, pt_free s = true -> e0_free s.
Proof.
  induction s as [p | fs tests pts IH | e c IH | e nn pz IH | conv t | pf e IH] using sch_ind'; intros W m dat d e0 e1.
  - cbn in W. destruct (p_pts p) eqn:Ep; [|discriminate]. cbn [sem]. unfold sem_prim. rewrite Ep.
    match goal with |- then_pts ?w ?s [] e0 ?b = then_pts ?w ?s [] e1 ?b => destruct b as [l dd] end. now rewrite !then_pts_nil.
  - cbn in W. apply andb_prop in W. destruct W as [Wp Wf]. destruct pts; [|discriminate].
    assert (HF : Forall (fun kc : field => e0_free (snd (snd kc))) fs).
    { clear -IH Wf. induction fs as [|kc r IHr]; [constructor|]. inversion IH as [|? ? Hk Hr]; subst.
      apply andb_prop in Wf. destruct Wf as [W1 W2]. constructor; [now apply Hk | now apply IHr]. }
    cbn [sem].
    assert (B : forall pv, (let '(lf, dfs) := sem_fields (sem m) m pv fs (dstruct_fields d) e0 in
                            then_pts (fun (y : string) e => mk_unknown_issue y "struct" e) false [] e0 (lf ++ sem_tests_all "struct" tests (DStruct dfs), DStruct dfs))
                         = (let '(lf, dfs) := sem_fields (sem m) m pv fs (dstruct_fields d) e1 in
                            then_pts (fun (y : string) e => mk_unknown_issue y "struct" e) false [] e1 (lf ++ sem_tests_all "struct" tests (DStruct dfs), DStruct dfs))).
    { intros pv. rewrite (fields_e0_free m pv fs HF (dstruct_fields d) e0 e1).
      destruct (sem_fields (sem m) m pv fs (dstruct_fields d) e1) as [lf dfs]. now rewrite !then_pts_nil. }
    destruct m; [|apply B].
    destruct dat as [v|pv|[code err| |pv]]; try apply B.
    + destruct (provider_of_val v); [apply B | now rewrite !then_pts_nil].
    + now rewrite !then_pts_nil.
  - cbn in W. apply andb_prop in W. destruct W as [Wp We]. destruct (sl_pts c) eqn:Ep; [|discriminate].
    specialize (IH We). cbn [sem]. rewrite Ep.
    destruct m.
    + destruct (parse_zero (data_val dat)).
      * destruct (sl_def c) as [dl|].
        -- rewrite (elems_parse_e0_free Parse e IH (map val_of_dval dl) (sl_zero c) [] 0 e0 e1).
           destruct (sem_elems_parse (sem Parse e) (map val_of_dval dl) (sl_zero c) [] 0 e1). now rewrite !then_pts_nil.
        -- destruct (sl_req c); now rewrite !then_pts_nil.
      * destruct (sl_coerce c (data_val dat)) as [items|]; [|now rewrite !then_pts_nil].
        rewrite (elems_parse_e0_free Parse e IH items (sl_zero c) [] 0 e0 e1).
        destruct (sem_elems_parse (sem Parse e) items (sl_zero c) [] 0 e1). now rewrite !then_pts_nil.
    + destruct (dslice_items d) as [|d0 r] eqn:Ed.
      * destruct (sl_def c) as [dl|].
        -- rewrite (elems_valid_e0_free Validate e IH dl [] 0 e0 e1).
           destruct (sem_elems_valid (sem Validate e) dl [] 0 e1). now rewrite !then_pts_nil.
        -- destruct (sl_req c); now rewrite !then_pts_nil.
      * rewrite (elems_valid_e0_free Validate e IH (d0 :: r) [] 0 e0 e1).
        destruct (sem_elems_valid (sem Validate e) (d0 :: r) [] 0 e1). now rewrite !then_pts_nil.
  - cbn in W. specialize (IH W). cbn [sem]. destruct m.
    + destruct dat as [v|pv|[code err| |pv]]; try reflexivity.
      * destruct (parse_zero v); [reflexivity|].
        now rewrite (IH Parse (DVal v) (match match d with DPtr (Some y) => Some y | _ => None end with Some y => y | None => pz end) e0 e1).
      * now rewrite (IH Parse (DProv pv) (match match d with DPtr (Some y) => Some y | _ => None end with Some y => y | None => pz end) e0 e1).
      * now rewrite (IH Parse (DProv pv) (match match d with DPtr (Some y) => Some y | _ => None end with Some y => y | None => pz end) e0 e1).
    + destruct (match d with DPtr (Some y) => Some y | _ => None end) as [y|]; [|reflexivity]. now rewrite (IH Validate (DVal VNil) y e0 e1).
  - cbn [sem]. destruct m; reflexivity.
  - cbn in W. specialize (IH W). cbn [sem]. destruct m.
    + destruct (pre_parse pf (data_val dat)) as [[v|err]|]; try reflexivity.
      now rewrite (IH Parse (DVal v) d (e0 || rerrored (rcall (pre_id pf) CbPre None)) (e1 || rerrored (rcall (pre_id pf) CbPre None))).
    + destruct (pre_valid pf d) as [d1|msg]; [|reflexivity].
      now rewrite (IH Validate (DVal VNil) d1 (e0 || rerrored (rcall (pre_id pf) CbPre (Some d))) (e1 || rerrored (rcall (pre_id pf) CbPre (Some d)))).
Qed.

(** ** every field's contribution is a function of that field alone *)
Lemma dlookup_dset_other k k' v dfs : k <> k' -> dlookup k' (dset k v dfs) = dlookup k' dfs.
Proof.
  intros N. unfold dlookup, alookup. induction dfs as [|[k0 v0] r IH]; cbn; [reflexivity|].
  destruct (String.eqb_spec k k0) as [->|N0]; cbn.
  - destruct (String.eqb_spec k0 k'); [congruence | reflexivity].
  - destruct (String.eqb k0 k'); [reflexivity | exact IH].
Qed.
Lemma dset_comm k1 k2 v1 v2 dfs : k1 <> k2 -> dset k1 v1 (dset k2 v2 dfs) = dset k2 v2 (dset k1 v1 dfs).
Proof.
  intros N. induction dfs as [|[k0 v0] r IH]; cbn; [reflexivity|].
  destruct (String.eqb_spec k2 k0) as [->|N2]; destruct (String.eqb_spec k1 k0) as [->|N1]; cbn.
  - congruence.
  - destruct (String.eqb_spec k1 k0); [congruence|]. now rewrite String.eqb_refl.
  - rewrite String.eqb_refl. destruct (String.eqb_spec k2 k0); [congruence | reflexivity].
  - destruct (String.eqb_spec k1 k0); [congruence|]. destruct (String.eqb_spec k2 k0); [congruence|]. now rewrite IH.
Qed.

Section Contribution.
  Variable m : mode.
  Variable pv : prov.
  Variable dfs0 : list (string * dval).     (* the destination's fields before the struct is processed *)

  Definition field_input (f : field) : val * string :=
    match m with
    | Parse => get_by_field pv (fst (snd f)) (fst f)
    | Validate => (VNil, match alookup "zog" (fst (snd f)) with Some t => t | None => fst f end)
    end.
  (** what field [f] contributes: its entries (under its key) and its destination value *)
  Definition contrib (f : field) : list rentry * dval :=
    sem m (snd (snd f)) (DVal (fst (field_input f))) (dlookup (fst f) dfs0) false.
  Definition contrib_entries (f : field) : list rentry := under (snd (field_input f)) (fst (contrib f)).
  Definition place (acc : list (string * dval)) (f : field) : list (string * dval) := dset (fst f) (snd (contrib f)) acc.

  Lemma sem_fields_decomp : forall fs, fields_pt_free fs = true -> NoDup (map fst fs) ->
    forall acc e, (forall f, In f fs -> dlookup (fst f) acc = dlookup (fst f) dfs0) ->
    sem_fields (sem m) m pv fs acc e = (flat_map contrib_entries fs, fold_left place fs acc).
  Proof.
    induction fs as [|[k [tags c]] r IH]; intros W ND acc e Hacc; cbn [sem_fields flat_map fold_left]; [reflexivity|].
    cbn in W. apply andb_prop in W. destruct W as [Wc Wr]. inversion ND as [|? ? Hn Hd]; subst.
    pose proof (Hacc (k, (tags, c)) (or_introl eq_refl)) as Hk. cbn [fst] in Hk.
    unfold contrib_entries, place, contrib, field_input. cbn [fst snd].
    destruct (match m with Parse => get_by_field pv tags k | Validate => (VNil, match alookup "zog" tags with Some t => t | None => k end) end) as [v fk].
    cbn [fst snd]. rewrite Hk. rewrite (pt_free_e0_free c Wc m (DVal v) (dlookup k dfs0) e false).
    destruct (sem m c (DVal v) (dlookup k dfs0) false) as [lk dk]. cbn [fst snd].
    rewrite (IH Wr Hd (dset k dk acc) (e || rerrored lk)).
    - reflexivity.
    - intros f Hf. rewrite dlookup_dset_other; [apply Hacc; now right|].
      intros ->. apply Hn. apply in_map. exact Hf.
  Qed.
  (** placing a field whose key none of the later fields has commutes with placing those *)
  Lemma fold_place_move : forall fs acc f, ~ In (fst f) (map fst fs) ->
    fold_left place fs (place acc f) = place (fold_left place fs acc) f.
  Proof.
    induction fs as [|g r IH]; intros acc f Hn; cbn [fold_left]; [reflexivity|].
    cbn in Hn. rewrite <- IH by tauto. f_equal. unfold place. apply dset_comm. intros E. apply Hn. now left.
  Qed.
End Contribution.

(** ** C05: a change to one field's schema (for instance adding or removing its Catch) leaves the
    entries and the destination values of every other field exactly as they were *)
Theorem one_field_is_local m pv fs1 fs2 k tags c c' dfs e :
  fields_pt_free (fs1 ++ (k, (tags, c)) :: fs2) = true -> fields_pt_free (fs1 ++ (k, (tags, c')) :: fs2) = true ->
  NoDup (map fst (fs1 ++ (k, (tags, c)) :: fs2)) ->
  let r  := sem_fields (sem m) m pv (fs1 ++ (k, (tags, c)) :: fs2) dfs e in
  let r' := sem_fields (sem m) m pv (fs1 ++ (k, (tags, c')) :: fs2) dfs e in
  exists own own', fst r  = flat_map (contrib_entries m pv dfs) fs1 ++ own  ++ flat_map (contrib_entries m pv dfs) fs2
                /\ fst r' = flat_map (contrib_entries m pv dfs) fs1 ++ own' ++ flat_map (contrib_entries m pv dfs) fs2
                /\ forall k', k' <> k -> dlookup k' (snd r) = dlookup k' (snd r').
Proof.
  intros W W' ND r r'. subst r r'.
  assert (ND' : NoDup (map fst (fs1 ++ (k, (tags, c')) :: fs2))) by (rewrite map_app in *; exact ND).
  rewrite (sem_fields_decomp m pv dfs _ W ND dfs e (fun _ _ => eq_refl)).
  rewrite (sem_fields_decomp m pv dfs _ W' ND' dfs e (fun _ _ => eq_refl)). cbn [fst snd].
  rewrite !flat_map_app. cbn [flat_map].
  exists (contrib_entries m pv dfs (k, (tags, c))), (contrib_entries m pv dfs (k, (tags, c'))).
  split; [reflexivity|]. split; [reflexivity|].
  intros k' Hk'. rewrite !fold_left_app. cbn [fold_left].
  assert (Hn2 : ~ In k (map fst fs2)).
  { rewrite map_app in ND. cbn in ND. apply NoDup_remove_2 in ND. intros H. apply ND. apply in_or_app. now right. }
  rewrite (fold_place_move m pv dfs fs2 _ (k, (tags, c)) Hn2), (fold_place_move m pv dfs fs2 _ (k, (tags, c')) Hn2).
  unfold place at 1. unfold place at 3. cbn [fst]. rewrite !dlookup_dset_other by congruence. reflexivity.
Qed.


(** ** C09: the order in which a struct's fields are visited does not matter *)
Lemma fields_pt_free_Forall fs : fields_pt_free fs = true <-> Forall (fun f : field => pt_free (snd (snd f)) = true) fs.
Proof.
  induction fs as [|f r IH]; cbn; [split; [constructor | reflexivity]|].
  rewrite andb_true_iff, IH. split; [intros (A & B); now constructor | intros H; inversion H; tauto].
Qed.

Lemma fold_place_perm m pv dfs0 fs fs' : Permutation fs fs' -> NoDup (map fst fs) ->
  forall acc, fold_left (place m pv dfs0) fs acc = fold_left (place m pv dfs0) fs' acc.
Proof.
  induction 1 as [| f r r' HP IH | f g r | l1 l2 l3 H1 IH1 H2 IH2]; intros ND acc; cbn [fold_left].
  - reflexivity.
  - inversion ND; subst. now apply IH.
  - cbn in ND. inversion ND as [|? ? Hn Hd]; subst. f_equal. unfold place. apply dset_comm.
    intros E. apply Hn. left. now symmetry.
  - rewrite IH1 by exact ND. apply IH2. eapply Permutation_NoDup; [|exact ND]. now apply Permutation_map.
Qed.

Theorem fields_order_independent m pv fs fs' dfs e :
  Permutation fs fs' -> fields_pt_free fs = true -> NoDup (map fst fs) ->
  Permutation (fst (sem_fields (sem m) m pv fs dfs e)) (fst (sem_fields (sem m) m pv fs' dfs e))
  /\ snd (sem_fields (sem m) m pv fs dfs e) = snd (sem_fields (sem m) m pv fs' dfs e).
Proof.
  intros HP W ND.
  assert (W' : fields_pt_free fs' = true).
  { apply fields_pt_free_Forall. apply fields_pt_free_Forall in W. eapply Permutation_Forall; eassumption. }
  assert (ND' : NoDup (map fst fs')) by (eapply Permutation_NoDup; [apply Permutation_map; exact HP | exact ND]).
  rewrite (sem_fields_decomp m pv dfs fs W ND dfs e (fun _ _ => eq_refl)).
  rewrite (sem_fields_decomp m pv dfs fs' W' ND' dfs e (fun _ _ => eq_refl)). cbn [fst snd]. split.
  - now apply Permutation_flat_map.
  - now apply fold_place_perm.
Qed.

(** hence, at a struct node: the same destination, the same struct-level test verdicts (they see the
    same destination), and the same issues and callback invocations up to their order *)
Theorem struct_order_independent m fs fs' tests dat d e :
  Permutation fs fs' -> fields_pt_free fs = true -> NoDup (map fst fs) ->
  Permutation (fst (sem m (SStruct fs tests []) dat d e)) (fst (sem m (SStruct fs' tests []) dat d e))
  /\ snd (sem m (SStruct fs tests []) dat d e) = snd (sem m (SStruct fs' tests []) dat d e).
Proof.
  intros HP W ND. cbn [sem].
  assert (B : forall pv,
    Permutation (fst (let '(lf, dfs) := sem_fields (sem m) m pv fs (dstruct_fields d) e in
                      then_pts (fun (y : string) err => mk_unknown_issue y "struct" err) false [] e (lf ++ sem_tests_all "struct" tests (DStruct dfs), DStruct dfs)))
                (fst (let '(lf, dfs) := sem_fields (sem m) m pv fs' (dstruct_fields d) e in
                      then_pts (fun (y : string) err => mk_unknown_issue y "struct" err) false [] e (lf ++ sem_tests_all "struct" tests (DStruct dfs), DStruct dfs)))
    /\ snd (let '(lf, dfs) := sem_fields (sem m) m pv fs (dstruct_fields d) e in
            then_pts (fun (y : string) err => mk_unknown_issue y "struct" err) false [] e (lf ++ sem_tests_all "struct" tests (DStruct dfs), DStruct dfs))
       = snd (let '(lf, dfs) := sem_fields (sem m) m pv fs' (dstruct_fields d) e in
              then_pts (fun (y : string) err => mk_unknown_issue y "struct" err) false [] e (lf ++ sem_tests_all "struct" tests (DStruct dfs), DStruct dfs))).
  { intros pv. destruct (fields_order_independent m pv fs fs' (dstruct_fields d) e HP W ND) as (P & E).
    destruct (sem_fields (sem m) m pv fs (dstruct_fields d) e) as [lf dfs].
    destruct (sem_fields (sem m) m pv fs' (dstruct_fields d) e) as [lf' dfs']. cbn [fst snd] in *. subst dfs'.
    rewrite !then_pts_nil. cbn [fst snd]. split; [|reflexivity]. rewrite !app_nil_r. now apply Permutation_app_tail. }
  destruct m; [|apply B].
  destruct dat as [v|pv|[code err| |pv]]; try apply B.
  - destruct (provider_of_val v); [apply B | split; reflexivity].
  - split; reflexivity.
Qed.
