(** * Builder methods act locally and mean what they say (property C17). *)
From Coq Require Import String List ZArith Bool.
From Zog Require Import Model.Val Model.Engine Model.Preds Model.Builder.
Import ListNotations.
Open Scope string_scope.
Open Scope list_scope.

(** generalised invariant of the fold: from any state [s] *)
Lemma fold_tests cs : forall s,
  b_tests (fold_left bstep cs s) = b_tests s ++ denote_tests cs (b_not s)
  /\ b_not (fold_left bstep cs s) = pending_not cs (b_not s)
  /\ b_pts (fold_left bstep cs s) = b_pts s ++ pts_of cs.
Proof.
  induction cs as [|c cs IH]; intros s; cbn [fold_left denote_tests pending_not pts_of].
  - now rewrite !app_nil_r.
  - destruct (IH (bstep s c)) as (A & B & C). rewrite A, B, C.
    destruct c; cbn [bstep b_tests b_not b_pts]; rewrite <- ?app_assoc; repeat split; reflexivity.
Qed.

Theorem tests_denotation cs : b_tests (brun cs) = denote_tests cs false.
Proof. unfold brun. now destruct (fold_tests cs b0) as (A & _ & _). Qed.

Theorem pts_denotation cs : b_pts (brun cs) = pts_of cs.
Proof. unfold brun. now destruct (fold_tests cs b0) as (_ & _ & C). Qed.

Lemma fold_req cs : forall s, b_req (fold_left bstep cs s) = fold_left (fun acc c => match req_of c with Some v => v | None => acc end) cs (b_req s).
Proof. induction cs as [|c cs IH]; intros s; cbn [fold_left]; [reflexivity|]. rewrite IH. destruct c; reflexivity. Qed.
Lemma fold_def cs : forall s, b_def (fold_left bstep cs s) = fold_left (fun acc c => match def_of c with Some v => v | None => acc end) cs (b_def s).
Proof. induction cs as [|c cs IH]; intros s; cbn [fold_left]; [reflexivity|]. rewrite IH. destruct c; reflexivity. Qed.
Lemma fold_catch cs : forall s, b_catch (fold_left bstep cs s) = fold_left (fun acc c => match catch_of c with Some v => v | None => acc end) cs (b_catch s).
Proof. induction cs as [|c cs IH]; intros s; cbn [fold_left]; [reflexivity|]. rewrite IH. destruct c; reflexivity. Qed.

(** Required / Optional, Default and Catch: the last call wins *)
Theorem last_call_wins cs :
  b_req (brun cs) = last_some req_of cs /\ b_def (brun cs) = last_some def_of cs /\ b_catch (brun cs) = last_some catch_of cs.
Proof. unfold brun, last_some. rewrite fold_req, fold_def, fold_catch. repeat split. Qed.

Lemma last_some_app {A} (f : bcall -> option (option A)) cs c v : f c = Some v -> last_some f (cs ++ [c]) = v.
Proof. intros H. unfold last_some. rewrite fold_left_app. cbn. now rewrite H. Qed.

(** Not() negates exactly the next built-in test: right after [Not(); B] the test is the negation of
    B with the not_-prefixed code, whatever came before, and nothing is pending afterwards *)
Lemma not_negates_next_gen pre code params b o post : forall p,
  denote_tests (pre ++ CNot :: CBuiltin code params b o :: post) p
  = denote_tests pre p ++ mk_builtin true code params b o :: denote_tests post false.
Proof.
  induction pre as [|c pre IH]; intros p; cbn [app denote_tests]; [reflexivity|].
  destruct c; cbn [denote_tests app]; rewrite ?IH; reflexivity.
Qed.

Theorem not_negates_next pre code params b o post :
  denote_tests (pre ++ CNot :: CBuiltin code params b o :: post) false
  = denote_tests pre false ++ mk_builtin true code params b o :: denote_tests post false.
Proof. apply not_negates_next_gen. Qed.

(** the negated test fails precisely when the plain test passes, and reports the not_ code *)
Theorem negated_test_semantics code params b v :
  t_ok (mk_builtin true code params b no_opts) v = negb (t_ok (mk_builtin false code params b no_opts) v)
  /\ t_code (mk_builtin true code params b no_opts) = ("not_" ++ code)%string.
Proof. split; reflexivity. Qed.

(** a test that is not directly preceded by Not() (only other calls in between that do not touch the
    flag) is plain: the negation never reaches past the first built-in test after it *)
Theorem not_is_consumed pre code params b o code2 params2 b2 o2 mid post :
  (forall c, In c mid -> match c with CNot | CBuiltin _ _ _ _ => False | _ => True end) ->
  exists l1 l2, denote_tests (pre ++ CNot :: CBuiltin code params b o :: mid ++ CBuiltin code2 params2 b2 o2 :: post) false
              = l1 ++ mk_builtin true code params b o :: l2 ++ mk_builtin false code2 params2 b2 o2 :: denote_tests post false.
Proof.
  intros Hmid. rewrite not_negates_next.
  exists (denote_tests pre false).
  assert (K : forall p, exists l2, denote_tests (mid ++ CBuiltin code2 params2 b2 o2 :: post) p
                                    = l2 ++ mk_builtin p code2 params2 b2 o2 :: denote_tests post false).
  { induction mid as [|c mid IH]; intros p; cbn [app denote_tests].
    - exists []. reflexivity.
    - assert (Hc := Hmid c (or_introl eq_refl)).
      destruct (IH (fun c' H => Hmid c' (or_intror H)) p) as (l2 & E).
      destruct c; try contradiction; cbn [denote_tests]; rewrite E; eauto.
      exists (apply_opts o0 {| t_id := id; t_code := ""; t_ipath := None; t_msg := None; t_params := []; t_ok := f |} :: l2). reflexivity. }
  destruct (K false) as (l2 & E). exists l2. now rewrite E.
Qed.

(** options are local: the options given to one call appear in that call's test only *)
Theorem options_are_local pre code params b o post p :
  denote_tests (pre ++ CBuiltin code params b o :: post) p
  = denote_tests pre p ++ mk_builtin (pending_not pre p) code params b o :: denote_tests post false.
Proof.
  revert p. induction pre as [|c pre IH]; intros p; cbn [app denote_tests pending_not]; [reflexivity|].
  destruct c; cbn [denote_tests app pending_not]; rewrite ?IH; reflexivity.
Qed.

(** non-vacuity / examples *)
Example ex_not_chain :
  map t_code (denote_tests [CNot; CBuiltin "email" [] BEmail no_opts; CBuiltin "min" [] (BStrMin 3) no_opts] false) = ["not_email"; "min"].
Proof. reflexivity. Qed.
Example ex_not_skips_testfunc :
  map t_code (denote_tests [CNot; CTestFunc 1 (fun _ => true) no_opts; CBuiltin "email" [] BEmail no_opts; CBuiltin "uuid" [] BUUID no_opts] false)
  = [""; "not_email"; "uuid"].
Proof. reflexivity. Qed.
