(** * All input front ends are views of the same record (property C14; key resolution of C10). *)
From Coq Require Import String List ZArith Bool Ascii.
From Zog Require Import Model.Val Model.Engine Spec.Sem Proofs.Refine.
Import ListNotations.
Open Scope string_scope.
Open Scope list_scope.

(** ** which key names a field *)
Lemma field_key_source t tags k v : alookup t tags = Some v -> field_key (Some t) tags k = v.
Proof. intros H. unfold field_key. now rewrite H. Qed.
Lemma field_key_zog t tags k v : alookup t tags = None -> alookup "zog" tags = Some v -> field_key (Some t) tags k = v.
Proof. intros H1 H2. unfold field_key. now rewrite H1, H2. Qed.
Lemma field_key_fallback t tags k : alookup t tags = None -> alookup "zog" tags = None -> field_key (Some t) tags k = k.
Proof. intros H1 H2. unfold field_key. now rewrite H1, H2. Qed.
Lemma field_key_plain_zog tags k v : alookup "zog" tags = Some v -> field_key None tags k = v.
Proof. intros H. unfold field_key. now rewrite H. Qed.
Lemma field_key_plain_fallback tags k : alookup "zog" tags = None -> field_key None tags k = k.
Proof. intros H. unfold field_key. now rewrite H. Qed.

(** every provider reports the key it looked the field up under: its source tag, else zog, else the schema key *)
Lemma provider_key pv tags k :
  snd (get_by_field pv tags k) =
  match pv with
  | PEmpty => k
  | PMap tag _ => field_key tag tags k
  | PUrl tag _ => field_key (Some tag) tags k
  | PEnv _ => field_key (Some "env") tags k
  end.
Proof. destruct pv; reflexivity. Qed.

(** ** a factory is transparent: what matters is the provider it yields *)
Lemma factory_transparent_struct fs tests pts pv d :
  run Parse (SStruct fs tests pts) (DFactory (FProv pv)) d = run Parse (SStruct fs tests pts) (DProv pv) d.
Proof. reflexivity. Qed.
Lemma factory_transparent_ptr e nn pz pv d :
  run Parse (SPtr e nn pz) (DFactory (FProv pv)) d = run Parse (SPtr e nn pz) (DProv pv) d.
Proof. reflexivity. Qed.

(** ** two sources that present the same values for every field give the same destination and
    the same issues and callbacks, up to the key each source names the field with *)
Definition drop_head (r : rentry) : rentry :=
  match r with
  | RI (_ :: s) mk => RI s mk
  | RC (_ :: s) mk => RC s mk
  | x => x
  end.

Lemma drop_head_under k l : map drop_head (under k l) = l.
Proof. unfold under. rewrite map_map. rewrite <- (map_id l) at 2. apply map_ext. intros [s mk|s mk]; reflexivity. Qed.

Definition same_values (pv1 pv2 : prov) (fs : list (string * (list (string * string) * sch))) : Prop :=
  forall kc, In kc fs -> fst (get_by_field pv1 (fst (snd kc)) (fst kc)) = fst (get_by_field pv2 (fst (snd kc)) (fst kc)).

Lemma sem_fields_agree srec m pv1 pv2 : forall fs, same_values pv1 pv2 fs -> forall dfs e,
  snd (sem_fields srec m pv1 fs dfs e) = snd (sem_fields srec m pv2 fs dfs e)
  /\ map drop_head (fst (sem_fields srec m pv1 fs dfs e)) = map drop_head (fst (sem_fields srec m pv2 fs dfs e))
  /\ rerrored (fst (sem_fields srec m pv1 fs dfs e)) = rerrored (fst (sem_fields srec m pv2 fs dfs e)).
Proof.
  induction fs as [|[k [tags c]] r IH]; intros HS dfs e; cbn [sem_fields].
  - repeat split.
  - assert (Hk := HS (k, (tags, c)) (or_introl eq_refl)). cbn [fst snd] in Hk.
    assert (Hr : same_values pv1 pv2 r) by (intros kc Hin; apply HS; now right).
    destruct m.
    + destruct (get_by_field pv1 tags k) as [v1 fk1]. destruct (get_by_field pv2 tags k) as [v2 fk2]. cbn [fst] in Hk. subst v2.
      destruct (srec c (DVal v1) (dlookup k dfs) e) as [lk dk].
      destruct (IH Hr (dset k dk dfs) (e || rerrored lk)) as (A & B & C).
      destruct (sem_fields srec Parse pv1 r (dset k dk dfs) (e || rerrored lk)) as [lr1 dr1].
      destruct (sem_fields srec Parse pv2 r (dset k dk dfs) (e || rerrored lk)) as [lr2 dr2].
      cbn [fst snd] in *. repeat split.
      * exact A.
      * rewrite !map_app, !drop_head_under. now rewrite B.
      * rewrite !rerrored_app, !rerrored_under. now rewrite C.
    + destruct (srec c (DVal VNil) (dlookup k dfs) e) as [lk dk].
      destruct (IH Hr (dset k dk dfs) (e || rerrored lk)) as (A & B & C).
      destruct (sem_fields srec Validate pv1 r (dset k dk dfs) (e || rerrored lk)) as [lr1 dr1].
      destruct (sem_fields srec Validate pv2 r (dset k dk dfs) (e || rerrored lk)) as [lr2 dr2].
      cbn [fst snd] in *. repeat split.
      * exact A.
      * rewrite !map_app, !drop_head_under. now rewrite B.
      * rewrite !rerrored_app, !rerrored_under. now rewrite C.
Qed.

Lemma drop_head_top l : (forall r, In r l -> match r with RI s _ | RC s _ => s = [] end) -> map drop_head l = l.
Proof.
  induction l as [|[s mk|s mk] r IH]; intros H; cbn; [reflexivity| |];
    (rewrite IH by (intros x Hx; apply H; now right)); specialize (H _ (or_introl eq_refl)); cbn in H; now subst.
Qed.

Lemma sem_tests_all_top dtype ts v r : In r (sem_tests_all dtype ts v) -> match r with RI s _ | RC s _ => s = [] end.
Proof.
  unfold sem_tests_all. rewrite in_flat_map. intros (t & _ & H). unfold sem_test, rcall in H.
  apply in_app_or in H. destruct H as [H|H].
  - destruct (Nat.eqb (t_id t) 0); [contradiction|]. destruct H as [<-|[]]. reflexivity.
  - destruct (t_ok t v); [contradiction|]. destruct H as [<-|[]]. reflexivity.
Qed.

Lemma sem_pts_loop_top wrap sw ps : forall v r, In r (fst (sem_pts_loop wrap sw ps v)) -> match r with RI s _ | RC s _ => s = [] end.
Proof.
  induction ps as [|p ps IH]; intros v r; cbn [sem_pts_loop]; [intros []|].
  destruct (pt_fn p v) as [v1 [e|]].
  - cbn [fst]. intros H. apply in_app_or in H. destruct H as [H|H].
    + unfold rcall in H. destruct (Nat.eqb (pt_id p) 0); [contradiction|]. destruct H as [<-|[]]. reflexivity.
    + destruct sw; [contradiction|]. destruct H as [<-|[]]. reflexivity.
  - specialize (IH v1 r). destruct (sem_pts_loop wrap sw ps v1) as [l d']. cbn [fst] in *. intros H.
    apply in_app_or in H. destruct H as [H|H]; [|now apply IH].
    unfold rcall in H. destruct (Nat.eqb (pt_id p) 0); [contradiction|]. destruct H as [<-|[]]. reflexivity.
Qed.

Theorem struct_sources_agree fs tests pts pv1 pv2 d e0 : same_values pv1 pv2 fs ->
  snd (sem Parse (SStruct fs tests pts) (DProv pv1) d e0) = snd (sem Parse (SStruct fs tests pts) (DProv pv2) d e0)
  /\ map drop_head (fst (sem Parse (SStruct fs tests pts) (DProv pv1) d e0))
     = map drop_head (fst (sem Parse (SStruct fs tests pts) (DProv pv2) d e0)).
Proof.
  intros HS. cbn [sem].
  destruct (sem_fields_agree (sem Parse) Parse pv1 pv2 fs HS (dstruct_fields d) e0) as (A & B & C).
  destruct (sem_fields (sem Parse) Parse pv1 fs (dstruct_fields d) e0) as [l1 d1].
  destruct (sem_fields (sem Parse) Parse pv2 fs (dstruct_fields d) e0) as [l2 d2]. cbn [fst snd] in *. subst d2.
  unfold then_pts, sem_pts. rewrite !rerrored_app, C.
  set (tl := sem_tests_all "struct" tests (DStruct d1)).
  destruct (e0 || (rerrored l2 || rerrored tl)).
  - cbn [fst snd]. split; [reflexivity|]. rewrite !app_nil_r, !map_app. now rewrite B.
  - destruct (sem_pts_loop (fun (y : string) (e : uerr) => mk_unknown_issue y "struct" e) false pts (DStruct d1)) as [lp dp] eqn:E.
    cbn [fst snd]. split; [reflexivity|]. rewrite !map_app. now rewrite B.
Qed.

(** ** the recorded findings, as witnesses evaluated in the model (which mirrors the code) *)
Definition str_req : sch :=
  SPrim {| p_kind := KString; p_coerce := fun v => match v with VStr s => Some (DStr s) | _ => None end;
           p_req := Some {| t_id := 0; t_code := "required"; t_ipath := None; t_msg := None; t_params := []; t_ok := fun _ => true |};
           p_def := None; p_catch := None; p_tests := []; p_pts := [] |}.
Definition nested_schema : sch :=
  SStruct [("inner", ([("json", "inner")], SStruct [("first", ([("json", "first_name"); ("query", "first_name")], str_req))] [] []))] [] [].
Definition nested_dest : dval := DStruct [("inner", DStruct [("first", DStr "")])].

(** nested struct, JSON: the nested field is looked up under the schema key, not under its json tag *)
Lemma nested_source_tag_refuted :
  map i_path (o_issues (run Parse nested_schema (DFactory (FProv (PMap (Some "json") [("inner", VMap [("first_name", VStr "b")])]))) nested_dest))
  = ["inner.first"].
Proof. vm_compute. reflexivity. Qed.

(** nested struct, flat source: the nested struct receives a string and reports a coercion issue *)
Lemma nested_flat_source_refuted :
  map (fun i => (i_path i, i_code i)) (o_issues (run Parse nested_schema (DFactory (FProv (PUrl "query" [("first_name", ["b"])]))) nested_dest))
  = [("inner", "coerce")].
Proof. vm_compute. reflexivity. Qed.
