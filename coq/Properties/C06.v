(** Property C06 — no input data can make Parse panic. *)
From Coq Require Import String List Bool.
From Zog Require Import Model.Val Model.Engine Spec.Sem Proofs.Refine Model.Dyn Proofs.DynP.
Import ListNotations.
Open Scope string_scope.

(** Whatever value arrives at a struct position — named or unnamed maps with any key and element
    types, structs with exported and unexported fields, nil and typed-nil values, pointers of any
    depth with nil at any level, any other kind — turning it into a data provider returns normally
    (an unusable value is an error, reported as a coerce issue). *)
Theorem C06_try_provider_never_panics : forall g, exists r, try_provider g = Done r.
Proof. exact try_provider_never_panics. Qed.
Print Assumptions C06_try_provider_never_panics.

Theorem C06_lookup_never_panics : forall p k, exists b, lookup_present p k = Done b.
Proof. exact lookup_never_panics. Qed.
Print Assumptions C06_lookup_never_panics.

(** Schema keys of any length are valid configuration. *)
Theorem C06_field_name_never_panics : forall k, k <> "" -> exists n, field_name k = Done n.
Proof. exact field_name_never_panics_on_nonempty_keys. Qed.
Print Assumptions C06_field_name_never_panics.

Theorem C06_parse_struct_never_panics : forall g ks, Forall (fun k => k <> "") ks -> exists r, parse_struct g ks = Done r.
Proof. exact parse_struct_never_panics. Qed.
Print Assumptions C06_parse_struct_never_panics.

(** Below the provider layer the engine is a total function of the data: every dynamic value the
    coercers do not know ([VOther], lists and maps at scalar positions, NaN, invalid UTF-8) takes
    the error branch of a type switch and becomes a coerce issue; an empty JSON object and a decode
    failure are ordinary data for the root ([DFactory FNil], [DFactory (FErr ...)]).  The engine
    computes the context-free semantics on all of them. *)
Theorem C06_engine_total_on_all_data : forall m s dat d, run m s dat d = sem_run m s dat d.
Proof. exact run_is_sem_run. Qed.
Print Assumptions C06_engine_total_on_all_data.

(** regression witnesses of the repaired defects, on the legacy variants of the same functions *)
Theorem C06_legacy_named_map_panics : exists w, try_provider_legacy (GMap named_string_map false [("a", true)]) = Panic w.
Proof. exact legacy_named_map_panics. Qed.
Print Assumptions C06_legacy_named_map_panics.
Theorem C06_legacy_unexported_field_panics : exists w, lookup_present_legacy (DFields [("name", false, true)]) "name" = Panic w.
Proof. exact legacy_unexported_field_panics. Qed.
Print Assumptions C06_legacy_unexported_field_panics.
Theorem C06_legacy_long_key_panics : exists w, field_name_legacy "aVeryLongFieldNameThatIsLongerThanThirtyTwoBytes" = Panic w.
Proof. exact legacy_long_key_panics. Qed.
Print Assumptions C06_legacy_long_key_panics.

(** a field promoted from an embedded pointer that is nil is absent (FieldByName panicked on it) *)
Theorem C06_promoted_field_lookup_never_panics : forall bn p k, exists b, lookup_promoted bn p k = Done b.
Proof. exact lookup_promoted_never_panics. Qed.
Print Assumptions C06_promoted_field_lookup_never_panics.
Theorem C06_promoted_behind_nil_is_absent : forall bn p k, In k bn -> lookup_promoted bn p k = Done false.
Proof. exact promoted_behind_nil_is_absent. Qed.
Print Assumptions C06_promoted_behind_nil_is_absent.
Theorem C06_legacy_nil_embedded_pointer_panics : exists w, lookup_promoted_legacy ["name"] (DFields [("B", true, true)]) "name" = Panic w.
Proof. exact legacy_nil_embedded_pointer_panics. Qed.
Print Assumptions C06_legacy_nil_embedded_pointer_panics.

(** rendering an issue path is total (an empty key below another key made the legacy function index
    out of range); on every other path the two agree *)
Theorem C06_legacy_path_agrees_without_empty_segments : forall segs prev,
  Forall (fun v => v <> "") segs -> render_legacy prev segs = Done (render_from prev segs).
Proof. exact render_legacy_agrees_without_empty_segments. Qed.
Print Assumptions C06_legacy_path_agrees_without_empty_segments.
Theorem C06_legacy_empty_key_below_a_key_panics : exists w, render_legacy "" ["inner"; ""] = Panic w.
Proof. exact legacy_empty_key_below_a_key_panics. Qed.
Print Assumptions C06_legacy_empty_key_below_a_key_panics.
