(** Property C12 — user callbacks run at the documented times with the node's own value. *)
From Coq Require Import String List ZArith Bool.
From Zog Require Import Model.Val Model.Engine Spec.Sem Proofs.Refine Proofs.ExactP Model.Objects Proofs.ObjectsP Model.Options Proofs.OptionsP Proofs.CatchP.
Import ListNotations.

(** The engine's log of callback invocations is exactly the one the context-free semantics assigns:
    each callback at the path of the node it is attached to, with that node's value (the value
    itself for primitive tests, the destination for struct, slice, custom and PostTransform
    callbacks — the semantics has no other value to give), in both modes, at every depth. *)
Theorem C12_engine_computes_semantics : forall m s dat d, run m s dat d = sem_run m s dat d.
Proof. exact run_is_sem_run. Qed.
Print Assumptions C12_engine_computes_semantics.

Theorem C12_test_receives_the_tested_value : forall dtype t v, t_id t <> 0 ->
  exists rest, sem_test dtype t v = RC [] (fun p => mk_call p (t_id t) CbTest (Some v)) :: rest.
Proof. exact test_receives_the_tested_value. Qed.
Print Assumptions C12_test_receives_the_tested_value.

(** PostTransforms: declaration order, each at most once, up to and including the first error,
    which becomes one issue; none at all if an issue already exists *)
Theorem C12_pts_prefix_in_order : forall wrap sw ps v,
  exists k, ids (fst (sem_pts_loop wrap sw ps v)) = filter (fun i => negb (Nat.eqb i 0)) (map pt_id (firstn k ps))
            /\ length (codes (fst (sem_pts_loop wrap sw ps v))) <= 1.
Proof. exact pts_prefix_in_order. Qed.
Print Assumptions C12_pts_prefix_in_order.
Theorem C12_pts_skipped_when_an_issue_exists : forall wrap sw ps v, sem_pts wrap sw ps true v = ([], v).
Proof. exact pts_skipped_when_an_issue_exists. Qed.
Print Assumptions C12_pts_skipped_when_an_issue_exists.

(** a Preprocess error or type mismatch becomes an issue and skips the wrapped schema *)
Theorem C12_preprocess_error_skips_schema : forall pf e v d e0 err, pre_parse pf v = Some (inr err) ->
  sem Parse (SPre pf e) (DVal v) d e0 = ((rcall (pre_id pf) CbPre None ++ [RI [] (fun q => mk_unknown_issue q (sch_dtype e) err)])%list, d).
Proof. exact preprocess_error_skips_schema. Qed.
Print Assumptions C12_preprocess_error_skips_schema.
Theorem C12_preprocess_type_mismatch_skips_schema : forall pf e v d e0, pre_parse pf v = None ->
  sem Parse (SPre pf e) (DVal v) d e0 = ([RI [] (fun q => mk_coerce_issue q (sch_dtype e))], d).
Proof. exact preprocess_type_mismatch_skips_schema. Qed.
Print Assumptions C12_preprocess_type_mismatch_skips_schema.

(** ctx.Get inside any callback: exactly the values passed to this call through WithCtxValue *)
Theorem C12_ctx_values_are_this_calls : forall d errs f k v k',
  ctx_get (ctx_set (new_exec_ctx d errs f) k v) k' = if String.eqb k k' then Some v else None.
Proof. exact ctx_values_are_this_calls. Qed.
Print Assumptions C12_ctx_values_are_this_calls.

(** ... for any number of options in any order: ctx.Get(k) is the value of the call's last
    WithCtxValue(k, _), nil when the call passed none; nothing of the recycled context is visible *)
Theorem C12_ctx_get_is_the_calls_last_option : forall dirty opts k, ctx_value dirty opts k = last_ctx opts k.
Proof. exact ctx_value_is_last_option. Qed.
Print Assumptions C12_ctx_get_is_the_calls_last_option.
Theorem C12_ctx_last_call_wins : forall dirty before k v after,
  mentions after k = false -> ctx_value dirty (before ++ OCtx k v :: after) k = Some v.
Proof. exact ctx_last_call_wins. Qed.
Print Assumptions C12_ctx_last_call_wins.
Theorem C12_ctx_other_keys_nil : forall dirty opts k, mentions opts k = false -> ctx_value dirty opts k = None.
Proof. exact ctx_value_other_keys_nil. Qed.
Print Assumptions C12_ctx_other_keys_nil.

(** the PostTransforms of a catching node run when, and only when, no issue existed before the node:
    a caught failure of the node itself is not such an issue *)
Theorem C12_transforms_of_a_catching_node : forall m p dat d e0 c, p_catch p = Some c ->
  let v := snd (sem_prim m (without_pts p) dat d e0) in
  rerrored (fst (sem_prim m p dat d e0)) = false
  /\ snd (sem_prim m p dat d e0) =
     if e0 then v else snd (sem_pts_loop (fun q e => mk_unknown_issue q (dtype_of (p_kind p)) e) true (p_pts p) v).
Proof. exact catch_with_transforms. Qed.
Print Assumptions C12_transforms_of_a_catching_node.
(* CustomFunc as the execution root (its typed Parse / Validate): called once with the value the type assertion
   yields / the value that is there; a false verdict is one issue of type custom; the destination is that value *)
Theorem C12_custom_root_parse : forall conv t v x d e0, conv v = Some x ->
  sem Parse (SCustom conv t) (DVal v) d e0
  = ((rcall (t_id t) CbCustom (Some x) ++ (if t_ok t x then [] else [RI [] (fun q => mk_test_issue q "custom" t)]))%list, x).
Proof. exact custom_root_parse. Qed.
Print Assumptions C12_custom_root_parse.
Theorem C12_custom_root_wrong_type : forall conv t v d e0, conv v = None ->
  sem Parse (SCustom conv t) (DVal v) d e0 = ([RI [] (fun q => mk_coerce_issue q "custom")], d).
Proof. exact custom_root_wrong_type. Qed.
Print Assumptions C12_custom_root_wrong_type.
Theorem C12_custom_root_validate : forall conv t dat d e0,
  sem Validate (SCustom conv t) dat d e0
  = ((rcall (t_id t) CbCustom (Some d) ++ (if t_ok t d then [] else [RI [] (fun q => mk_test_issue q "custom" t)]))%list, d).
Proof. exact custom_root_validate. Qed.
Print Assumptions C12_custom_root_validate.
Theorem C12_custom_root_engine : forall conv t v x d, conv v = Some x ->
  o_dest (run Parse (SCustom conv t) (DVal v) d) = x /\
  (t_ok t x = true -> o_issues (run Parse (SCustom conv t) (DVal v) d) = []).
Proof. exact custom_root_engine. Qed.
Print Assumptions C12_custom_root_engine.
