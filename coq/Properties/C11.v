(** Property C11 — every issue is fully described and its message is chosen most-specific-first. *)
From Coq Require Import String List Bool.
From Zog Require Import Model.Val Model.Fmt Gen.Tables Proofs.FmtP.
Import ListNotations.
Open Scope string_scope.

(** For every built-in test of every schema type and every front end, as the running code produces
    them (Gen/Tables.v, regenerated on every check), in every shipped language: a non-empty
    template (or type fallback) whose placeholders are all parameters of that test.  Type "custom"
    is excluded: see [C11_custom_refuted]. *)
Theorem C11_catalogue_ok_partial : forall l m e, In (l, m) shipped -> In e catalogue -> fst (fst e) <> "custom" -> entry_ok m e = true.
Proof. exact catalogue_ok_partial. Qed.
Print Assumptions C11_catalogue_ok_partial.

Theorem C11_custom_refuted : entry_ok lang_en ("custom", "", []) = false /\ entry_ok lang_es ("custom", "", []) = false.
Proof. exact custom_refuted. Qed.
Print Assumptions C11_custom_refuted.

Theorem C11_no_placeholder_left : forall l m e, In (l, m) shipped -> In e catalogue -> fst (fst e) <> "custom" ->
  placeholders (sample_message m e) = [] /\ sample_message m e <> "".
Proof. exact no_placeholder_left. Qed.
Print Assumptions C11_no_placeholder_left.

Theorem C11_precedence_test : forall m e g, m <> "" -> choose_message (Some m) e g = m.
Proof. exact precedence_test. Qed.
Print Assumptions C11_precedence_test.
Theorem C11_precedence_exec : forall e g, choose_message None (Some e) g = e /\ choose_message (Some "") (Some e) g = e.
Proof. exact precedence_exec. Qed.
Print Assumptions C11_precedence_exec.
Theorem C11_precedence_global : forall g, choose_message None None g = g /\ choose_message (Some "") None g = g.
Proof. exact precedence_global. Qed.
Print Assumptions C11_precedence_global.

Theorem C11_i18n_uses_context_language : forall ls d l m dtype code ps v, alookup l ls = Some m ->
  i18n_format ls d (Some l) dtype code ps v = default_format m dtype code ps v.
Proof. exact i18n_uses_context_language. Qed.
Print Assumptions C11_i18n_uses_context_language.
Theorem C11_i18n_falls_back_to_default : forall ls d dtype code ps v m, alookup d ls = Some m ->
  i18n_format ls d None dtype code ps v = default_format m dtype code ps v
  /\ forall l, alookup l ls = None -> i18n_format ls d (Some l) dtype code ps v = default_format m dtype code ps v.
Proof. exact i18n_falls_back_to_default. Qed.
Print Assumptions C11_i18n_falls_back_to_default.
