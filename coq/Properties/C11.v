(** Property C11 — every issue is fully described and its message is chosen most-specific-first. *)
From Coq Require Import String List Bool.
From Zog Require Import Model.Val Model.Fmt Gen.Tables Proofs.FmtP Model.Options Proofs.OptionsP.
Import ListNotations.
Open Scope string_scope.

(** For every built-in test of every schema type, every front end and CustomFunc schemas, as the
    running code produces them (Gen/Tables.v, regenerated on every check), in every shipped
    language: a non-empty template (or type fallback) whose placeholders are all parameters of that
    test. *)
Theorem C11_catalogue_ok : forall l m e, In (l, m) shipped -> In e catalogue -> entry_ok m e = true.
Proof. exact catalogue_ok. Qed.
Print Assumptions C11_catalogue_ok.

(** the custom type is in the catalogue and described *)
Theorem C11_custom_described : existsb (fun e => String.eqb (fst (fst e)) "custom") catalogue = true
  /\ entry_ok lang_en ("custom", "", []) = true /\ entry_ok lang_es ("custom", "", []) = true.
Proof. exact (conj custom_in_catalogue custom_described). Qed.
Print Assumptions C11_custom_described.

(** before the repair the maps had no custom type: the message of a CustomFunc issue was empty *)
Theorem C11_legacy_custom_refuted : entry_ok (without_type "custom" lang_en) ("custom", "", []) = false
  /\ default_format (without_type "custom" lang_en) "custom" "custom" [] "" = "".
Proof. exact legacy_custom_refuted. Qed.
Print Assumptions C11_legacy_custom_refuted.

Theorem C11_no_placeholder_left : forall l m e, In (l, m) shipped -> In e catalogue ->
  placeholders (sample_message m e) = [] /\ sample_message m e <> "".
Proof. exact no_placeholder_left. Qed.
Print Assumptions C11_no_placeholder_left.

Theorem C11_precedence_test : forall m e g, m <> "" -> choose_message (Some m) e g = m.
Proof. exact precedence_test. Qed.
Print Assumptions C11_precedence_test.
Theorem C11_precedence_exec : forall e g, choose_message None (Some e) g = e /\ choose_message (Some "") (Some e) g = e.
Proof. exact precedence_exec. Qed.
Print Assumptions C11_precedence_exec.
Theorem C11_precedence_global : forall g, choose_message None None g = g /\ choose_message (Some "") None g = g.
Proof. exact precedence_global. Qed.
Print Assumptions C11_precedence_global.

Theorem C11_i18n_uses_context_language : forall ls d l m dtype code ps v, alookup l ls = Some m ->
  i18n_format ls d (Some l) dtype code ps v = default_format m dtype code ps v.
Proof. exact i18n_uses_context_language. Qed.
Print Assumptions C11_i18n_uses_context_language.
Theorem C11_i18n_falls_back_to_default : forall ls d dtype code ps v m, alookup d ls = Some m ->
  i18n_format ls d None dtype code ps v = default_format m dtype code ps v
  /\ forall l, alookup l ls = None -> i18n_format ls d (Some l) dtype code ps v = default_format m dtype code ps v.
Proof. exact i18n_falls_back_to_default. Qed.
Print Assumptions C11_i18n_falls_back_to_default.

(** the execution-level formatter is the one of the call's last WithIssueFormatter option *)
Theorem C11_call_formatter_is_last_option : forall opts, call_fmt opts = last_fmt opts.
Proof. exact call_fmt_is_last_option. Qed.
Print Assumptions C11_call_formatter_is_last_option.
