(** Property C04 — Required, Optional and Default decide what an absent value means. *)
From Coq Require Import String List ZArith Bool.
From Zog Require Import Model.Val Model.Engine Spec.Sem Proofs.Refine Proofs.AbsentP.
Import ListNotations.

(** In Parse a value is absent iff it is nil (a missing key reads as nil) or a string consisting
    only of Go's white-space code points (in UTF-8); 0, false and the zero time are present. *)
Theorem C04_parse_absent_iff : forall v, parse_zero v = true <-> v = VNil \/ exists s, v = VStr s /\ all_spaces s.
Proof. exact parse_absent_iff. Qed.
Print Assumptions C04_parse_absent_iff.
Theorem C04_falsy_values_are_present : parse_zero (VInt 0) = false /\ parse_zero (VBool false) = false /\ parse_zero (VTime go_zero_time) = false
                                       /\ parse_zero (VF64 (Floats.SpecFloat.S754_zero false)) = false /\ parse_zero (VList []) = false.
Proof. exact falsy_values_are_present. Qed.
Print Assumptions C04_falsy_values_are_present.
Theorem C04_validate_absent_examples : go_zero (DSlice []) = true /\ go_zero (DPtr None) = true /\ go_zero (DStr "") = true /\ go_zero (DInt 0) = true
                                       /\ go_zero (DBool false) = true /\ go_zero (DTime go_zero_time) = true /\ go_zero (DStr " ") = false.
Proof. exact validate_absent_examples. Qed.
Print Assumptions C04_validate_absent_examples.

(** the decision table, primitive nodes (both modes; "absent" as the mode defines it) *)
Theorem C04_absent_default : forall m p dat d e0, p_pts p = [] -> forall dv,
  match m with Parse => parse_zero dat | Validate => go_zero d end = true -> p_def p = Some dv ->
  sem_prim m p dat d e0 = ((fst (sem_prim_tests (dtype_of (p_kind p)) (p_tests p) (p_catch p) dv) ++ [])%list,
                           snd (sem_prim_tests (dtype_of (p_kind p)) (p_tests p) (p_catch p) dv)).
Proof. exact absent_default. Qed.
Print Assumptions C04_absent_default.
Theorem C04_absent_required : forall m p dat d e0, p_pts p = [] -> forall rt,
  match m with Parse => parse_zero dat | Validate => go_zero d end = true -> p_def p = None -> p_req p = Some rt -> p_catch p = None ->
  sem_prim m p dat d e0 = ([RI [] (fun q => mk_test_issue q (dtype_of (p_kind p)) rt)], d).
Proof. exact absent_required. Qed.
Print Assumptions C04_absent_required.
Theorem C04_absent_optional : forall m p dat d e0, p_pts p = [] ->
  match m with Parse => parse_zero dat | Validate => go_zero d end = true -> p_def p = None -> p_req p = None ->
  sem_prim m p dat d e0 = ([], d).
Proof. exact absent_optional. Qed.
Print Assumptions C04_absent_optional.

(** slices and pointers *)
Theorem C04_slice_absent_required : forall m e c dat d e0 rt, sl_pts c = [] -> sl_def c = None -> sl_req c = Some rt ->
  match m with Parse => parse_zero (data_val dat) = true | Validate => dslice_items d = [] end ->
  sem m (SSlice e c) dat d e0 = ([RI [] (fun q => mk_test_issue q "slice" rt)], d).
Proof. exact slice_absent_required. Qed.
Print Assumptions C04_slice_absent_required.
Theorem C04_slice_absent_optional : forall m e c dat d e0, sl_pts c = [] -> sl_def c = None -> sl_req c = None ->
  match m with Parse => parse_zero (data_val dat) = true | Validate => dslice_items d = [] end ->
  sem m (SSlice e c) dat d e0 = ([], d).
Proof. exact slice_absent_optional. Qed.
Print Assumptions C04_slice_absent_optional.
Theorem C04_ptr_absent_notnil : forall e rt pz v d e0, parse_zero v = true ->
  sem Parse (SPtr e (Some rt) pz) (DVal v) d e0 = ([RI [] (fun q => mk_test_issue q (sch_dtype e) rt)], d)
  /\ sem Validate (SPtr e (Some rt) pz) (DVal v) (DPtr None) e0 = ([RI [] (fun q => mk_test_issue q (sch_dtype e) rt)], DPtr None).
Proof. exact ptr_absent_notnil. Qed.
Print Assumptions C04_ptr_absent_notnil.
Theorem C04_ptr_absent_optional : forall e pz v d e0, parse_zero v = true ->
  sem Parse (SPtr e None pz) (DVal v) d e0 = ([], d) /\ sem Validate (SPtr e None pz) (DVal v) (DPtr None) e0 = ([], DPtr None).
Proof. exact ptr_absent_optional. Qed.
Print Assumptions C04_ptr_absent_optional.

(** at every nesting depth: the engine computes this semantics node by node *)
Theorem C04_engine_computes_semantics : forall m s dat d, run m s dat d = sem_run m s dat d.
Proof. exact run_is_sem_run. Qed.
Print Assumptions C04_engine_computes_semantics.

(** Preprocess: what is absent is decided on the function's output, by the rule of the mode — the
    wrapped schema parses that output as its input (Parse) or validates it in place (Validate) *)
Theorem C04_preprocess_output_is_parsed : forall pf e v v' d e0, pre_parse pf v = Some (inl v') ->
  sem Parse (SPre pf e) (DVal v) d e0
  = ((rcall (pre_id pf) CbPre None ++ fst (sem Parse e (DVal v') d e0))%list, snd (sem Parse e (DVal v') d e0)).
Proof. exact preprocess_output_is_parsed. Qed.
Print Assumptions C04_preprocess_output_is_parsed.
Theorem C04_preprocess_output_is_validated : forall pf e dat d d' e0, pre_valid pf d = inl d' ->
  sem Validate (SPre pf e) dat d e0
  = ((rcall (pre_id pf) CbPre (Some d) ++ fst (sem Validate e (DVal VNil) d' e0))%list, snd (sem Validate e (DVal VNil) d' e0)).
Proof. exact preprocess_output_is_validated. Qed.
Print Assumptions C04_preprocess_output_is_validated.
Theorem C04_preprocess_blank_output_is_absent : forall pf p v v' d e0 rt, pre_parse pf v = Some (inl v') -> parse_zero v' = true ->
  p_def p = None -> p_req p = Some rt -> p_catch p = None -> p_pts p = [] ->
  sem Parse (SPre pf (SPrim p)) (DVal v) d e0
  = ((rcall (pre_id pf) CbPre None ++ [RI [] (fun q => mk_test_issue q (dtype_of (p_kind p)) rt)])%list, d).
Proof. exact preprocess_blank_output_is_absent. Qed.
Print Assumptions C04_preprocess_blank_output_is_absent.
(* a pointer whose input is there hands it on as it is; a Preprocess behind it decides absence again, on its own
   output, by the wrapped schema's modifiers *)
Theorem C04_ptr_present_hands_input_on : forall e nn pz v d e0, parse_zero v = false ->
  sem Parse (SPtr e nn pz) (DVal v) d e0 =
  (fst (sem Parse e (DVal v) (match d with DPtr (Some y) => y | _ => pz end) e0),
   DPtr (Some (snd (sem Parse e (DVal v) (match d with DPtr (Some y) => y | _ => pz end) e0)))).
Proof. exact ptr_present_hands_input_on. Qed.
Print Assumptions C04_ptr_present_hands_input_on.
Theorem C04_preprocess_blank_output_behind_pointer : forall pf p nn pz v v' d e0 rt,
  parse_zero v = false -> pre_parse pf v = Some (inl v') -> parse_zero v' = true ->
  p_def p = None -> p_req p = Some rt -> p_catch p = None -> p_pts p = [] ->
  fst (sem Parse (SPtr (SPre pf (SPrim p)) nn pz) (DVal v) d e0)
  = (rcall (pre_id pf) CbPre None ++ [RI [] (fun q => mk_test_issue q (dtype_of (p_kind p)) rt)])%list.
Proof. exact preprocess_blank_output_behind_pointer. Qed.
Print Assumptions C04_preprocess_blank_output_behind_pointer.
