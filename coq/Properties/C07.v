(** Property C07 — each execution is isolated from every other execution. *)
From Coq Require Import String List Arith Bool.
From Zog Require Import Model.Val Model.Engine Spec.Sem Proofs.Refine Model.Objects Proofs.ObjectsP Model.Options Proofs.OptionsP.
Import ListNotations.

(** Whatever objects the pools are recycling — for all contents of every field of the object handed
    out — each acquisition yields the object a freshly allocated one would have yielded. *)
Theorem C07_reinit_zog_issue : forall d1 d2, new_zog_issue d1 = new_zog_issue d2.
Proof. exact reinit_zog_issue. Qed.
Print Assumptions C07_reinit_zog_issue.
Theorem C07_reinit_ctx_issue : forall d1 d2 p t v, ctx_issue d1 p t v = ctx_issue d2 p t v.
Proof. exact reinit_ctx_issue. Qed.
Print Assumptions C07_reinit_ctx_issue.
Theorem C07_reinit_issue_from_test : forall d1 d2 c ps ip f p t v, issue_from_test d1 c ps ip f p t v = issue_from_test d2 c ps ip f p t v.
Proof. exact reinit_issue_from_test. Qed.
Print Assumptions C07_reinit_issue_from_test.
Theorem C07_reinit_issue_from_coerce : forall d1 d2 p t v e, issue_from_coerce d1 p t v e = issue_from_coerce d2 p t v e.
Proof. exact reinit_issue_from_coerce. Qed.
Print Assumptions C07_reinit_issue_from_coerce.
Theorem C07_reinit_exec_ctx : forall d1 d2 errs f, new_exec_ctx d1 errs f = new_exec_ctx d2 errs f.
Proof. exact reinit_exec_ctx. Qed.
Print Assumptions C07_reinit_exec_ctx.
Theorem C07_reinit_schema_ctx : forall d1 d2 v dst p t,
  sctx_same_but_test (new_schema_ctx d1 v dst p t) (new_schema_ctx d2 v dst p t)
  /\ s_cancatch (new_schema_ctx d1 v dst p t) = false /\ s_exit (new_schema_ctx d1 v dst p t) = false.
Proof. exact reinit_schema_ctx. Qed.
Print Assumptions C07_reinit_schema_ctx.
Theorem C07_reinit_validate_schema_ctx : forall d1 d2 v p t,
  sctx_same_but_test (new_validate_schema_ctx d1 v p t) (new_validate_schema_ctx d2 v p t)
  /\ s_cancatch (new_validate_schema_ctx d1 v p t) = false /\ s_exit (new_validate_schema_ctx d1 v p t) = false.
Proof. exact reinit_validate_schema_ctx. Qed.
Print Assumptions C07_reinit_validate_schema_ctx.

(** Context values: a new execution sees none, then exactly those its own options set. *)
Theorem C07_fresh_ctx_has_no_values : forall d errs f k, ctx_get (new_exec_ctx d errs f) k = None.
Proof. exact fresh_ctx_has_no_values. Qed.
Print Assumptions C07_fresh_ctx_has_no_values.

(** For every history of executions and collections that respects the API contract, and every
    choice the pools make: no object is pooled twice, no object a caller still holds is pooled, and
    all objects callers hold are distinct — so no later execution can be handed an issue that an
    earlier result still refers to. *)
Theorem C07_pools_stay_linear : forall ops, collects_ok {| pool := []; live := []; next := 0 |} ops -> PInv (hrun ops).
Proof. exact pools_stay_linear. Qed.
Print Assumptions C07_pools_stay_linear.
Theorem C07_held_issues_are_distinct_and_not_pooled : forall ops, collects_ok {| pool := []; live := []; next := 0 |} ops ->
  NoDup (live (hrun ops)) /\ forall a, In a (live (hrun ops)) -> ~ In a (pool (hrun ops)).
Proof. exact held_issues_are_distinct_and_not_pooled. Qed.
Print Assumptions C07_held_issues_are_distinct_and_not_pooled.

(** The engine's result is a function of the schema, the data, the destination and the options of
    this call: the context-free semantics has no other input. *)
Theorem C07_result_is_a_function_of_this_call : forall m s dat d, run m s dat d = sem_run m s dat d.
Proof. exact run_is_sem_run. Qed.
Print Assumptions C07_result_is_a_function_of_this_call.

(** regression witnesses of the three repaired defects, on the legacy variants *)
Theorem C07_legacy_collect_map_refuted :
  let ops := [HCall [(None, false); (None, false)]; HCollectMapLegacy 0 [0; 1]; HCall [(Some 0, false); (Some 1, false)]] in
  live (hrun ops) = [0; 0].
Proof. exact legacy_collect_map_refuted. Qed.
Print Assumptions C07_legacy_collect_map_refuted.

(** the execution options of a call decide its context values and its formatter, whatever the
    recycled execution context held; a context map kept from the previous call is visible (witness) *)
Theorem C07_ctx_values_ignore_recycled_context : forall d1 d2 opts k, ctx_value d1 opts k = ctx_value d2 opts k.
Proof. exact ctx_value_ignores_recycled. Qed.
Print Assumptions C07_ctx_values_ignore_recycled_context.
Theorem C07_legacy_ctx_refuted :
  mget (e_vals (call_ctx_legacy {| e_fmt := None; e_vals := [("tenant", "A")] |} [])) "tenant" = Some "A"
  /\ ctx_value {| e_fmt := None; e_vals := [("tenant", "A")] |} [] "tenant" = None.
Proof. exact legacy_ctx_refuted. Qed.
Print Assumptions C07_legacy_ctx_refuted.
