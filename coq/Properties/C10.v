(** Property C10 — the issue map is well-formed and addresses every issue by its path. *)
From Coq Require Import String List Bool.
From Zog Require Import Model.Val Model.Engine Spec.Sem Proofs.Refine Proofs.ErrsP Proofs.FrontEndsP.
Import ListNotations.
Open Scope string_scope.

(** For every sequence of recorded issues: each appears exactly once, under the key equal to its
    path ("$root" for the empty path) and under no other key, in recording order; "$first" holds
    exactly the first one.  (Hypothesis: no issue's own path is the reserved key "$first".) *)
Theorem C10_map_wf : forall l, Forall (fun i => ikey i <> "$first") l ->
  (l = [] -> errs_map l = None)
  /\ (forall k, k <> "$first" -> lookup_map (errs_map l) k = match at_key k l with [] => None | g => Some g end)
  /\ (forall i r, l = i :: r -> lookup_map (errs_map l) "$first" = Some [i]).
Proof. exact errs_map_spec. Qed.
Print Assumptions C10_map_wf.

(** the path: the chain of keys joined by '.', slice positions written [i] (keys non-empty) *)
Theorem C10_paths : forall ks, Forall (fun k => is_empty k = false) ks -> render (rev ks ++ [""]) = join_path ks.
Proof. exact render_pushes. Qed.
Print Assumptions C10_paths.

(** SanitizeList / SanitizeMap: the same keys, every list of the same length and order, carrying
    exactly the messages of the issues *)
Theorem C10_sanitize : forall (msg : issue -> string) (m : imap),
  map fst (sanitize_map msg m) = map fst m
  /\ (forall k, alookup k (sanitize_map msg m) = option_map (sanitize_list msg) (alookup k m))
  /\ (forall l, length (sanitize_list msg l) = length l)
  /\ (forall l n d, n < length l -> nth n (sanitize_list msg l) (msg d) = msg (nth n l d)).
Proof. exact sanitize_spec. Qed.
Print Assumptions C10_sanitize.

(** which key: the source's own tag, else `zog`, else the schema key *)
Theorem C10_field_key : forall pv tags k,
  snd (get_by_field pv tags k) =
  match pv with
  | PEmpty => k
  | PMap tag _ => field_key tag tags k
  | PUrl tag _ => field_key (Some tag) tags k
  | PEnv _ => field_key (Some "env") tags k
  end.
Proof. exact provider_key. Qed.
Print Assumptions C10_field_key.

(** "at every nesting depth" is refuted by the code for the source-specific tag: recorded finding
    C10/nested-source-tag (the nested field is keyed by its schema key, not by its json tag) *)
Theorem C10_nested_source_tag_refuted :
  map i_path (o_issues (run Parse nested_schema (DFactory (FProv (PMap (Some "json") [("inner", VMap [("first_name", VStr "b")])]))) nested_dest))
  = ["inner.first"].
Proof. exact nested_source_tag_refuted. Qed.
Print Assumptions C10_nested_source_tag_refuted.

(** the engine pushes and pops its path stack so that every issue carries the chain the semantics assigns *)
Theorem C10_engine_computes_semantics : forall m s dat d, run m s dat d = sem_run m s dat d.
Proof. exact run_is_sem_run. Qed.
Print Assumptions C10_engine_computes_semantics.
