(** Property C13 — theorems only; proofs live in Proofs/. *)
From Coq Require Import String List.
From Zog Require Import Model.Val Model.Engine Spec.Sem Proofs.Refine.

(** The executable engine (flags, shared child context, mutable path stack, one issue log) computes
    exactly the context-free semantics, for every schema, mode, input and destination. *)
Theorem C13_engine_computes_semantics : forall m s dat d, run m s dat d = sem_run m s dat d.
Proof. exact run_is_sem_run. Qed.
Print Assumptions C13_engine_computes_semantics.
