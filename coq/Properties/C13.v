(** Property C13 — theorems only; proofs live in Proofs/. *)
From Coq Require Import String List.
From Zog Require Import Model.Val Model.Engine Model.Coerce Spec.Sem Proofs.Refine Proofs.ModesP.

(** Parse and Validate agree: for every schema without Preprocess and every fully populated,
    correctly typed value [d], parsing the data form of [d] into a fresh destination and validating
    [d] in place produce the same entries (issues and callback invocations with their relative
    paths) and the same final value — from any incoming "already errored" state. *)
Theorem C13_modes_agree : forall s d e0, populated s d ->
  sem Parse s (DVal (to_data s d)) (fresh s d) e0 = sem Validate s (DVal VNil) d e0.
Proof. exact modes_agree. Qed.
Print Assumptions C13_modes_agree.

(** the same for the executable engine the harness runs against the code *)
Theorem C13_engine_modes_agree : forall s d, populated s d ->
  run Parse s (DVal (to_data s d)) (fresh s d) = run Validate s (DVal VNil) d.
Proof. exact engine_modes_agree. Qed.
Print Assumptions C13_engine_modes_agree.

(** the default coercers are the identity on a value that already has the node's type, which is the
    [p_coerce] premise of [populated] for schemas built with the default coercers *)
Theorem C13_default_coercers_are_identity_on_typed_values : forall o l,
  (forall s, coerce_default o l KString (VStr s) = Some (DStr s))
  /\ (forall b, coerce_default o l KBool (VBool b) = Some (DBool b))
  /\ (forall z, coerce_default o l KInt (VInt z) = Some (DInt z))
  /\ (forall z, coerce_default o l KInt64 (VInt z) = Some (DInt z))
  /\ (forall z, in_int32 z = true -> coerce_default o l KInt32 (VInt z) = Some (DInt z))
  /\ (forall f, coerce_default o l KFloat64 (VF64 f) = Some (DFloat f))
  /\ (forall t, coerce_default o l KTime (VTime t) = Some (DTime t)).
Proof. exact default_coercers_are_identity_on_typed_values. Qed.
Print Assumptions C13_default_coercers_are_identity_on_typed_values.

(** the premise is satisfiable by a non-trivial value *)
Theorem C13_premise_is_satisfiable : populated ex_schema ex_value.
Proof. exact populated_holds_somewhere. Qed.
Print Assumptions C13_premise_is_satisfiable.

(** The executable engine (flags, shared child context, mutable path stack, one issue log) computes
    exactly the context-free semantics, for every schema, mode, input and destination. *)
Theorem C13_engine_computes_semantics : forall m s dat d, run m s dat d = sem_run m s dat d.
Proof. exact run_is_sem_run. Qed.
Print Assumptions C13_engine_computes_semantics.
