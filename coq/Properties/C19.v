(** Property C19 — executions never modify the schema or the input. *)
From Coq Require Import String List Arith Bool.
From Zog Require Import Model.Val Model.Engine Spec.Sem Model.SliceHeap Proofs.PurityP.
Import ListNotations.

(** Slice-valued defaults: for every sequence of executions with destination-mutating
    PostTransforms, and whatever the callers later write through the results they were handed, the
    schema's default array is never changed ... *)
Theorem C19_default_never_changes : forall dflt ops, nth default_id (hp (run dflt ops)) [] = dflt.
Proof. exact default_never_changes. Qed.
Print Assumptions C19_default_never_changes.

(** ... and every execution starts from that same default: the n-th use equals the first. *)
Theorem C19_every_use_like_the_first : forall dflt ops,
  Forall2 (fun o r => match o with Exec pt => r = pt dflt | _ => True end)
          (filter (fun o => match o with Exec _ => true | _ => false end) ops) (produced (init dflt) ops).
Proof. exact every_use_like_the_first. Qed.
Print Assumptions C19_every_use_like_the_first.

(** the aliasing the repair of SliceSchema.validate removed (regression witness on the legacy step) *)
Theorem C19_legacy_alias_refuted :
  nth default_id (hp (run_legacy [1; 2] [Exec (fun l => l); Scribble 0 (fun _ => [9; 9])])) [] = [9; 9]
  /\ nth default_id (hp (run [1; 2] [Exec (fun l => l); Scribble 0 (fun _ => [9; 9])])) [] = [1; 2].
Proof. exact legacy_alias_refuted. Qed.
Print Assumptions C19_legacy_alias_refuted.

(** Validate changes the validated value only through Default, Catch and PostTransform (and
    Preprocess): on a schema that has none of them the value is returned as it was, at every depth,
    whatever issues are found. *)
Theorem C19_validate_writes_only_through_default_catch_pt : forall s dat d e0,
  writer_free s = true -> typed s d = true -> snd (sem Validate s dat d e0) = d.
Proof. exact validate_writes_only_through_default_catch_pt. Qed.
Print Assumptions C19_validate_writes_only_through_default_catch_pt.
