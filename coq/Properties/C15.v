(** Property C15 — zhttp picks the documented source and reports undecodable requests as one issue. *)
From Coq Require Import String List Bool Ascii.
From Zog Require Import Model.Val Model.Engine Model.Http Proofs.HttpP.
Import ListNotations.
Open Scope string_scope.

(** GET and HEAD always read the query parameters, whatever the Content-Type. *)
Theorem C15_get_head_query : forall ct, http_source "GET" ct = SrcQuery /\ http_source "HEAD" ct = SrcQuery.
Proof. exact get_head_query. Qed.
Print Assumptions C15_get_head_query.

(** Every other method dispatches on the media type = the text before the first ';'. *)
Theorem C15_other_methods : forall m ct, m <> "GET" -> m <> "HEAD" -> http_source m ct = by_media_type (before_semi ct).
Proof. exact other_methods. Qed.
Print Assumptions C15_other_methods.

(** JSON (form) is chosen exactly when the media type is application/json (x-www-form-urlencoded),
    [media_is]: compared case-insensitively after trimming white space. *)
Theorem C15_json_iff : forall m ct, http_source m ct = SrcJSON <-> (m <> "GET" /\ m <> "HEAD" /\ media_is "application/json" (before_semi ct) = true).
Proof. exact source_json_iff. Qed.
Print Assumptions C15_json_iff.

Theorem C15_form_iff : forall m ct, http_source m ct = SrcForm <->
  (m <> "GET" /\ m <> "HEAD" /\ media_is "application/json" (before_semi ct) = false
   /\ media_is "application/x-www-form-urlencoded" (before_semi ct) = true).
Proof. exact source_form_iff. Qed.
Print Assumptions C15_form_iff.

(** every spelling of a media type that RFC 9110 allows is recognised: any case, white space around it *)
Theorem C15_media_type_every_spelling : forall t l core r,
  starts_visible t = true -> ws_only l = true -> ws_only r = true -> lower_str core = t ->
  media_is t (l ++ core ++ r) = true.
Proof. exact media_is_accepts_every_spelling. Qed.
Print Assumptions C15_media_type_every_spelling.

(** and among ASCII texts nothing else is *)
Theorem C15_media_type_only_spellings : forall t s, all_ascii s = true -> media_is t s = true ->
  exists l core r, s = l ++ core ++ r /\ ws_only l = true /\ ws_only r = true /\ lower_str core = t.
Proof. exact media_is_ascii_only_spellings. Qed.
Print Assumptions C15_media_type_only_spellings.

(** the dispatch as it was before the repair (byte-for-byte comparison) sent an RFC spelling to the query *)
Theorem C15_legacy_dispatch_refuted : exists ct,
  by_media_type_legacy (before_semi ct) = SrcQuery /\ by_media_type (before_semi ct) = SrcJSON.
Proof. exact legacy_dispatch_refuted. Qed.
Print Assumptions C15_legacy_dispatch_refuted.

(** Parameters (charset, boundary, anything) after the media type are ignored — for all strings. *)
Theorem C15_params_ignored : forall m mt ps, no_semi mt = true -> http_source m (mt ++ String ";"%char ps) = http_source m mt.
Proof. exact params_ignored. Qed.
Print Assumptions C15_params_ignored.

(** A body that cannot be decoded yields exactly one root issue with the front end's code; the
    schema does not run and the destination is untouched. *)
Theorem C15_decode_failure_struct : forall fs tests pts code err d,
  run Parse (SStruct fs tests pts) (DFactory (FErr code err)) d
  = {| o_issues := [mk_factory_issue code err "struct"]; o_calls := []; o_dest := d |}.
Proof. exact decode_failure_struct. Qed.
Print Assumptions C15_decode_failure_struct.

Theorem C15_decode_failure_ptr : forall e nn pz code err d,
  run Parse (SPtr e nn pz) (DFactory (FErr code err)) d
  = {| o_issues := [mk_factory_issue code err (sch_dtype e)]; o_calls := []; o_dest := d |}.
Proof. exact decode_failure_ptr. Qed.
Print Assumptions C15_decode_failure_ptr.

(** `{}` decodes to the record in which every field is absent. *)
Theorem C15_empty_object : forall fs tests pts d,
  run Parse (SStruct fs tests pts) (DFactory FNil) d = run Parse (SStruct fs tests pts) (DProv PEmpty) d
  /\ run Parse (SStruct fs tests pts) (DFactory FNil) d = run Parse (SStruct fs tests pts) (DVal (VMap [])) d.
Proof. exact empty_object_struct. Qed.
Print Assumptions C15_empty_object.

(** URL parameters: missing => absent, single => string, repeated or []-suffixed => list. *)
Theorem C15_url_missing : forall m k, alookup k m = None -> parse_zero (url_get m k) = true.
Proof. exact url_get_missing. Qed.
Print Assumptions C15_url_missing.
Theorem C15_url_single : forall m k a, has_suffix_brackets k = false -> alookup k m = Some [a] -> url_get m k = VStr a.
Proof. exact url_get_single. Qed.
Print Assumptions C15_url_single.
Theorem C15_url_repeated : forall m k a b r, has_suffix_brackets k = false -> alookup k m = Some (a :: b :: r) ->
  url_get m k = VList (map VStr (a :: b :: r)).
Proof. exact url_get_repeated. Qed.
Print Assumptions C15_url_repeated.
Theorem C15_url_brackets : forall m k vs, has_suffix_brackets k = true -> alookup k m = Some vs -> url_get m k = VList (map VStr vs).
Proof. exact url_get_brackets. Qed.
Print Assumptions C15_url_brackets.

(** non-vacuity: a concrete Content-Type with parameters *)
Example C15_example : http_source "POST" "application/json; charset=utf-8" = SrcJSON
                      /\ http_source "PUT" "application/x-www-form-urlencoded;charset=UTF-8" = SrcForm
                      /\ http_source "DELETE" "text/plain" = SrcQuery
                      /\ http_source "PATCH" " Application/JSON ;charset=utf-8" = SrcJSON.
Proof. repeat split. Qed.
