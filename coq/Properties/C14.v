(** Property C14 — all input front ends are equivalent views of the same record. *)
From Coq Require Import String List ZArith Bool.
From Zog Require Import Model.Val Model.Engine Model.Http Model.Trim Spec.Sem Proofs.Refine Proofs.FrontEndsP Proofs.TrimP.
Import ListNotations.
Open Scope string_scope.

(** Two sources (a Go map, a decoded JSON object, a URL-encoded form or query, the environment)
    that present the same value for every field of a struct schema produce the same destination
    and the same issues and callback invocations; the only difference is the key each source
    names the field with (the first path segment).  Holds for every schema below the fields. *)
Theorem C14_struct_sources_agree : forall fs tests pts pv1 pv2 d e0, same_values pv1 pv2 fs ->
  snd (sem Parse (SStruct fs tests pts) (DProv pv1) d e0) = snd (sem Parse (SStruct fs tests pts) (DProv pv2) d e0)
  /\ map drop_head (fst (sem Parse (SStruct fs tests pts) (DProv pv1) d e0))
     = map drop_head (fst (sem Parse (SStruct fs tests pts) (DProv pv2) d e0)).
Proof. exact struct_sources_agree. Qed.
Print Assumptions C14_struct_sources_agree.

(** ... and the engine computes exactly that semantics. *)
Theorem C14_engine_computes_semantics : forall m s dat d, run m s dat d = sem_run m s dat d.
Proof. exact run_is_sem_run. Qed.
Print Assumptions C14_engine_computes_semantics.

(** Which key: the source's own tag, else `zog`, else the schema key — for every provider. *)
Theorem C14_provider_key : forall pv tags k,
  snd (get_by_field pv tags k) =
  match pv with
  | PEmpty => k
  | PMap tag _ => field_key tag tags k
  | PUrl tag _ => field_key (Some tag) tags k
  | PEnv _ => field_key (Some "env") tags k
  end.
Proof. exact provider_key. Qed.
Print Assumptions C14_provider_key.

(** A front end's factory is transparent. *)
Theorem C14_factory_transparent_struct : forall fs tests pts pv d,
  run Parse (SStruct fs tests pts) (DFactory (FProv pv)) d = run Parse (SStruct fs tests pts) (DProv pv) d.
Proof. exact factory_transparent_struct. Qed.
Print Assumptions C14_factory_transparent_struct.
Theorem C14_factory_transparent_ptr : forall e nn pz pv d,
  run Parse (SPtr e nn pz) (DFactory (FProv pv)) d = run Parse (SPtr e nn pz) (DProv pv) d.
Proof. exact factory_transparent_ptr. Qed.
Print Assumptions C14_factory_transparent_ptr.

(** zenv trims every value (strings.TrimSpace, modelled in Model/Trim.v): nothing is left exactly when
    the value is blank, i.e. exactly when the variable counts as absent *)
Theorem C14_env_blank_iff_trimmed_empty : forall s, trim_space s = "" <-> blank s = true.
Proof. exact trim_space_empty_iff. Qed.
Print Assumptions C14_env_blank_iff_trimmed_empty.

(** ... and text that ends in a visible ASCII character loses only the white space after it *)
Theorem C14_env_trim_keeps_text : forall c1 mid c2 r, visible c2 -> blank r = true ->
  rtrim (String c1 (mid ++ String c2 r)) = String c1 (mid ++ String c2 "").
Proof. exact rtrim_core. Qed.
Print Assumptions C14_env_trim_keeps_text.

(** The full statement of the property also demands that nested struct schemas work with every
    front end.  That part is refuted by the code (and hence by the faithful model): the witnesses
    below are the recorded findings C14/nested-source-tag and C14/nested-flat-source. *)
Theorem C14_nested_source_tag_refuted :
  map i_path (o_issues (run Parse nested_schema (DFactory (FProv (PMap (Some "json") [("inner", VMap [("first_name", VStr "b")])]))) nested_dest))
  = ["inner.first"].
Proof. exact nested_source_tag_refuted. Qed.
Print Assumptions C14_nested_source_tag_refuted.
Theorem C14_nested_flat_source_refuted :
  map (fun i => (i_path i, i_code i)) (o_issues (run Parse nested_schema (DFactory (FProv (PUrl "query" [("first_name", ["b"])]))) nested_dest))
  = [("inner", "coerce")].
Proof. exact nested_flat_source_refuted. Qed.
Print Assumptions C14_nested_flat_source_refuted.
