(** Property C18 — numeric coercion never silently changes a number. *)
From Coq Require Import String List ZArith Bool.
From Coq Require Import Floats.SpecFloat.
From Zog Require Import Model.Val Model.Engine Model.Coerce Proofs.NumericP.
Open Scope Z_scope.

(** float -> integer: the result is the truncation toward zero of the exact value and lies in the
    64-bit range; zero maps to 0. *)
Theorem C18_float_to_int_exact : forall f z, f64_to_int f = Some z ->
  in_int64 z = true /\
  ((exists b, f = S754_zero b /\ z = 0) \/ (exists s m e, f = S754_finite s m e /\ is_trunc s m e z)).
Proof. exact float_to_int_exact. Qed.
Print Assumptions C18_float_to_int_exact.

Theorem C18_nan_inf_rejected : f64_to_int S754_nan = None /\ forall b, f64_to_int (S754_infinity b) = None.
Proof. exact nan_inf_to_int_rejected. Qed.
Print Assumptions C18_nan_inf_rejected.

Theorem C18_float_out_of_range_rejected : forall f t, f_trunc f = Some t -> in_int64 t = false -> f64_to_int f = None.
Proof. exact float_out_of_range_rejected. Qed.
Print Assumptions C18_float_out_of_range_rejected.

Theorem C18_int_from_int_exact : forall z, coerce_int (VInt z) = Some z /\ coerce_int (VI64 z) = Some z /\ coerce_int (VI32 z) = Some z.
Proof. exact int_from_int_exact. Qed.
Print Assumptions C18_int_from_int_exact.

Theorem C18_int_in_range : forall v z, int_input_ok v = true -> coerce_int v = Some z -> in_int64 z = true.
Proof. exact coerce_int_in_range. Qed.
Print Assumptions C18_int_in_range.

Theorem C18_int32_in_range : forall o l v d, coerce_default o l KInt32 v = Some d -> exists z, d = DInt z /\ in_int32 z = true.
Proof. exact int32_result_in_range. Qed.
Print Assumptions C18_int32_in_range.

Theorem C18_int32_accepts : forall o l v z, coerce_int v = Some z -> in_int32 z = true -> coerce_default o l KInt32 v = Some (DInt z).
Proof. exact int32_accepts. Qed.
Print Assumptions C18_int32_accepts.

Theorem C18_int32_rejects : forall o l v z, coerce_int v = Some z -> in_int32 z = false -> coerce_default o l KInt32 v = None.
Proof. exact int32_rejects. Qed.
Print Assumptions C18_int32_rejects.

Theorem C18_int64_accepts : forall o l v z, coerce_int v = Some z ->
  coerce_default o l KInt64 v = Some (DInt z) /\ coerce_default o l KInt v = Some (DInt z).
Proof. exact int64_accepts. Qed.
Print Assumptions C18_int64_accepts.

Theorem C18_f64_identity : forall o f, coerce_f64 o (VF64 f) = Some f /\ coerce_f64 o (VF32 f) = Some f.
Proof. exact f64_identity. Qed.
Print Assumptions C18_f64_identity.

Theorem C18_f32_rounds_never_to_infinity : forall f r, f64_to_f32 f = Some r ->
  match f with
  | S754_finite s m e => exists r0, binary_round prec32 emax32 s m e = r0 /\ r = to64 r0 /\ (forall b, r0 <> S754_infinity b)
  | _ => r = f
  end.
Proof. exact f32_spec. Qed.
Print Assumptions C18_f32_rounds_never_to_infinity.

Theorem C18_f32_overflow_rejected : forall s m e b, binary_round prec32 emax32 s m e = S754_infinity b -> f64_to_f32 (S754_finite s m e) = None.
Proof. exact f32_overflow_rejected. Qed.
Print Assumptions C18_f32_overflow_rejected.
