(** Property C01 — success means valid: no issues implies every declared constraint holds. *)
From Coq Require Import String List.
From Zog Require Import Model.Val Model.Engine Spec.Sem Spec.Satisfies Proofs.Refine Proofs.SatP.

(** For every schema without PostTransforms (a user transform may legitimately change a value after
    it was tested), every destination of the matching shape, every input, both modes, and — the
    schema's field list being its visit order — every visit order: if the engine returns no issue,
    the destination satisfies every test declared on every node that has a value, every
    Required / NotNil node had a present value, absent optional nodes are untested, and a Catch node
    holds its parsed value or its catch value.  [satisfies] is written against the documentation,
    independently of the engine (Spec/Satisfies.v). *)
Theorem C01_success_means_valid : forall m s dat d, pt_free s = true -> wf s d ->
  o_issues (run m s dat d) = nil -> satisfies m s dat (o_dest (run m s dat d)) = true.
Proof. exact success_means_valid. Qed.
Print Assumptions C01_success_means_valid.

Theorem C01_engine_computes_semantics : forall m s dat d, run m s dat d = sem_run m s dat d.
Proof. exact run_is_sem_run. Qed.
Print Assumptions C01_engine_computes_semantics.
