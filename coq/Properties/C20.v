(** Property C20 — built-in tests decide exactly their documented predicate. *)
From Coq Require Import String List ZArith Bool Ascii.
From Coq Require Import Floats.SpecFloat.
From Zog Require Import Model.Val Model.Preds Proofs.PredsP Proofs.EmailP.
Import ListNotations.
Open Scope string_scope.

Theorem C20_str_min : forall n s, btest_ok (BStrMin n) (DStr s) = true <-> (n <= Z.of_nat (String.length s))%Z.
Proof. exact str_min_iff. Qed.
Print Assumptions C20_str_min.
Theorem C20_str_max : forall n s, btest_ok (BStrMax n) (DStr s) = true <-> (Z.of_nat (String.length s) <= n)%Z.
Proof. exact str_max_iff. Qed.
Print Assumptions C20_str_max.
Theorem C20_str_len : forall n s, btest_ok (BStrLen n) (DStr s) = true <-> Z.of_nat (String.length s) = n.
Proof. exact str_len_iff. Qed.
Print Assumptions C20_str_len.
Theorem C20_slice_min : forall n l, btest_ok (BSliceMin n) (DSlice l) = true <-> (n <= Z.of_nat (length l))%Z.
Proof. exact slice_min_iff. Qed.
Print Assumptions C20_slice_min.
Theorem C20_slice_max : forall n l, btest_ok (BSliceMax n) (DSlice l) = true <-> (Z.of_nat (length l) <= n)%Z.
Proof. exact slice_max_iff. Qed.
Print Assumptions C20_slice_max.
Theorem C20_slice_len : forall n l, btest_ok (BSliceLen n) (DSlice l) = true <-> Z.of_nat (length l) = n.
Proof. exact slice_len_iff. Qed.
Print Assumptions C20_slice_len.

Theorem C20_int_cmp : forall c n v, btest_ok (BIntCmp c n) (DInt v) = true <->
  match c with CGt => (v > n)%Z | CGte => (v >= n)%Z | CLt => (v < n)%Z | CLte => (v <= n)%Z | CEq => v = n end.
Proof. exact int_cmp_iff. Qed.
Print Assumptions C20_int_cmp.

Theorem C20_float_cmp : forall c n v, btest_ok (BFloatCmp c n) (DFloat v) = true <->
  match c with
  | CGt => SFcompare n v = Some Lt
  | CGte => SFcompare n v = Some Lt \/ SFcompare n v = Some Eq
  | CLt => SFcompare v n = Some Lt
  | CLte => SFcompare v n = Some Lt \/ SFcompare v n = Some Eq
  | CEq => SFcompare v n = Some Eq
  end.
Proof. exact float_cmp_iff. Qed.
Print Assumptions C20_float_cmp.
Theorem C20_nan_fails_every_comparison : forall c n, btest_ok (BFloatCmp c n) (DFloat S754_nan) = false.
Proof. exact nan_fails_every_comparison. Qed.
Print Assumptions C20_nan_fails_every_comparison.

Theorem C20_str_oneof : forall l s, btest_ok (BStrOneOf l) (DStr s) = true <-> In s l.
Proof. exact str_oneof_iff. Qed.
Print Assumptions C20_str_oneof.
Theorem C20_int_oneof : forall l z, btest_ok (BIntOneOf l) (DInt z) = true <-> In z l.
Proof. exact int_oneof_iff. Qed.
Print Assumptions C20_int_oneof.
Theorem C20_slice_contains : forall d l, btest_ok (BSliceContains d) (DSlice l) = true <-> exists e, In e l /\ dval_eqb e d = true.
Proof. exact slice_contains_iff. Qed.
Print Assumptions C20_slice_contains.

Theorem C20_has_prefix : forall p s, btest_ok (BHasPrefix p) (DStr s) = true <-> exists w, s = p ++ w.
Proof. exact has_prefix_iff. Qed.
Print Assumptions C20_has_prefix.
Theorem C20_has_suffix : forall p s, btest_ok (BHasSuffix p) (DStr s) = true <-> exists u, s = u ++ p.
Proof. exact has_suffix_iff. Qed.
Print Assumptions C20_has_suffix.
Theorem C20_contains : forall p s, btest_ok (BStrContains p) (DStr s) = true <-> exists u w, s = u ++ p ++ w.
Proof. exact contains_iff. Qed.
Print Assumptions C20_contains.

(** the character classes, given extensionally (26 letters, 10 digits, 32 punctuation characters);
    the range-based tests equal them on all 256 bytes (exhaustive sweep, lifted) *)
Theorem C20_classes : forall a, is_upper a = mem a upper_letters /\ is_digit a = mem a digit_chars /\ is_special a = mem a punct_chars.
Proof. exact classes_extensional. Qed.
Print Assumptions C20_classes.
Theorem C20_contains_upper : forall s, btest_ok BContainsUpper (DStr s) = true <-> exists a, In a (list_ascii_of_string s) /\ In a upper_letters.
Proof. exact contains_upper_iff. Qed.
Print Assumptions C20_contains_upper.
Theorem C20_contains_digit : forall s, btest_ok BContainsDigit (DStr s) = true <-> exists a, In a (list_ascii_of_string s) /\ In a digit_chars.
Proof. exact contains_digit_iff. Qed.
Print Assumptions C20_contains_digit.
Theorem C20_contains_special : forall s, btest_ok BContainsSpecial (DStr s) = true <-> exists a, In a (list_ascii_of_string s) /\ In a punct_chars.
Proof. exact contains_special_iff. Qed.
Print Assumptions C20_contains_special.

Theorem C20_uuid : forall s, btest_ok BUUID (DStr s) = true <->
  exists h1 h2 h3 h4 h5, hexes 8 h1 /\ hexes 4 h2 /\ hexes 4 h3 /\ hexes 4 h4 /\ hexes 12 h5 /\
    s = h1 ++ "-" ++ h2 ++ "-" ++ h3 ++ "-" ++ h4 ++ "-" ++ h5.
Proof. exact uuid_iff. Qed.
Print Assumptions C20_uuid.

(** Email: local@label(.label)* — a non-empty local part over the allowed characters, then one or
    more dot-separated labels *)
Theorem C20_email : forall s, btest_ok BEmail (DStr s) = true <->
  exists loc labels, s = loc ++ String "@" (join_with "." labels)
    /\ loc <> "" /\ all_bytes is_local_char loc = true
    /\ labels <> [] /\ Forall (fun l => label_ok l = true) labels.
Proof. exact email_iff. Qed.
Print Assumptions C20_email.
(** a label: 1..63 alphanumerics or hyphens, neither starting nor ending with a hyphen *)
Theorem C20_email_label : forall l, label_ok l = true <->
  1 <= String.length l <= 63
  /\ all_bytes (fun a => is_alnum a || Ascii.eqb a "-"%char) l = true
  /\ (exists a r, l = String a r /\ is_alnum a = true)
  /\ (exists a, get (String.length l - 1) l = Some a /\ is_alnum a = true).
Proof. exact label_iff. Qed.
Print Assumptions C20_email_label.

Theorem C20_time_after : forall a b, nsec_ok a -> nsec_ok b -> (btest_ok (BTimeAfter b) (DTime a) = true <-> (instant a > instant b)%Z).
Proof. exact time_after_iff. Qed.
Print Assumptions C20_time_after.
Theorem C20_time_before : forall a b, nsec_ok a -> nsec_ok b -> (btest_ok (BTimeBefore b) (DTime a) = true <-> (instant a < instant b)%Z).
Proof. exact time_before_test_iff. Qed.
Print Assumptions C20_time_before.
Theorem C20_time_eq : forall a b, nsec_ok a -> nsec_ok b -> (btest_ok (BTimeEq b) (DTime a) = true <-> instant a = instant b).
Proof. exact time_eq_iff. Qed.
Print Assumptions C20_time_eq.
