(** Property C17 — builder methods act locally and mean what they say. *)
From Coq Require Import String List ZArith Bool.
From Zog Require Import Model.Val Model.Engine Model.Preds Model.Builder Proofs.BuilderP.
Import ListNotations.
Open Scope string_scope.

(** The tests a chain of builder calls leaves on the schema are exactly its declarative reading:
    in call order, a built-in test negated iff a Not() is pending when it is added (a Not() is
    consumed by the first built-in test after it; TestFunc / Required / Default / Catch /
    PostTransform neither consume nor set it). *)
Theorem C17_tests_denotation : forall cs, b_tests (brun cs) = denote_tests cs false.
Proof. exact tests_denotation. Qed.
Print Assumptions C17_tests_denotation.

Theorem C17_pts_denotation : forall cs, b_pts (brun cs) = pts_of cs.
Proof. exact pts_denotation. Qed.
Print Assumptions C17_pts_denotation.

(** Not() negates exactly the next built-in test ... *)
Theorem C17_not_negates_next : forall pre code params b o post,
  denote_tests (pre ++ CNot :: CBuiltin code params b o :: post) false
  = (denote_tests pre false ++ mk_builtin true code params b o :: denote_tests post false)%list.
Proof. exact not_negates_next. Qed.
Print Assumptions C17_not_negates_next.

(** ... the negated test fails precisely when the plain test passes and reports the not_ code ... *)
Theorem C17_negated_test_semantics : forall code params b v,
  t_ok (mk_builtin true code params b no_opts) v = negb (t_ok (mk_builtin false code params b no_opts) v)
  /\ t_code (mk_builtin true code params b no_opts) = ("not_" ++ code)%string.
Proof. exact negated_test_semantics. Qed.
Print Assumptions C17_negated_test_semantics.

(** ... and nothing after it: the next built-in test is plain again, whatever lies in between. *)
Theorem C17_not_is_consumed : forall pre code params b o code2 params2 b2 o2 mid post,
  (forall c, In c mid -> match c with CNot | CBuiltin _ _ _ _ => False | _ => True end) ->
  exists l1 l2, denote_tests (pre ++ CNot :: CBuiltin code params b o :: mid ++ CBuiltin code2 params2 b2 o2 :: post) false
              = (l1 ++ mk_builtin true code params b o :: l2 ++ mk_builtin false code2 params2 b2 o2 :: denote_tests post false)%list.
Proof. exact not_is_consumed. Qed.
Print Assumptions C17_not_is_consumed.

(** Required / Optional, Default and Catch obey last-call-wins. *)
Theorem C17_last_call_wins : forall cs,
  b_req (brun cs) = last_some req_of cs /\ b_def (brun cs) = last_some def_of cs /\ b_catch (brun cs) = last_some catch_of cs.
Proof. exact last_call_wins. Qed.
Print Assumptions C17_last_call_wins.

(** Test options affect only the test they were passed to. *)
Theorem C17_options_are_local : forall pre code params b o post p,
  denote_tests (pre ++ CBuiltin code params b o :: post) p
  = (denote_tests pre p ++ mk_builtin (pending_not pre p) code params b o :: denote_tests post false)%list.
Proof. exact options_are_local. Qed.
Print Assumptions C17_options_are_local.
