(** Property C09 — results do not depend on map iteration or key insertion order. *)
From Coq Require Import String List ZArith Bool Permutation.
From Zog Require Import Model.Val Model.Engine Spec.Sem Spec.Satisfies Proofs.Refine Proofs.Indep.
Import ListNotations.

(** A struct schema holds its fields in visit order.  For every permutation of that order: the
    destination is the same, the struct-level tests see the same value, and the issues and
    callback invocations are the same up to their order — hence every key of the issue map holds
    the same issues; only which one is recorded first may differ.
    PARTIAL: for schemas without PostTransforms below the struct.  With PostTransforms the full
    statement is false of the code (they are gated on the execution-wide error state): recorded
    finding C09/pt-gating. *)
Theorem C09_struct_order_independent_partial : forall m fs fs' tests dat d e,
  Permutation fs fs' -> fields_pt_free fs = true -> NoDup (map fst fs) ->
  Permutation (fst (sem m (SStruct fs tests []) dat d e)) (fst (sem m (SStruct fs' tests []) dat d e))
  /\ snd (sem m (SStruct fs tests []) dat d e) = snd (sem m (SStruct fs' tests []) dat d e).
Proof. exact struct_order_independent. Qed.
Print Assumptions C09_struct_order_independent_partial.

Theorem C09_fields_order_independent_partial : forall m pv fs fs' dfs e,
  Permutation fs fs' -> fields_pt_free fs = true -> NoDup (map fst fs) ->
  Permutation (fst (sem_fields (sem m) m pv fs dfs e)) (fst (sem_fields (sem m) m pv fs' dfs e))
  /\ snd (sem_fields (sem m) m pv fs dfs e) = snd (sem_fields (sem m) m pv fs' dfs e).
Proof. exact fields_order_independent. Qed.
Print Assumptions C09_fields_order_independent_partial.

(** whether an issue already exists is irrelevant to a schema without PostTransforms *)
Theorem C09_error_state_irrelevant_without_transforms : forall s, pt_free s = true -> forall m dat d e0 e1, sem m s dat d e0 = sem m s dat d e1.
Proof. exact pt_free_e0_free. Qed.
Print Assumptions C09_error_state_irrelevant_without_transforms.

Theorem C09_engine_computes_semantics : forall m s dat d, run m s dat d = sem_run m s dat d.
Proof. exact run_is_sem_run. Qed.
Print Assumptions C09_engine_computes_semantics.
