(** Property C09 — results do not depend on map iteration or key insertion order. *)
From Coq Require Import String List ZArith Bool Permutation.
From Zog Require Import Model.Val Model.Engine Spec.Sem Spec.Satisfies Proofs.Refine Proofs.Indep Proofs.DeepOrder Model.Fmt Gen.Tables Proofs.FmtOrderP.
Import ListNotations.

(** A struct schema holds its fields in visit order.  For every permutation of that order: the
    destination is the same, the struct-level tests see the same value, and the issues and
    callback invocations are the same up to their order — hence every key of the issue map holds
    the same issues; only which one is recorded first may differ.
    PARTIAL: for schemas without PostTransforms below the struct.  With PostTransforms the full
    statement is false of the code (they are gated on the execution-wide error state): recorded
    finding C09/pt-gating. *)
Theorem C09_struct_order_independent_partial : forall m fs fs' tests dat d e,
  Permutation fs fs' -> fields_pt_free fs = true -> NoDup (map fst fs) ->
  Permutation (fst (sem m (SStruct fs tests []) dat d e)) (fst (sem m (SStruct fs' tests []) dat d e))
  /\ snd (sem m (SStruct fs tests []) dat d e) = snd (sem m (SStruct fs' tests []) dat d e).
Proof. exact struct_order_independent. Qed.
Print Assumptions C09_struct_order_independent_partial.

Theorem C09_fields_order_independent_partial : forall m pv fs fs' dfs e,
  Permutation fs fs' -> fields_pt_free fs = true -> NoDup (map fst fs) ->
  Permutation (fst (sem_fields (sem m) m pv fs dfs e)) (fst (sem_fields (sem m) m pv fs' dfs e))
  /\ snd (sem_fields (sem m) m pv fs dfs e) = snd (sem_fields (sem m) m pv fs' dfs e).
Proof. exact fields_order_independent. Qed.
Print Assumptions C09_fields_order_independent_partial.

(** At every depth: [sch_perm s s'] reorders the fields of any struct nodes of [s], however deeply
    nested (inside structs, slices, pointers, Preprocess).  The final value is the same and the
    entries are the same up to order, for every mode, data, destination and incoming error state.
    PARTIAL in the same sense: schemas without PostTransforms (C09/pt-gating). *)
Theorem C09_deep_order_independent_partial : forall s s' m dat d e,
  sch_perm s s' -> pt_free s = true -> keys_nodup s ->
  Permutation (fst (sem m s dat d e)) (fst (sem m s' dat d e)) /\ snd (sem m s dat d e) = snd (sem m s' dat d e).
Proof. exact deep_order_independent_sem. Qed.
Print Assumptions C09_deep_order_independent_partial.

(** the premises are met by a nested schema reordered at both levels *)
Theorem C09_deep_premise_is_satisfiable : sch_perm ex_outer ex_outer' /\ pt_free ex_outer = true /\ keys_nodup ex_outer.
Proof. exact ex_deep_perm. Qed.
Print Assumptions C09_deep_premise_is_satisfiable.

(** the order of the input's keys: any rearrangement of the input map (distinct keys) is the same
    input, for every struct schema (PostTransforms included) *)
Theorem C09_input_key_order_irrelevant : forall tag mp mp' fs tests pts m d e0,
  Permutation mp mp' -> NoDup (map fst mp) ->
  sem m (SStruct fs tests pts) (DProv (PMap tag mp)) d e0 = sem m (SStruct fs tests pts) (DProv (PMap tag mp')) d e0.
Proof. exact input_key_order_irrelevant. Qed.
Print Assumptions C09_input_key_order_irrelevant.

(** whether an issue already exists is irrelevant to a schema without PostTransforms *)
Theorem C09_error_state_irrelevant_without_transforms : forall s, pt_free s = true -> forall m dat d e0 e1, sem m s dat d e0 = sem m s dat d e1.
Proof. exact pt_free_e0_free. Qed.
Print Assumptions C09_error_state_irrelevant_without_transforms.

Theorem C09_engine_computes_semantics : forall m s dat d, run m s dat d = sem_run m s dat d.
Proof. exact run_is_sem_run. Qed.
Print Assumptions C09_engine_computes_semantics.

(** The messages: conf.NewDefaultFormatter ranges over the issue's Params, a Go map.  Repaired, it
    substitutes all placeholders in one pass: for every shipped language map, type and code, every
    parameter list without a repeated key whose keys contain no braces — the rendered values are
    arbitrary — and every other order of the same parameters, the message is the same.  (Every
    shipped template is a sequence of brace-free text and {{name}} placeholders — checked over the
    tables regenerated from the code — and on such templates one pass is the simultaneous
    substitution.) *)
Theorem C09_message_independent_of_parameter_order : forall lang m dtype code ps ps' value,
  In (lang, m) langs -> Permutation ps ps' -> NoDup (map fst ps) -> keys_ok ps = true ->
  default_format m dtype code ps value = default_format m dtype code ps' value.
Proof. exact default_format_order_independent. Qed.
Print Assumptions C09_message_independent_of_parameter_order.

Theorem C09_one_pass_is_simultaneous_substitution : forall ps, keys_ok ps = true -> forall ts, forallb tok_ok ts = true ->
  multi_replace (ph_pairs ps) (render ts) = render (map (subst_all ps) ts).
Proof. exact one_pass_is_simultaneous. Qed.
Print Assumptions C09_one_pass_is_simultaneous_substitution.

(** As it was (one ReplaceAll per parameter, in map order) the statement was false of the code: a
    parameter value that spells another parameter's placeholder was or was not substituted depending
    on the order.  The witness below, replayed on the implementation (String().Min(3, Params{min:
    "{{hint}}", hint: "three"}) on "x"), gave both messages within 400 calls; repaired in /repo. *)
Theorem C09_legacy_message_depends_on_order_refuted :
  default_format_legacy lang_en "string" "min" [("min", "{{hint}}"); ("hint", "three")] "v" = "string must contain at least three character(s)"
  /\ default_format_legacy lang_en "string" "min" [("hint", "three"); ("min", "{{hint}}")] "v" = "string must contain at least {{hint}} character(s)".
Proof. exact legacy_message_depends_on_order. Qed.
Print Assumptions C09_legacy_message_depends_on_order_refuted.

(** the repair changed no message whose parameter values contain no braces *)
Theorem C09_repair_keeps_brace_free_messages : forall lang m dtype code ps value,
  In (lang, m) langs -> params_ok ps = true ->
  default_format m dtype code ps value = default_format_legacy m dtype code ps value.
Proof. exact repair_keeps_brace_free_messages. Qed.
Print Assumptions C09_repair_keeps_brace_free_messages.
