(** Property C08 — schemas are safe to share between goroutines.

    PARTIAL by nature: what is proved is the ownership logic — no step of any execution writes a
    location another execution may touch.  What is trusted and not modelled: the Go memory model,
    the atomicity of sync.Pool's Get/Put, the runtime's map iteration and reflect internals.  The
    race-detector stress in the correspondence validates the footprint model; it is not the proof. *)
From Coq Require Import List Arith Bool.
From Zog Require Import Model.Val Model.Engine Spec.Sem Proofs.Refine Model.Objects Model.Threads Proofs.ThreadsP.
Import ListNotations.

(** Under any interleaving of Gets and Puts of any number of executions, and any choice the pools
    make, a pooled object has at most one holder at a time. *)
Theorem C08_pooled_objects_have_one_holder : forall ops, functional (t_held (trun ops)).
Proof. exact pooled_objects_have_one_holder. Qed.
Print Assumptions C08_pooled_objects_have_one_holder.

(** Events that follow the ownership discipline (write: own destination and held pooled objects;
    read: additionally the schema and the own input) never race, in any reachable state. *)
Theorem C08_race_free_partial : forall ops e1 e2,
  disciplined (t_held (trun ops)) e1 -> disciplined (t_held (trun ops)) e2 -> ~ races e1 e2.
Proof. exact race_free. Qed.
Print Assumptions C08_race_free_partial.

(** The schema and the input are never written. *)
Theorem C08_schema_is_read_only : forall o e n, disciplined o e -> ~ In (LSchema n) (e_writes e).
Proof. exact schema_is_read_only. Qed.
Print Assumptions C08_schema_is_read_only.

(** Every call returns what it would have returned running alone: its result is a function of its
    own schema, data, destination and options (the context-free semantics has no other input). *)
Theorem C08_each_call_like_running_alone : forall m s dat d, run m s dat d = sem_run m s dat d.
Proof. exact run_is_sem_run. Qed.
Print Assumptions C08_each_call_like_running_alone.
