(** Property C03 — on success the destination holds the documented coercion of the input. *)
From Coq Require Import String List ZArith Bool.
From Zog Require Import Model.Val Model.Engine Model.Coerce Spec.Sem Spec.Satisfies Proofs.Refine Proofs.ExactP Proofs.AbsentP.
Import ListNotations.

Theorem C03_engine_computes_semantics : forall m s dat d, run m s dat d = sem_run m s dat d.
Proof. exact run_is_sem_run. Qed.
Print Assumptions C03_engine_computes_semantics.

(** a present, coercible leaf: the destination is the coercer's result, for ANY coercer (the
    default one, WithCoercer's, Time.Format's) — tests never change it *)
Theorem C03_leaf_is_coercion : forall p dat d e0 v, p_pts p = [] -> p_catch p = None -> parse_zero dat = false -> p_coerce p dat = Some v ->
  snd (sem_prim Parse p dat d e0) = v.
Proof. exact leaf_is_coercion. Qed.
Print Assumptions C03_leaf_is_coercion.

(** what the default coercers do, for every oracle of the stdlib functions they call *)
Theorem C03_documented_coercions : forall o l,
  coerce_default o l KInt (VStr "1") = Some (DInt 1)
  /\ coerce_default o l KBool (VStr "on") = Some (DBool true) /\ coerce_default o l KBool (VStr "off") = Some (DBool false)
  /\ coerce_default o l KBool (VStr "true") = Some (DBool true) /\ coerce_default o l KBool (VInt 1) = Some (DBool true)
  /\ (forall z, coerce_default o l KTime (VInt z) = Some (DTime {| t_sec := z; t_nsec := 0; t_off := 0 |}))
  /\ (forall s, coerce_default o l KTime (VStr s) = option_map DTime (o_parse_time o l s))
  /\ (forall v, coerce_default o l KString v = Some (DStr (sprint o v)))
  /\ (forall v, match v with VList _ => True | _ => coerce_slice v = Some [v] end)
  /\ (forall items, coerce_slice (VList items) = Some items).
Proof. exact documented_coercions. Qed.
Print Assumptions C03_documented_coercions.

(** destination fields the schema does not name are never written; no field is added or removed *)
Theorem C03_unnamed_fields_untouched : forall m pv srec fs dfs e,
  map fst (snd (sem_fields srec m pv fs dfs e)) = map fst dfs
  /\ forall k, ~ In k (map fst fs) -> dlookup k (snd (sem_fields srec m pv fs dfs e)) = dlookup k dfs.
Proof. exact unnamed_fields_untouched. Qed.
Print Assumptions C03_unnamed_fields_untouched.

(** slice length and element order equal the input's *)
Theorem C03_slice_keeps_length_and_order : forall m e items zero e0, pt_free e = true ->
  snd (sem_elems_parse (sem m e) items zero [] 0 e0) = map (fun v => snd (sem m e (DVal v) zero false)) items.
Proof. exact slice_keeps_length_and_order. Qed.
Print Assumptions C03_slice_keeps_length_and_order.

(** present pointer inputs allocate; absent optional inputs leave the destination untouched (nil for pointers) *)
Theorem C03_pointer_allocates : forall e pz v e0, parse_zero v = false ->
  exists y, snd (sem Parse (SPtr e None pz) (DVal v) (DPtr None) e0) = DPtr (Some y) /\ y = snd (sem Parse e (DVal v) pz e0).
Proof. exact pointer_allocates. Qed.
Print Assumptions C03_pointer_allocates.
Theorem C03_absent_pointer_stays_nil : forall e pz v d e0, parse_zero v = true ->
  sem Parse (SPtr e None pz) (DVal v) d e0 = ([], d) /\ sem Validate (SPtr e None pz) (DVal v) (DPtr None) e0 = ([], DPtr None).
Proof. exact ptr_absent_optional. Qed.
Print Assumptions C03_absent_pointer_stays_nil.
