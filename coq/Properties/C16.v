(** Property C16 — Pick, Omit, Extend and Merge build independent schemas with set semantics. *)
From Coq Require Import String List Arith Bool.
From Zog Require Import Model.Helpers Proofs.HelpersP.
Import ListNotations.

(** For every sequence of derivations (Pick / Omit / Extend / Merge) and later Test / TestFunc /
    PostTransform calls on any schema created so far, under every growth policy of the underlying
    Go slices: every schema reads as the immutable value the pure semantics assigns it.  Operands
    are therefore never modified and schemas derived from a common base never influence one another
    or the base. *)
Theorem C16_helpers_refine_pure : forall grow slack ops, ops_ok 0 ops = true -> observe (run grow slack ops) = prun ops.
Proof. exact helpers_refine_pure. Qed.
Print Assumptions C16_helpers_refine_pure.

(** set semantics of the selections *)
Theorem C16_pick : forall fs args k v, In (k, v) (pick_fields fs args) <-> In (k, v) fs /\ mem k (selected args) = true.
Proof. exact pick_spec. Qed.
Print Assumptions C16_pick.
Theorem C16_omit : forall fs args k v, In (k, v) (omit_fields fs args) <-> In (k, v) fs /\ mem k (selected args) = false.
Proof. exact omit_spec. Qed.
Print Assumptions C16_omit.
Theorem C16_selected : forall args k, mem k (selected args) = true <->
  exists a, In a args /\ match a with AStr k' => k' = k | AMap m => In (k, true) m end.
Proof. exact selected_spec. Qed.
Print Assumptions C16_selected.

(** Extend / Merge: the later operand wins on conflicts, the earlier one supplies the rest *)
Theorem C16_later_wins : forall k a b v, lookup k b = Some v -> lookup k (a ++ b) = Some v.
Proof. exact lookup_app_later. Qed.
Print Assumptions C16_later_wins.
Theorem C16_earlier_kept : forall k a b, lookup k b = None -> lookup k (a ++ b) = lookup k a.
Proof. exact lookup_app_earlier. Qed.
Print Assumptions C16_earlier_kept.

(** Merge with several operands is the left fold of pairwise merges (fields, struct tests and
    PostTransforms concatenated in operand order; by [C16_later_wins] later operands win conflicts) *)
Theorem C16_merge_many_is_fold : forall l i js,
  pstep l (OMergeN i js) = l ++ [fold_left pmerge (map (pget l) js) (pget l i)]
  /\ pstep l (OMerge i (hd 0 js)) = l ++ [pmerge (pget l i) (pget l (hd 0 js))].
Proof. exact merge_many_is_fold. Qed.
Print Assumptions C16_merge_many_is_fold.

(** the aliasing the repair of cloneShallow removed (regression witness on the legacy variant) *)
Theorem C16_legacy_clone_refuted :
  let ops := [ONew [("a"%string, 1)]; OTest 0 10; OTest 0 11; OTest 0 12;
              OPick 0 [AStr "a"%string]; OTest 1 100;
              OPick 0 [AStr "a"%string]; OTest 2 200] in
  map p_tests (observe (run_legacy (fun c => c + 1) (fun _ => 0) ops)) = [[10; 11; 12]; [10; 11; 12; 200]; [10; 11; 12; 200]]
  /\ map p_tests (observe (run (fun c => c + 1) (fun _ => 0) ops)) = [[10; 11; 12]; [10; 11; 12; 100]; [10; 11; 12; 200]].
Proof. exact legacy_clone_refuted. Qed.
Print Assumptions C16_legacy_clone_refuted.
