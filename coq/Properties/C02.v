(** Property C02 — every violation is reported exactly once, where it occurred, and nothing else. *)
From Coq Require Import String List Bool.
From Zog Require Import Model.Val Model.Engine Spec.Sem Proofs.Refine Proofs.ExactP Proofs.AbsentP.
Import ListNotations.

(** The engine — with its catch flags on a shared child context, its mutable path stack and its
    single issue log — reports exactly the entries of the context-free semantics [sem], in which a
    node's contribution is a function of that node alone: nothing is swallowed or duplicated by a
    sibling, an earlier element or the path bookkeeping.  Every depth, every visit order. *)
Theorem C02_engine_computes_semantics : forall m s dat d, run m s dat d = sem_run m s dat d.
Proof. exact run_is_sem_run. Qed.
Print Assumptions C02_engine_computes_semantics.
Theorem C02_node_refines : forall s, refines s.
Proof. exact exec_refines_sem. Qed.
Print Assumptions C02_node_refines.

(** all failing tests of a node are reported, one issue each with the test's code, in order *)
Theorem C02_all_failing_tests_reported : forall dtype ts v,
  codes (sem_tests_all dtype ts v) = map t_code (filter (fun t => negb (t_ok t v)) ts).
Proof. exact all_failing_tests_reported. Qed.
Print Assumptions C02_all_failing_tests_reported.
Theorem C02_test_issues_at_own_path : forall dtype ts v r, In r (sem_tests_all dtype ts v) -> match r with RI s _ | RC s _ => s = [] end.
Proof. exact test_issues_at_own_path. Qed.
Print Assumptions C02_test_issues_at_own_path.

(** a missing required value, or an un-coercible value, is exactly one issue that suppresses the
    node's own tests (and, for a struct, its children) *)
Theorem C02_missing_required_is_one_issue : forall m p dat d e0 rt, p_pts p = [] ->
  match m with Parse => parse_zero dat | Validate => go_zero d end = true -> p_def p = None -> p_req p = Some rt -> p_catch p = None ->
  sem_prim m p dat d e0 = ([RI [] (fun q => mk_test_issue q (dtype_of (p_kind p)) rt)], d).
Proof. intros m p dat d e0 rt H. exact (absent_required m p dat d e0 H rt). Qed.
Print Assumptions C02_missing_required_is_one_issue.
Theorem C02_coerce_failure_is_one_issue : forall p dat d e0, p_pts p = [] -> p_catch p = None -> parse_zero dat = false -> p_coerce p dat = None ->
  sem_prim Parse p dat d e0 = ([RI [] (fun q => mk_coerce_issue q (dtype_of (p_kind p)))], d).
Proof. exact coerce_failure_is_one_issue. Qed.
Print Assumptions C02_coerce_failure_is_one_issue.
Theorem C02_struct_not_a_record : forall fs tests v d e0, provider_of_val v = None ->
  sem Parse (SStruct fs tests []) (DVal v) d e0 = ([RI [] (fun q => mk_coerce_issue q "struct")], d).
Proof. exact struct_not_a_record. Qed.
Print Assumptions C02_struct_not_a_record.

(** the result is nil if and only if there is no violation *)
Theorem C02_nil_iff_no_violation : forall m s dat d, o_issues (run m s dat d) = [] <-> rerrored (fst (sem m s dat d false)) = false.
Proof. exact nil_iff_no_violation. Qed.
Print Assumptions C02_nil_iff_no_violation.
