(** Property C05 — Catch replaces any failure of its own node, and only of its own node. *)
From Coq Require Import String List ZArith Bool.
From Zog Require Import Model.Val Model.Engine Spec.Sem Spec.Satisfies Proofs.Refine Proofs.Indep Proofs.CatchP.
Import ListNotations.

(** own node: never an issue; the destination is the catch value exactly when something failed *)
Theorem C05_catch_own_node : forall m p dat d e0 c, p_catch p = Some c -> p_pts p = [] ->
  rerrored (fst (sem_prim m p dat d e0)) = false
  /\ snd (sem_prim m p dat d e0) =
     let absent := match m with Parse => parse_zero dat | Validate => go_zero d end in
     if absent then
       match p_def p with
       | Some dv => if all_ok (p_tests p) dv then dv else c
       | None => match p_req p with Some _ => c | None => d end
       end
     else match m with
          | Parse => match p_coerce p dat with
                     | Some v => if all_ok (p_tests p) v then v else c
                     | None => c
                     end
          | Validate => if all_ok (p_tests p) d then d else c
          end.
Proof. exact catch_own_node. Qed.
Print Assumptions C05_catch_own_node.

(** only its own node: replacing the schema of one struct field by any other (with or without
    Catch) leaves the entries every other field contributes, and every other field's destination
    value, exactly as they were — whatever the visit order, the input and the mode *)
Theorem C05_catch_is_local : forall m pv fs1 fs2 k tags c c' dfs e,
  fields_pt_free (fs1 ++ (k, (tags, c)) :: fs2) = true -> fields_pt_free (fs1 ++ (k, (tags, c')) :: fs2) = true ->
  NoDup (map fst (fs1 ++ (k, (tags, c)) :: fs2)) ->
  let r  := sem_fields (sem m) m pv (fs1 ++ (k, (tags, c)) :: fs2) dfs e in
  let r' := sem_fields (sem m) m pv (fs1 ++ (k, (tags, c')) :: fs2) dfs e in
  exists own own', fst r  = (flat_map (contrib_entries m pv dfs) fs1 ++ own  ++ flat_map (contrib_entries m pv dfs) fs2)%list
                /\ fst r' = (flat_map (contrib_entries m pv dfs) fs1 ++ own' ++ flat_map (contrib_entries m pv dfs) fs2)%list
                /\ forall k', k' <> k -> dlookup k' (snd r) = dlookup k' (snd r').
Proof. exact one_field_is_local. Qed.
Print Assumptions C05_catch_is_local.

(** slice elements are independent of one another: element i contributes what it would contribute alone *)
Theorem C05_elements_are_independent : forall m e, pt_free e = true -> forall items zero done i e0,
  sem_elems_parse (sem m e) items zero done i e0
  = (flat_map (fun iv => under (idx_seg (fst iv)) (fst (sem m e (DVal (snd iv)) zero false))) (combine (seq i (length items)) items),
     (done ++ map (fun v => snd (sem m e (DVal v) zero false)) items)%list).
Proof. exact elements_are_independent. Qed.
Print Assumptions C05_elements_are_independent.

(** and the engine, whose catch flags live on a context shared by all siblings, computes exactly this *)
Theorem C05_engine_computes_semantics : forall m s dat d, run m s dat d = sem_run m s dat d.
Proof. exact run_is_sem_run. Qed.
Print Assumptions C05_engine_computes_semantics.

(** with PostTransforms on the catching node: still never an issue (their errors are swallowed too),
    and they run exactly when no issue existed before the node was reached — whether or not the Catch
    fired, whichever failure it swallowed — on the value the node ends up with (the catch value when
    it fired) *)
Theorem C05_catch_with_transforms : forall m p dat d e0 c, p_catch p = Some c ->
  let v := snd (sem_prim m (without_pts p) dat d e0) in
  rerrored (fst (sem_prim m p dat d e0)) = false
  /\ snd (sem_prim m p dat d e0) =
     if e0 then v else snd (sem_pts_loop (fun q e => mk_unknown_issue q (dtype_of (p_kind p)) e) true (p_pts p) v).
Proof. exact catch_with_transforms. Qed.
Print Assumptions C05_catch_with_transforms.

(** behind a pointer: a present input allocates the pointer and it points to the catching node's
    value — the catch value when the node failed; never an issue *)
Theorem C05_catch_behind_pointer : forall p pz v e0 c, p_catch p = Some c -> p_pts p = [] -> parse_zero v = false ->
  snd (sem Parse (SPtr (SPrim p) None pz) (DVal v) (DPtr None) e0)
  = DPtr (Some (match p_coerce p v with Some x => if all_ok (p_tests p) x then x else c | None => c end))
  /\ rerrored (fst (sem Parse (SPtr (SPrim p) None pz) (DVal v) (DPtr None) e0)) = false.
Proof. exact catch_behind_pointer. Qed.
Print Assumptions C05_catch_behind_pointer.
