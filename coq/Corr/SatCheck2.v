(** * Correspondence judges: struct helpers (C16). *)
From Zog Require Export Corr.Verdict Model.Helpers.
From Coq Require Export String List Arith Bool.
Import ListNotations.
Open Scope string_scope.
Open Scope list_scope.

(** what the implementation showed for one schema: fields (key, version) sorted by key, struct tests
    and PostTransforms in execution order *)
Record kobs := KO { ko_fields : list (string * nat); ko_tests : list nat; ko_pts : list nat }.
Record kcase := KC { kc_id : nat; kc_ops : list op; kc_obs : list kobs }.

Fixpoint nat_list_eqb (a b : list nat) : bool :=
  match a, b with [], [] => true | x :: r, y :: s => Nat.eqb x y && nat_list_eqb r s | _, _ => false end.

(** a Go map and an association list denote the same fields: same (key -> later-wins value) *)
Definition fields_same (obs : list (string * nat)) (model : list (string * nat)) : bool :=
  forallb (fun kv => match lookup (fst kv) model with Some v => Nat.eqb v (snd kv) | None => false end) obs
  && forallb (fun kv => existsb (fun ov => String.eqb (fst ov) (fst kv)) obs) model.

Fixpoint all2 {A B} (f : A -> B -> bool) (l1 : list A) (l2 : list B) : bool :=
  match l1, l2 with [] , [] => true | a :: r, b :: s => f a b && all2 f r s | _, _ => false end.

(* the model is run under one concrete growth policy; Proofs/HelpersP.v shows the observation does
   not depend on it *)
Definition check_kcase (c : kcase) : verdict :=
  let m := observe (run (fun c => c + 1) (fun n => n mod 3) (kc_ops c)) in
  let ok f := all2 f m (kc_obs c) in
  let tags := (if ok (fun p o => fields_same (ko_fields o) (p_fields p)) then [] else ["fields"])
              ++ (if ok (fun p o => nat_list_eqb (p_tests p) (ko_tests o)) then [] else ["tests"])
              ++ (if ok (fun p o => nat_list_eqb (p_pts p) (ko_pts o)) then [] else ["transforms"]) in
  match tags with [] => if ops_ok 0 (kc_ops c) then Agree else Skip "ill-formed operation sequence" | _ => Fail tags end.
Definition check_kcases (cs : list kcase) := keep_bad (map (fun c => (kc_id c, check_kcase c)) cs).
