(** * Correspondence judge: dynamic input types at struct positions (C06). *)
From Zog Require Export Corr.Verdict Model.Val Model.Dyn.
From Coq Require Export String List Bool.
Import ListNotations.
Open Scope string_scope.
Open Scope list_scope.

(** what the implementation did: panicked?; a coerce issue at the root?; per schema key: absent? *)
Record dcase := DC { dc_id : nat; dc_in : gval; dc_keys : list string;
                     dc_panic : bool; dc_root_coerce : bool; dc_present : list (string * bool) }.

Definition pres_eqb (a b : list (string * bool)) : bool :=
  Nat.eqb (length a) (length b) && forallb (fun kv => match alookup (fst kv) b with Some v => Bool.eqb v (snd kv) | None => false end) a.

Definition check_dcase (c : dcase) : verdict :=
  let tags := (if dc_panic c then ["panic"] else [])
              ++ match parse_struct (dc_in c) (dc_keys c) with
                 | Panic _ => if dc_panic c then [] else ["model_expects_panic"]
                 | Done (co, pres) =>
                   if dc_panic c then [] else
                   (if Bool.eqb co (dc_root_coerce c) then [] else ["root_coerce"])
                   ++ (if co || pres_eqb pres (dc_present c) then [] else ["presence"])
                 end in
  match tags with [] => Agree | _ => Fail tags end.
Definition check_dcases (cs : list dcase) := keep_bad (map (fun c => (dc_id c, check_dcase c)) cs).
