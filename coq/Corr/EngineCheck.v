(** * Correspondence judge for the engine family.

    A case carries the schema, the input, the destination before the call and everything the
    implementation exposed.  [check_case] runs the L1 engine on the same case and compares
    projected observables; each projection has a tag, and each property's check looks only at its
    own tags.  When the field visit order the implementation took is unknown (Validate mode, or a
    provider that could not be wrapped), the engine is run under every visit order and the case
    agrees if some order reproduces what was observed. *)
From Zog Require Export Corr.EngineDSL Corr.Verdict.
From Zog Require Import Spec.Satisfies Model.Fmt Gen.Tables.
Import ListNotations.
Open Scope string_scope.

Record oissue := OI { oi_path : string; oi_code : string; oi_dtype : string;
                      oi_params : list (string * string); oi_msg : string; oi_haserr : bool }.
Record ocall := OC { oc_id : nat; oc_kind : cbkind; oc_arg : option dval }.
Record observed := OBS {
  ob_panic : bool; ob_nil : bool; ob_keys : list (string * list oissue); ob_first : option oissue;
  ob_badfirst : bool; ob_calls : list ocall; ob_dest : dval }.
Record ecase := EC {
  ec_id : nat; ec_mode : mode; ec_sch : sch; ec_data : data; ec_dest0 : dval;
  ec_known : bool; ec_collide : bool; ec_ctxok : bool; ec_repeat : bool;
  ec_opts : list eopt;         (* the call's execution options, in the order they were passed *)
  ec_views : list (list (string * option string));   (* the distinct answers of ctx.Get over the probe keys, as the callbacks saw them *)
  ec_obs : observed }.

(** ** equalities *)
Fixpoint dval_same (a b : dval) {struct a} : bool :=
  match a, b with
  | DBool x, DBool y => Bool.eqb x y
  | DInt x, DInt y => Z.eqb x y
  | DFloat x, DFloat y => sf_same x y
  | DStr x, DStr y => String.eqb x y
  | DTime x, DTime y => time_eqb x y
  | DSlice x, DSlice y =>
    (fix go (l1 l2 : list dval) : bool :=
       match l1, l2 with
       | [], [] => true
       | p :: r1, q :: r2 => dval_same p q && go r1 r2
       | _, _ => false
       end) x y
  | DPtr None, DPtr None => true
  | DPtr (Some x), DPtr (Some y) => dval_same x y
  | DStruct x, DStruct y =>
    (fix go (l1 l2 : list (string * dval)) : bool :=
       match l1, l2 with
       | [], [] => true
       | (k1, p) :: r1, (k2, q) :: r2 => String.eqb k1 k2 && dval_same p q && go r1 r2
       | _, _ => false
       end) x y
  | DOpaque x, DOpaque y => Nat.eqb x y
  | _, _ => false
  end.

Fixpoint list_eqb {A} (eqb : A -> A -> bool) (l1 l2 : list A) : bool :=
  match l1, l2 with
  | [], [] => true
  | a :: r1, b :: r2 => eqb a b && list_eqb eqb r1 r2
  | _, _ => false
  end.
Fixpoint remove1 {A} (eqb : A -> A -> bool) (a : A) (l : list A) : option (list A) :=
  match l with
  | [] => None
  | b :: r => if eqb a b then Some r else option_map (cons b) (remove1 eqb a r)
  end.
Fixpoint perm_eqb {A} (eqb : A -> A -> bool) (l1 l2 : list A) : bool :=
  match l1 with
  | [] => match l2 with [] => true | _ => false end
  | a :: r => match remove1 eqb a l2 with Some l2' => perm_eqb eqb r l2' | None => false end
  end.
Definition pair_eqb {A B} (ea : A -> A -> bool) (eb : B -> B -> bool) (x y : A * B) : bool :=
  ea (fst x) (fst y) && eb (snd x) (snd y).
Definition opt_eqb {A} (e : A -> A -> bool) (x y : option A) : bool :=
  match x, y with Some a, Some b => e a b | None, None => true | _, _ => false end.
Definition cbkind_eqb (a b : cbkind) : bool :=
  match a, b with CbTest, CbTest | CbPT, CbPT | CbCustom, CbCustom | CbPre, CbPre => true | _, _ => false end.

(** ** projections of a model issue / an observed issue *)
Definition key_of (p : string) : string := if is_empty p then "$root" else p.
Definition params_eqb := list_eqb (pair_eqb String.eqb String.eqb).

(** the message an issue without a Message option gets: the execution's formatter, else the
    default formatter over the shipped default language map (regenerated from the code) *)
Definition default_message (fmt : option (string * option string)) (o : oissue) : string :=
  match fmt with
  | Some f => fmt_message f (oi_code o)
  | None => default_format lang_default (oi_dtype o) (oi_code o) (oi_params o) ""
  end.

(* level 0: path+code; 1: +dtype; 2: +params; 3: + message (explicit or formatted); 4: + has wrapped error *)
Definition issue_agrees_f (fmt : option (string * option string)) (lvl : nat) (i : issue) (o : oissue) : bool :=
  String.eqb (i_path i) (oi_path o) && String.eqb (i_code i) (oi_code o)
  && (Nat.ltb lvl 1 || String.eqb (i_dtype i) (oi_dtype o))
  && (Nat.ltb lvl 2 || params_eqb (i_params i) (oi_params o))
  && (Nat.ltb lvl 3 || match i_msg i with
                       | Some m => String.eqb m opaque_msg || String.eqb m (oi_msg o)
                       | None => String.eqb (oi_msg o) (default_message fmt o)
                       end)
  && (Nat.ltb lvl 4 || Bool.eqb (match i_err i with Some _ => true | None => false end) (oi_haserr o)).

Fixpoint list_agrees {A B} (f : A -> B -> bool) (l1 : list A) (l2 : list B) : bool :=
  match l1, l2 with
  | [], [] => true
  | a :: r1, b :: r2 => f a b && list_agrees f r1 r2
  | _, _ => false
  end.
Fixpoint remove1_agrees {A B} (f : A -> B -> bool) (a : A) (l : list B) : option (list B) :=
  match l with
  | [] => None
  | b :: r => if f a b then Some r else option_map (cons b) (remove1_agrees f a r)
  end.
Fixpoint perm_agrees {A B} (f : A -> B -> bool) (l1 : list A) (l2 : list B) : bool :=
  match l1 with
  | [] => match l2 with [] => true | _ => false end
  | a :: r => match remove1_agrees f a l2 with Some l2' => perm_agrees f r l2' | None => false end
  end.

(* roots whose Parse / Validate return a ZogIssueList: primitives, CustomFunc, and Preprocess (whatever it wraps:
   PreprocessSchema.Parse / Validate collect into an ErrsList) *)
Definition is_list_schema (s : sch) : bool := match s with SPrim _ | SCustom _ _ | SPre _ _ => true | _ => false end.

(** group the model's issues by key, in order (the ZogIssueMap without "$first") *)
Definition grouped (is : list issue) : imap :=
  fold_left (fun m i => imap_append (key_of (i_path i)) i m) is [].

(** do the observed keys carry the model's issues (at projection level [lvl])? *)
Definition issue_agrees := issue_agrees_f None.

Definition issues_agree_f (fmt : option (string * option string)) (lvl : nat) (exact_order : bool) (listmode : bool) (is : list issue) (o : observed) : bool :=
  if listmode then
    match ob_keys o with
    | [] => match is with [] => true | _ => false end
    | [(_, l)] => list_agrees (issue_agrees_f fmt lvl) is l
    | _ => false
    end
  else
    let g := grouped is in
    Nat.eqb (length g) (length (ob_keys o)) &&
    forallb (fun kl => match alookup (fst kl) g with
                       | Some l => if exact_order then list_agrees (issue_agrees_f fmt lvl) l (snd kl)
                                   else perm_agrees (issue_agrees_f fmt lvl) l (snd kl)
                       | None => false
                       end) (ob_keys o).

Definition issues_agree := issues_agree_f None.

Definition first_agrees (known : bool) (is : list issue) (o : observed) : bool :=
  negb (ob_badfirst o) &&
  match ob_first o, is with
  | None, [] => true
  | Some f, i :: _ => if known then issue_agrees 0 i f else existsb (fun j => issue_agrees 0 j f) is
  | _, _ => false
  end.

Definition call_agrees (args : bool) (c : call) (o : ocall) : bool :=
  Nat.eqb (c_id c) (oc_id o) && cbkind_eqb (c_kind c) (oc_kind o)
  && (negb args || opt_eqb dval_same (c_arg c) (oc_arg o)).
Definition calls_agree (args known : bool) (cs : list call) (o : observed) : bool :=
  if known then list_agrees (call_agrees args) cs (ob_calls o) else perm_agrees (call_agrees args) cs (ob_calls o).

(** ** all visit orders of a schema *)
Fixpoint insert_all {A} (a : A) (l : list A) : list (list A) :=
  match l with
  | [] => [[a]]
  | b :: r => (a :: b :: r) :: map (cons b) (insert_all a r)
  end.
Fixpoint perms {A} (l : list A) : list (list A) :=
  match l with [] => [[]] | a :: r => flat_map (insert_all a) (perms r) end.
Definition product {A} (ls : list (list A)) : list (list A) :=
  fold_right (fun opts acc => flat_map (fun o => map (cons o) acc) opts) [[]] ls.

(* the number of visit orders, in binary (it is astronomically large for wide nested structs) *)
Fixpoint factN (n : nat) : N := match n with O => 1%N | S k => (N.of_nat n * factN k)%N end.
Fixpoint n_orders (s : sch) : N :=
  match s with
  | SStruct fs _ _ => (factN (length fs) * fold_right (fun kc acc => n_orders (snd (snd kc)) * acc) 1 fs)%N
  | SSlice e _ | SPtr e _ _ | SPre _ e => n_orders e
  | _ => 1%N
  end.
Fixpoint orders (s : sch) : list sch :=
  match s with
  | SStruct fs tests pts =>
    let per_field := map (fun kc => map (fun c => (fst kc, (fst (snd kc), c))) (orders (snd (snd kc)))) fs in
    flat_map (fun combo => map (fun p => SStruct p tests pts) (perms combo)) (product per_field)
  | SSlice e c => map (fun e' => SSlice e' c) (orders e)
  | SPtr e nn pz => map (fun e' => SPtr e' nn pz) (orders e)
  | SPre f e => map (fun e' => SPre f e') (orders e)
  | _ => [s]
  end.

(** Go (1.23, the toolchain the harness is built with) iterates a map of at most 8 entries as a
    rotation of its insertion order starting at a random slot: the rotations are tried first. *)
Fixpoint rotations_aux {A} (n : nat) (l : list A) : list (list A) :=
  match n with
  | O => []
  | S k => l :: rotations_aux k (match l with [] => [] | a :: r => r ++ [a] end)
  end.
Definition rotations {A} (l : list A) : list (list A) := match l with [] => [[]] | _ => rotations_aux (length l) l end.
Fixpoint n_rotations (s : sch) : N :=
  match s with
  | SStruct fs _ _ => (N.max 1 (N.of_nat (length fs)) * fold_right (fun kc acc => n_rotations (snd (snd kc)) * acc) 1 fs)%N
  | SSlice e _ | SPtr e _ _ | SPre _ e => n_rotations e
  | _ => 1%N
  end.
Fixpoint rot_orders (s : sch) : list sch :=
  match s with
  | SStruct fs tests pts =>
    let per_field := map (fun kc => map (fun c => (fst kc, (fst (snd kc), c))) (rot_orders (snd (snd kc)))) fs in
    flat_map (fun combo => map (fun p => SStruct p tests pts) (rotations combo)) (product per_field)
  | SSlice e c => map (fun e' => SSlice e' c) (rot_orders e)
  | SPtr e nn pz => map (fun e' => SPtr e' nn pz) (rot_orders e)
  | SPre f e => map (fun e' => SPre f e') (rot_orders e)
  | _ => [s]
  end.
Definition max_rotations : N := 1500%N.

(** ** the judge *)
Definition tags_for (c : ecase) (s : sch) : list string :=
  let o := ec_obs c in
  let out := run (ec_mode c) s (ec_data c) (ec_dest0 c) in
  let is := o_issues out in
  let known := ec_known c in
  let exact := known || negb (ec_collide c) in
  let lm := is_list_schema s in
  let t (name : string) (ok : bool) := if ok then [] else [name] in
  (t "nil" (Bool.eqb (ob_nil o) (match is with [] => true | _ => false end))
   ++ t "issues" (issues_agree 0 exact lm is o)
   ++ t "dtype" (issues_agree 1 exact lm is o)
   ++ t "params" (issues_agree 2 exact lm is o)
   ++ t "msg" (issues_agree_f (call_fmt (ec_opts c)) 3 exact lm is o)
   ++ t "haserr" (issues_agree_f (call_fmt (ec_opts c)) 4 exact lm is o)
   ++ t "first" (first_agrees known is o)
   ++ t "dest" (dval_same (o_dest out) (ob_dest o))
   ++ t "calls" (calls_agree false known (o_calls out) o)
   ++ t "args" (calls_agree true known (o_calls out) o))%list.

Definition max_orders : N := 150%N.

(** every callback of the call read, under every probed key, what the call's own options put there
    (the recycled context object is an adversary: the model's answer does not depend on it) *)
Definition opt_str_eqb (a b : option string) : bool :=
  match a, b with Some x, Some y => String.eqb x y | None, None => true | _, _ => false end.
Definition views_agree (opts : list eopt) (views : list (list (string * option string))) : bool :=
  forallb (fun view => forallb (fun kv => opt_str_eqb (ctx_value {| e_fmt := Some ("dirty", None); e_vals := [("k1", "dirty"); ("k8", "dirty")] |} opts (fst kv)) (snd kv)) view) views.

(** model-free oracles evaluated on what the implementation returned *)
Definition oracle_tags (c : ecase) : list string :=
  let o := ec_obs c in
  let t (name : string) (ok : bool) := if ok then [] else [name] in
  (t "panic" (negb (ob_panic o))
   ++ t "ctx" (ec_ctxok c && views_agree (ec_opts c) (ec_views c))
   ++ t (if pt_free (ec_sch c) then "repeat" else "repeat_ptgate") (ec_repeat c)
   ++ t "sat" (negb (ob_nil o) || negb (pt_free (ec_sch c)) || satisfies (ec_mode c) (ec_sch c) (ec_data c) (ob_dest o)))%list.


Definition check_case (c : ecase) : verdict :=
  let ot := oracle_tags c in
  if ob_panic (ec_obs c) then Fail ot else
  let t0 := tags_for c (ec_sch c) in
  match t0, ot with
  | [], [] => Agree
  | _, _ =>
    if ec_known c then Fail (ot ++ t0)
    else match t0 with
         | [] => Fail ot
         | _ =>
           let agrees := fun s' => match tags_for c s' with [] => true | _ => false end in
           let verdict_ok := match ot with [] => Agree | _ => Fail ot end in
           let small := N.leb (n_orders (ec_sch c)) max_orders in
           (* (vm_compute is call-by-value: the enumerations must sit under [if], not under [&&]) *)
           let rot_ok := N.leb (n_rotations (ec_sch c)) max_rotations in
           if (if rot_ok then existsb agrees (rot_orders (ec_sch c)) else false) then verdict_ok
           else if small then (if existsb agrees (orders (ec_sch c)) then verdict_ok else Fail (ot ++ t0))
           else if rot_ok then Fail ("rotations_only" :: ot ++ t0)
           else Skip "order space too large"
         end
  end.

Definition check_all (cs : list ecase) : list (nat * verdict) :=
  keep_bad (map (fun c => (ec_id c, check_case c)) cs).

(** debugging aid: the model's outcome next to the observation *)
Definition explain (cs : list ecase) :=
  map (fun c => (ec_id c, ec_mode c, ec_data c, ec_dest0 c, run (ec_mode c) (ec_sch c) (ec_data c) (ec_dest0 c), ec_obs c)) cs.
