(** * The case-file vocabulary of the engine correspondence family.

    The Go harness (harness/eng) prints every generated case as a Gallina term in this vocabulary:
    schemas whose callbacks come from a small DSL that the harness builds as Go closures and this
    file interprets as Gallina functions.  Nothing here is a theorem; it is the glue that lets
    [vm_compute] run the model on the very case the implementation ran. *)
From Coq Require Export String List ZArith Bool Ascii.
From Coq Require Export Floats.SpecFloat.
From Zog Require Export Model.Val Model.Engine Model.Coerce Model.Preds Model.Builder Model.Options.
From Zog Require Import Model.Http Model.Trim.
Import ListNotations.
Open Scope string_scope.

Definition bs (l : list nat) : string := fold_right (fun n s => String (ascii_of_nat n) s) EmptyString l.
Definition mkT (s n o : Z) : time := {| t_sec := s; t_nsec := n; t_off := o |}.

Definition T := Build_test.
Definition P := Build_prim.
Definition SL := Build_slicecfg.

(** ASCII upper-casing, byte-wise (the harness' asciiUpper) *)
Definition up_byte (a : ascii) : ascii :=
  let n := nat_of_ascii a in if Nat.leb 97 n && Nat.leb n 122 then ascii_of_nat (n - 32) else a.
Fixpoint upper (s : string) : string :=
  match s with EmptyString => EmptyString | String a r => String (up_byte a) (upper r) end.

(** strings.Trim(s, " ") *)
Fixpoint trim_left (s : string) : string :=
  match s with String " "%char r => trim_left r | _ => s end.
Fixpoint rev_str (s acc : string) : string :=
  match s with EmptyString => acc | String a r => rev_str r (String a acc) end.
Definition trim_sp (s : string) : string := rev_str (trim_left (rev_str (trim_left s) "")) "".

(** ** user test predicates *)
Inductive upred :=
| PConst (b : bool) | PStrLenGe (n : Z) | PStrEq (s : string) | PIntGe (n : Z) | PFloatGe (n : Z)
| PSliceLenGe (n : Z) | PFieldStrEq (key s : string).

Definition ut (p : upred) (v : dval) : bool :=
  match p, v with
  | PConst b, _ => b
  | PStrLenGe n, DStr s => Z.geb (slen s) n
  | PStrEq x, DStr s => String.eqb s x
  | PIntGe n, DInt z => Z.geb z n
  | PFloatGe n, DFloat f => SFleb (z_to_f64 n) f
  | PSliceLenGe n, DSlice l => Z.geb (Z.of_nat (length l)) n
  | PFieldStrEq k x, DStruct fs => match alookup k fs with Some (DStr s) => String.eqb s x | _ => false end
  | _, _ => false
  end.

Definition bt (b : btest) (v : dval) : bool := btest_ok b v.
Definition nbt (b : btest) (v : dval) : bool := negb (btest_ok b v).

(** ** PostTransforms *)
Inductive ptop :=
| TUpper | TAppend (s : string) | TAdd (n : Z) | TErr (s : string) | TMutErr (n : Z) (key s : string)
| TIssue | TIssueBare | TSetField (key s : string) | TSetFirst (s : string) | TNoop.

Definition user_issue : issue :=
  {| i_path := "user.path"; i_code := "user_code"; i_dtype := "user_type"; i_params := [];
     i_msg := Some "user message"; i_err := None |}.

(** a hand-built issue that says nothing about where it happened: it is reported as it is (empty path: the root key) *)
Definition bare_issue : issue :=
  {| i_path := ""; i_code := "user_code"; i_dtype := ""; i_params := [];
     i_msg := Some "user message"; i_err := None |}.

Definition set_field (k s : string) (v : dval) : dval :=
  match v with
  | DStruct fs => match alookup k fs with Some (DStr _) => DStruct (dset k (DStr s) fs) | _ => v end
  | _ => v
  end.
Definition set_first (s : string) (v : dval) : dval :=
  match v with DSlice (DStr _ :: r) => DSlice (DStr s :: r) | _ => v end.

Definition pt_sem (op : ptop) (v : dval) : dval * option uerr :=
  match op with
  | TUpper => (match v with DStr s => DStr (upper s) | _ => v end, None)
  | TAppend x => (match v with DStr s => DStr (s ++ x) | _ => v end, None)
  | TAdd n => (match v with DInt z => DInt (z + n) | _ => v end, None)
  | TErr e => (v, Some (UErr e))
  | TMutErr n k e =>
    (match v with
     | DStr s => DStr (upper s)
     | DInt z => DInt (z + n)
     | DStruct _ => set_field k e v
     | DSlice _ => set_first e v
     | _ => v
     end, Some (UErr e))
  | TIssue => (v, Some (UIssue user_issue))
  | TIssueBare => (v, Some (UIssue bare_issue))
  | TSetField k s => (set_field k s v, None)
  | TSetFirst s => (set_first s v, None)
  | TNoop => (v, None)
  end.
Definition PT (id : nat) (op : ptop) : ptr := {| pt_id := id; pt_fn := pt_sem op |}.

(** ** Preprocess functions: Preprocess[string,string] (Parse) / Preprocess[*string,string] (Validate) *)
Inductive preop := PreUpper | PreTrim | PreErr | PreIssue | PreWrap | PreBlank.   (* PreBlank: every input becomes the empty string *)
Definition opaque_msg : string := "<opaque>".
Definition PRE (id : nat) (op : preop) : prefn :=
  {| pre_id := id;
     pre_parse := fun v =>
       match v with
       | VStr s => Some (match op with
                         | PreUpper => inl (VStr (upper s))
                         | PreTrim => inl (VStr (trim_sp s))
                         | PreBlank => inl (VStr "")
                         | PreErr => inr (UErr "pre error")
                         | PreIssue => inr (UIssue user_issue)
                         | PreWrap => inr (UErr "delegated check failed")
                         end)
       | _ => None
       end;
     pre_valid := fun d =>
       match d with
       | DStr s => match op with
                   | PreUpper => inl (DStr (upper s))
                   | PreTrim => inl (DStr (trim_sp s))
                   | PreBlank => inl (DStr "")
                   | PreErr => inr "pre error"
                   | PreIssue | PreWrap => inr opaque_msg
                   end
       | _ => inr opaque_msg
       end |}.

(** ** coercers *)
(** finite floats are compared by value: strip trailing zero bits of the mantissa *)
Fixpoint norm_pos (m : positive) (e : Z) : positive * Z :=
  match m with xO p => norm_pos p (e + 1)%Z | _ => (m, e) end.
Definition sf_same (a b : spec_float) : bool :=
  match a, b with
  | S754_zero x, S754_zero y => Bool.eqb x y
  | S754_infinity x, S754_infinity y => Bool.eqb x y
  | S754_nan, S754_nan => true
  | S754_finite s m e, S754_finite s' m' e' =>
    let '(m1, e1) := norm_pos m e in let '(m2, e2) := norm_pos m' e' in
    Bool.eqb s s' && Pos.eqb m1 m2 && Z.eqb e1 e2
  | _, _ => false
  end.

Definition mk_orc (pf : list (string * option spec_float)) (st : list ((bool * spec_float) * string))
           (tt : list ((string * string) * option time)) : oracles :=
  {| o_parse_float := fun s => match alookup s pf with Some r => r | None => None end;
     o_sprint := fun v =>
       let look b f := match find (fun e => Bool.eqb (fst (fst e)) b && sf_same (snd (fst e)) f) st with
                       | Some e => snd e | None => "?" end in
       match v with VF64 f => look false f | VF32 f => look true f | _ => "?" end;
     o_parse_time := fun l s =>
       match find (fun e => String.eqb (fst (fst e)) l && String.eqb (snd (fst e)) s) tt with
       | Some e => snd e | None => None end |}.

(** zenv: the provider over the raw environment; strings.TrimSpace is the model's own ([Model/Trim.v]) *)
Definition penv_raw (env : list (string * string)) : prov := PEnv (map (fun kv => (fst kv, trim_space (snd kv))) env).

Definition cdef (o : oracles) (layout : string) (k : kind) : val -> option dval := coerce_default o layout k.
Definition cconst (d : dval) : val -> option dval := fun _ => Some d.
Definition cerr : val -> option dval := fun _ => None.
Definition conv_string (v : val) : option dval := match v with VStr s => Some (DStr s) | _ => None end.
