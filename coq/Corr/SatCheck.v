(** * Correspondence judges for the satellite families (built-in predicates, numeric coercion,
    zhttp dispatch and URL parameters). *)
From Zog Require Export Corr.EngineDSL Corr.Verdict Model.Http.
From Zog Require Import Corr.EngineCheck.
Import ListNotations.
Open Scope string_scope.

(** ** C20: one built-in test on one subject; [pc_obs]: did the implementation's test pass? *)
Record pcase := PC { pc_id : nat; pc_test : btest; pc_neg : bool; pc_subject : dval; pc_obs : bool }.
Definition check_pcase (c : pcase) : verdict :=
  if Bool.eqb (xorb (pc_neg c) (btest_ok (pc_test c) (pc_subject c))) (pc_obs c) then Agree else Fail ["pred"].

(** ** C18: one input into one numeric schema; [nc_obs]: the destination, or None for a coerce issue *)
Record ncase := NC { nc_id : nat; nc_orc : oracles; nc_kind : kind; nc_in : val; nc_obs : option dval }.
Definition check_ncase (c : ncase) : verdict :=
  if opt_eqb dval_same (coerce_default (nc_orc c) rfc3339 (nc_kind c) (nc_in c)) (nc_obs c) then Agree else Fail ["coerce"].

(** ** C15: dispatch and URL parameters *)
Inductive hcase :=
| HD (id : nat) (meth ct : string) (obs : src)
| HU (id : nat) (vals : list (string * list string)) (key : string) (obs : val).
Definition src_eqb (a b : src) : bool :=
  match a, b with SrcQuery, SrcQuery | SrcJSON, SrcJSON | SrcForm, SrcForm => true | _, _ => false end.
Fixpoint val_same (a b : val) {struct a} : bool :=
  match a, b with
  | VNil, VNil => true
  | VStr x, VStr y => String.eqb x y
  | VList x, VList y =>
    (fix go (l1 l2 : list val) : bool :=
       match l1, l2 with [], [] => true | p :: r1, q :: r2 => val_same p q && go r1 r2 | _, _ => false end) x y
  | _, _ => false
  end.
Definition hcase_id (c : hcase) : nat := match c with HD id _ _ _ | HU id _ _ _ => id end.
Definition check_hcase (c : hcase) : verdict :=
  match c with
  | HD _ m ct obs => if src_eqb (http_source m ct) obs then Agree else Fail ["dispatch"]
  | HU _ vals k obs => if val_same (url_get vals k) obs then Agree else Fail ["urlget"]
  end.

Definition check_pcases (cs : list pcase) := keep_bad (map (fun c => (pc_id c, check_pcase c)) cs).
Definition check_ncases (cs : list ncase) := keep_bad (map (fun c => (nc_id c, check_ncase c)) cs).
Definition check_hcases (cs : list hcase) := keep_bad (map (fun c => (hcase_id c, check_hcase c)) cs).
