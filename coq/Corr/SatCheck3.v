(** * Correspondence judge: issue messages (C11). *)
From Zog Require Export Corr.Verdict Model.Val Model.Fmt Gen.Tables.
From Coq Require Export String List Bool Ascii.
Import ListNotations.
Open Scope string_scope.
Open Scope list_scope.

Record fcase := FC {
  fc_id : nat; fc_default : string;              (* the default language i18n was installed with *)
  fc_lang : option string;                       (* the language named in this execution's context *)
  fc_dtype : string; fc_code : string; fc_params : list (string * string); fc_value : string;
  fc_test_msg : option string;                   (* Message option of the test *)
  fc_exec_msg : option string;                   (* what the execution's formatter sets, if one was given *)
  fc_obs : string }.

Definition shipped2 : list (string * langmap) := [("en", lang_en); ("es", lang_es)].
Fixpoint contains_braces (s : string) : bool :=
  match s with
  | String "{"%char (String "{"%char _) => true
  | String _ r => contains_braces r
  | EmptyString => false
  end.
Definition check_fcase (c : fcase) : verdict :=
  let expected := choose_message (fc_test_msg c) (fc_exec_msg c)
                    (i18n_format shipped2 (fc_default c) (fc_lang c) (fc_dtype c) (fc_code c) (fc_params c) (fc_value c)) in
  let tags := (if String.eqb expected (fc_obs c) then [] else ["message"])
              ++ (if (negb (String.eqb (fc_obs c) "") && negb (contains_braces (fc_obs c)))
                     || match fc_exec_msg c with Some EmptyString => true | _ => false end   (* the user's own formatter set nothing *)
                  then []
                  else if String.eqb (fc_dtype c) "custom" then ["described_custom"] else ["described"])
              ++ (if String.eqb (fc_dtype c) "" then ["described"] else []) in
  match tags with [] => Agree | _ => Fail tags end.
Definition check_fcases (cs : list fcase) := keep_bad (map (fun c => (fc_id c, check_fcase c)) cs).
