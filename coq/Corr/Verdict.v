(** Verdicts printed by every correspondence judge: a case id with the tags of the projections on
    which model and implementation (or an oracle and the implementation) disagree. *)
From Coq Require Import String List.
Inductive verdict := Agree | Skip (why : string) | Fail (tags : list string).
Definition keep_bad (l : list (nat * verdict)) : list (nat * verdict) :=
  filter (fun r => match snd r with Agree => false | _ => true end) l.
