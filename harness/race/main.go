// Command zograce (built with -race) shares generated schema objects between goroutines: every
// goroutine runs Parse / Validate / Collect on the shared schemas with its own data, destination
// and options, and every result is compared with the result the same call gave running alone.
// The race detector's reports go to stderr; this program reports wrong results itself.
package main

import (
	"runtime"
	"encoding/json"
	"flag"
	"fmt"
	"os"
	"sync"
	"sync/atomic"
	"time"

	z "github.com/Oudwins/zog"
	"zogverif/eng"
)

func main() {
	seed := flag.Uint64("seed", 1, "seed")
	nschemas := flag.Int("schemas", 12, "shared schemas")
	workers := flag.Int("workers", 8, "goroutines")
	iters := flag.Int("iters", 150, "iterations per goroutine")
	out := flag.String("out", "", "result file (json)")
	flag.Parse()
	time.Local = time.UTC
	var specs []*eng.ExecSpec
	var refs [][]string // per spec: the canonical result per variant, computed alone
	for i := 0; i < *nschemas; i++ {
		g := &eng.Gen{R: eng.NewRng(*seed*7777 + uint64(i)), P: eng.ProfileByName("C08")}
		s := g.SharedSpec(6)
		specs = append(specs, s)
		var r []string
		for v := 0; v < s.Variants(); v++ {
			r = append(r, s.RunVariant(v, false))
		}
		refs = append(refs, r)
	}
	// requests of the three body / query front ends on one shared schema
	for i := 0; i < 2; i++ {
		g := &eng.Gen{R: eng.NewRng(*seed*9999 + uint64(i)), P: eng.ProfileByName("C08")}
		s := g.FrontEndSpec(9)
		specs = append(specs, s)
		var r []string
		for v := 0; v < s.Variants(); v++ {
			r = append(r, s.RunVariant(v, false))
		}
		refs = append(refs, r)
	}
	var wrong, total int64
	var first atomic.Value
	var wg sync.WaitGroup
	// growth rounds: all goroutines reach, at the same moment, slice indexes no call of this process has reached
	// before (anything the library builds lazily per index or per depth is built under contention); the
	// expected issue keys are known without a reference run
	grow := z.Slice(z.String().Len(1))
	for round := 0; round < 6; round++ {
		n := 96 << round
		var gw sync.WaitGroup
		start := make(chan struct{})
		for w := 0; w < *workers; w++ {
			gw.Add(1)
			go func(w int) {
				defer gw.Done()
				items := make([]any, n)
				typed := make([]string, n)
				for i := range items {
					v := "a"
					if i%7 == 3 {
						v = "ab"
					}
					items[i], typed[i] = v, v
				}
				<-start
				var errs z.ZogIssueMap
				if w%2 == 0 {
					var dest []string
					errs = grow.Parse(items, &dest)
				} else {
					errs = grow.Validate(&typed)
				}
				atomic.AddInt64(&total, 1)
				bad := ""
				want := 0
				for i := 0; i < n; i++ {
					if i%7 == 3 {
						want++
						k := fmt.Sprintf("[%d]", i)
						if is := errs[k]; len(is) != 1 || is[0].Path != k {
							bad = fmt.Sprintf("item %d of %d: issues under %q = %v", i, n, k, is)
							break
						}
					}
				}
				if bad == "" && len(errs) != want+1 {
					bad = fmt.Sprintf("%d keys for %d failing items of %d", len(errs)-1, want, n)
				}
				if bad != "" {
					atomic.AddInt64(&wrong, 1)
					first.CompareAndSwap(nil, "growth round: "+bad)
				}
			}(w)
		}
		close(start)
		gw.Wait()
	}
	// default rounds: one shared slice schema whose default holds memory in every shape a struct element can
	// (a struct by value holding a slice, an array of slices, a map, a pointer); every goroutine validates its own
	// nil slice, writes its own stamp through the value it got and must read its own stamp back: a result that shares
	// memory with the default (and so with every other result) shows another goroutine's stamp, or a race report
	{
		type inner struct{ Tags []string }
		type wide struct {
			Name   string
			In     inner
			Groups [2][]string
			Meta   map[string]string
			P      *inner
		}
		shared := z.Slice(z.Struct(z.Schema{"name": z.String().Min(1)})).Default([]wide{{Name: "w", In: inner{Tags: []string{"t"}},
			Groups: [2][]string{{"g"}, {"h"}}, Meta: map[string]string{"k": "v"}, P: &inner{Tags: []string{"p"}}}})
		var dw sync.WaitGroup
		for w := 0; w < *workers; w++ {
			dw.Add(1)
			go func(w int) {
				defer dw.Done()
				stamp := fmt.Sprintf("stamp-%d", w)
				for it := 0; it < 40; it++ {
					var d []wide
					errs := shared.Validate(&d)
					atomic.AddInt64(&total, 1)
					bad := ""
					if errs != nil || len(d) != 1 || d[0].Name != "w" || len(d[0].In.Tags) != 1 || d[0].In.Tags[0] != "t" || d[0].Groups[0][0] != "g" || d[0].Meta["k"] != "v" || d[0].P == nil || d[0].P.Tags[0] != "p" {
						bad = fmt.Sprintf("Validate of a nil slice gave %+v (issues %v) instead of the default", d, errs)
					} else {
						d[0].In.Tags[0], d[0].Groups[0][0], d[0].Meta["k"], d[0].P.Tags[0] = stamp, stamp, stamp, stamp
						runtime.Gosched()
						if d[0].In.Tags[0] != stamp || d[0].Groups[0][0] != stamp || d[0].Meta["k"] != stamp || d[0].P.Tags[0] != stamp {
							bad = fmt.Sprintf("goroutine %d wrote %q through its own result and read back %+v", w, stamp, d)
						}
					}
					if bad != "" {
						atomic.AddInt64(&wrong, 1)
						first.CompareAndSwap(nil, "default round: "+bad)
					}
				}
			}(w)
		}
		dw.Wait()
	}
	for w := 0; w < *workers; w++ {
		wg.Add(1)
		go func(w int) {
			defer wg.Done()
			r := eng.NewRng(*seed*31 + uint64(w))
			for it := 0; it < *iters; it++ {
				si := r.Intn(len(specs))
				v := r.Intn(specs[si].Variants())
				got := specs[si].RunVariant(v, r.P(40))
				atomic.AddInt64(&total, 1)
				if got != refs[si][v] {
					atomic.AddInt64(&wrong, 1)
					first.CompareAndSwap(nil, fmt.Sprintf("schema %d variant %d\nalone:\n%s\nconcurrently:\n%s", si, v, refs[si][v], got))
				}
			}
		}(w)
	}
	wg.Wait()
	res := map[string]any{"calls": total, "wrong_results": wrong, "schemas": len(specs), "workers": *workers, "iters": *iters}
	if f := first.Load(); f != nil {
		res["first_wrong"] = f
	}
	var shapes []string
	for _, s := range specs {
		shapes = append(shapes, s.Shape())
	}
	res["shapes"] = shapes
	b, _ := json.MarshalIndent(res, "", " ")
	if *out != "" {
		os.WriteFile(*out, b, 0o644)
	}
	fmt.Println(string(b))
}
