package sat

import (
	"fmt"
	"strings"

	z "github.com/Oudwins/zog"
	"github.com/Oudwins/zog/conf"
	"github.com/Oudwins/zog/i18n"
	"github.com/Oudwins/zog/i18n/en"
	"github.com/Oudwins/zog/i18n/es"
	"github.com/Oudwins/zog/zconst"
	"zogverif/eng"
)

func coqOpt(s *string) string {
	if s == nil {
		return "None"
	}
	return "(Some " + eng.CoqStr(*s) + ")"
}

// Messages: every catalogue entry x language selection x test-level / execution-level formatter.
func Messages(seed uint64, n int) *Out {
	o := NewOut("Corr.SatCheck3", "fcase")
	r := eng.NewRng(seed)
	saved := conf.IssueFormatter
	defer func() { conf.IssueFormatter = saved }()
	langs := map[string]zconst.LangMap{"en": en.Map, "es": es.Map}
	// an installation with a custom language key first, then the plain one: the plain key must win again
	i18n.SetLanguagesErrsMap(langs, "en", i18n.WithLangKey("locale"))
	i18n.SetLanguagesErrsMap(langs, "en")
	curDefault := "en"
	cat := Catalogue()
	str := func(s string) *string { return &s }
	emit := func(e CatEntry, lang *string, testMsg *string, execMsg *string) {
		var eo []z.ExecOption
		if lang != nil {
			eo = append(eo, z.WithCtxValue("lang", *lang))
		}
		if execMsg != nil {
			m := *execMsg
			eo = append(eo, z.WithIssueFormatter(func(i *z.ZogIssue, c z.Ctx) { i.SetMessage(m) }))
		}
		var to []z.TestOption
		if testMsg != nil && !e.NoTestOpts {
			to = append(to, z.Message(*testMsg))
		} else {
			testMsg = nil
		}
		is := e.Run(eo, to)
		if len(is) == 0 {
			o.Failures = append(o.Failures, Failure{ID: len(o.Cases), Tags: []string{"described"}, Detail: e.Name + " produced no issue"})
			return
		}
		i := is[0]
		ks, m := issueParams(i)
		var ps []string
		for _, k := range ks {
			ps = append(ps, "("+eng.CoqStr(k)+", "+eng.CoqStr(m[k])+")")
		}
		// the test's own message applies to the issue its test produced; required/coerce issues of the
		// same node come from other tests
		l := "None"
		if lang != nil {
			l = "(Some " + eng.CoqStr(*lang) + ")"
		}
		o.Add(e.Name, fmt.Sprint(lang != nil, testMsg != nil, execMsg != nil),
			fmt.Sprintf("(FC $ID %s %s %s %s [%s] %s %s %s %s)", eng.CoqStr(curDefault), l, eng.CoqStr(i.Dtype), eng.CoqStr(i.Code), strings.Join(ps, "; "),
				eng.CoqStr(fmt.Sprintf("%v", i.Value)), coqOpt(testMsg), coqOpt(execMsg), eng.CoqStr(i.Message)))
	}
	langChoices := []*string{nil, str("en"), str("es"), str("fr")}
	for _, e := range cat {
		for _, l := range langChoices {
			emit(e, l, nil, nil)
		}
		emit(e, str("es"), str("T: own message"), nil)
		emit(e, str("es"), nil, str("E: execution formatter"))
		emit(e, nil, str("T: own message"), str("E: execution formatter"))
		emit(e, str("es"), nil, str("")) // an execution formatter that sets nothing
	}
	// the same with another default language installed: no language named, or one that is not installed, means that default
	i18n.SetLanguagesErrsMap(langs, "es")
	curDefault = "es"
	for _, e := range cat {
		for _, l := range langChoices {
			emit(e, l, nil, nil)
		}
		emit(e, str("fr"), str("T: own message"), nil)
		emit(e, str("fr"), nil, str("")) // an execution formatter that sets nothing
	}
	i18n.SetLanguagesErrsMap(langs, "en")
	curDefault = "en"
	for len(o.Cases) < n {
		if r.P(30) != (curDefault == "es") {
			curDefault = map[bool]string{true: "es", false: "en"}[curDefault == "en"]
			i18n.SetLanguagesErrsMap(langs, curDefault)
		}
		e := cat[r.Intn(len(cat))]
		var tm, em *string
		if r.P(40) {
			tm = str(fmt.Sprintf("T%d", r.Intn(100)))
		}
		if r.P(40) {
			em = str(fmt.Sprintf("E%d", r.Intn(100)))
		}
		emit(e, langChoices[r.Intn(len(langChoices))], tm, em)
	}
	o.Notes = append(o.Notes, "exported builder methods (by reflection): "+strings.Join(ExportedBuilders(), " "))
	return o
}
