package sat

import (
	"fmt"
	"reflect"
	"sort"
	"strconv"
	"strings"

	z "github.com/Oudwins/zog"
	"zogverif/eng"
)

// ---- C16: Pick / Omit / Extend / Merge and later builder calls ----------------------------------

// (two keys that differ only in the case of their first letter name the same destination field and are different keys)
var helperKeys = []string{"a", "b", "c", "d", "e", "f", "A", "B"}

// keys whose field is always a nested struct (over some of the sub-keys x, y: which ones depends on the version)
var helperNested = map[string]bool{"e": true, "f": true}

// every key of the pool as a string field (a struct of two strings for the nested keys): any derived
// schema fits this destination
var helperDest = func() reflect.Type {
	var fs []reflect.StructField
	seen := map[string]bool{}
	for _, k := range helperKeys {
		if seen[strings.ToUpper(k)] {
			continue
		}
		seen[strings.ToUpper(k)] = true
		t := reflect.TypeOf("")
		if helperNested[k] {
			t = reflect.TypeOf(struct{ X, Y string }{})
		}
		fs = append(fs, reflect.StructField{Name: strings.ToUpper(k), Type: t})
	}
	return reflect.StructOf(fs)
}()

// the sub-keys of a nested field of the given version
func nestedSubs(version int) []string {
	return [][]string{{"x"}, {"y"}, {"x", "y"}}[version%3]
}

func helperInput() map[string]any {
	m := map[string]any{}
	for _, k := range helperKeys {
		if helperNested[k] {
			m[k] = map[string]any{"x": "x", "y": "x"}
		} else {
			m[k] = "x"
		}
	}
	return m
}

type helperWorld struct {
	failMode bool
	ptLog    []int
	testLog  []int
}

// a field schema: its version is the code of its failing test; schemas of two different types
// (string / custom) alternate, so that replacing a key also replaces the type of its node
func (w *helperWorld) field(version int, key string) z.ZogSchema {
	if helperNested[key] {
		// a nested struct: every part of it (its fields, its own test) carries the version
		sc := z.Schema{}
		for _, sub := range nestedSubs(version) {
			sc[sub] = w.field(version, "")
		}
		return z.Struct(sc).TestFunc(func(v any, ctx z.Ctx) bool { return !w.failMode }, z.IssueCode(fmt.Sprintf("f%d", version)))
	}
	if version%2 == 1 {
		return z.CustomFunc(func(p *string, ctx z.Ctx) bool { return !w.failMode }, z.IssueCode(fmt.Sprintf("f%d", version)))
	}
	return z.String().TestFunc(func(v any, ctx z.Ctx) bool { return !w.failMode }, z.IssueCode(fmt.Sprintf("f%d", version)))
}

// a struct-level test: its id is the code of its issue; some are reported under the key of a field
// (IssuePath), whether or not a derived schema still has that field
func (w *helperWorld) test(id int) (z.BoolTFunc, z.TestOption) {
	f := func(v any, ctx z.Ctx) bool {
		if w.failMode {
			w.testLog = append(w.testLog, id)
		}
		return !w.failMode
	}
	code := z.IssueCode(fmt.Sprintf("t%d", id))
	if id%3 == 1 {
		key := helperKeys[id%len(helperKeys)]
		return f, func(t *z.Test) { code(t); z.IssuePath(key)(t) }
	}
	return f, code
}
func (w *helperWorld) pt(id int) z.PostTransform {
	return func(p any, ctx z.Ctx) error { w.ptLog = append(w.ptLog, id); return nil }
}

// observe one schema: its fields (key, version), its struct tests and its transforms, by running it
func (w *helperWorld) observe(s *z.StructSchema) (fields [][2]string, tests, pts []string) {
	defer func() {
		if r := recover(); r != nil { // a derived schema that cannot even be executed
			fields, tests, pts = [][2]string{{"panic", "0"}}, []string{"9998"}, nil
		}
	}()
	w.failMode = true
	dest := reflect.New(helperDest)
	full := helperInput()
	w.testLog = nil
	errs := s.Parse(full, dest.Interface())
	// the struct tests in the order they ran; every one of them failed, so each has its issue
	for _, id := range w.testLog {
		tests = append(tests, fmt.Sprint(id))
	}
	nTestIssues := 0
	nested := map[string]map[string][]string{} // nested key -> version -> the paths that reported it
	for k, is := range errs {
		switch k {
		case "$first":
		default:
			for _, i := range is {
				if strings.HasPrefix(i.Code, "t") {
					nTestIssues++
					continue
				}
				v := strings.TrimPrefix(i.Code, "f")
				top, sub, _ := strings.Cut(k, ".")
				// the issue names the type of the node that is there now
				want := map[bool]string{true: "custom", false: "string"}
				if helperNested[top] && sub == "" {
					want = map[bool]string{true: "struct", false: "struct"}
				}
				if n, err := strconv.Atoi(v); err == nil && i.Dtype != want[n%2 == 1] {
					v = "7700" + v + " (* issue type " + i.Dtype + " *)"
				}
				if helperNested[top] {
					if nested[top] == nil {
						nested[top] = map[string][]string{}
					}
					nested[top][v] = append(nested[top][v], k)
					continue
				}
				fields = append(fields, [2]string{k, v})
			}
		}
	}
	// a nested field is the nested struct of one version: its own test and exactly its sub-keys report, nothing else
	for top, byV := range nested {
		for v, paths := range byV {
			sort.Strings(paths)
			if n, err := strconv.Atoi(v); err == nil {
				want := []string{top}
				for _, sub := range nestedSubs(n) {
					want = append(want, top+"."+sub)
				}
				if fmt.Sprint(paths) != fmt.Sprint(want) {
					v = "7800" + v + " (* reported at " + strings.Join(paths, " ") + " *)"
				}
			}
			fields = append(fields, [2]string{top, v})
		}
	}
	if nTestIssues != len(w.testLog) {
		tests = append(tests, "9997") // a struct test ran and failed without an issue of its own (or the reverse)
	}
	sort.Slice(fields, func(a, b int) bool { return fields[a][0]+"\x00"+fields[a][1] < fields[b][0]+"\x00"+fields[b][1] })
	w.failMode = false
	w.ptLog = nil
	data := helperInput()
	dest = reflect.New(helperDest)
	if errs := s.Parse(data, dest.Interface()); errs != nil {
		pts = append(pts, "9999") // unexpected: a valid record was rejected
	}
	for _, id := range w.ptLog {
		pts = append(pts, fmt.Sprint(id))
	}
	return
}

func coqFields(fs map[string]int, order []string) string {
	var xs []string
	for _, k := range order {
		xs = append(xs, fmt.Sprintf("(%s, %d)", eng.CoqStr(k), fs[k]))
	}
	return "[" + strings.Join(xs, "; ") + "]"
}

// Helpers generates random operation sequences over struct schemas.
func Helpers(seed uint64, n int) *Out {
	o := NewOut("Corr.SatCheck2", "kcase")
	for c := 0; c < n; c++ {
		r := eng.NewRng(seed*7919 + uint64(c))
		w := &helperWorld{}
		var schemas []*z.StructSchema
		var keysets [][]string // generator-side mirror of each schema's keys (to pick existing keys)
		var ops []string
		version, tid := 0, 0
		newFields := func(k int) (z.Schema, string, []string) {
			sc := z.Schema{}
			fs := map[string]int{}
			var order []string
			for len(sc) < k {
				key := eng.Pick(r, helperKeys)
				if _, ok := sc[key]; ok {
					continue
				}
				version++
				sc[key] = w.field(version, key)
				fs[key] = version
				order = append(order, key)
			}
			return sc, coqFields(fs, order), order
		}
		union := func(a, b []string) []string {
			m := map[string]bool{}
			var out []string
			for _, k := range append(append([]string{}, a...), b...) {
				if !m[k] {
					m[k] = true
					out = append(out, k)
				}
			}
			return out
		}
		sc, cf, ks := newFields(2 + r.Intn(3))
		schemas = append(schemas, z.Struct(sc))
		keysets = append(keysets, ks)
		ops = append(ops, "ONew "+cf)
		// a base with spare capacity in its slices makes aliasing visible: add a few tests first
		for k := r.Intn(6); k > 0; k-- {
			tid++
			f, opt := w.test(tid)
			schemas[0].TestFunc(f, opt)
			ops = append(ops, fmt.Sprintf("OTest 0 %d", tid))
		}
		nops := 3 + r.Intn(9)
		// the pattern of the property text: two schemas derived from a common base (possibly through an
		// operand that has nothing to add), then tests / transforms added to each of them and to the base
		var script []int
		if r.P(35) {
			script = []int{6, -1, -1, 0, 0, 0, 3, 3}
			nops += len(script)
		}
		derived := []int{}
		// Extend: the extension map is the caller's; it may be larger than the receiver, it must come back
		// unchanged, and the caller may go on using it (here: for one more schema)
		argChanged := ""
		extended := 0
		doExtend := func(i int) {
			k := 1 + r.Intn(2)
			if r.P(30) && len(keysets[i])+1 < len(helperKeys) {
				k = len(keysets[i]) + 1
			}
			sc, cf, ks := newFields(k)
			before := fmt.Sprint(len(sc), ks)
			schemas = append(schemas, schemas[i].Extend(sc))
			extended = len(schemas) - 1
			keysets = append(keysets, union(keysets[i], ks))
			ops = append(ops, fmt.Sprintf("OExtend %d %s", i, cf))
			var now []string
			for _, key := range ks {
				if _, ok := sc[key]; ok {
					now = append(now, key)
				}
			}
			if after := fmt.Sprint(len(sc), now); after != before && argChanged == "" {
				argChanged = "Extend modified the Schema map it was given: " + before + " -> " + after
			}
			if r.P(35) {
				schemas = append(schemas, z.Struct(sc))
				keysets = append(keysets, ks)
				ops = append(ops, "ONew "+cf)
			}
		}
		// schemas are executed between the operations too (anything an execution leaves behind in a
		// schema must not be inherited by, or withheld from, what is derived from it later)
		execEarly := r.P(40)
		nexec := 0
		for k := 0; k < nops; k++ {
			if execEarly && r.P(40) {
				w.observe(schemas[r.Intn(len(schemas))])
				nexec++
			}
			i := r.Intn(len(schemas))
			choice := r.Intn(9)
			if k < len(script) {
				choice = script[k]
				switch {
				case k == 0: // a fresh schema without tests or transforms
					choice = 60
				case choice == -1: // derive from the base
					i = 0
					choice = eng.Pick(r, []int{4, 5, 61, 7, 7})
				default: // extend one of: the derived schemas, the base
					cands := append([]int{0}, derived...)
					i = cands[(k+r.Intn(2))%len(cands)]
				}
			}
			switch choice {
			case 60:
				sc, cf, ks := newFields(1 + r.Intn(3))
				schemas = append(schemas, z.Struct(sc))
				keysets = append(keysets, ks)
				ops = append(ops, "ONew "+cf)
			case 61:
				doExtend(i)
				derived = append(derived, extended)
			case 0, 1, 2:
				tid++
				f, opt := w.test(tid)
				schemas[i].TestFunc(f, opt)
				ops = append(ops, fmt.Sprintf("OTest %d %d", i, tid))
			case 3:
				tid++
				schemas[i].PostTransform(w.pt(tid))
				ops = append(ops, fmt.Sprintf("OPT %d %d", i, tid))
			case 4, 5:
				// Pick / Omit with a mix of string and map[string]bool arguments over existing keys
				var cands []int
				for q := range schemas {
					if len(keysets[q]) > 0 {
						cands = append(cands, q)
					}
				}
				if len(cands) == 0 {
					continue
				}
				i = eng.Pick(r, cands)
				var args []any
				var cargs []string
				var sel []string
				for a := 1 + r.Intn(3); a > 0; a-- {
					key := eng.Pick(r, keysets[i])
					if r.P(50) {
						args = append(args, key)
						cargs = append(cargs, "AStr "+eng.CoqStr(key))
						sel = append(sel, key)
					} else {
						m := map[string]bool{}
						var ms []string
						for b := 1 + r.Intn(2); b > 0; b-- {
							k2 := eng.Pick(r, keysets[i])
							if _, ok := m[k2]; ok {
								continue
							}
							v := r.P(65)
							m[k2] = v
							ms = append(ms, "("+eng.CoqStr(k2)+", "+eng.CoqBool(v)+")")
							if v {
								sel = append(sel, k2)
							}
						}
						args = append(args, m)
						cargs = append(cargs, "AMap ["+strings.Join(ms, "; ")+"]")
					}
				}
				derived = append(derived, len(schemas))
				if (choice == 4 && k < len(script)) || (k >= len(script) && r.P(50)) {
					schemas = append(schemas, schemas[i].Pick(args...))
					keysets = append(keysets, union(sel, nil))
					ops = append(ops, fmt.Sprintf("OPick %d [%s]", i, strings.Join(cargs, "; ")))
				} else {
					schemas = append(schemas, schemas[i].Omit(args...))
					var rest []string
					for _, k0 := range keysets[i] {
						drop := false
						for _, s0 := range sel {
							if s0 == k0 {
								drop = true
							}
						}
						if !drop {
							rest = append(rest, k0)
						}
					}
					keysets = append(keysets, rest)
					ops = append(ops, fmt.Sprintf("OOmit %d [%s]", i, strings.Join(cargs, "; ")))
				}
			case 6:
				if r.P(35) { // an independent new schema (no tests, no transforms): a fresh operand for later merges
					sc, cf, ks := newFields(1 + r.Intn(3))
					schemas = append(schemas, z.Struct(sc))
					keysets = append(keysets, ks)
					ops = append(ops, "ONew "+cf)
					continue
				}
				doExtend(i)
			case 7, 8:
				if k >= len(script) && r.P(35) {
					// the variadic form: s.Merge(o1, o2, ...), two to four operands
					var js []int
					var ops2 []*z.StructSchema
					ks := keysets[i]
					var cjs []string
					for m := 2 + r.Intn(3); m > 0; m-- {
						j := r.Intn(len(schemas))
						js = append(js, j)
						ops2 = append(ops2, schemas[j])
						ks = union(ks, keysets[j])
						cjs = append(cjs, fmt.Sprint(j))
					}
					derived = append(derived, len(schemas))
					schemas = append(schemas, schemas[i].Merge(ops2[0], ops2[1:]...))
					keysets = append(keysets, ks)
					ops = append(ops, fmt.Sprintf("OMergeN %d [%s]", i, strings.Join(cjs, "; ")))
					continue
				}
				j := r.Intn(len(schemas))
				if k < len(script) {
					j = 1 // the fresh operand
				}
				derived = append(derived, len(schemas))
				schemas = append(schemas, schemas[i].Merge(schemas[j]))
				keysets = append(keysets, union(keysets[i], keysets[j]))
				ops = append(ops, fmt.Sprintf("OMerge %d %d", i, j))
			}
		}
		var obs []string
		for _, s := range schemas {
			fs, ts, ps := w.observe(s)
			var xs []string
			for _, f := range fs {
				xs = append(xs, "("+eng.CoqStr(f[0])+", "+f[1]+")")
			}
			obs = append(obs, fmt.Sprintf("(KO [%s] [%s] [%s])", strings.Join(xs, "; "), strings.Join(ts, "; "), strings.Join(ps, "; ")))
		}
		if argChanged != "" {
			o.Failures = append(o.Failures, Failure{ID: len(o.Cases), Tags: []string{"fields"}, Detail: argChanged})
		}
		o.Add(fmt.Sprintf("ops=%d execs_between=%v", len(ops), nexec > 0), strings.Join(ops, ";"), fmt.Sprintf("(KC $ID [%s] [%s])", strings.Join(ops, "; "), strings.Join(obs, "; ")))
	}
	return o
}
