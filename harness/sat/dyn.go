package sat

import (
	"errors"
	"fmt"
	"math"
	"reflect"
	"strings"

	z "github.com/Oudwins/zog"
	"github.com/Oudwins/zog/internals"
	"github.com/Oudwins/zog/parsers/zjson"
	"zogverif/eng"
)

// ---- C06: no input data can make Parse panic --------------------------------------------------------

type (
	mAny   map[string]any
	mStr   map[string]string
	mInt   map[string]int
	mF64   map[string]float64
	mBool  map[string]bool
	myStr  string
	myKey  string
	mNamed map[string]myStr
)

type dynDest struct {
	A    string
	B    string
	Name string
	// a key longer than 32 bytes is valid configuration
	AVeryLongFieldNameThatIsLongerThanThirtyTwoBytes string
}

var dynKeys = []string{"a", "b", "name", "aVeryLongFieldNameThatIsLongerThanThirtyTwoBytes"}

func dynSchema() *z.StructSchema {
	sc := z.Schema{}
	for _, k := range dynKeys {
		sc[k] = z.String().Required(z.IssueCode("absent:" + k))
	}
	return z.Struct(sc)
}

type dynIn struct {
	v   any
	coq string
}

func mt(named, keyStr, keyExact bool, elem string, elemExact bool) string {
	return fmt.Sprintf("{| mt_named := %v; mt_key_string_kind := %v; mt_key_exact := %v; mt_elem := %s; mt_elem_exact := %v |}", named, keyStr, keyExact, elem, elemExact)
}

func entriesCoq(present map[string]bool) string {
	var xs []string
	for _, k := range append([]string{"zz"}, dynKeys...) {
		if p, ok := present[k]; ok {
			xs = append(xs, "("+eng.CoqStr(k)+", "+eng.CoqBool(p)+")")
		}
	}
	return "[" + strings.Join(xs, "; ") + "]"
}

type strukt struct {
	a    string // unexported, named like a schema key
	B    string
	name string
	Name string
}

// fields promoted from an embedded pointer (which may be nil): unexported, named like schema keys
type base struct {
	a    string
	name string
}
type embedded struct {
	*base
	B string
}
type embeddedDeep struct {
	*embedded
}

// dynInputs: a grammar over Go dynamic types at a struct position.
func dynInputs(r *eng.Rng) []dynIn {
	var ins []dynIn
	add := func(v any, coq string) { ins = append(ins, dynIn{v, coq}) }
	vals := func() (map[string]bool, func(k string) (string, bool)) {
		present := map[string]bool{}
		for _, k := range dynKeys {
			switch r.Intn(4) {
			case 0: // missing
			case 1:
				present[k] = false // blank
			default:
				present[k] = true
			}
		}
		if r.P(30) {
			present["zz"] = true
		}
		return present, func(k string) (string, bool) {
			p, ok := present[k]
			if !ok {
				return "", false
			}
			if p {
				return "v-" + k, true
			}
			return "  ", true
		}
	}
	for rep := 0; rep < 6; rep++ {
		present, get := vals()
		ec := entriesCoq(present)
		// map[string]any and its named version; map[string]string / named; typed maps with non-string values
		ma, ms := map[string]any{}, map[string]string{}
		mi, mf, mb := map[string]int{}, map[string]float64{}, map[string]bool{}
		mn, me := mNamed{}, map[string]error{}
		mk, mik := map[myKey]string{}, map[int]string{}
		msl := map[string][]string{}
		presNum := map[string]bool{}
		i := 0
		for k := range present {
			s, _ := get(k)
			ma[k], ms[k], mn[k], mk[myKey(k)], mik[i], msl[k] = s, s, myStr(s), s, s, []string{s}
			mi[k], mf[k], mb[k], me[k] = i+1, float64(i)+0.5, true, errors.New(s)
			presNum[k] = true // a number / bool is never blank
			i++
		}
		nc := entriesCoq(presNum)
		add(ma, "(GMap "+mt(false, true, true, "EIface", true)+" false "+ec+")")
		add(mAny(ma), "(GMap "+mt(true, true, true, "EIface", true)+" false "+ec+")")
		add(ms, "(GMap "+mt(false, true, true, "EString", true)+" false "+ec+")")
		add(mStr(ms), "(GMap "+mt(true, true, true, "EString", true)+" false "+ec+")")
		add(mi, "(GMap "+mt(false, true, true, "EInt", true)+" false "+nc+")")
		add(mInt(mi), "(GMap "+mt(true, true, true, "EInt", true)+" false "+nc+")")
		add(mf, "(GMap "+mt(false, true, true, "EFloat64", true)+" false "+nc+")")
		add(mF64(mf), "(GMap "+mt(true, true, true, "EFloat64", true)+" false "+nc+")")
		add(mb, "(GMap "+mt(false, true, true, "EBool", true)+" false "+nc+")")
		add(mBool(mb), "(GMap "+mt(true, true, true, "EBool", true)+" false "+nc+")")
		add(mn, "(GMap "+mt(true, true, true, "EString", false)+" false "+ec+")")
		add(me, "(GMap "+mt(false, true, true, "EIface", false)+" false "+ec+")")
		add(mk, "(GMap "+mt(false, true, false, "EString", true)+" false "+ec+")")
		add(mik, "(GMap "+mt(false, false, false, "EString", true)+" false "+ec+")")
		add(msl, "(GMap "+mt(false, true, true, "EOtherKind", false)+" false "+ec+")")
		// typed maps of the other numeric widths are not records (only int, float64, bool, string and any are)
		mi64, mi32, mi8, mf32, mu := map[string]int64{}, map[string]int32{}, map[string]int8{}, map[string]float32{}, map[string]uint{}
		j := 0
		for k := range present {
			mi64[k], mi32[k], mi8[k], mf32[k], mu[k] = (1<<53)+1+int64(j), int32(j+1), int8(j+1), float32(j)+0.5, uint(j+1)
			j++
		}
		add(mi64, "(GMap "+mt(false, true, true, "EOtherKind", false)+" false "+nc+")")
		add(mi32, "(GMap "+mt(false, true, true, "EOtherKind", false)+" false "+nc+")")
		add(mi8, "(GMap "+mt(false, true, true, "EOtherKind", false)+" false "+nc+")")
		add(mf32, "(GMap "+mt(false, true, true, "EOtherKind", false)+" false "+nc+")")
		add(mu, "(GMap "+mt(false, true, true, "EOtherKind", false)+" false "+nc+")")
		// pointers of several depths, nil at every level
		pm := &ma
		ppm := &pm
		add(pm, "(GPtr (Some (GMap "+mt(false, true, true, "EIface", true)+" false "+ec+")))")
		add(ppm, "(GPtr (Some (GPtr (Some (GMap "+mt(false, true, true, "EIface", true)+" false "+ec+")))))")
		named := mStr(ms)
		pn := &named
		add(&pn, "(GPtr (Some (GPtr (Some (GMap "+mt(true, true, true, "EString", true)+" false "+ec+")))))")
		// structs: unexported fields named like the schema keys, exported ones
		st := strukt{a: "v-a", B: "v-b", name: "  ", Name: "v-name"}
		sc := `(GStruct [("a", false, true); ("B", true, true); ("name", false, false); ("Name", true, true)])`
		add(st, sc)
		add(&st, "(GPtr (Some "+sc+"))")
		pst := &st
		add(&pst, "(GPtr (Some (GPtr (Some "+sc+"))))")
	}
	// nils of every flavour
	var nilMap map[string]any
	var nilNamed mStr
	var nilStruct *strukt
	var nilPP **strukt
	var innerNil *strukt
	var innerNilMap *map[string]any
	add(nil, "GNil")
	add(nilMap, "(GMap "+mt(false, true, true, "EIface", true)+" true [])")
	add(nilNamed, "(GMap "+mt(true, true, true, "EString", true)+" true [])")
	add(nilStruct, "(GPtr None)")
	add(nilPP, "(GPtr None)")
	add(&innerNil, "(GPtr (Some (GPtr None)))")
	add(&innerNilMap, "(GPtr (Some (GPtr None)))")
	pin := &innerNil
	add(&pin, "(GPtr (Some (GPtr (Some (GPtr None)))))")
	// structs whose fields named like the schema keys are promoted from an embedded pointer: nil, not nil, nil two levels down
	add(embedded{B: "b"}, `(GStruct [("base", false, false); ("B", true, true); ("a", false, false); ("name", false, false)])`)
	add(&embedded{B: "b"}, `(GPtr (Some (GStruct [("base", false, false); ("B", true, true); ("a", false, false); ("name", false, false)])))`)
	add(embedded{base: &base{a: "x", name: "y"}, B: "b"}, `(GStruct [("base", false, true); ("B", true, true); ("a", false, true); ("name", false, true)])`)
	add(embeddedDeep{}, `(GStruct [("embedded", false, false); ("B", true, false); ("a", false, false); ("name", false, false)])`)
	add(embeddedDeep{&embedded{B: "b"}}, `(GStruct [("embedded", false, true); ("B", true, true); ("a", false, false); ("name", false, false)])`)
	add(map[string]any{}, "(GMap "+mt(false, true, true, "EIface", true)+" false [])")
	add(mStr{}, "(GMap "+mt(true, true, true, "EString", true)+" false [])")
	// other kinds
	for _, v := range []any{"a string", 42, 3.5, math.NaN(), math.Inf(1), true, []any{1, 2}, []string{"a"}, [2]int{1, 2}, make(chan int), func() {}, "\xff\xfe",
		[]map[string]any{{"a": "x"}}, complex(1, 2), uintptr(7), struct{}{}, errors.New("an error"), myStr("named"), []byte("bytes")} {
		add(v, describe(reflect.ValueOf(v)))
	}
	return ins
}

// Dyn runs the fixed, well-configured struct schema on every input and records what happened.
func Dyn(seed uint64, n int) *Out {
	o := NewOut("Corr.SatCheck4", "dcase")
	r := eng.NewRng(seed)
	var keys []string
	for _, k := range dynKeys {
		keys = append(keys, eng.CoqStr(k))
	}
	for len(o.Cases) < n {
		for _, in := range dynInputs(r) {
			schema := dynSchema()
			var dest dynDest
			panicked := false
			var errs z.ZogIssueMap
			func() {
				defer func() {
					if rec := recover(); rec != nil {
						panicked = true
						internals.ClearPools()
					}
				}()
				errs = schema.Parse(in.v, &dest)
			}()
			rootCoerce := false
			absent := map[string]bool{}
			for k, is := range errs {
				for _, i := range is {
					if k == "$root" && i.Code == "coerce" {
						rootCoerce = true
					}
					if strings.HasPrefix(i.Code, "absent:") {
						absent[strings.TrimPrefix(i.Code, "absent:")] = true
					}
				}
			}
			var pres []string
			for _, k := range dynKeys {
				pres = append(pres, "("+eng.CoqStr(k)+", "+eng.CoqBool(!absent[k])+")")
			}
			o.Add(fmt.Sprintf("%T", in.v), in.coq, fmt.Sprintf("(DC $ID %s [%s] %s %s [%s])", in.coq, strings.Join(keys, "; "),
				eng.CoqBool(panicked), eng.CoqBool(rootCoerce), strings.Join(pres, "; ")))
		}
	}
	// one schema value used with two destination types that lay the same fields out differently
	{
		type alt struct {
			AVeryLongFieldNameThatIsLongerThanThirtyTwoBytes string
			Name                                             string
			B                                                string
			A                                                string
		}
		schema := dynSchema()
		in := map[string]any{"a": "va", "b": "vb", "name": "vn", "aVeryLongFieldNameThatIsLongerThanThirtyTwoBytes": "vl"}
		var d1 dynDest
		var d2 alt
		panicked, wrong := false, ""
		func() {
			defer func() {
				if rec := recover(); rec != nil {
					panicked = true
					wrong = fmt.Sprint(rec)
					internals.ClearPools()
				}
			}()
			e1 := schema.Parse(in, &d1)
			e2 := schema.Parse(in, &d2)
			if len(e1) != 0 || len(e2) != 0 || d1.A != "va" || d2.A != "va" || d2.Name != "vn" || d1.B != "vb" || d2.B != "vb" {
				wrong = fmt.Sprintf("%+v %+v %v %v", d1, d2, e1, e2)
			}
		}()
		if panicked || wrong != "" {
			tag := "reuse"
			if panicked {
				tag = "panic"
			}
			o.Failures = append(o.Failures, Failure{ID: len(o.Cases), Tags: []string{tag}, Detail: "one schema value parsed into two destination types with the same fields in different order: " + wrong})
		}
		o.Kinds["schema reused with another destination layout"]++
	}
	// front ends: JSON documents of every top-level shape through zjson
	// documents nested deeper than any fixed-size table or pooled buffer: a schema 40 structs deep, then
	// ordinary calls on whatever the deep call left in the pools
	func() {
		var schema z.ZogSchema = z.String().Min(5)
		t := reflect.TypeOf("")
		var data any = "x"
		for i := 0; i < 40; i++ {
			schema = z.Struct(z.Schema{"n": schema})
			t = reflect.StructOf([]reflect.StructField{{Name: "N", Type: t}})
			data = map[string]any{"n": data}
		}
		for round := 0; round < 3; round++ {
			panicked := ""
			func() {
				defer func() {
					if rec := recover(); rec != nil {
						panicked = fmt.Sprint(rec)
						internals.ClearPools()
					}
				}()
				parseAny(schema, data, reflect.New(t).Interface())
				var str string
				z.String().Min(3).Parse("x", &str)
				var dest dynDest
				dynSchema().Parse(map[string]any{"a": "x"}, &dest)
			}()
			if panicked != "" {
				o.Failures = append(o.Failures, Failure{ID: len(o.Cases), Tags: []string{"panic"}, Detail: "a document nested 40 levels deep, then ordinary calls (round " + fmt.Sprint(round) + "): panic: " + panicked})
				break
			}
		}
		o.Kinds["deep document"]++
	}()
	for _, doc := range []string{`{}`, `{"a":"x"}`, `null`, ``, `[]`, `[1]`, `1`, `"s"`, `true`, `{"a":`, `{"a":null,"b":{}}`, `{"a":{"b":{"c":[1,{"d":null}]}}}`, ` `, "\xff", `{"a":1e400}`,
		`{"aVeryLongFieldNameThatIsLongerThanThirtyTwoBytes":"x"}`, `{"a":"\ud800"}`} {
		schema := dynSchema()
		var dest dynDest
		panicked := false
		func() {
			defer func() {
				if rec := recover(); rec != nil {
					panicked = true
					internals.ClearPools()
				}
			}()
			schema.Parse(zjson.Decode(strings.NewReader(doc)), &dest)
		}()
		if panicked {
			o.Failures = append(o.Failures, Failure{ID: len(o.Cases), Tags: []string{"panic"}, Detail: "zjson document " + fmt.Sprintf("%q", doc) + " made Parse panic"})
		}
		o.Kinds["json document"]++
	}
	return o
}

// describe renders the shape of a value of any other kind: pointers are followed, structs list
// their fields with the exported flag, everything else is [GOther].
func describe(v reflect.Value) string {
	switch v.Kind() {
	case reflect.Pointer:
		if v.IsNil() {
			return "(GPtr None)"
		}
		return "(GPtr (Some " + describe(v.Elem()) + "))"
	case reflect.Struct:
		var fs []string
		for i := 0; i < v.NumField(); i++ {
			f := v.Type().Field(i)
			fs = append(fs, fmt.Sprintf("(%s, %v, true)", eng.CoqStr(f.Name), f.IsExported()))
		}
		return "(GStruct [" + strings.Join(fs, "; ") + "])"
	}
	return "GOther"
}

// parseAny calls Parse on a schema of any complex type (the method takes the destination as `any`).
func parseAny(schema z.ZogSchema, data any, dest any) {
	reflect.ValueOf(schema).MethodByName("Parse").Call([]reflect.Value{reflect.ValueOf(&data).Elem(), reflect.ValueOf(dest)})
}
