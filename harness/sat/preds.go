// Package sat holds the satellite correspondence families: focused comparisons of one mechanism of
// zog (built-in predicates, numeric coercion, zhttp dispatch, ...) with its Coq model.
package sat

import (
	"fmt"
	"math"
	"net/url"
	"regexp"
	"strings"
	"time"

	z "github.com/Oudwins/zog"
	"zogverif/eng"
)

// Out collects the Gallina case terms of one family run and its statistics.
type Out struct {
	Import   string   // Corr module
	CaseType string   // Gallina type of a case
	Cases    []string // terms
	Kinds    map[string]int
	Distinct map[string]bool
	Failures []Failure
	Notes    []string
}

type Failure struct {
	ID     int      `json:"id"`
	Tags   []string `json:"tags"`
	Detail string   `json:"detail"`
}

func NewOut(imp, typ string) *Out {
	return &Out{Import: imp, CaseType: typ, Kinds: map[string]int{}, Distinct: map[string]bool{}}
}

func (o *Out) Add(kind, key, term string) int {
	id := len(o.Cases)
	o.Cases = append(o.Cases, strings.ReplaceAll(term, "$ID", fmt.Sprint(id)))
	o.Kinds[kind]++
	o.Distinct[kind+"|"+key] = true
	return id
}

// ---- C20: built-in predicates -------------------------------------------------------------------

// passes runs one single-test schema on a subject and says whether the test passed.
// Zero-valued subjects are routed through Default(subject) on an absent input (the documented way a
// zero value gets tested); everything else is validated in place.
func passStr(build func(s *z.StringSchema[string]), subj string) bool {
	s := z.String()
	build(s)
	if subj == "" {
		var d string
		return len(s.Default(subj).Parse(nil, &d)) == 0
	}
	if strings.TrimSpace(subj) != "" && len(subj)%2 == 0 { // alternate between the two modes
		var d string
		return len(s.Parse(subj, &d)) == 0 && d == subj
	}
	return len(s.Validate(&subj)) == 0
}

func passNum[T int | int32 | int64 | float32 | float64](mk func() *z.NumberSchema[T], build func(s *z.NumberSchema[T]), subj T) bool {
	s := mk()
	build(s)
	if subj == 0 {
		var d T
		return len(s.Default(subj).Parse(nil, &d)) == 0
	}
	return len(s.Validate(&subj)) == 0
}

var specials = "!\"#$%&'()*+,-./:;<=>?@[\\]^_`{|}~"

func strSubjects(r *eng.Rng) []string {
	subs := []string{"", "a", "ab", "abc", "abcd", "abcde", "hello", "he", "lo", "ell", "Hello", "HELLO", "x1", "12345", "é", "héllo", "日本語", "\xff", "a\xffb", " ", "a b",
		"@", "A", "Z", "[", "`", "a", "z", "{", "/", "0", "9", ":", "~", "\x7f", "!", " ", "É", "Ａ", "١", "¡"}
	for i := 0; i < 256; i++ {
		subs = append(subs, string([]byte{byte(i)}))
	}
	for i := 0; i < 40; i++ {
		n := r.Intn(8)
		b := make([]byte, n)
		for j := range b {
			b[j] = "abXY09!_ é"[r.Intn(10)]
		}
		subs = append(subs, string(b))
	}
	return subs
}

var emails = []string{"user@example.com", "a@b", "a@b.c", "@b.c", "a@", "a", "a@@b.c", "a b@c.d", "a@b..c", "a@-b.c", "a@b-.c", "a@b.c-", "a.b+c@d-e.f", "a@b_c.d",
	"A!#$%&'*+/=?^_`{|}~-@x.y", "a@" + strings.Repeat("x", 63) + ".com", "a@" + strings.Repeat("x", 64) + ".com", "a@" + strings.Repeat("x", 62) + ".c", "a@x." + strings.Repeat("y", 61),
	"é@x.y", "a@é.y", "a@b.c\n", "\na@b.c", "a@b.c ", "a(b)@c.d", "a@[1.2.3.4]", "\"a\"@b.c", "a@b,c", "a@1.2", ".@a.b"}

func init() {
	// label lengths around the limit of 63, in first, middle and last position
	for _, n := range []int{1, 62, 63, 64, 65, 100} {
		l := strings.Repeat("a", n)
		emails = append(emails, "user@"+l, "user@"+l+".com", "user@example."+l, "user@a."+l+".b", "user@"+l+"."+l, "user@x.y."+l, "u@"+l[:n-1]+"-", "u@-"+l[:n-1])
	}
}

var uuids = []string{"550e8400-e29b-41d4-a716-446655440000", "550E8400-E29B-41D4-A716-446655440000", "550e8400e29b41d4a716446655440000", "550e8400-e29b-41d4-a716-44665544000",
	"550e8400-e29b-41d4-a716-4466554400000", "g50e8400-e29b-41d4-a716-446655440000", "550e8400-e29b-41d4-a716_446655440000", " 550e8400-e29b-41d4-a716-446655440000",
	"550e8400-e29b-41d4-a716-446655440000 ", "550e8400-e29b-41d4-a716-44665544000g", "550e840-0e29b-41d4-a716-446655440000", "00000000-0000-0000-0000-000000000000", "",
	"x550e8400-e29b-41d4-a716-446655440000", "550e8400-e29b-41d4-a716-446655440000x", "-550e8400-e29b-41d4-a716-446655440000", "550e8400-e29b-41d4-a716-446655440000-", "é50e8400-e29b-41d4-a716-446655440000"}

var urls = []string{"http://example.com", "https://a.b/c?d=e", "example.com", "http://", "://x", "ftp://host", "http:/x", "mailto:a@b", "http://[::1]:80/", "", "a b://c", "/rel/path", "http://a b", "h://h",
	"http://example.com#top", "https://example.com#", "http://[::1]#f", "http://example.com#a?b", "http://h/p#f", "http://h?q#f", "HTTP://EXAMPLE.COM",
	"http://user:pw@host:8080/p?q=1#f", "http://example.com/%zz", "http://example.com?%zz", "http://host:port/", "//host/path", "http:///path", "http://host#%zz", "urn:isbn:0", "http://h\x7f"}

func coqBoolT(b bool) string { return eng.CoqBool(b) }

// Preds enumerates the built-in tests over boundary and random subjects.
func Preds(seed uint64, n int) *Out {
	o := NewOut("Corr.SatCheck", "pcase")
	r := eng.NewRng(seed)
	add := func(kind, bt string, neg bool, subj string, pass bool) {
		o.Add(kind, bt, fmt.Sprintf("(PC $ID %s %s %s %s)", bt, coqBoolT(neg), subj, coqBoolT(pass)))
	}
	dstr := func(s string) string { return "(DStr " + eng.CoqStr(s) + ")" }
	subs := strSubjects(r)
	// --- strings
	for _, neg := range []bool{false, true} {
		wrap := func(s *z.StringSchema[string]) z.NotStringSchema[string] { return s.Not() }
		for _, k := range []int{-3, -1, 0, 1, 2, 3, 5} {
			for _, s := range []string{"", "a", "ab", "abc", "abcd", "abcde", "abcdef", "é", "éa", "日本", "\xff\xfe\xfd"} {
				if !neg {
					add("str.min", fmt.Sprintf("(BStrMin %s)", eng.CoqZ(int64(k))), false, dstr(s), passStr(func(x *z.StringSchema[string]) { x.Min(k) }, s))
					add("str.max", fmt.Sprintf("(BStrMax %s)", eng.CoqZ(int64(k))), false, dstr(s), passStr(func(x *z.StringSchema[string]) { x.Max(k) }, s))
				}
				add("str.len", fmt.Sprintf("(BStrLen %s)", eng.CoqZ(int64(k))), neg, dstr(s), passStr(func(x *z.StringSchema[string]) {
					if neg {
						wrap(x).Len(k)
					} else {
						x.Len(k)
					}
				}, s))
			}
		}
		for _, p := range []string{"", "a", "he", "lo", "ell", "hello", "hellox", "é", "\xc3", "l"} {
			for _, s := range []string{"", "a", "hello", "he", "lo", "ell", "xhello", "hellox", "é", "héllo", "\xc3\xa9", "hel", "llo"} {
				add("str.prefix", "(BHasPrefix "+eng.CoqStr(p)+")", neg, dstr(s), passStr(func(x *z.StringSchema[string]) {
					if neg {
						wrap(x).HasPrefix(p)
					} else {
						x.HasPrefix(p)
					}
				}, s))
				add("str.suffix", "(BHasSuffix "+eng.CoqStr(p)+")", neg, dstr(s), passStr(func(x *z.StringSchema[string]) {
					if neg {
						wrap(x).HasSuffix(p)
					} else {
						x.HasSuffix(p)
					}
				}, s))
				add("str.contains", "(BStrContains "+eng.CoqStr(p)+")", neg, dstr(s), passStr(func(x *z.StringSchema[string]) {
					if neg {
						wrap(x).Contains(p)
					} else {
						x.Contains(p)
					}
				}, s))
			}
		}
		for _, s := range subs {
			add("str.upper", "BContainsUpper", neg, dstr(s), passStr(func(x *z.StringSchema[string]) {
				if neg {
					wrap(x).ContainsUpper()
				} else {
					x.ContainsUpper()
				}
			}, s))
			add("str.digit", "BContainsDigit", neg, dstr(s), passStr(func(x *z.StringSchema[string]) {
				if neg {
					wrap(x).ContainsDigit()
				} else {
					x.ContainsDigit()
				}
			}, s))
			add("str.special", "BContainsSpecial", neg, dstr(s), passStr(func(x *z.StringSchema[string]) {
				if neg {
					wrap(x).ContainsSpecial()
				} else {
					x.ContainsSpecial()
				}
			}, s))
		}
		for _, s := range emails {
			add("str.email", "BEmail", neg, dstr(s), passStr(func(x *z.StringSchema[string]) {
				if neg {
					wrap(x).Email()
				} else {
					x.Email()
				}
			}, s))
		}
		// every position of a valid address perturbed
		base := "ab.c@de-f.gh"
		for i := 0; i < len(base); i++ {
			for _, c := range []byte{'@', '.', '-', ' ', '_', 'x'} {
				s := base[:i] + string(c) + base[i+1:]
				add("str.email", "BEmail", neg, dstr(s), passStr(func(x *z.StringSchema[string]) {
					if neg {
						wrap(x).Email()
					} else {
						x.Email()
					}
				}, s))
			}
		}
		for _, s := range uuids {
			add("str.uuid", "BUUID", neg, dstr(s), passStr(func(x *z.StringSchema[string]) {
				if neg {
					wrap(x).UUID()
				} else {
					x.UUID()
				}
			}, s))
		}
		ub := "550e8400-e29b-41d4-a716-446655440000"
		for i := 0; i < len(ub); i++ {
			for _, c := range []byte{'-', 'g', 'F', '0'} {
				s := ub[:i] + string(c) + ub[i+1:]
				add("str.uuid", "BUUID", neg, dstr(s), passStr(func(x *z.StringSchema[string]) {
					if neg {
						wrap(x).UUID()
					} else {
						x.UUID()
					}
				}, s))
			}
		}
		for _, s := range urls {
			u, err := url.Parse(s)
			want := err == nil && u.Scheme != "" && u.Host != ""
			add("str.url", "(BOracle "+coqBoolT(want)+")", neg, dstr(s), passStr(func(x *z.StringSchema[string]) {
				if neg {
					wrap(x).URL()
				} else {
					x.URL()
				}
			}, s))
		}
		for _, s := range []string{"abc", "abc1", "abcd", "", "a", "c9", "abc12", "ABC", "x"} {
			add("str.match", "(BOracle "+coqBoolT(eng.MatchRegex.MatchString(s))+")", neg, dstr(s), passStr(func(x *z.StringSchema[string]) {
				if neg {
					wrap(x).Match(eng.MatchRegex)
				} else {
					x.Match(eng.MatchRegex)
				}
			}, s))
		}
		// Match is regexp.MatchString for whatever expression the user gives: anchored or not, with a
		// literal prefix or not, case-insensitive, alternations, empty
		for _, re := range []string{`id-[0-9]+`, `ab[0-9]`, `^ab`, `b$`, `(?i)ab1`, `[0-9]b`, `a|b1`, ``, `^$`, `é+`, `a.c`, `(?s)a.c`, `\bab\b`, `^(?:ab)+$`} {
			rx := regexp.MustCompile(re)
			for _, s := range []string{"", "ab1", "aab1", "order id-42", "id-42", "id-", "xab", "ab", "b", "AB1", "9b", "a\nc", "abc", "éé", "x é", "ab ab", "abab", "1b1"} {
				add("str.match", "(BOracle "+coqBoolT(rx.MatchString(s))+")", neg, dstr(s), passStr(func(x *z.StringSchema[string]) {
					if neg {
						wrap(x).Match(rx)
					} else {
						x.Match(rx)
					}
				}, s))
			}
		}
		long := func(n int, c string) string { return strings.Repeat(c, n) }
		for _, l := range [][]string{{}, {"a"}, {"a", "b"}, {"", "x"}, {"é", "e"}, {"ab", "abc"},
			{long(63, "d"), long(64, "d"), long(65, "d"), long(128, "d")}, {long(64, "e"), "x"}, {long(300, "f")}} { // (members of every length: digests, tokens, urls)
			var xs []string
			for _, s := range l {
				xs = append(xs, eng.CoqStr(s))
			}
			for _, s := range []string{"", "a", "b", "x", "é", "e", "ab", "abc", "abcd", "A", long(63, "d"), long(64, "d"), long(65, "d"), long(64, "e"), long(64, "x"), long(128, "d"), long(300, "f"), long(299, "f")} {
				add("str.oneof", "(BStrOneOf ["+strings.Join(xs, "; ")+"])", neg, dstr(s), passStr(func(x *z.StringSchema[string]) {
					if neg {
						wrap(x).OneOf(l)
					} else {
						x.OneOf(l)
					}
				}, s))
			}
		}
	}
	// --- integers (three widths) and floats
	cmps := []string{"CGt", "CGte", "CLt", "CLte", "CEq"}
	intBounds := []int64{0, 1, -1, 5, 100, math.MaxInt32, math.MinInt32, math.MaxInt64, math.MinInt64}
	for _, nb := range intBounds {
		for _, dv := range []int64{-1, 0, 1} {
			v := nb + dv
			if (dv > 0 && v < nb) || (dv < 0 && v > nb) { // wrapped
				continue
			}
			for ci, c := range cmps {
				bt := fmt.Sprintf("(BIntCmp %s %s)", c, eng.CoqZ(nb))
				sub := "(DInt " + eng.CoqZ(v) + ")"
				applyI := func(s *z.NumberSchema[int]) {
					switch ci {
					case 0:
						s.GT(int(nb))
					case 1:
						s.GTE(int(nb))
					case 2:
						s.LT(int(nb))
					case 3:
						s.LTE(int(nb))
					case 4:
						s.EQ(int(nb))
					}
				}
				add("int.cmp", bt, false, sub, passNum(func() *z.NumberSchema[int] { return z.Int() }, applyI, int(v)))
				applyI64 := func(s *z.NumberSchema[int64]) {
					switch ci {
					case 0:
						s.GT(nb)
					case 1:
						s.GTE(nb)
					case 2:
						s.LT(nb)
					case 3:
						s.LTE(nb)
					case 4:
						s.EQ(nb)
					}
				}
				add("int64.cmp", bt, false, sub, passNum(func() *z.NumberSchema[int64] { return z.Int64() }, applyI64, v))
				if nb >= math.MinInt32 && nb <= math.MaxInt32 && v >= math.MinInt32 && v <= math.MaxInt32 {
					applyI32 := func(s *z.NumberSchema[int32]) {
						switch ci {
						case 0:
							s.GT(int32(nb))
						case 1:
							s.GTE(int32(nb))
						case 2:
							s.LT(int32(nb))
						case 3:
							s.LTE(int32(nb))
						case 4:
							s.EQ(int32(nb))
						}
					}
					add("int32.cmp", bt, false, sub, passNum(func() *z.NumberSchema[int32] { return z.Int32() }, applyI32, int32(v)))
				}
			}
		}
	}
	for i := 0; i < 60; i++ {
		l := []int64{int64(r.Intn(6)), int64(r.Intn(6)) - 3, 42}
		v := int64(r.Intn(8)) - 3
		add("int.oneof", fmt.Sprintf("(BIntOneOf [%s; %s; %s])", eng.CoqZ(l[0]), eng.CoqZ(l[1]), eng.CoqZ(l[2])), false, "(DInt "+eng.CoqZ(v)+")",
			passNum(func() *z.NumberSchema[int64] { return z.Int64() }, func(s *z.NumberSchema[int64]) { s.OneOf(l) }, v))
	}
	// enumerations of every small shape: repeated members, runs with a gap, a single member, unsorted lists
	// (membership is membership: neither the order nor a repetition nor the span of the list matters);
	// on every integer width
	{
		fr := r.Fork(0x0e0f)
		lists := [][]int64{{1, 1, 3}, {7, 5, 5}, {0, 0, 1, 3}, {200, 200, 202}, {3}, {2, 1}, {-1, -1, 1}, {5, 3, 3, 1}, {1, 2, 3}, {4, 2}, {1, 1}}
		for i := 0; i < 40; i++ {
			k := 1 + fr.Intn(5)
			base := int64(fr.Intn(9)) - 4
			l := make([]int64, k)
			for j := range l {
				l[j] = base + int64(fr.Intn(k+1))
			}
			lists = append(lists, l)
		}
		for li, l := range lists {
			l := l
			lo, hi := l[0], l[0]
			for _, x := range l {
				if x < lo {
					lo = x
				}
				if x > hi {
					hi = x
				}
			}
			xs := make([]string, len(l))
			for j, x := range l {
				xs[j] = eng.CoqZ(x)
			}
			bt := "(BIntOneOf [" + strings.Join(xs, "; ") + "])"
			for v := lo - 1; v <= hi+1; v++ {
				v := v
				sub := "(DInt " + eng.CoqZ(v) + ")"
				switch li % 3 {
				case 0:
					add("int.oneof", bt, false, sub, passNum(func() *z.NumberSchema[int64] { return z.Int64() }, func(s *z.NumberSchema[int64]) { s.OneOf(l) }, v))
				case 1:
					li32 := make([]int32, len(l))
					for j, x := range l {
						li32[j] = int32(x)
					}
					add("int32.oneof", bt, false, sub, passNum(func() *z.NumberSchema[int32] { return z.Int32() }, func(s *z.NumberSchema[int32]) { s.OneOf(li32) }, int32(v)))
				default:
					lint := make([]int, len(l))
					for j, x := range l {
						lint[j] = int(x)
					}
					add("intn.oneof", bt, false, sub, passNum(func() *z.NumberSchema[int] { return z.Int() }, func(s *z.NumberSchema[int]) { s.OneOf(lint) }, int(v)))
				}
			}
		}
	}
	fl := []float64{0, math.Copysign(0, -1), 1, -1, 2.5, math.Nextafter(2.5, 3), math.Nextafter(2.5, 2), math.Inf(1), math.Inf(-1), math.NaN(), math.MaxFloat64, math.SmallestNonzeroFloat64, 1e300, -1e300, 16777216, 16777217}
	for _, nb := range fl {
		if math.IsNaN(nb) {
			continue
		}
		for _, v := range fl {
			for ci, c := range cmps {
				bt := fmt.Sprintf("(BFloatCmp %s %s)", c, eng.CoqFloat(nb))
				apply := func(s *z.NumberSchema[float64]) {
					switch ci {
					case 0:
						s.GT(nb)
					case 1:
						s.GTE(nb)
					case 2:
						s.LT(nb)
					case 3:
						s.LTE(nb)
					case 4:
						s.EQ(nb)
					}
				}
				add("float64.cmp", bt, false, "(DFloat "+eng.CoqFloat(v)+")", passNum(func() *z.NumberSchema[float64] { return z.Float64() }, apply, v))
				nb32, v32 := float32(nb), float32(v)
				bt32 := fmt.Sprintf("(BFloatCmp %s %s)", c, eng.CoqFloat(float64(nb32)))
				apply32 := func(s *z.NumberSchema[float32]) {
					switch ci {
					case 0:
						s.GT(nb32)
					case 1:
						s.GTE(nb32)
					case 2:
						s.LT(nb32)
					case 3:
						s.LTE(nb32)
					case 4:
						s.EQ(nb32)
					}
				}
				add("float32.cmp", bt32, false, "(DFloat "+eng.CoqFloat(float64(v32))+")", passNum(func() *z.NumberSchema[float32] { return z.Float32() }, apply32, v32))
			}
		}
	}
	for _, v := range fl {
		l := []float64{1, 2.5, math.Inf(1)}
		add("float.oneof", fmt.Sprintf("(BFloatOneOf [%s; %s; %s])", eng.CoqFloat(l[0]), eng.CoqFloat(l[1]), eng.CoqFloat(l[2])), false, "(DFloat "+eng.CoqFloat(v)+")",
			passNum(func() *z.NumberSchema[float64] { return z.Float64() }, func(s *z.NumberSchema[float64]) { s.OneOf(l) }, v))
	}
	// --- bool
	for _, v := range []bool{true, false} {
		for _, b := range []bool{true, false} {
			pass := func(build func(s *z.BoolSchema[bool])) bool {
				s := z.Bool()
				build(s)
				if !v {
					var d bool
					return len(s.Default(false).Parse(nil, &d)) == 0
				}
				vv := v
				return len(s.Validate(&vv)) == 0
			}
			add("bool.eq", "(BBoolEq "+coqBoolT(b)+")", false, "(DBool "+coqBoolT(v)+")", pass(func(s *z.BoolSchema[bool]) { s.EQ(b) }))
			if b {
				add("bool.true", "(BBoolEq true)", false, "(DBool "+coqBoolT(v)+")", pass(func(s *z.BoolSchema[bool]) { s.True() }))
			} else {
				add("bool.false", "(BBoolEq false)", false, "(DBool "+coqBoolT(v)+")", pass(func(s *z.BoolSchema[bool]) { s.False() }))
			}
		}
	}
	// --- time: equal instants in different zones, +-1ns
	base := time.Date(2024, 3, 10, 12, 0, 0, 500, time.UTC)
	zones := []*time.Location{time.UTC, time.FixedZone("A", 3600), time.FixedZone("B", -7*3600)}
	for _, zn := range zones {
		for _, dn := range []time.Duration{-time.Second, -1, 0, 1, time.Second} {
			for _, zs := range zones {
				ref := base.In(zn)
				v := base.Add(dn).In(zs)
				pass := func(build func(s *z.TimeSchema)) bool {
					s := z.Time()
					build(s)
					vv := v
					return len(s.Validate(&vv)) == 0
				}
				add("time.after", "(BTimeAfter "+eng.CoqTime(ref)+")", false, "(DTime "+eng.CoqTime(v)+")", pass(func(s *z.TimeSchema) { s.After(ref) }))
				add("time.before", "(BTimeBefore "+eng.CoqTime(ref)+")", false, "(DTime "+eng.CoqTime(v)+")", pass(func(s *z.TimeSchema) { s.Before(ref) }))
				add("time.eq", "(BTimeEq "+eng.CoqTime(ref)+")", false, "(DTime "+eng.CoqTime(v)+")", pass(func(s *z.TimeSchema) { s.EQ(ref) }))
			}
		}
	}
	// --- time: instants far apart (outside what int64 nanoseconds since 1970 can express, and
	// exactly 2^64 ns apart), every ordered pair
	far := []time.Time{
		time.Date(1, 1, 2, 0, 0, 0, 0, time.UTC), time.Date(1600, 2, 29, 1, 2, 3, 4, time.UTC),
		time.Date(1677, 9, 21, 0, 12, 43, 145224191, time.UTC), time.Date(1677, 9, 21, 0, 12, 43, 145224193, time.UTC),
		time.Date(1969, 12, 31, 23, 59, 59, 999999999, time.UTC), time.Unix(0, 0).UTC(), time.Unix(1000000000, 5).UTC(),
		time.Unix(1000000000+18446744073, 5+709551616).UTC(), time.Unix(1000000000-18446744073, 5-709551616+1000000000).Add(-time.Second).UTC(),
		time.Date(2262, 4, 11, 23, 47, 16, 854775807, time.UTC), time.Date(2262, 4, 11, 23, 47, 16, 854775808, time.UTC),
		time.Date(2300, 1, 1, 0, 0, 0, 0, time.FixedZone("A", 3600)), time.Date(9999, 12, 31, 23, 59, 59, 0, time.UTC),
	}
	for _, ref := range far {
		for _, v := range far {
			ref, v := ref, v
			pass := func(build func(s *z.TimeSchema)) bool {
				s := z.Time()
				build(s)
				vv := v
				return len(s.Validate(&vv)) == 0
			}
			add("time.after", "(BTimeAfter "+eng.CoqTime(ref)+")", false, "(DTime "+eng.CoqTime(v)+")", pass(func(s *z.TimeSchema) { s.After(ref) }))
			add("time.before", "(BTimeBefore "+eng.CoqTime(ref)+")", false, "(DTime "+eng.CoqTime(v)+")", pass(func(s *z.TimeSchema) { s.Before(ref) }))
			add("time.eq", "(BTimeEq "+eng.CoqTime(ref)+")", false, "(DTime "+eng.CoqTime(v)+")", pass(func(s *z.TimeSchema) { s.EQ(ref) }))
		}
	}
	// --- slices
	for k := -2; k <= 4; k++ {
		for l := 0; l <= 5; l++ {
			v := make([]string, l)
			var xs []string
			for i := range v {
				v[i] = fmt.Sprintf("e%d", i)
				xs = append(xs, dstr(v[i]))
			}
			sub := "(DSlice [" + strings.Join(xs, "; ") + "])"
			pass := func(build func(s *z.SliceSchema)) bool {
				s := z.Slice(z.String())
				build(s)
				if l == 0 {
					var d []string
					return len(s.Default([]string{}).Parse(nil, &d)) == 0
				}
				vv := append([]string(nil), v...)
				return len(s.Validate(&vv)) == 0
			}
			add("slice.min", fmt.Sprintf("(BSliceMin %s)", eng.CoqZ(int64(k))), false, sub, pass(func(s *z.SliceSchema) { s.Min(k) }))
			add("slice.max", fmt.Sprintf("(BSliceMax %s)", eng.CoqZ(int64(k))), false, sub, pass(func(s *z.SliceSchema) { s.Max(k) }))
			add("slice.len", fmt.Sprintf("(BSliceLen %s)", eng.CoqZ(int64(k))), false, sub, pass(func(s *z.SliceSchema) { s.Len(k) }))
			for _, e := range []string{"e0", "e3", "zz", ""} {
				add("slice.contains", "(BSliceContains "+dstr(e)+")", false, sub, pass(func(s *z.SliceSchema) { s.Contains(e) }))
			}
		}
	}
	// slices of ints and of pointers (deep equality)
	for _, v := range [][]int{{1, 2, 3}, {5}, {0, 0}} {
		var xs []string
		for _, i := range v {
			xs = append(xs, "(DInt "+eng.CoqZ(int64(i))+")")
		}
		sub := "(DSlice [" + strings.Join(xs, "; ") + "])"
		for _, e := range []int{0, 1, 3, 5, 7} {
			vv := append([]int(nil), v...)
			add("slice.contains.int", "(BSliceContains (DInt "+eng.CoqZ(int64(e))+"))", false, sub, len(z.Slice(z.Int()).Contains(e).Validate(&vv)) == 0)
			// []*int: membership is by deep equality, not pointer identity
			pv := make([]*int, len(v))
			var ps []string
			for i := range v {
				x := v[i]
				pv[i] = &x
				ps = append(ps, "(DPtr (Some (DInt "+eng.CoqZ(int64(x))+")))")
			}
			ee := e
			add("slice.contains.ptr", "(BSliceContains (DPtr (Some (DInt "+eng.CoqZ(int64(e))+"))))", false, "(DSlice ["+strings.Join(ps, "; ")+"])",
				len(z.Slice(z.Ptr(z.Int())).Contains(&ee).Validate(&pv)) == 0)
		}
	}
	// random string subjects against random string tests until n cases
	for len(o.Cases) < n {
		s := subs[r.Intn(len(subs))] + subs[r.Intn(len(subs))]
		k := r.Intn(8) - 2
		add("str.max", fmt.Sprintf("(BStrMax %s)", eng.CoqZ(int64(k))), false, dstr(s), passStr(func(x *z.StringSchema[string]) { x.Max(k) }, s))
		add("str.min", fmt.Sprintf("(BStrMin %s)", eng.CoqZ(int64(k))), false, dstr(s), passStr(func(x *z.StringSchema[string]) { x.Min(k) }, s))
		p := subs[r.Intn(len(subs))]
		add("str.contains", "(BStrContains "+eng.CoqStr(p)+")", false, dstr(s), passStr(func(x *z.StringSchema[string]) { x.Contains(p) }, s))
		add("str.suffix", "(BHasSuffix "+eng.CoqStr(p)+")", false, dstr(s), passStr(func(x *z.StringSchema[string]) { x.HasSuffix(p) }, s))
		add("str.special", "BContainsSpecial", false, dstr(s), passStr(func(x *z.StringSchema[string]) { x.ContainsSpecial() }, s))
	}
	return o
}
