package sat

import (
	"encoding/json"
	"fmt"
	"os"
	"path/filepath"
	"strings"
)

// Write emits the cases as sharded Gallina files plus meta.json (what the driver and the evidence read).
func (o *Out) Write(family string, seed uint64, outdir string, shard int, only map[int]bool) {
	checkFn := map[string]string{"pcase": "check_pcases", "ncase": "check_ncases", "hcase": "check_hcases", "bcase": "check_bcases",
		"kcase": "check_kcases", "fcase": "check_fcases", "lcase": "check_lcases", "dcase": "check_dcases", "ecase": "check_all"}[o.CaseType]
	var files []string
	var cur []string
	flush := func() {
		if len(cur) == 0 {
			return
		}
		name := fmt.Sprintf("cases_%d.v", len(files))
		body := "From Zog Require Import " + o.Import + ".\nImport ListNotations.\nOpen Scope string_scope.\nSet Printing Width 100000.\nSet Printing Depth 100000.\n" +
			"Definition cases : list " + o.CaseType + " := [\n" + strings.Join(cur, ";\n") + "\n].\n" +
			"Definition R := Eval vm_compute in " + checkFn + " cases.\nPrint R.\n"
		if err := os.WriteFile(filepath.Join(outdir, name), []byte(body), 0o644); err != nil {
			panic(err)
		}
		files = append(files, name)
		cur = nil
	}
	for i, c := range o.Cases {
		if len(only) > 0 && !only[i] {
			continue
		}
		cur = append(cur, "  "+c)
		if len(cur) >= shard {
			flush()
		}
	}
	flush()
	samples := []string{}
	for i := 0; i < len(o.Cases) && len(samples) < 3; i += 1 + len(o.Cases)/3 {
		samples = append(samples, o.Cases[i])
	}
	fails := o.Failures
	if fails == nil {
		fails = []Failure{}
	}
	meta := map[string]any{"family": family, "seed": seed, "cases": len(o.Cases), "kinds": o.Kinds, "distinct_nontrivial": len(o.Distinct),
		"files": files, "samples": samples, "failures": fails, "notes": o.Notes}
	b, _ := json.MarshalIndent(meta, "", " ")
	if err := os.WriteFile(filepath.Join(outdir, "meta.json"), b, 0o644); err != nil {
		panic(err)
	}
}
