package sat

import (
	"fmt"
	"math"
	"math/big"
	"reflect"
	"sort"
	"strconv"

	z "github.com/Oudwins/zog"
	"zogverif/eng"
)

// ---- C18: numeric coercion ------------------------------------------------------------------------

type numIn struct {
	v    eng.IVal
	desc string
}

func numInputs(r *eng.Rng, n int) []numIn {
	var ins []numIn
	add := func(v eng.IVal) { ins = append(ins, numIn{v: v}) }
	i64 := []int64{0, 1, -1, 7, 1 << 24, 1<<24 + 1, 1 << 31, 1<<31 - 1, -(1 << 31), -(1 << 31) - 1, 3000000000, 1 << 53, 1<<53 + 1, 1<<62 + 1, math.MaxInt64, math.MinInt64, math.MaxInt64 - 1}
	for _, x := range i64 {
		add(eng.IVal{Kind: "int", I: x})
		add(eng.IVal{Kind: "int64", I: x})
		if x >= math.MinInt32 && x <= math.MaxInt32 {
			add(eng.IVal{Kind: "int32", I: x})
		}
		add(eng.IVal{Kind: "str", S: strconv.FormatInt(x, 10)})
		add(eng.IVal{Kind: "f64", F: float64(x)})
	}
	edge := []float64{2147483647, 2147483648, 2147483648.5, 2147483647.5, -2147483648, -2147483649, -2147483648.5, 9223372036854775807, 9223372036854775808,
		-9223372036854775808, math.Nextafter(-9223372036854775808, math.Inf(-1)), math.Nextafter(9223372036854775808, 0), 1e19, -1e19, 3e9, 1e300, -1e300,
		math.NaN(), math.Inf(1), math.Inf(-1), 0.5, -0.5, 6.5, -6.5, 0.999999999, -0.999999999, math.Copysign(0, -1), math.SmallestNonzeroFloat64, math.MaxFloat64,
		math.MaxFloat32, math.Nextafter(math.MaxFloat32, math.Inf(1)), 3.4028235677973366e38, 3.5e38, -3.5e38, -math.MaxFloat32, math.Nextafter(-math.MaxFloat32, math.Inf(-1)),
		16777216, 16777217, 0.1, 1e-46, 1.401298464324817e-45, 7e-46, float64(math.SmallestNonzeroFloat32) / 2}
	for _, f := range edge {
		add(eng.IVal{Kind: "f64", F: f})
		if !math.IsNaN(f) {
			add(eng.IVal{Kind: "str", S: strconv.FormatFloat(f, 'g', -1, 64)})
		}
		f32 := float64(float32(f))
		if !math.IsInf(f32, 0) || math.IsInf(f, 0) {
			add(eng.IVal{Kind: "f32", F: f32})
		}
	}
	for _, s := range []string{"1.00000017881393432617187499", "340282356779733661637539395458142568447", "1.00000005960464477539062501", "", " 5", "5 ", "+5", "-0", "007", "010", "0755", "-0012", "+0100", "0b11", "0o17", "0X1F", "08", "00", "1_0", "1_000", "0x10", "1e3", "1E3", "1e19", "1e400", "-1e400", "1.5", "-1.5", ".5", "5.", "NaN", "nan", "Inf", "-Inf", "+Inf", "infinity",
		"9223372036854775808", "-9223372036854775809", "99999999999999999999", "3000000000", "2147483648", "-2147483649", "abc", "1,5", "1e-400", "0x1p-2", "3.4028236e38", "3.4028235e38", "١٢"} {
		add(eng.IVal{Kind: "str", S: s})
	}
	add(eng.IVal{Kind: "bool", B: true})
	add(eng.IVal{Kind: "bool", B: false})
	add(eng.IVal{Kind: "nil"})
	add(eng.IVal{Kind: "other", I: 1})
	add(eng.IVal{Kind: "list", L: []eng.IVal{{Kind: "int", I: 1}}})
	for len(ins) < n {
		switch r.Intn(5) {
		case 0:
			add(eng.IVal{Kind: "int", I: int64(r.U64())})
		case 1:
			add(eng.IVal{Kind: "f64", F: math.Float64frombits(r.U64())})
		case 2:
			add(eng.IVal{Kind: "str", S: strconv.FormatInt(int64(r.U64()>>uint(r.Intn(64))), 10)})
		case 3:
			add(eng.IVal{Kind: "str", S: strconv.FormatFloat(math.Float64frombits(r.U64()), 'g', -1, 64)})
		case 4:
			e := r.Intn(80) - 10
			add(eng.IVal{Kind: "f64", F: math.Ldexp(float64(r.Intn(1<<20))+0.5, e)})
		}
	}
	return ins
}

// exact value of an input as a rational, when it denotes a number
func exactOf(v eng.IVal) *big.Rat {
	switch v.Kind {
	case "int", "int64", "int32":
		return new(big.Rat).SetInt64(v.I)
	case "f64", "f32":
		if math.IsNaN(v.F) || math.IsInf(v.F, 0) {
			return nil
		}
		return new(big.Rat).SetFloat64(v.F)
	case "bool":
		if v.B {
			return big.NewRat(1, 1)
		}
		return big.NewRat(0, 1)
	}
	return nil
}

func truncRat(q *big.Rat) *big.Int {
	n := new(big.Int).Quo(q.Num(), q.Denom()) // truncated toward zero
	return n
}

// Numeric runs every numeric schema kind on boundary-directed inputs.
func Numeric(seed uint64, n int) *Out {
	o := NewOut("Corr.SatCheck", "ncase")
	r := eng.NewRng(seed)
	ins := numInputs(r, n/5)
	kinds := []string{eng.KInt, eng.KInt32, eng.KInt64, eng.KFloat32, eng.KFloat64}
	for _, in := range ins {
		for _, k := range kinds {
			node := &eng.Node{Kind: k}
			var obs string
			var got any
			ok := false
			data := in.v.Go(nil)
			switch k {
			case eng.KInt:
				var d int
				ok = len(z.Int().Parse(data, &d)) == 0
				got = int64(d)
			case eng.KInt32:
				var d int32
				ok = len(z.Int32().Parse(data, &d)) == 0
				got = int64(d)
			case eng.KInt64:
				var d int64
				ok = len(z.Int64().Parse(data, &d)) == 0
				got = d
			case eng.KFloat32:
				var d float32
				ok = len(z.Float32().Parse(data, &d)) == 0
				got = float64(d)
			case eng.KFloat64:
				var d float64
				ok = len(z.Float64().Parse(data, &d)) == 0
				got = d
			}
			absent := in.v.Kind == "nil" || (in.v.Kind == "str" && isBlankStr(in.v.S))
			if absent {
				continue // an absent optional value: nothing is coerced (C04's business)
			}
			if ok {
				switch x := got.(type) {
				case int64:
					obs = "(Some (DInt " + eng.CoqZ(x) + "))"
				case float64:
					obs = "(Some (DFloat " + eng.CoqFloat(x) + "))"
				}
			} else {
				obs = "None"
			}
			term := fmt.Sprintf("(%s NC $ID orc %s %s %s)", eng.Oracles(node, &in.v, reflectZero()), coqKind(k), eng.CoqIVal(in.v), obs)
			id := o.Add(k+"<-"+in.v.Kind, fmt.Sprint(in.v), term)
			// the same leaf somewhere else (element of a []any, of a typed Go slice, struct field, behind a
			// pointer) is coerced in the same way: same value or an issue
			if in.v.Kind != "list" && in.v.Kind != "other" {
				for _, pl := range placements(k, data) {
					if pl.ok != ok || (ok && !sameNum(pl.got, got)) {
						o.Failures = append(o.Failures, Failure{ID: id, Tags: []string{"numeric_placement"},
							Detail: fmt.Sprintf("%s of %v (%T): at top level ok=%v value=%v, as %s ok=%v value=%v", k, in.v, data, ok, got, pl.where, pl.ok, pl.got)})
					}
				}
			}
			// the property's own oracle, independent of the model: same number or an issue
			if ok {
				if q := exactOf(in.v); q != nil {
					bad := ""
					switch x := got.(type) {
					case int64:
						if truncRat(q).Cmp(big.NewInt(x)) != 0 {
							bad = fmt.Sprintf("%s of %v became %d", k, in.v, x)
						}
					case float64:
						want, _ := q.Float64()
						if k == eng.KFloat32 {
							want = float64(float32(want))
						}
						if want != x || math.IsInf(x, 0) {
							bad = fmt.Sprintf("%s of %v became %v", k, in.v, x)
						}
					}
					if bad != "" {
						o.Failures = append(o.Failures, Failure{ID: id, Tags: []string{"numeric_oracle"}, Detail: bad})
					}
				} else if in.v.Kind == "f64" || in.v.Kind == "f32" { // NaN / Inf
					if _, isInt := got.(int64); isInt {
						o.Failures = append(o.Failures, Failure{ID: id, Tags: []string{"numeric_oracle"}, Detail: fmt.Sprintf("%s accepted %v", k, in.v.F)})
					}
				}
			}
		}
	}
	return o
}

type placed struct {
	where string
	ok    bool
	got   any
}

func sameNum(a, b any) bool {
	switch x := a.(type) {
	case int64:
		y, ok := b.(int64)
		return ok && x == y
	case float64:
		y, ok := b.(float64)
		return ok && math.Float64bits(x) == math.Float64bits(y) || (ok && math.IsNaN(x) && math.IsNaN(y))
	}
	return false
}

// placements runs the numeric schema of kind k on data placed as a slice element ([]any and a
// typed slice of data's own Go type), as a struct field and behind a pointer.
func placements(k string, data any) []placed {
	mk := func() z.ZogSchema {
		switch k {
		case eng.KInt:
			return z.Int()
		case eng.KInt32:
			return z.Int32()
		case eng.KInt64:
			return z.Int64()
		case eng.KFloat32:
			return z.Float32()
		}
		return z.Float64()
	}
	var elemT reflect.Type
	switch k {
	case eng.KInt:
		elemT = reflect.TypeOf(int(0))
	case eng.KInt32:
		elemT = reflect.TypeOf(int32(0))
	case eng.KInt64:
		elemT = reflect.TypeOf(int64(0))
	case eng.KFloat32:
		elemT = reflect.TypeOf(float32(0))
	default:
		elemT = reflect.TypeOf(float64(0))
	}
	num := func(v reflect.Value) any {
		if v.Kind() == reflect.Float32 || v.Kind() == reflect.Float64 {
			return v.Float()
		}
		return v.Int()
	}
	var out []placed
	run := func(where string, f func() (bool, any)) {
		defer func() {
			if r := recover(); r != nil {
				out = append(out, placed{where: where + " (panic: " + fmt.Sprint(r) + ")"})
			}
		}()
		ok, got := f()
		out = append(out, placed{where: where, ok: ok, got: got})
	}
	sliceRun := func(in any) (bool, any) {
		dest := reflect.New(reflect.SliceOf(elemT))
		errs := z.Slice(mk()).Parse(in, dest.Interface())
		if len(errs) != 0 || dest.Elem().Len() != 1 {
			return false, nil
		}
		return true, num(dest.Elem().Index(0))
	}
	run("element of []any", func() (bool, any) { return sliceRun([]any{data}) })
	if data != nil {
		run(fmt.Sprintf("element of []%T", data), func() (bool, any) {
			ts := reflect.MakeSlice(reflect.SliceOf(reflect.TypeOf(data)), 1, 1)
			ts.Index(0).Set(reflect.ValueOf(data))
			return sliceRun(ts.Interface())
		})
	}
	run("struct field", func() (bool, any) {
		st := reflect.StructOf([]reflect.StructField{{Name: "V", Type: elemT}})
		dest := reflect.New(st)
		errs := z.Struct(z.Schema{"v": mk()}).Parse(map[string]any{"v": data}, dest.Interface())
		if len(errs) != 0 {
			return false, nil
		}
		return true, num(dest.Elem().Field(0))
	})
	run("behind a pointer", func() (bool, any) {
		dest := reflect.New(reflect.PointerTo(elemT))
		errs := z.Ptr(mk()).Parse(data, dest.Interface())
		if len(errs) != 0 || dest.Elem().IsNil() {
			return false, nil
		}
		return true, num(dest.Elem().Elem())
	})
	return out
}

func isBlankStr(s string) bool {
	for _, c := range s {
		switch c {
		case '\t', '\n', '\v', '\f', '\r', ' ', 0x85, 0xA0, 0x1680, 0x2028, 0x2029, 0x202f, 0x205f, 0x3000:
			continue
		}
		if c >= 0x2000 && c <= 0x200a {
			continue
		}
		return false
	}
	return true
}

func coqKind(k string) string {
	return map[string]string{eng.KString: "KString", eng.KInt: "KInt", eng.KInt32: "KInt32", eng.KInt64: "KInt64", eng.KFloat32: "KFloat32",
		eng.KFloat64: "KFloat64", eng.KBool: "KBool", eng.KTime: "KTime"}[k]
}

func sortedStr(m map[string]int) []string {
	ks := make([]string, 0, len(m))
	for k := range m {
		ks = append(ks, k)
	}
	sort.Strings(ks)
	return ks
}
