package sat

import (
	"fmt"
	"mime"
	"net/http"
	"net/url"
	"reflect"
	"strings"

	"github.com/Oudwins/zog/internals"
	"github.com/Oudwins/zog/zhttp"
	"zogverif/eng"
)

func reflectZero() reflect.Value { return reflect.Value{} }

// ---- C15: dispatch and URL parameters -----------------------------------------------------------

// dispatchOf observes which of the three configured parsers zhttp.Request selects, by swapping the
// exported Config.Parsers entries for recording ones.
func dispatchOf(r *http.Request) string {
	saved := zhttp.Config.Parsers
	got := ""
	mk := func(name string) zhttp.ParserFunc {
		return func(r *http.Request) internals.DpFactory {
			got = name
			return func() (internals.DataProvider, *internals.ZogIssue) { return nil, nil }
		}
	}
	zhttp.Config.Parsers.JSON = mk("SrcJSON")
	zhttp.Config.Parsers.Form = mk("SrcForm")
	zhttp.Config.Parsers.Query = mk("SrcQuery")
	defer func() { zhttp.Config.Parsers = saved }()
	zhttp.Request(r)
	return got
}

func rfcSource(meth, ct string) string {
	if meth == "GET" || meth == "HEAD" {
		return "SrcQuery"
	}
	mt, _, err := mime.ParseMediaType(ct)
	if err != nil {
		// a media type with malformed parameters still names its type
		mt = strings.ToLower(strings.TrimSpace(strings.SplitN(ct, ";", 2)[0]))
	}
	switch mt {
	case "application/json":
		return "SrcJSON"
	case "application/x-www-form-urlencoded":
		return "SrcForm"
	}
	return "SrcQuery"
}

func coqStrList(xs []string) string {
	var ys []string
	for _, x := range xs {
		ys = append(ys, eng.CoqStr(x))
	}
	return "[" + strings.Join(ys, "; ") + "]"
}

// HTTP enumerates method x Content-Type (dispatch) and query strings x keys (URL parameters).
func HTTP(seed uint64, n int) *Out {
	o := NewOut("Corr.SatCheck", "hcase")
	r := eng.NewRng(seed)
	methods := []string{"GET", "HEAD", "POST", "PUT", "PATCH", "DELETE", "OPTIONS", "CONNECT", "TRACE", "get", "head", "Post", "FOO", "GETX", "HEADER"}
	cts := []string{"", "application/json", "application/json; charset=utf-8", "application/json;charset=utf-8", "application/json;", "application/json;;", "application/json;charset=UTF-8;x=y",
		"application/x-www-form-urlencoded", "application/x-www-form-urlencoded; charset=UTF-8", "application/x-www-form-urlencoded;charset=UTF-8", "application/x-www-form-urlencoded;",
		"text/plain", "multipart/form-data; boundary=xyz", "application/jsonx", "application/jso", "xapplication/json", "application/x-www-form-urlencodedx", ";application/json", "; application/json",
		"application/json ; charset=utf-8", " application/json", "Application/JSON", "APPLICATION/X-WWW-FORM-URLENCODED", "application/json\t;x=1", "application/json,text/plain", "application/ld+json",
		"application/json; application/x-www-form-urlencoded", "application/x-www-form-urlencoded; application/json", "charset=utf-8", "a;b;c", "é/ü; x=y",
		"application/json; charset=utf-8; charset=latin1", "Application/JSON ; charset=utf-8; Charset=UTF-8", "application/json; v=1; charset=utf-8; v=2",
		"application/x-www-form-urlencoded; charset=utf-8; charset=latin1", "application/json; charset=utf-8; charset=utf-8", "application/json; =x", "application/json; a=\"unterminated"}
	mkcase := func(m, ct string) {
		req, err := http.NewRequest(m, "http://example.com/p?src=query", strings.NewReader(`{"src":"json"}`))
		if err != nil {
			return
		}
		if ct != "" {
			req.Header.Set("Content-Type", ct)
		}
		got := dispatchOf(req)
		id := o.Add("dispatch:"+m, ct, fmt.Sprintf("(HD $ID %s %s %s)", eng.CoqStr(m), eng.CoqStr(ct), got))
		if want := rfcSource(m, ct); want != got {
			// (repaired in /repo: the media type written in upper case or with white space around it)
			typ := strings.SplitN(ct, ";", 2)[0]
			tag := "dispatch_media"
			if typ != strings.ToLower(strings.TrimSpace(typ)) {
				tag = "dispatch_rfc"
			}
			o.Failures = append(o.Failures, Failure{ID: id, Tags: []string{tag}, Detail: fmt.Sprintf("%s %q: RFC media type says %s, zhttp chose %s", m, ct, want, got)})
		}
	}
	for _, m := range methods {
		for _, ct := range cts {
			mkcase(m, ct)
		}
	}
	// random: a known media type with random parameter text appended after ';', and random prefixes
	for i := 0; i < n/4; i++ {
		base := eng.Pick(r, []string{"application/json", "application/x-www-form-urlencoded", "text/html", "application/jso"})
		tail := ""
		for j := r.Intn(4); j > 0; j-- {
			tail += eng.Pick(r, []string{";", " ", "charset=utf-8", "q=0.5", "=", "\"", "x", ";;", "boundary=a;b", ";charset=latin1", "; v=1", "; v=2", "; Charset=UTF-8"})
		}
		ct := base
		if r.P(80) {
			ct += ";" + tail
		} else {
			ct += tail
		}
		mkcase(eng.Pick(r, methods), ct)
	}
	// random spellings of the media type: letter case, white space of every kind around it, the two
	// non-ASCII runes that lower-case into ASCII, look-alikes that must not match, invalid UTF-8
	for i := 0; i < n/4; i++ {
		base := eng.Pick(r, []string{"application/json", "application/x-www-form-urlencoded", "application/jsonp", "text/json"})
		b := []rune(base)
		var sb strings.Builder
		for _, c := range b {
			switch {
			case c >= 'a' && c <= 'z' && r.P(30):
				sb.WriteRune(c - 32)
			case c == 'i' && r.P(4):
				sb.WriteRune(0x130)
			case c == 'k' && r.P(4):
				sb.WriteRune(0x212A)
			case c == 's' && r.P(3):
				sb.WriteRune(0x17F) // long s: upper-cases to S but does not lower-case to s
			case r.P(1):
				sb.WriteString("\xff")
			default:
				sb.WriteRune(c)
			}
		}
		ws := []string{" ", "\t", "\n", "\v", "\f", "\r", "\u0085", "\u00a0", "\u1680", "\u2003", "\u2028", "\u202f", "\u205f", "\u3000", "\u200b", "\ufeff", "x", "\xc2"}
		ct := sb.String()
		for j := r.Intn(3); j > 0; j-- {
			ct = eng.Pick(r, ws) + ct
		}
		for j := r.Intn(3); j > 0; j-- {
			ct += eng.Pick(r, ws)
		}
		if r.P(50) {
			ct += eng.Pick(r, []string{";", "; charset=utf-8", ";x", " ;q=1"})
		}
		mkcase(eng.Pick(r, methods[2:]), ct)
	}
	// URL parameters
	qs := []string{"", "a=1", "a=1&a=2", "a=1&a=2&a=3", "a[]=1", "a[]=1&a[]=2", "a[]=", "a=", "a=&a=", "a=1&b=2", "b=2", "a[]=1&a=2", "a=x&a[]=y&a[]=z", "[]=1", "x[]=1", "a%5B%5D=7", "A=1", "a=%20", "ab[]=1&ab[]=2&ab=3"}
	keys := []string{"a", "a[]", "b", "b[]", "[]", "x[]", "ab", "ab[]", "A", ""}
	for _, q := range qs {
		vals, err := url.ParseQuery(q)
		if err != nil {
			continue
		}
		var ks []string
		for k := range vals {
			ks = append(ks, k)
		}
		sortStrings(ks)
		var assoc []string
		for _, k := range ks {
			assoc = append(assoc, "("+eng.CoqStr(k)+", "+coqStrList(vals[k])+")")
		}
		for _, k := range keys {
			req, _ := http.NewRequest("GET", "http://example.com/p?"+q, nil)
			dp, _ := zhttp.Request(req)()
			got := dp.Get(k)
			var obs string
			switch v := got.(type) {
			case nil:
				obs = "VNil"
			case string:
				obs = "(VStr " + eng.CoqStr(v) + ")"
			case []string:
				var xs []string
				for _, s := range v {
					xs = append(xs, "(VStr "+eng.CoqStr(s)+")")
				}
				obs = "(VList [" + strings.Join(xs, "; ") + "])"
			default:
				obs = fmt.Sprintf("(VOther 99) (* %T *)", got)
			}
			o.Add("urlget", q+"|"+k, fmt.Sprintf("(HU $ID [%s] %s %s)", strings.Join(assoc, "; "), eng.CoqStr(k), obs))
		}
	}
	return o
}

func sortStrings(xs []string) {
	for i := range xs {
		for j := i + 1; j < len(xs); j++ {
			if xs[j] < xs[i] {
				xs[i], xs[j] = xs[j], xs[i]
			}
		}
	}
}
