package sat

import (
	"bytes"
	"fmt"
	"net/http"
	"reflect"
	"sort"
	"strings"
	"time"

	z "github.com/Oudwins/zog"
	"github.com/Oudwins/zog/parsers/zjson"
	"github.com/Oudwins/zog/zhttp"
	"zogverif/eng"
)

// CatEntry is one way a built-in schema type or front end produces an issue.
type CatEntry struct {
	Name string
	// Run makes the entry fail once with the given execution options and test options and returns the issues.
	Run func(eo []z.ExecOption, to []z.TestOption) []*z.ZogIssue
	// NoTestOpts: the builder takes no test options (True/False/EQ on bool, coercion and front-end issues)
	NoTestOpts bool
}

func flat(m z.ZogIssueMap) []*z.ZogIssue {
	var out []*z.ZogIssue
	ks := make([]string, 0, len(m))
	for k := range m {
		if k != "$first" {
			ks = append(ks, k)
		}
	}
	sort.Strings(ks)
	for _, k := range ks {
		out = append(out, m[k]...)
	}
	return out
}

// Catalogue enumerates every built-in test of every schema type (plain and negated), the
// required / not_nil / coerce issues of every type, and the front-end decode failures.
func Catalogue() []CatEntry {
	var es []CatEntry
	str := func(name string, subj string, build func(s *z.StringSchema[string], o []z.TestOption)) {
		es = append(es, CatEntry{Name: "string." + name, Run: func(eo []z.ExecOption, to []z.TestOption) []*z.ZogIssue {
			s := z.String()
			build(s, to)
			var d string
			return s.Parse(subj, &d, eo...)
		}})
	}
	for _, neg := range []bool{false, true} {
		neg := neg
		n := func(s *z.StringSchema[string]) z.NotStringSchema[string] { return s.Not() }
		p := ""
		if neg {
			p = "not_"
		}
		pick := func(pass, fail string) string { // a subject on which the (possibly negated) test fails
			if neg {
				return pass
			}
			return fail
		}
		str(p+"len", pick("abc", "ab"), func(s *z.StringSchema[string], o []z.TestOption) {
			if neg {
				n(s).Len(3, o...)
			} else {
				s.Len(3, o...)
			}
		})
		str(p+"email", pick("a@b.c", "x"), func(s *z.StringSchema[string], o []z.TestOption) {
			if neg {
				n(s).Email(o...)
			} else {
				s.Email(o...)
			}
		})
		str(p+"uuid", pick("550e8400-e29b-41d4-a716-446655440000", "x"), func(s *z.StringSchema[string], o []z.TestOption) {
			if neg {
				n(s).UUID(o...)
			} else {
				s.UUID(o...)
			}
		})
		str(p+"url", pick("http://a.b", "x"), func(s *z.StringSchema[string], o []z.TestOption) {
			if neg {
				n(s).URL(o...)
			} else {
				s.URL(o...)
			}
		})
		str(p+"match", pick("abc", "xyz"), func(s *z.StringSchema[string], o []z.TestOption) {
			if neg {
				n(s).Match(eng.MatchRegex, o...)
			} else {
				s.Match(eng.MatchRegex, o...)
			}
		})
		str(p+"prefix", pick("hello", "x"), func(s *z.StringSchema[string], o []z.TestOption) {
			if neg {
				n(s).HasPrefix("he", o...)
			} else {
				s.HasPrefix("he", o...)
			}
		})
		str(p+"suffix", pick("hello", "x"), func(s *z.StringSchema[string], o []z.TestOption) {
			if neg {
				n(s).HasSuffix("lo", o...)
			} else {
				s.HasSuffix("lo", o...)
			}
		})
		str(p+"contains", pick("hello", "x"), func(s *z.StringSchema[string], o []z.TestOption) {
			if neg {
				n(s).Contains("ell", o...)
			} else {
				s.Contains("ell", o...)
			}
		})
		str(p+"contains_upper", pick("A", "a"), func(s *z.StringSchema[string], o []z.TestOption) {
			if neg {
				n(s).ContainsUpper(o...)
			} else {
				s.ContainsUpper(o...)
			}
		})
		str(p+"contains_digit", pick("1", "a"), func(s *z.StringSchema[string], o []z.TestOption) {
			if neg {
				n(s).ContainsDigit(o...)
			} else {
				s.ContainsDigit(o...)
			}
		})
		str(p+"contains_special", pick("!", "a"), func(s *z.StringSchema[string], o []z.TestOption) {
			if neg {
				n(s).ContainsSpecial(o...)
			} else {
				s.ContainsSpecial(o...)
			}
		})
		str(p+"one_of", pick("a", "x"), func(s *z.StringSchema[string], o []z.TestOption) {
			if neg {
				n(s).OneOf([]string{"a", "b"}, o...)
			} else {
				s.OneOf([]string{"a", "b"}, o...)
			}
		})
	}
	str("min", "ab", func(s *z.StringSchema[string], o []z.TestOption) { s.Min(3, o...) })
	str("max", "abcd", func(s *z.StringSchema[string], o []z.TestOption) { s.Max(3, o...) })
	str("testfunc", "x", func(s *z.StringSchema[string], o []z.TestOption) {
		s.TestFunc(func(v any, c z.Ctx) bool { return false }, o...)
	})
	es = append(es, CatEntry{Name: "string.required", Run: func(eo []z.ExecOption, to []z.TestOption) []*z.ZogIssue {
		var d string
		return z.String().Required(to...).Parse("  ", &d, eo...)
	}})
	// numbers: every width
	num := func(name string, run func(eo []z.ExecOption, to []z.TestOption) []*z.ZogIssue, noopts bool) {
		es = append(es, CatEntry{Name: name, Run: run, NoTestOpts: noopts})
	}
	numT := func(prefix string, mk func() any) {}
	_ = numT
	addNum := func(prefix string, parse func(build func(s any, o []z.TestOption), data any, eo []z.ExecOption, to []z.TestOption) []*z.ZogIssue) {
		for _, t := range []string{"gt", "gte", "lt", "lte", "eq", "one_of", "required", "coerce", "testfunc"} {
			tt := t
			num(prefix+"."+tt, func(eo []z.ExecOption, to []z.TestOption) []*z.ZogIssue {
				return parse(nil, tt, eo, to)
			}, tt == "coerce")
		}
	}
	addNum("int", func(_ func(s any, o []z.TestOption), data any, eo []z.ExecOption, o []z.TestOption) []*z.ZogIssue {
		s := z.Int()
		var d int
		return numRun(s, data.(string), &d, 5, eo, o)
	})
	addNum("int32", func(_ func(s any, o []z.TestOption), data any, eo []z.ExecOption, o []z.TestOption) []*z.ZogIssue {
		s := z.Int32()
		var d int32
		return numRun(s, data.(string), &d, 5, eo, o)
	})
	addNum("int64", func(_ func(s any, o []z.TestOption), data any, eo []z.ExecOption, o []z.TestOption) []*z.ZogIssue {
		s := z.Int64()
		var d int64
		return numRun(s, data.(string), &d, 5, eo, o)
	})
	addNum("float64", func(_ func(s any, o []z.TestOption), data any, eo []z.ExecOption, o []z.TestOption) []*z.ZogIssue {
		s := z.Float64()
		var d float64
		return numRun(s, data.(string), &d, 5, eo, o)
	})
	addNum("float32", func(_ func(s any, o []z.TestOption), data any, eo []z.ExecOption, o []z.TestOption) []*z.ZogIssue {
		s := z.Float32()
		var d float32
		return numRun(s, data.(string), &d, 5, eo, o)
	})
	// bool
	for _, t := range []string{"true", "false", "eq", "required", "coerce", "testfunc"} {
		tt := t
		es = append(es, CatEntry{Name: "bool." + tt, NoTestOpts: tt == "true" || tt == "false" || tt == "eq" || tt == "coerce", Run: func(eo []z.ExecOption, o []z.TestOption) []*z.ZogIssue {
			s := z.Bool()
			var d bool
			var data any = true
			switch tt {
			case "true":
				s.True()
				data = false
			case "false":
				s.False()
			case "eq":
				s.EQ(false)
			case "required":
				s.Required(o...)
				data = nil
			case "coerce":
				data = "maybe"
			case "testfunc":
				s.TestFunc(func(v any, c z.Ctx) bool { return false }, o...)
			}
			return s.Parse(data, &d, eo...)
		}})
	}
	// time
	ref := time.Date(2024, 1, 1, 0, 0, 0, 0, time.UTC)
	for _, t := range []string{"after", "before", "eq", "required", "coerce", "testfunc"} {
		tt := t
		es = append(es, CatEntry{Name: "time." + tt, NoTestOpts: tt == "coerce", Run: func(eo []z.ExecOption, o []z.TestOption) []*z.ZogIssue {
			s := z.Time()
			var d time.Time
			var data any = ref
			switch tt {
			case "after":
				s.After(ref, o...)
			case "before":
				s.Before(ref, o...)
			case "eq":
				s.EQ(ref.Add(time.Hour), o...)
			case "required":
				s.Required(o...)
				data = nil
			case "coerce":
				data = "yesterday"
			case "testfunc":
				s.TestFunc(func(v any, c z.Ctx) bool { return false }, o...)
			}
			return s.Parse(data, &d, eo...)
		}})
	}
	// slices
	for _, t := range []string{"min", "max", "len", "contains", "required", "testfunc"} {
		tt := t
		es = append(es, CatEntry{Name: "slice." + tt, Run: func(eo []z.ExecOption, o []z.TestOption) []*z.ZogIssue {
			s := z.Slice(z.String())
			var d []string
			var data any = []any{"a", "b"}
			switch tt {
			case "min":
				s.Min(3, o...)
			case "max":
				s.Max(1, o...)
			case "len":
				s.Len(3, o...)
			case "contains":
				s.Contains("zz", o...)
			case "required":
				s.Required(o...)
				data = nil
			case "testfunc":
				s.TestFunc(func(v any, c z.Ctx) bool { return false }, o...)
			}
			return flat(s.Parse(data, &d, eo...))
		}})
	}
	// every exported Validate entry point as the root of an execution (each has its own prologue that
	// picks the global formatter), with an issue of its own and, for the composites, of a child
	type T struct{ A string }
	vroot := func(name string, run func(eo []z.ExecOption, o []z.TestOption) []*z.ZogIssue) {
		es = append(es, CatEntry{Name: "validate_root." + name, Run: run})
	}
	vroot("string", func(eo []z.ExecOption, o []z.TestOption) []*z.ZogIssue {
		v := "ab"
		return z.String().Min(5, o...).Validate(&v, eo...)
	})
	vroot("int", func(eo []z.ExecOption, o []z.TestOption) []*z.ZogIssue {
		v := 3
		return z.Int().GT(5, o...).Validate(&v, eo...)
	})
	vroot("float64", func(eo []z.ExecOption, o []z.TestOption) []*z.ZogIssue {
		v := 3.5
		return z.Float64().LT(1, o...).Validate(&v, eo...)
	})
	vroot("bool", func(eo []z.ExecOption, o []z.TestOption) []*z.ZogIssue {
		v := true
		return z.Bool().TestFunc(func(any, z.Ctx) bool { return false }, o...).Validate(&v, eo...)
	})
	vroot("time", func(eo []z.ExecOption, o []z.TestOption) []*z.ZogIssue {
		v := time.Date(2024, 1, 1, 0, 0, 0, 0, time.UTC)
		return z.Time().After(v.Add(time.Hour), o...).Validate(&v, eo...)
	})
	vroot("slice", func(eo []z.ExecOption, o []z.TestOption) []*z.ZogIssue {
		v := []string{"a"}
		return flat(z.Slice(z.String()).Min(3, o...).Validate(&v, eo...))
	})
	vroot("slice.element", func(eo []z.ExecOption, o []z.TestOption) []*z.ZogIssue {
		v := []string{"ab"}
		return flat(z.Slice(z.String().Min(5, o...)).Validate(&v, eo...))
	})
	vroot("struct", func(eo []z.ExecOption, o []z.TestOption) []*z.ZogIssue {
		v := T{A: "x"}
		return flat(z.Struct(z.Schema{"a": z.String()}).TestFunc(func(any, z.Ctx) bool { return false }, o...).Validate(&v, eo...))
	})
	vroot("struct.field", func(eo []z.ExecOption, o []z.TestOption) []*z.ZogIssue {
		v := T{A: "ab"}
		return flat(z.Struct(z.Schema{"a": z.String().Min(5, o...)}).Validate(&v, eo...))
	})
	vroot("ptr", func(eo []z.ExecOption, o []z.TestOption) []*z.ZogIssue {
		x := "ab"
		v := &x
		return flat(z.Ptr(z.String().Min(5, o...)).Validate(&v, eo...))
	})
	vroot("ptr.ptr.not_nil", func(eo []z.ExecOption, o []z.TestOption) []*z.ZogIssue {
		var v **string
		return flat(z.Ptr(z.Ptr(z.String())).NotNil(o...).Validate(&v, eo...))
	})
	es = append(es, CatEntry{Name: "ptr.ptr.not_nil", Run: func(eo []z.ExecOption, o []z.TestOption) []*z.ZogIssue {
		var d struct{ A **string }
		return flat(z.Struct(z.Schema{"a": z.Ptr(z.Ptr(z.String())).NotNil(o...)}).Parse(map[string]any{}, &d, eo...))
	}})
	vroot("ptr.not_nil", func(eo []z.ExecOption, o []z.TestOption) []*z.ZogIssue {
		var v *string
		return flat(z.Ptr(z.String()).NotNil(o...).Validate(&v, eo...))
	})
	// struct, pointer, front ends
	es = append(es, CatEntry{Name: "struct.coerce", NoTestOpts: true, Run: func(eo []z.ExecOption, o []z.TestOption) []*z.ZogIssue {
		var d T
		return flat(z.Struct(z.Schema{"a": z.String()}).Parse("not a map", &d, eo...))
	}})
	es = append(es, CatEntry{Name: "struct.testfunc", Run: func(eo []z.ExecOption, o []z.TestOption) []*z.ZogIssue {
		var d T
		return flat(z.Struct(z.Schema{"a": z.String()}).TestFunc(func(v any, c z.Ctx) bool { return false }, o...).Parse(map[string]any{"a": "x"}, &d, eo...))
	}})
	es = append(es, CatEntry{Name: "ptr.not_nil", Run: func(eo []z.ExecOption, o []z.TestOption) []*z.ZogIssue {
		var d *string
		return flat(z.Ptr(z.String()).NotNil(o...).Parse(nil, &d, eo...))
	}})
	es = append(es, CatEntry{Name: "zjson.invalid_json", NoTestOpts: true, Run: func(eo []z.ExecOption, o []z.TestOption) []*z.ZogIssue {
		var d T
		return flat(z.Struct(z.Schema{"a": z.String()}).Parse(zjson.Decode(strings.NewReader(`{"a":`)), &d, eo...))
	}})
	es = append(es, CatEntry{Name: "zjson.null_body", NoTestOpts: true, Run: func(eo []z.ExecOption, o []z.TestOption) []*z.ZogIssue {
		var d T
		return flat(z.Struct(z.Schema{"a": z.String()}).Parse(zjson.Decode(strings.NewReader(`null`)), &d, eo...))
	}})
	es = append(es, CatEntry{Name: "zhttp.null_body", NoTestOpts: true, Run: func(eo []z.ExecOption, o []z.TestOption) []*z.ZogIssue {
		var d *T
		r, _ := http.NewRequest("PUT", "http://x/p", bytes.NewReader([]byte(" null ")))
		r.Header.Set("Content-Type", "application/json; charset=utf-8")
		return flat(z.Ptr(z.Struct(z.Schema{"a": z.String()})).Parse(zhttp.Request(r), &d, eo...))
	}})
	es = append(es, CatEntry{Name: "zhttp.invalid_form", NoTestOpts: true, Run: func(eo []z.ExecOption, o []z.TestOption) []*z.ZogIssue {
		var d T
		r, _ := http.NewRequest("POST", "http://x/p", bytes.NewReader([]byte("a=%zz")))
		r.Header.Set("Content-Type", "application/x-www-form-urlencoded")
		return flat(z.Struct(z.Schema{"a": z.String()}).Parse(zhttp.Request(r), &d, eo...))
	}})
	es = append(es, CatEntry{Name: "zhttp.invalid_json", NoTestOpts: true, Run: func(eo []z.ExecOption, o []z.TestOption) []*z.ZogIssue {
		var d *T
		r, _ := http.NewRequest("POST", "http://x/p", bytes.NewReader([]byte("[1]")))
		r.Header.Set("Content-Type", "application/json")
		return flat(z.Ptr(z.Struct(z.Schema{"a": z.String()})).Parse(zhttp.Request(r), &d, eo...))
	}})
	es = append(es, CatEntry{Name: "custom.test", Run: func(eo []z.ExecOption, o []z.TestOption) []*z.ZogIssue {
		var d T
		return flat(z.Struct(z.Schema{"a": z.CustomFunc(func(p *string, c z.Ctx) bool { return false }, o...)}).Parse(map[string]any{"a": "x"}, &d, eo...))
	}})
	es = append(es, CatEntry{Name: "preprocess.error", NoTestOpts: true, Run: func(eo []z.ExecOption, o []z.TestOption) []*z.ZogIssue {
		var d T
		return flat(z.Struct(z.Schema{"a": z.Preprocess(func(s string, c z.Ctx) (string, error) { return "", fmt.Errorf("nope") }, z.String())}).Parse(map[string]any{"a": "x"}, &d, eo...))
	}})
	return es
}

type numeric interface {
	~int | ~int32 | ~int64 | ~float32 | ~float64
}

func numRun[T numeric](s *z.NumberSchema[T], test string, d *T, n T, eo []z.ExecOption, o []z.TestOption) []*z.ZogIssue {
	var data any = int(5)
	switch test {
	case "gt":
		s.GT(n, o...)
	case "gte":
		s.GTE(n+1, o...)
	case "lt":
		s.LT(n, o...)
	case "lte":
		s.LTE(n-1, o...)
	case "eq":
		s.EQ(n+1, o...)
	case "one_of":
		s.OneOf([]T{n + 1, n + 2}, o...)
	case "required":
		s.Required(o...)
		data = nil
	case "coerce":
		data = "abc"
	case "testfunc":
		s.TestFunc(func(v any, c z.Ctx) bool { return false }, o...)
	}
	return s.Parse(data, d, eo...)
}

// ExportedBuilders lists (by reflection) the exported methods of every schema type that return the
// schema itself and are therefore builders; the catalogue must reach each test-adding one.
func ExportedBuilders() []string {
	var out []string
	add := func(name string, v any) {
		t := reflect.TypeOf(v)
		for i := 0; i < t.NumMethod(); i++ {
			m := t.Method(i)
			if m.Type.NumOut() == 1 && (m.Type.Out(0) == t || m.Type.Out(0).Kind() == reflect.Interface) {
				out = append(out, name+"."+m.Name)
			}
		}
	}
	add("String", z.String())
	add("Int", z.Int())
	add("Float64", z.Float64())
	add("Bool", z.Bool())
	add("Time", z.Time())
	add("Slice", z.Slice(z.String()))
	add("Struct", z.Struct(z.Schema{}))
	add("Ptr", z.Ptr(z.String()))
	sort.Strings(out)
	return out
}

func issueParams(i *z.ZogIssue) ([]string, map[string]string) {
	var ks []string
	m := map[string]string{}
	for k, v := range i.Params {
		ks = append(ks, k)
		m[k] = fmt.Sprintf("%v", v)
	}
	sort.Strings(ks)
	return ks, m
}
