package eng

import (
	"fmt"
	"reflect"
	"sort"
	"strings"

	"github.com/Oudwins/zog/parsers/zjson"
)

// toMap presents a fully populated destination value as the plain Go data it would be decoded
// from: structs become map[string]any keyed by the zog tag or the schema key, slices become []any,
// pointers are dereferenced, leaves are the Go values themselves.
func toMap(n *Node, v reflect.Value) (any, IVal) {
	switch n.Kind {
	case KStruct:
		m := map[string]any{}
		iv := IVal{Kind: "map", node: n}
		for _, f := range n.Fields {
			k := feKey(f, "")
			x, xi := toMap(f.Node, v.FieldByName(GoName(f.Key)))
			m[k] = x
			iv.M = append(iv.M, IKV{K: k, V: xi})
		}
		sort.Slice(iv.M, func(a, b int) bool { return iv.M[a].K < iv.M[b].K })
		return m, iv
	case KSlice:
		l := make([]any, v.Len())
		iv := IVal{Kind: "list", L: []IVal{}}
		for i := 0; i < v.Len(); i++ {
			x, xi := toMap(n.Elem, v.Index(i))
			l[i] = x
			iv.L = append(iv.L, xi)
		}
		return l, iv
	case KPtr:
		return toMap(n.Elem, v.Elem())
	case KString, KCustom, KPre:
		return v.String(), strV(v.String()) // (a NamedStr leaf travels as its string)
	case KInt:
		return int(v.Int()), intV(v.Int())
	case KInt32:
		return int32(v.Int()), IVal{Kind: "int32", I: v.Int()}
	case KInt64:
		return v.Int(), IVal{Kind: "int64", I: v.Int()}
	case KFloat32:
		return float32(v.Float()), IVal{Kind: "f32", F: v.Float()}
	case KFloat64:
		return v.Float(), f64V(v.Float())
	case KBool:
		return v.Bool(), boolV(v.Bool())
	case KTime:
		t := v.Interface().(timeT)
		return t, timeV(t)
	}
	panic("toMap " + n.Kind)
}

// NewModesCase (C13): one fully populated value, validated in place and parsed from its map form.
// Returns the two executions as cases (ids 2k and 2k+1) and the model-free comparison.
func NewModesCase(g *Gen, id int) (*Case, *Case, string) {
	n := g.Schema()
	// custom functions that normalise the value through the pointer they are given: both modes hand them the
	// destination itself (these cases are compared between the modes only: the model's custom functions are pure)
	mutating := false
	var mark func(x *Node)
	mark = func(x *Node) {
		if x.Kind == KCustom && g.R.Fork(uint64(0xc0de+len(x.Tests))).P(40) {
			x.CustomMut, mutating = true, true
		}
		for _, f := range x.Fields {
			mark(f.Node)
		}
		if x.Elem != nil {
			mark(x.Elem)
		}
	}
	mark(n)
	rec := &Recorder{CtxKeys: ctxProbe}
	t := TypeOf(n)
	val := g.DestValue(n, t, true)
	primeJSON := n.Kind == KStruct && g.R.Fork(0x9507).P(35)
	mk := func(validate bool, cid int) *Case {
		c := &Case{ID: cid, Validate: validate, Schema: n, Collide: hasIssuePath(n), Shape: Shape(n), PoolMode: "recycled", TypesOK: true, CtxOK: true}
		schema := Build(rec, n, validate)
		var dest0 reflect.Value
		var data any
		if validate {
			dest0 = val
		} else {
			dest0 = reflect.Zero(t)
			var iv IVal
			data, iv = toMap(n, val)
			c.In = &iv
		}
		c.Dest0 = CoqDval(dest0, n)
		c.dest0v = dest0
		if !validate && primeJSON {
			// the schema object's first use is a JSON request (keys by json tag): nothing of that front end may stay with it
			Exec(schema, false, zjson.Decode(strings.NewReader(`{"zz_unknown":1}`)), copyDest(t, reflect.Zero(t)), &Recorder{})
		}
		dest := copyDest(t, dest0)
		c.Obs = Exec(schema, validate, data, dest, rec)
		c.Known = false
		c.Repeats = []string{c.Obs.canon(n)}
		ids := map[int]*Node{}
		indexIDs(n, ids)
		for i := range c.Obs.Calls {
			cr := &c.Obs.Calls[i]
			if cr.Nil || cr.Arg == nil {
				cr.coqArg = "None"
			} else {
				cr.coqArg = "(Some " + CoqDval(reflect.ValueOf(cr.Arg), argNode(ids[cr.ID], cr.Kind)) + ")"
			}
		}
		return c
	}
	cv, cp := mk(true, 2*id), mk(false, 2*id+1)
	cv.SkipModel, cp.SkipModel = mutating, mutating
	render := func(o *Observed) string {
		var b strings.Builder
		fmt.Fprintf(&b, "panic=%v nil=%v\n", o.Panic != "", o.Nil)
		for _, k := range o.Keys {
			var xs []string
			for _, i := range o.ByKey[k] {
				xs = append(xs, fmt.Sprintf("{%s|%s|%s|%s}", i.Path, i.Code, i.Dtype, i.Message))
			}
			sort.Strings(xs)
			fmt.Fprintf(&b, "%q: %s\n", k, strings.Join(xs, " "))
		}
		b.WriteString(CoqDval(o.Dest, n))
		return b.String()
	}
	a, b := render(&cv.Obs), render(&cp.Obs)
	diff := ""
	// PostTransforms are gated on the execution-wide error state, so with issues around their effect
	// depends on the field visit order of each run (the recorded C09 finding), not on the mode: the
	// direct comparison is made when the schema has no PostTransform or neither run reported an issue;
	// either way both runs are compared with the model under their own visit orders
	if a != b && (!hasPT(n) || (cv.Obs.Nil && cp.Obs.Nil)) {
		diff = "Validate in place:\n" + a + "\nParse of the same value as a map:\n" + b
	}
	return cv, cp, diff
}
