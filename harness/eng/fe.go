package eng

import (
	"bytes"
	"encoding/json"
	"errors"
	"fmt"
	"io"
	"math"
	"mime/multipart"
	"net/http"
	"net/url"
	"os"
	"reflect"
	"sort"
	"strings"
	"time"
	"unicode/utf8"

	"github.com/Oudwins/zog/parsers/zjson"
	"github.com/Oudwins/zog/zenv"
	"github.com/Oudwins/zog/zhttp"
)

// Front ends of the fe family.
var frontEnds = []string{"zjson", "http-json", "http-form", "http-query", "env", "http-json", "http-form"}

// jsonable maps a generated input to a logical record every front end can carry: no NaN/Inf, no
// Go-only types; times become RFC3339 strings.
func jsonable(v IVal) IVal {
	switch v.Kind {
	case "int64", "int32":
		return IVal{Kind: "int", I: v.I}
	case "f32":
		return IVal{Kind: "f64", F: v.F}
	case "f64":
		if math.IsNaN(v.F) || math.IsInf(v.F, 0) {
			return IVal{Kind: "f64", F: 1.5}
		}
		return v
	case "time":
		return IVal{Kind: "str", S: v.T.Format(time.RFC3339)}
	case "other":
		return IVal{Kind: "str", S: "other"}
	case "list":
		o := IVal{Kind: "list", L: []IVal{}}
		for _, e := range v.L {
			o.L = append(o.L, jsonable(e))
		}
		return o
	case "map":
		o := IVal{Kind: "map", node: v.node}
		for _, kv := range v.M {
			o.M = append(o.M, IKV{K: kv.K, V: jsonable(kv.V)})
		}
		return o
	}
	return v
}

// fromJSON converts a value decoded by encoding/json into an IVal.
func fromJSON(x any) IVal {
	switch v := x.(type) {
	case nil:
		return IVal{Kind: "nil"}
	case bool:
		return IVal{Kind: "bool", B: v}
	case float64:
		return IVal{Kind: "f64", F: v}
	case string:
		return IVal{Kind: "str", S: v}
	case []any:
		o := IVal{Kind: "list", L: []IVal{}}
		for _, e := range v {
			o.L = append(o.L, fromJSON(e))
		}
		return o
	case map[string]any:
		o := IVal{Kind: "map"}
		ks := make([]string, 0, len(v))
		for k := range v {
			ks = append(ks, k)
		}
		sort.Strings(ks)
		for _, k := range ks {
			o.M = append(o.M, IKV{K: k, V: fromJSON(v[k])})
		}
		return o
	}
	panic(fmt.Sprintf("fromJSON %T", x))
}

// feKey: the key a front end with source tag `tag` (or none) looks a field up under.
func feKey(f Field, tag string) string {
	if tag != "" {
		if t, ok := f.Tags[tag]; ok {
			return t
		}
	}
	if t, ok := f.Tags["zog"]; ok {
		return t
	}
	return f.Key
}

func feTag(fe string) string {
	switch fe {
	case "zjson", "http-json":
		return "json"
	case "http-form":
		return "form"
	case "http-query":
		return "query"
	case "env":
		return "env"
	}
	return ""
}

// scalarText renders a scalar leaf the way a flat source carries it.
func scalarText(v IVal) (string, bool) {
	switch v.Kind {
	case "str":
		return v.S, true
	case "int":
		return fmt.Sprint(v.I), true
	case "bool":
		return fmt.Sprint(v.B), true
	case "f64":
		return fmt.Sprintf("%v", v.F), true
	}
	return "", false
}

// feRecord generates the logical record for the top-level struct: schema-key -> value.
func (g *Gen) feRecord(n *Node) []IKV {
	var rec []IKV
	for _, f := range n.Fields {
		if g.R.P(10) {
			continue
		}
		rec = append(rec, IKV{K: f.Key, V: jsonable(g.Input(f.Node))})
	}
	return rec
}

func coqURLValues(vals url.Values) (string, IVal) {
	ks := make([]string, 0, len(vals))
	for k := range vals {
		ks = append(ks, k)
	}
	sort.Strings(ks)
	var xs []string
	in := IVal{Kind: "list"}
	for _, k := range ks {
		var ys []string
		for _, s := range vals[k] {
			ys = append(ys, CoqStr(s))
			in.L = append(in.L, strV(s))
		}
		xs = append(xs, "("+CoqStr(k)+", "+coqList(ys)+")")
	}
	return coqList(xs), in
}

// feComparable: is value v, given to a field of this kind, carried identically by a flat source?
func feComparable(n *Node, v IVal, flat bool, env bool) bool {
	if !flat { // JSON
		k := n.Kind
		if k == KPtr {
			k = n.Elem.Kind
		}
		switch v.Kind {
		case "str":
			return utf8.ValidString(v.S)
		case "int": // a JSON number arrives as float64
			if IsIntKind(k) || IsFloatKind(k) {
				return v.I <= 1<<53 && v.I >= -(1<<53)
			}
			return k == KString && v.I > -1000000 && v.I < 1000000
		case "list":
			for _, e := range v.L {
				en := n
				if n.Kind == KSlice {
					en = n.Elem
				}
				if !feComparable(en, e, flat, env) {
					return false
				}
			}
			return true
		case "map":
			return false
		}
		return true
	}
	kind := n.Kind
	if kind == KPtr {
		return feComparable(n.Elem, v, flat, env)
	}
	if kind == KSlice {
		if env || v.Kind != "list" || len(v.L) == 0 || !IsPrim(n.Elem.Kind) {
			return false
		}
		for _, e := range v.L {
			if e.Kind == "nil" || e.Kind == "list" || e.Kind == "map" || (e.Kind == "str" && isBlank(e.S)) || !feComparable(n.Elem, e, flat, env) {
				return false
			}
		}
		return true
	}
	if !IsPrim(kind) {
		return false
	}
	if v.Kind == "nil" {
		return true
	}
	if v.Kind == "str" && env && strings.TrimSpace(v.S) != v.S {
		return false
	}
	switch kind {
	case KString:
		return v.Kind == "str" || v.Kind == "int" || v.Kind == "bool" || v.Kind == "f64"
	case KInt, KInt32, KInt64:
		return v.Kind == "str" || v.Kind == "int"
	case KFloat32, KFloat64:
		return v.Kind == "str" || v.Kind == "int" || v.Kind == "f64"
	case KBool:
		return v.Kind == "str" || v.Kind == "bool" || v.Kind == "int"
	case KTime:
		return v.Kind == "str"
	}
	return false
}

// NewFECase generates one case in which the input arrives through a front end.
func NewFECase(g *Gen, id int) *Case {
	n := g.strct(0)
	fe := Pick(g.R, frontEnds)
	ptrRoot := g.R.P(25)
	root := n
	if ptrRoot {
		root = &Node{Kind: KPtr, Elem: n}
		if g.R.P(50) {
			t := TestSpec{}
			root.Req = &t
		}
	}
	if fe == "env" {
		// environment variables get a namespace of their own: every field carries an env tag
		for i := range n.Fields {
			f := &n.Fields[i]
			if f.Tags == nil {
				f.Tags = map[string]string{}
			}
			f.Tags["env"] = "ZV_" + strings.ToUpper(f.Key)
		}
	}
	c := &Case{ID: id, Schema: root, Collide: hasIssuePath(root), Shape: fe + ":" + Shape(root), FE: fe}
	rec := &Recorder{CtxKeys: ctxProbe}
	schema := Build(rec, root, false)
	t := TypeOf(root)
	tag := feTag(fe)
	record := g.feRecord(n)
	keyOf := map[string]Field{}
	for _, f := range n.Fields {
		keyOf[f.Key] = f
	}
	// which key does each field travel under? mostly the right one, sometimes another tag's
	srcKey := func(f Field) string {
		if g.R.P(88) {
			return feKey(f, tag)
		}
		return Pick(g.R, []string{f.Key, feKey(f, "json"), feKey(f, "form"), feKey(f, ""), "zz_" + f.Key})
	}
	var mkData func() any
	var cleanup func()
	var model string // Gallina [data] term
	var modelIn IVal // the strings/floats the model side sees (for the oracle tables)
	flat := fe == "http-form" || fe == "http-query" || fe == "env"
	comparable := true
	keys := map[string]string{} // schema key -> source key
	for _, kv := range record {
		keys[kv.K] = srcKey(keyOf[kv.K])
		if keys[kv.K] != feKey(keyOf[kv.K], tag) || !feComparable(keyOf[kv.K].Node, kv.V, flat, fe == "env") {
			comparable = false
		}
	}
	if hasKind(n, KPre) || hasKind(n, KCustom) || hasPT(n) {
		comparable = false // these schemas assert the dynamic type of their input: nil vs "" is a documented difference
	}
	bad := ""
	var mkReq func() *http.Request // the http front ends: the request itself
	reparseOK := false             // the same request can be parsed again (form and query; a JSON body is consumed)
	switch fe {
	case "zjson", "http-json":
		obj := map[string]any{}
		for _, kv := range record {
			obj[keys[kv.K]] = kv.V.Go(nil)
		}
		hugeNumber := false
		if len(record) > 0 && g.R.P(5) {
			// a number literal no float64 can hold: encoding/json rejects the document
			obj[keys[record[g.R.Intn(len(record))].K]] = json.RawMessage(Pick(g.R, []string{"1e309", "-1E+999", "1.8e308", "1" + strings.Repeat("0", 400)}))
			hugeNumber = true
		}
		body, err := json.Marshal(obj)
		if err != nil {
			body = []byte(`{}`)
		}
		if hugeNumber {
			bad = "<number out of range>"
			comparable = false
		}
		if g.R.Fork(0x15ad).P(15) {
			// insignificant white space (JSON allows space, tab, line feed and carriage return around the value)
			f := g.R.Fork(0x15ae)
			body = []byte(Pick(f, []string{" ", "\r\n", "\t", "\n\n", " \r\n\t "}) + string(body) + Pick(f, []string{"", "\r\n", " ", "\n"}))
		}
		if !hugeNumber && g.R.P(18) {
			bad = Pick(g.R, []string{`null`, ``, `[1,2]`, `{}`, `{"a":`, `12`, `"str"`, ` {} `, string(body) + ` trailing`, `{"a":1}{"b":2}`, `nul`, "\xff"})
			body = []byte(bad)
			comparable = false
		}
		nilBody := g.R.P(3) // a request made with http.NewRequest(method, url, nil) / a nil reader
		if nilBody {
			bad = "<nil body>"
			comparable = false
		}
		var m map[string]any
		derr := json.NewDecoder(bytes.NewReader(body)).Decode(&m)
		switch {
		case derr != nil || m == nil || nilBody:
			model = `(DFactory (FErr "invalid_json" ""))`
		case len(m) == 0:
			model = "(DFactory FNil)"
		default:
			modelIn = fromJSON(m)
			model = "(DFactory (FProv (PMap (Some \"json\") " + strings.TrimSuffix(strings.TrimPrefix(CoqIVal(modelIn), "(VMap "), ")") + ")))"
		}
		if fe == "zjson" {
			mkData = func() any {
				if nilBody {
					return zjson.Decode(nil)
				}
				return zjson.Decode(bytes.NewReader(body))
			}
		} else {
			meth := Pick(g.R, []string{"POST", "PUT", "PATCH", "DELETE", "OPTIONS"})
			ct := Pick(g.R, []string{"application/json", "application/json; charset=utf-8", "application/json;charset=UTF-8", "Application/JSON", " application/json ; charset=utf-8", "APPLICATION/JSON\t",
				// parameters are ignored, whatever they say: the media type alone decides
				"application/json; charset=iso-8859-1", "application/json; charset=\"windows-1252\"", "application/json;charset=utf-16", "application/json; version=2; charset=us-ascii", "application/json; charset=latin1"})
			q := ""
			if len(n.Fields) > 0 && g.R.P(50) {
				q = "?" + url.QueryEscape(feKey(n.Fields[0], "json")) + "=decoy"
			}
			streamed := g.R.Fork(0xc1e4).P(15) // a body of unknown length (a chunked upload as a server sees it)
			mkReq = func() *http.Request {
				r, _ := http.NewRequest(meth, "http://example.com/p"+q, bytes.NewReader(body))
				if nilBody {
					r, _ = http.NewRequest(meth, "http://example.com/p"+q, nil)
				} else if streamed {
					r, _ = http.NewRequest(meth, "http://example.com/p"+q, struct{ io.Reader }{bytes.NewReader(body)})
					r.ContentLength = -1
					r.TransferEncoding = []string{"chunked"}
				}
				r.Header.Set("Content-Type", ct)
				return r
			}
			mkData = func() any { return zhttp.Request(mkReq()) }
		}
	case "http-form", "http-query":
		vals := url.Values{}
		for _, kv := range record {
			k := keys[kv.K]
			switch kv.V.Kind {
			case "list":
				for _, e := range kv.V.L {
					if s, ok := scalarText(e); ok {
						vals.Add(k, s)
					}
				}
			default:
				if s, ok := scalarText(kv.V); ok {
					vals.Add(k, s)
				}
			}
		}
		var bks []string
		for k, vs := range vals {
			if strings.HasSuffix(k, "[]") || len(vs) >= 2 {
				bks = append(bks, k)
			}
		}
		sort.Strings(bks)
		for _, k := range bks { // blank entries between the others of a list ([]-named, or a repeated parameter)
			if strings.HasSuffix(k, "[]") && g.R.Fork(0x1b1a).P(30) {
				// a []-named parameter is a list whatever its length: here a list of one blank entry
				vals[k] = []string{Pick(g.R.Fork(0x1b1b), []string{"", " ", "+"})}
				comparable = false
				continue
			}
			if vs := vals[k]; len(vs) > 0 && g.R.P(65) {
				i := g.R.Intn(len(vs))
				vals[k] = append(append(append([]string{}, vs[:i]...), Pick(g.R, []string{"", " "})), vs[i:]...)
				comparable = false // (no longer the same record as the Go map)
			}
		}
		if g.R.Fork(0x9a9a).P(20) && len(n.Fields) > 0 {
			// numbered parameters (tags[0]=a&tags[5]=b&tags[7]=c): not a spelling of a list, such keys name nothing
			f := n.Fields[g.R.Fork(0x9a9b).Intn(len(n.Fields))]
			for _, f2 := range n.Fields { // (preferably a parameter that is a list by its name)
				if strings.HasSuffix(feKey(f2, tag), "[]") && len(vals[feKey(f2, tag)]) > 0 {
					f = f2
				}
			}
			if vs, ok := vals[feKey(f, tag)]; ok && len(vs) > 0 {
				delete(vals, feKey(f, tag))
				base := strings.TrimSuffix(feKey(f, tag), "[]")
				for i, v := range append(vs, "x1", "x2") {
					vals[fmt.Sprintf("%s[%d]", base, []int{0, 5, 7, 9, 11, 13, 15}[i%7])] = []string{v}
				}
				comparable = false
			}
		}
		if g.R.P(20) && len(n.Fields) > 0 { // []-suffixed spelling of a list parameter
			f := n.Fields[g.R.Intn(len(n.Fields))]
			if vs, ok := vals[feKey(f, tag)]; ok {
				delete(vals, feKey(f, tag))
				if g.R.P(50) && len(vs) > 0 { // blank entries between the others
					k := g.R.Intn(len(vs))
					vs = append(append(append([]string{}, vs[:k]...), Pick(g.R, []string{"", " "})), vs[k:]...)
				} else if g.R.Fork(0x1b1c).P(40) { // exactly one entry, blank
					vs = []string{Pick(g.R.Fork(0x1b1d), []string{"", " "})}
				}
				vals[feKey(f, tag)+"[]"] = vs
				comparable = false
			}
		}
		enc := vals.Encode()
		if fe == "http-form" {
			meth := Pick(g.R, []string{"POST", "PUT", "PATCH", "DELETE"})
			ct := Pick(g.R, []string{"application/x-www-form-urlencoded", "application/x-www-form-urlencoded; charset=UTF-8", "Application/X-WWW-Form-Urlencoded", " application/x-www-form-urlencoded ;charset=UTF-8",
				"application/x-www-form-urlencoded; charset=iso-8859-1", "application/x-www-form-urlencoded; boundary=x; charset=us-ascii"})
			body := enc
			query := ""
			if g.R.P(30) && len(n.Fields) > 0 {
				query = url.QueryEscape(feKey(n.Fields[0], tag)) + "=fromquery"
				comparable = false
			}
			if g.R.P(12) {
				bad = Pick(g.R, []string{"a=%zz", "%", "a=1&b=%g1", "a;b=1"})
				if g.R.P(50) {
					body = bad
				} else {
					query = bad
				}
				comparable = false
			}
			readsBody := meth == "POST" || meth == "PUT" || meth == "PATCH"
			merged := url.Values{}
			var perr error
			nilBody := g.R.P(3)
			if nilBody {
				bad = "<nil body>"
				comparable = false
			}
			if readsBody && nilBody {
				perr = errors.New("missing form body") // net/http: ParseForm on a request without a Body
			} else if readsBody {
				bv, err := url.ParseQuery(body)
				if err != nil {
					perr = err
				}
				for k, vs := range bv {
					merged[k] = append(merged[k], vs...)
				}
			} else {
				comparable = false
			}
			qv, err := url.ParseQuery(query)
			if err != nil && perr == nil {
				perr = err
			}
			for k, vs := range qv {
				merged[k] = append(merged[k], vs...)
			}
			preparse := g.R.P(25)
			if perr != nil && !preparse { // (a middleware's earlier ParseForm swallows the error: net/http parses once)
				model = `(DFactory (FErr "invalid_form" ""))`
			} else {
				var s string
				s, modelIn = coqURLValues(merged)
				model = "(DFactory (FProv (PUrl \"form\" " + s + ")))"
			}
			reparseOK = true
			mkReq = func() *http.Request {
				u := "http://example.com/p"
				if query != "" {
					u += "?" + query
				}
				r, err := http.NewRequest(meth, u, strings.NewReader(body))
				if err != nil {
					panic(err)
				}
				if nilBody {
					r, _ = http.NewRequest(meth, u, nil)
				}
				r.Header.Set("Content-Type", ct)
				if preparse {
					_ = r.ParseForm()
				}
				return r
			}
			mkData = func() any { return zhttp.Request(mkReq()) }
		} else {
			variant := g.R.Intn(4) // 0,1: GET/HEAD ; 2: POST text/plain with a decoy body ; 3: multipart body, pre-parsed by a middleware
			s, in := coqURLValues(vals)
			modelIn = in
			model = "(DFactory (FProv (PUrl \"query\" " + s + ")))"
			reparseOK = true
			qmeth := Pick(g.R, []string{"GET", "HEAD"})
			mkReq = func() *http.Request {
				var r *http.Request
				switch variant {
				case 0, 1:
					r, _ = http.NewRequest(qmeth, "http://example.com/p?"+enc, nil)
				case 2:
					r, _ = http.NewRequest("POST", "http://example.com/p?"+enc, strings.NewReader("decoy=1&"+enc))
					r.Header.Set("Content-Type", "text/plain")
				default:
					var buf bytes.Buffer
					w := multipart.NewWriter(&buf)
					for _, f := range n.Fields {
						_ = w.WriteField(feKey(f, tag), "frombody")
					}
					w.Close()
					r, _ = http.NewRequest("POST", "http://example.com/p?"+enc, &buf)
					r.Header.Set("Content-Type", w.FormDataContentType())
					_ = r.FormValue("anything") // what a CSRF middleware does before the handler runs
				}
				return r
			}
			mkData = func() any { return zhttp.Request(mkReq()) }
		}
	case "env":
		var env []string
		var set []string
		in := IVal{Kind: "list"}
		for _, kv := range record {
			s, ok := scalarText(kv.V)
			if !ok {
				comparable = false
				continue
			}
			if g.R.P(20) {
				orig := s
				s = Pick(g.R, []string{" ", "\t", "\n", "\r\n", " ", "\u00a0", "\u2003 ", "\u3000", "\u200b", "\u0085"}) + s + Pick(g.R, []string{" ", "\t", "\n", "\r", "", "\u00a0\t", "\u2028", "\u200b", "\xc2"})
				if strings.TrimSpace(s) != orig {
					comparable = false // (a look-alike that is not white space stays: another record)
				}
			}
			if g.R.Fork(0xe701).P(15) {
				// values that look like the debris of a quoting convention: they are what they are
				s = Pick(g.R.Fork(0xe702), []string{`"`, `'`, `"`, `'`, `""`, `"x`, `x"`, `'x'`, `" "`, "`"})
				comparable = false
			}
			k := keys[kv.K]
			if strings.ContainsRune(s, 0) || !strings.HasPrefix(k, "ZV_") {
				comparable = false
				continue
			}
			set = append(set, k)
			os.Setenv(k, s)
			env = append(env, "("+CoqStr(k)+", "+CoqStr(s)+")") // the raw value: the model trims it itself
			in.L = append(in.L, strV(strings.TrimSpace(s)))
		}
		modelIn = in
		model = "(DProv (penv_raw " + coqList(env) + "))"
		mkData = func() any { return zenv.NewDataProvider() }
		cleanup = func() {
			for _, k := range set {
				os.Unsetenv(k)
			}
		}
	}
	c.DataCoq = model
	c.In = &modelIn
	dest0 := reflect.Zero(t)
	if g.R.P(25) {
		dest0 = g.DestValue(root, t, false)
	}
	c.Dest0 = CoqDval(dest0, root)
	c.dest0v = dest0
	run := func(data any) Observed {
		dest := copyDest(t, dest0)
		return Exec(schema, false, data, dest, rec)
	}
	c.Obs = run(mkData())
	c.Known = false
	c.Repeats = []string{c.Obs.canon(root)}
	for i := 0; i < 2; i++ {
		o := run(mkData())
		c.Repeats = append(c.Repeats, o.canon(root))
	}
	// the request a handler passes in is the caller's: parsing must leave its Form / PostForm / URL as
	// they were (model-free), and parsing the same request again must give the same result
	if mkReq != nil {
		r := mkReq()
		if reparseOK {
			_ = r.ParseForm()
		}
		snap := func() string {
			uv := func(v url.Values) string {
				if v == nil {
					return "nil"
				}
				ks := make([]string, 0, len(v))
				for k := range v {
					ks = append(ks, k)
				}
				sort.Strings(ks)
				var b strings.Builder
				for _, k := range ks {
					fmt.Fprintf(&b, "%q:%q ", k, v[k])
				}
				return "{" + b.String() + "}"
			}
			return "Form=" + uv(r.Form) + " PostForm=" + uv(r.PostForm) + " URL=" + r.URL.String()
		}
		before := snap()
		o1 := run(zhttp.Request(r))
		if after := snap(); after != before {
			c.FEPure = "the request was modified by Parse:\nbefore: " + before + "\nafter:  " + after
		} else if reparseOK {
			if o2 := run(zhttp.Request(r)); o2.canon(root) != o1.canon(root) && !hasPT(n) {
				c.FEPure = "parsing the same request a second time gave another result:\nfirst:  " + o1.canon(root) + "\nsecond: " + o2.canon(root)
			}
		}
	}
	ids := map[int]*Node{}
	indexIDs(root, ids)
	c.CtxOK = true
	for i := range c.Obs.Calls {
		cr := &c.Obs.Calls[i]
		node := ids[cr.ID]
		if cr.Nil || cr.Arg == nil {
			cr.coqArg = "None"
		} else {
			cr.coqArg = "(Some " + CoqDval(reflect.ValueOf(cr.Arg), argNode(node, cr.Kind)) + ")"
		}
	}
	// the cross-front-end oracle (model-free): the same logical record as a plain Go map
	if comparable && bad == "" && !ptrRoot {
		m := map[string]any{}
		for _, kv := range record {
			m[feKey(keyOf[kv.K], "")] = kv.V.Go(nil)
		}
		dest := copyDest(t, dest0)
		mo := Exec(schema, false, m, dest, rec)
		norm := func(o *Observed, srcTag string) string {
			back := map[string]string{}
			for _, f := range n.Fields {
				back[feKey(f, srcTag)] = f.Key
			}
			var lines []string
			for _, k := range o.Keys {
				// the issue key starts with the source's name of a top-level field (which may itself end in "[]")
				head, rest := k, ""
				best := -1
				for src := range back {
					if strings.HasPrefix(k, src) && len(src) > best && (len(k) == len(src) || k[len(src)] == '.' || k[len(src)] == '[') {
						best = len(src)
					}
				}
				if best >= 0 {
					head, rest = back[k[:best]], k[best:]
				} else if i := strings.IndexAny(k, ".["); i >= 0 {
					head, rest = k[:i], k[i:]
				}
				for _, is := range o.ByKey[k] {
					if (is.Code == "" && is.HasErr) || is.Code == "user_code" {
						continue // a PostTransform's own error: gated on the execution-wide error state, order-dependent
					}
					lines = append(lines, head+rest+"|"+is.Code)
				}
			}
			sort.Strings(lines)
			return fmt.Sprintf("nil=%v %v %s", o.Nil, lines, CoqDval(o.Dest, root))
		}
		a, b := norm(&mo, ""), norm(&c.Obs, tag)
		if fe == "env" {
			b = norm(&c.Obs, "env")
		}
		c.FEChecked = true
		if a != b && flat && hasNestedStruct(n) {
			c.FENested = true
		}
		if a != b {
			c.FEDiff = fmt.Sprintf("record %v keys %v\n", record, keys) + "as Go map: " + a + "\nthrough " + fe + ": " + b
		}
	}
	if cleanup != nil {
		cleanup()
	}
	return c
}

func hasKind(n *Node, k string) bool {
	if n.Kind == k {
		return true
	}
	for _, f := range n.Fields {
		if hasKind(f.Node, k) {
			return true
		}
	}
	return n.Elem != nil && hasKind(n.Elem, k)
}

func hasPT(n *Node) bool {
	if len(n.PTs) > 0 {
		return true
	}
	for _, f := range n.Fields {
		if hasPT(f.Node) {
			return true
		}
	}
	return n.Elem != nil && hasPT(n.Elem)
}

// hasNestedStruct: a struct somewhere below the top-level struct's fields
func hasNestedStruct(n *Node) bool {
	for _, f := range n.Fields {
		if hasKind(f.Node, KStruct) {
			return true
		}
	}
	return false
}
