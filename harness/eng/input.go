package eng

import (
	"fmt"
	"math"
	"reflect"
	"time"
)

// IVal is an input value (what is handed to Parse as data), mirrored for printing.
type IVal struct {
	Kind string // nil bool int int64 int32 f64 f32 str time list map other
	B    bool
	I    int64
	F    float64
	S    string
	T    time.Time
	L    []IVal
	M    []IKV
	// struct positions: the schema node this map is consumed by (for the recording provider)
	node *Node
}
type IKV struct {
	K string
	V IVal
}

type otherT struct{ N int }

// Go converts to the Go value handed to zog. wrap: maps at struct positions become recording providers.
func (v IVal) Go(wrap *orderLog) any {
	switch v.Kind {
	case "nil":
		return nil
	case "bool":
		return v.B
	case "int":
		return int(v.I)
	case "int64":
		return v.I
	case "int32":
		return int32(v.I)
	case "f64":
		return v.F
	case "f32":
		return float32(v.F)
	case "str":
		return v.S
	case "time":
		return v.T
	case "list":
		l := make([]any, len(v.L))
		for i, e := range v.L {
			l[i] = e.Go(wrap)
		}
		return l
	case "map":
		m := make(map[string]any, len(v.M))
		for _, kv := range v.M {
			m[kv.K] = kv.V.Go(wrap)
		}
		if wrap != nil && v.node != nil {
			return wrap.provider(v.node, m)
		}
		return m
	case "other":
		switch v.I {
		case 3: // typed nil pointers to types whose String / Error methods have value receivers
			return (*time.Time)(nil)
		case 4:
			return (*stringerT)(nil)
		case 5:
			return (*errorT)(nil)
		case 6:
			return stringerT{7}
		}
		return otherT{int(v.I)}
	}
	panic("IVal.Go " + v.Kind)
}

// values of "any other dynamic type"
type stringerT struct{ n int }

func (s stringerT) String() string { return fmt.Sprint("stringer-", s.n) }

type errorT struct{ n int }

func (e errorT) Error() string { return fmt.Sprint("error-", e.n) }

var absentStrings = []string{"", " ", "\t\n", "  \r ", "\u00a0", "\u0085", "\u3000\u2003", "\u1680\u205f ", "\u2028\u2029\u202f"}
var nearAbsentStrings = []string{"\u200b", " a ", "0", "\xc2", "\xe2\x80", "\u180e", "\x00", "\x1b", "\x1f\x1e", " \x01\t", "\x7f", "\ufeff", "\x08 "} // present: these are not spaces (control characters, zero-width characters); truncated sequences are not spaces

func strV(s string) IVal     { return IVal{Kind: "str", S: s} }
func intV(i int64) IVal      { return IVal{Kind: "int", I: i} }
func f64V(f float64) IVal    { return IVal{Kind: "f64", F: f} }
func boolV(b bool) IVal      { return IVal{Kind: "bool", B: b} }
func nilV() IVal             { return IVal{Kind: "nil"} }
func timeV(t time.Time) IVal { return IVal{Kind: "time", T: t} }

func (g *Gen) absent() IVal {
	if g.R.P(35) {
		return nilV()
	}
	return strV(Pick(g.R, absentStrings))
}

// Input generates input data for a node in Parse mode.  With probability PValid a primitive node
// gets an input its own schema accepts (found by trying candidates against the real schema).
func (g *Gen) Input(n *Node) IVal {
	v := g.input0(n)
	if n == g.preRoot && v.Kind != "str" {
		// Preprocess[string,string].Parse takes a string: no other dynamic type can be handed to that root
		v = strV(Pick(g.R.Fork(0x9e0), []string{"abc", " pad ", "", "  ", "Hello", "a1"}))
	}
	return v
}

func (g *Gen) input0(n *Node) IVal {
	if IsPrim(n.Kind) && g.P.PValid > 0 && g.R.P(g.P.PValid) {
		probe := Build(&Recorder{}, n, false)
		for try := 0; try < 12; try++ {
			v := g.inputRaw(n)
			dest := reflect.New(TypeOf(n))
			if o := Exec(probe, false, v.Go(nil), dest, &Recorder{}); o.Panic == "" && o.Nil {
				return v
			}
		}
	}
	return g.inputRaw(n)
}

func (g *Gen) inputRaw(n *Node) IVal {
	r := g.R
	if g.P.PFalsy > 0 && IsPrim(n.Kind) && n.Kind != KString && r.P(g.P.PFalsy) {
		// falsy values are values: present, whatever front end hands them over
		switch n.Kind {
		case KInt, KInt32, KInt64:
			return Pick(r, []IVal{intV(0), {Kind: "int64", I: 0}, f64V(0)})
		case KFloat32, KFloat64:
			return Pick(r, []IVal{f64V(0), f64V(math.Copysign(0, -1)), intV(0)})
		case KBool:
			return boolV(false)
		case KTime:
			if r.P(40) {
				return timeV(time.Time{}.In(time.FixedZone("X", 3600*(1+r.Intn(3)))))
			}
			return timeV(time.Time{})
		}
	}
	if r.P(g.P.PAbsent) {
		return g.absent()
	}
	if (n.Def != nil || n.HasDef) && r.P(30) {
		// a Default only acts on absent input: make sure it is exercised whatever the profile
		return g.absent()
	}
	switch n.Kind {
	case KString:
		c := r.Intn(100)
		switch {
		case c < 70:
			return strV(Pick(r, sampleStrings))
		case c < 78:
			return strV(Pick(r, nearAbsentStrings))
		case c < 86:
			return intV(int64(r.Intn(200) - 50))
		case c < 92:
			return boolV(r.P(50))
		case c < 96:
			return f64V(Pick(r, []float64{1.5, 0, 2, 1e21, -3.25, 0.1, 1e6, 123456789}))
		default:
			return IVal{Kind: "f32", F: f32(Pick(r, []float64{0.1, 2.5, 16777217, 3.3, 1e10}))}
		}
	case KInt, KInt64, KInt32:
		c := r.Intn(100)
		switch {
		case c < 32:
			return intV(int64(r.Intn(16) - 3))
		case c < 35:
			// beyond the integers a float64 represents exactly
			return intV(Pick(r, []int64{(1 << 53) + 1, 1700000000000000001, -(1 << 53) - 1, (1 << 62) + 1, 2147483648, -2147483649}))
		case c < 42:
			return IVal{Kind: "int64", I: int64(r.Intn(16) - 3)}
		case c < 45:
			return IVal{Kind: "int64", I: Pick(r, []int64{(1 << 53) + 1, 1700000000000000001, -(1 << 53) - 1, (1 << 62) + 1, 2147483648, -2147483649})}
		case c < 50:
			return IVal{Kind: "int32", I: int64(r.Intn(16) - 3)}
		case c < 65:
			return strV(Pick(r, []string{"5", "12", "-3", "+4", "007", "010", "-0012", "0b11", "3000000000", "9223372036854775808", "1.5", "abc", "1e3", " 5", "0x10", "1_000"}))
		case c < 80:
			return f64V(Pick(r, []float64{5, 6.5, -2.75, 3e9, 1e19, math.NaN(), math.Inf(1), -0.0, 9223372036854775807, -9223372036854775808, 2147483648}))
		case c < 85:
			return boolV(r.P(50))
		case c < 90:
			return IVal{Kind: "f32", F: 2.5}
		default:
			return g.wrong()
		}
	case KFloat64, KFloat32:
		c := r.Intn(100)
		switch {
		case c < g.P.PSpecialFloat:
			return f64V(Pick(r, []float64{math.NaN(), math.NaN(), math.Inf(1), math.Inf(-1)}))
		case c < 40:
			return f64V(Pick(r, []float64{0, 1, 2.5, 3.25, 10, -1, 0.1, 1e300, -1e300, 3.4028235e38, 3.5e38, math.NaN(), math.Inf(-1), 16777217}))
		case c < 55:
			return intV(Pick(r, []int64{0, 3, -2, 10, 1 << 53, (1 << 53) + 1, 16777217}))
		case c < 75:
			if n.Kind == KFloat32 && r.Fork(0xf32f).P(30) {
				// decimals next to a float32 rounding boundary (rounded once or twice they differ), next to its overflow threshold
				return strV(Pick(r.Fork(0xf330), []string{"1.00000017881393432617187499", "340282356779733661637539395458142568447", "1.00000005960464477539062501", "16777217.0000000000000000001", "0.100000001490116119384765625"}))
			}
			return strV(Pick(r, []string{"2.5", "1e3", "-0.5", "abc", "1e400", "NaN", "3.4028236e38", ".5", "1,5", "0x1p-2", "Inf"}))
		case c < 82:
			return IVal{Kind: "f32", F: f32(Pick(r, []float64{0.1, 2.5, 3.25}))}
		case c < 90:
			return IVal{Kind: "int64", I: 3}
		default:
			return g.wrong()
		}
	case KBool:
		c := r.Intn(100)
		switch {
		case c < 35:
			return boolV(r.P(50))
		case c < 70:
			return strV(Pick(r, []string{"true", "false", "on", "off", "1", "0", "t", "F", "TRUE", "True", "yes", "ON", "tRuE"}))
		case c < 85:
			return intV(int64(r.Intn(3)))
		case c < 92:
			return f64V(1)
		default:
			return g.wrong()
		}
	case KTime:
		if eq := timeEqTest(n); eq != nil && r.Fork(0x7e9).P(35) {
			// the instant an EQ test names, written in another zone: the same instant, so the test holds
			fr := r.Fork(0x7ea)
			tz := eq.T.In(time.FixedZone("", 3600*(fr.Intn(5)-2)+1800*fr.Intn(2)))
			if n.Layout != "" || n.Coercer != "" || fr.P(50) {
				return timeV(tz)
			}
			return strV(tz.Format(time.RFC3339))
		}
		c := r.Intn(100)
		t := baseTime.Add(time.Duration(r.Intn(400)-200) * time.Hour)
		switch {
		case c < 25:
			return timeV(t)
		case c < 30:
			return timeV(t.In(time.FixedZone("X", 3600*(r.Intn(5)-2))))
		case c < 55:
			return strV(t.Format(time.RFC3339))
		case c < 70:
			l := Pick(r, layouts)
			return strV(t.Format(l))
		case c < 80:
			return intV(t.Unix())
		case c < 85:
			return IVal{Kind: "int64", I: t.Unix()}
		case c < 93:
			return strV(Pick(r, []string{"yesterday", "2024-13-01", "12:00"}))
		default:
			return g.wrong()
		}
	case KCustom:
		if r.P(80) {
			return strV(Pick(r, sampleStrings))
		}
		return Pick(r, []IVal{intV(3), boolV(true), f64V(1)})
	case KPre:
		if r.P(85) {
			return strV(Pick(r, []string{"abc", " pad ", "Hello", "x", "a1"}))
		}
		return Pick(r, []IVal{intV(3), boolV(true)})
	case KPtr:
		if r.P(12) {
			return nilV()
		}
		return g.Input(n.Elem)
	case KSlice:
		c := r.Intn(100)
		switch {
		case c < 75:
			k := r.Intn(g.P.MaxElems + 1)
			if IsPrim(n.Elem.Kind) && r.P(4) {
				// long inputs: lengths around the powers of two where index tables and buffers end
				k = Pick(r, []int{31, 32, 33, 63, 64, 65, 66, 100, 129, 257})
			}
			v := IVal{Kind: "list", L: []IVal{}}
			for i := 0; i < k; i++ {
				v.L = append(v.L, g.Input(n.Elem))
			}
			return v
		case c < 90:
			// a scalar gets boxed; 0, false and blank-looking values are interesting here
			if r.P(40) {
				return Pick(r, []IVal{intV(0), boolV(false), strV("x"), f64V(0)})
			}
			return g.Input(n.Elem)
		default:
			return g.absent()
		}
	case KStruct:
		c := r.Intn(100)
		if c < 5 {
			return Pick(r, []IVal{strV("notamap"), intV(5), {Kind: "list", L: []IVal{}}})
		}
		v := IVal{Kind: "map", node: n}
		for _, f := range n.Fields {
			key := f.Key
			if t, ok := f.Tags["zog"]; ok {
				key = t
				if t != f.Key && r.Fork(0x5c6e).P(12) {
					key = f.Key // the schema key where the tag names the field: absent (and the caller's map stays as it is)
				}
			}
			c := r.Intn(100)
			switch {
			case c < 8:
				continue // missing key
			case c < 12:
				if t, ok := f.Tags["json"]; ok {
					key = t // a plain map knows nothing about json tags: absent
				}
			case c < 14:
				key = caseVariant(key, c) // keys are matched exactly: a key that differs in case is another key
			case c < 17:
				// two look-alikes with their own values and no exact key: absent, whatever the map's order
				if a, b := caseVariant(key, 0), caseVariant(key, 1); a != b && a != key && b != key {
					v.M = append(v.M, IKV{K: a, V: g.Input(f.Node)})
					key = b
				}
			}
			v.M = append(v.M, IKV{K: key, V: g.Input(f.Node)})
			if c >= 17 && c < 22 && caseVariant(key, c) != key {
				// the exact key and look-alikes of it side by side
				v.M = append(v.M, IKV{K: caseVariant(key, c), V: g.Input(f.Node)})
				if c < 19 {
					v.M = append(v.M, IKV{K: caseVariant(key, c+1), V: g.Input(f.Node)})
				}
			}
		}
		if r.P(10) {
			v.M = append(v.M, IKV{K: "unknown_key", V: strV("ignored")})
		}
		return v
	}
	panic("Input " + n.Kind)
}

// caseVariant: the key with the case of its first letter flipped, or entirely in upper case.
func caseVariant(k string, how int) string {
	if k == "" {
		return k
	}
	if how%2 == 0 {
		return asciiUpper(k)
	}
	b := []byte(k)
	switch {
	case b[0] >= 'a' && b[0] <= 'z':
		b[0] -= 32
	case b[0] >= 'A' && b[0] <= 'Z':
		b[0] += 32
	}
	return string(b)
}

func (g *Gen) wrong() IVal {
	return Pick(g.R, []IVal{
		{Kind: "map", M: []IKV{{K: "k", V: intV(1)}}},
		{Kind: "list", L: []IVal{intV(1)}},
		{Kind: "other", I: int64(g.R.Intn(7))},
	})
}

// DestValue generates a value of the destination type (Validate subjects, prefilled Parse destinations).
func (g *Gen) DestValue(n *Node, t reflect.Type, populated bool) reflect.Value {
	if IsPrim(n.Kind) && g.P.PValid > 0 && g.R.P(g.P.PValid) {
		probe := Build(&Recorder{}, n, true)
		for try := 0; try < 12; try++ {
			v := g.destRaw(n, t, populated)
			dest := reflect.New(t)
			dest.Elem().Set(v)
			if o := Exec(probe, true, nil, dest, &Recorder{}); o.Panic == "" && o.Nil {
				return v
			}
		}
	}
	return g.destRaw(n, t, populated)
}

func (g *Gen) destRaw(n *Node, t reflect.Type, populated bool) reflect.Value {
	r := g.R
	v := reflect.New(t).Elem()
	zero := !populated && r.P(g.P.PAbsent)
	switch n.Kind {
	case KString, KCustom, KPre:
		if !zero {
			s := Pick(r, sampleStrings)
			if r.P(8) {
				s = Pick(r, nearAbsentStrings) // not blank: control characters, zero-width characters, truncated sequences
			}
			if populated && (s == "" || isBlank(s)) {
				s = "abc"
			}
			v.SetString(s)
		}
	case KInt, KInt32, KInt64:
		if !zero {
			x := int64(r.Intn(16) - 3)
			if populated && x == 0 {
				x = 4
			}
			if n.Kind != KInt32 && r.P(8) {
				x = Pick(r, []int64{(1 << 53) + 1, 1700000000000000001, -(1 << 53) - 1, (1 << 62) + 1})
			}
			v.SetInt(x)
		}
	case KFloat32, KFloat64:
		if !zero {
			x := Pick(r, []float64{1, 2.5, 3.25, 10, -1, 0.5})
			if r.P(g.P.PSpecialFloat + 4) {
				x = Pick(r, []float64{math.NaN(), math.NaN(), math.Inf(1), math.Inf(-1), 1e300, -1e300, 5e-324})
			}
			v.SetFloat(x)
			if populated && v.Float() == 0 { // (5e-324 rounds to zero in a float32)
				v.SetFloat(1)
			}
		}
	case KBool:
		if !zero {
			v.SetBool(populated || r.P(60))
		}
	case KTime:
		if !zero {
			tv := baseTime.Add(time.Duration(r.Intn(400)-200) * time.Hour)
			if r.P(6) {
				// instants outside the range int64 nanoseconds since 1970 can express
				tv = time.Date(Pick(r, []int{2, 1600, 1677, 2262, 2300, 9999}), 6, 1, 12, 0, 0, 0, time.UTC)
			}
			if f := r.Fork(0x7a0e); f.P(8) {
				// the zero instant in another zone: not the zero value of time.Time, a value like any other
				tv = time.Time{}.In(time.FixedZone("X", 3600*(1+f.Intn(3))))
			}
			if eq := timeEqTest(n); eq != nil && r.Fork(0x7eb).P(35) {
				// the instant an EQ test names, in another zone
				tv = eq.T.In(time.FixedZone("", 3600*(r.Fork(0x7ec).Intn(5)-2)+1800))
			}
			v.Set(reflect.ValueOf(tv))
		}
	case KPtr:
		if g.underLong > 0 && !populated && r.P(95) {
			break // (nil)
		}
		if !zero && (populated || !r.P(15)) {
			p := reflect.New(t.Elem())
			p.Elem().Set(g.DestValue(n.Elem, t.Elem(), populated))
			v.Set(p)
		}
	case KSlice:
		if !zero {
			k := r.Intn(g.P.MaxElems + 1)
			if populated && k == 0 {
				k = 1
			}
			if IsPrim(n.Elem.Kind) && r.P(4) {
				k = Pick(r, []int{31, 32, 33, 63, 64, 65, 66, 100, 129, 257})
			}
			if g.longNil && !IsPrim(n.Elem.Kind) {
				k = Pick(r, []int{63, 64, 65, 66, 80, 130})
				g.underLong++
				defer func() { g.underLong-- }()
			}
			s := reflect.MakeSlice(t, k, k)
			for i := 0; i < k; i++ {
				s.Index(i).Set(g.DestValue(n.Elem, t.Elem(), populated))
			}
			v.Set(s)
		}
	case KStruct:
		for _, f := range n.Fields {
			fv := v.FieldByName(GoName(f.Key))
			fv.Set(g.DestValue(f.Node, fv.Type(), populated))
		}
		// two pointer fields of one type may hold the same address (shared pointees are ordinary Go data): each node
		// still judges the value it finds.  (Only below nodes that write nothing: a write through one would show in the other.)
		if fk := r.Fork(0xa11a); g.aliasPtrs && fk.P(60) { // (only in values that are validated in place: Parse writes through a prefilled pointer)
			for i, f1 := range n.Fields {
				for _, f2 := range n.Fields[i+1:] {
					a, b := v.FieldByName(GoName(f1.Key)), v.FieldByName(GoName(f2.Key))
					if f1.Node.Kind == KPtr && f2.Node.Kind == KPtr && a.Type() == b.Type() && !a.IsNil() && !hasWriters(f1.Node) && !hasWriters(f2.Node) {
						b.Set(a)
					}
				}
			}
		}
		for i, x := range n.Extra {
			v.FieldByName(x).SetInt(int64(900 + i))
		}
	}
	return v
}

func isBlank(s string) bool {
	for _, c := range s {
		switch c {
		case '\t', '\n', '\v', '\f', '\r', ' ', 0x85, 0xA0, 0x1680, 0x2028, 0x2029, 0x202f, 0x205f, 0x3000:
			continue
		}
		if c >= 0x2000 && c <= 0x200a {
			continue
		}
		return false
	}
	return true
}

// StructInput presents a record as a Go struct value instead of a map: a field is visible under its
// key only when the key is an exported Go identifier, so the model sees exactly those entries (vis).
// Fields have the dynamic values' own Go types (int, float64, bool, time.Time, string ...; nested
// values stay maps / slices), plus one unexported field.
// Audit and Extra are embedded into generated input records: fields promoted from them follow Go's selector
// rules (a field of the record itself hides a promoted one of the same name; a field promoted from a nil
// embedded pointer is not there).
type Audit struct{ Count, Ratio, Active, At, Zip, Label, Total any }
type Extra struct{ Count, Ratio, Active, At, Zip, Label, Total any }

var promotable = map[string]bool{"Count": true, "Ratio": true, "Active": true, "At": true, "Zip": true, "Label": true, "Total": true}

// StructInput turns a record into a Go struct value.  variant 0: flat.  1: the record embeds Audit first,
// whose same-named fields hold decoys (hidden by the record's own fields).  2 / 3: one field lives in an
// embedded *Extra instead, which is nil (the field is absent) / not nil; the record is handed over by pointer.
func StructInput(in IVal, variant int) (vis IVal, mk func() any, ok bool) {
	vis = IVal{Kind: "map", node: in.node}
	var fs []reflect.StructField
	seen := map[string]bool{}
	moved := "" // the key that lives in the embedded *Extra (variants 2, 3)
	var movedVal IVal
	for _, kv := range in.M {
		k := kv.K
		if k == "" || k[0] < 'A' || k[0] > 'Z' || seen[k] {
			continue
		}
		ident := true
		for _, c := range k {
			if !(c == '_' || (c >= '0' && c <= '9') || (c >= 'a' && c <= 'z') || (c >= 'A' && c <= 'Z')) {
				ident = false
			}
		}
		if !ident {
			continue
		}
		seen[k] = true
		if (variant == 2 || variant == 3) && moved == "" && promotable[k] {
			moved, movedVal = k, kv.V
			if variant == 3 {
				vis.M = append(vis.M, kv) // reachable through the pointer
			}
			continue
		}
		ft := reflect.TypeOf((*any)(nil)).Elem()
		if x := kv.V.Go(nil); x != nil && len(fs)%2 == 0 {
			ft = reflect.TypeOf(x) // a concretely typed field: 0, false and the zero time are still values
		}
		vis.M = append(vis.M, kv)
		fs = append(fs, reflect.StructField{Name: k, Type: ft})
	}
	if len(fs) == 0 {
		return vis, nil, false
	}
	direct := len(fs)
	var directKVs []IKV
	for _, kv := range vis.M {
		if kv.K != moved {
			directKVs = append(directKVs, kv)
		}
	}
	fs = append(fs, reflect.StructField{Name: "hidden", PkgPath: "zogverif/eng", Type: reflect.TypeOf("")})
	switch {
	case variant == 1:
		fs = append([]reflect.StructField{{Name: "Audit", Type: reflect.TypeOf(Audit{}), Anonymous: true}}, fs...)
	case moved != "":
		fs = append([]reflect.StructField{{Name: "Extra", Type: reflect.TypeOf(&Extra{}), Anonymous: true}}, fs...)
	}
	st := reflect.StructOf(fs)
	off := 0
	if variant == 1 || moved != "" {
		off = 1
	}
	mk = func() any {
		v := reflect.New(st).Elem()
		for i, kv := range directKVs {
			if i >= direct {
				break
			}
			if x := kv.V.Go(nil); x != nil {
				v.Field(off + i).Set(reflect.ValueOf(x))
			}
		}
		switch {
		case variant == 1:
			// decoys under the names the record itself has (and only those: the others stay absent)
			a := reflect.ValueOf(&Audit{}).Elem()
			for _, kv := range directKVs {
				if promotable[kv.K] {
					a.FieldByName(kv.K).Set(reflect.ValueOf("decoy-" + kv.K))
				}
			}
			v.Field(0).Set(a)
			return v.Interface()
		case moved != "":
			if variant == 3 {
				e := &Extra{}
				if x := movedVal.Go(nil); x != nil {
					reflect.ValueOf(e).Elem().FieldByName(moved).Set(reflect.ValueOf(x))
				}
				v.Field(0).Set(reflect.ValueOf(e))
			}
			return v.Addr().Interface() // by pointer: the record could be written to
		}
		return v.Interface()
	}
	return vis, mk, true
}

// timeEqTest returns the first built-in EQ test of a time node (nil if none).
func timeEqTest(n *Node) *TestSpec {
	if n.Kind != KTime {
		return nil
	}
	for i := range n.Tests {
		if n.Tests[i].Builtin == "eq" && n.Tests[i].User == nil {
			return &n.Tests[i]
		}
	}
	return nil
}
