package eng

import (
	"fmt"
	"time"
)

// Profile biases the generator towards what one property is about.
type Profile struct {
	Name          string
	MaxDepth      int
	MaxFields     int
	MaxElems      int
	PCatch        int // % of primitives with Catch
	PDefault      int
	PRequired     int
	PTests        int // % chance of each additional test (up to 3)
	PUserTest     int // % of tests that are user TestFuncs
	PPT           int // % of nodes with PostTransforms
	PPTErr        int // % of PostTransforms that return an error
	POpts         int // % of tests with Message/IssueCode options
	PIssuePath    int
	PTags         int // % of struct fields with tags
	PCustom       int // % of leaf positions that are custom schemas
	PPre          int
	PPtr          int
	PSlice        int
	PStruct       int
	PWrongType    int // % of leaves given a wrongly typed input
	PAbsent       int // % of leaves given an absent-looking input
	PInvalid      int // % of leaves given an input that fails a test
	PCoercer      int // % of primitives with WithCoercer
	PLayout       int // % of time nodes with Time.Format
	PPrefill      int // % of Parse cases whose destination is prefilled
	PExtra        int // % of structs with unnamed destination fields
	Kinds         []string
	NoNot         bool
	FETags        bool // struct fields also carry form/query/env tags
	PTopSlice     int  // % of top-level schemas that are slices
	PTopPT        int  // % of top-level structs with PostTransforms even when PPT is 0 (their gate is deterministic)
	PValid        int  // % of primitive leaves given a value their own schema accepts
	PSpecialFloat int  // % of float inputs / validated float values that are NaN or +-Inf
	PGlobal       int  // % of cases run with a global conf.Coercers override (String, Bool or Time) installed
	PStructIn     int  // % of top-level struct records handed over as a Go struct value instead of a map
	PTopPtrRecord int  // % of top-level schemas that are Ptr(Struct) over a flat record with exported keys
	PManyNil      int  // % of cases that validate a record holding a long list (64 and more) of items whose optional pointers are mostly nil, next to pointer fields of its own
	PTypedRoot    int  // % of CustomFunc / Preprocess nodes drawn for the root that stay the root (their typed Parse / Validate)
	PSiblings     int  // % of top-level structs given a catching string field whose test usually fails, next to a slice or struct field with at least two tests
	PRewrite      int  // % of slices of strings whose item schema rewrites items in place (Catch over a failing test, Default over a zero item) under a slice test about the contents
	PFalsy        int  // % of non-string primitive leaves given a falsy but present input (0, 0.0, false, the zero time)
	PBlankCo      int  // % of constant string coercers that return a blank (absent-looking) string
	PCustomTpl    int  // % of cases run under a user-edited language map whose templates name several parameters (tests carry them through Params)
	PSameKind     int  // % of string nodes with two or more tests whose tests are all of the kind of the first (Contains twice, Min twice, ...)
	PBareIssue    int  // % of failing PostTransforms that return a hand-built issue without path and type
	PLongOneOf    int  // % of built-in tests on strings and numbers that are a OneOf over a long list with no custom message
	NilBias       bool // whole inputs are re-drawn (up to 10 times) until the implementation reports no issues
	Repeats       int  // how many times a case is re-run (with reshuffled schema insertion orders and varying pool states)
}

func DefaultProfile() Profile {
	return Profile{
		Name: "default", MaxDepth: 3, MaxFields: 3, MaxElems: 3,
		PCatch: 20, PDefault: 20, PRequired: 45, PTests: 60, PUserTest: 25, PPT: 15, PPTErr: 25, POpts: 20,
		PIssuePath: 0, PTags: 30, PCustom: 5, PPre: 5, PPtr: 15, PSlice: 20, PStruct: 25,
		PWrongType: 12, PAbsent: 18, PInvalid: 30, PCoercer: 4, PLayout: 30, PPrefill: 30, PExtra: 30, PGlobal: 3, PSpecialFloat: 6, PStructIn: 10, PTypedRoot: 4,
		Kinds: []string{KString, KString, KInt, KInt, KInt32, KInt64, KFloat64, KFloat32, KBool, KTime},
	}
}

// Gen carries the generator state of one case.
type Gen struct {
	R      *Rng
	P      Profile
	nextID int
	keyN   int

	forceExported bool
	preRoot       *Node // the schema just drawn is a Preprocess at the root (its typed Parse takes a string)
	manyNil       bool // the schema just drawn is the long-list-of-nil-pointers record (NewCase validates it)
	longNil       bool // DestValue: lists of composite items are long, pointers below them mostly nil
	underLong     int
	aliasPtrs     bool // DestValue may let pointer fields of one type share their pointee (values validated in place only)
}

func (g *Gen) id() int { g.nextID++; return g.nextID }

var sampleStrings = []string{"", "a", "ab", "abc", "abcd", "hello", "Hello1!", "x y", " pad ", "ABC", "a1", "user@example.com",
	"550e8400-e29b-41d4-a716-446655440000", "http://example.com/x", "héllo", "\xff\xfe", "日本", "abc1", "12", "-7", "3.5", "true", "on", "0"}

var layouts = []string{"2006-01-02", "02/01/2006 15:04", time.RFC1123, time.RFC3339, time.RFC3339, time.RFC3339Nano}

var baseTime = time.Date(2024, 3, 10, 12, 0, 0, 0, time.UTC)

func (g *Gen) leaf(kind string) Leaf {
	r := g.R
	switch kind {
	case KString, KCustom, KPre:
		return Leaf{Kind: KString, S: Pick(r, sampleStrings)}
	case KInt, KInt64:
		return Leaf{Kind: kind, I: Pick(r, []int64{0, 1, -1, 5, 7, 10, 42, 100, -50, 1 << 40})}
	case KInt32:
		return Leaf{Kind: kind, I: Pick(r, []int64{0, 1, -1, 5, 7, 10, 42, 100, -50, 1 << 20})} // (not MaxInt32: the DSL's `add` PostTransform must not overflow)
	case KFloat64:
		return Leaf{Kind: kind, F: Pick(r, []float64{0, 1, -1, 2.5, 3.25, 10, 1e10, -0.5, 100})}
	case KFloat32:
		return Leaf{Kind: kind, F: f32(Pick(r, []float64{0, 1, -1, 2.5, 3.25, 10, 0.1, -0.5, 100}))}
	case KBool:
		return Leaf{Kind: kind, B: r.P(50)}
	case KTime:
		return Leaf{Kind: kind, T: baseTime.Add(time.Duration(r.Intn(2000)-1000) * time.Hour)}
	}
	panic("leaf " + kind)
}

func (g *Gen) opts(t *TestSpec) {
	if g.R.P(g.P.POpts) {
		t.OptMsg = strp(fmt.Sprintf("msg%d", g.R.Intn(1000)))
	}
	if g.R.P(g.P.POpts / 2) {
		t.OptCode = strp(fmt.Sprintf("code%d", g.R.Intn(1000)))
	}
	if g.R.P(g.P.PIssuePath) {
		t.OptPath = strp(Pick(g.R, []string{"other", "x.y", "items[0]"}))
	}
	if t.OptMsg != nil && g.R.P(30) {
		t.OptMsgFunc = true
	}
	if g.R.P(g.P.POpts / 3) {
		t.OptParams = [][2]string{{"hint", fmt.Sprintf("h%d", g.R.Intn(100))}}
		if g.R.P(40) {
			t.OptParams = append(t.OptParams, [2]string{"limit", fmt.Sprint(g.R.Intn(50))})
		}
	}
}

func (g *Gen) userPred(kind string) *Pred {
	r := g.R
	switch kind {
	case KString, KCustom, KPre:
		return Pick(r, []*Pred{{Op: "const", B: true}, {Op: "const", B: false}, {Op: "strlen_ge", N: int64(r.Intn(5))}, {Op: "str_eq", S: Pick(r, sampleStrings)}})
	case KInt, KInt32, KInt64:
		return Pick(r, []*Pred{{Op: "const", B: true}, {Op: "const", B: false}, {Op: "int_ge", N: int64(r.Intn(12))}})
	case KFloat32, KFloat64:
		return Pick(r, []*Pred{{Op: "const", B: true}, {Op: "const", B: false}, {Op: "float_ge", N: int64(r.Intn(5))}})
	case KSlice:
		return Pick(r, []*Pred{{Op: "const", B: true}, {Op: "const", B: false}, {Op: "slicelen_ge", N: int64(r.Intn(4))}})
	}
	return Pick(r, []*Pred{{Op: "const", B: true}, {Op: "const", B: false}})
}

func (g *Gen) test(n *Node) TestSpec {
	r := g.R
	t := TestSpec{}
	if r.P(g.P.PUserTest) {
		t.ID = g.id()
		t.User = g.userPred(n.Kind)
		if n.Kind == KStruct && len(n.Fields) > 0 && r.P(50) {
			// a predicate over a string field, if there is one
			for _, f := range n.Fields {
				if f.Node.Kind == KString {
					t.User = &Pred{Op: "field_str_eq", Key: f.Key, S: Pick(r, sampleStrings)}
				}
			}
		}
		g.opts(&t)
		return t
	}
	switch n.Kind {
	case KString:
		t.Builtin = Pick(r, []string{"min", "max", "len", "oneof", "prefix", "suffix", "contains", "upper", "digit", "special", "email", "uuid", "url", "match", "min", "max"})
		t.N = int64(r.Intn(7))
		t.S = Pick(r, []string{"a", "ab", "he", "lo", "1", "!", "", "é"})
		t.Strs = []string{Pick(r, sampleStrings), Pick(r, sampleStrings)}
		if t.Builtin == "oneof" && r.P(35) { // a long list (implementations may treat long lists differently)
			t.Strs = append([]string{}, sampleStrings[1:12]...)
		}
		if !g.P.NoNot && r.P(20) {
			t.Not = true
		}
	case KInt, KInt32, KInt64:
		t.Builtin = Pick(r, []string{"gt", "gte", "lt", "lte", "eq", "oneof"})
		t.N = int64(r.Intn(14) - 2)
		t.Ints = []int64{int64(r.Intn(12)), int64(r.Intn(12)), 42}
		if t.Builtin == "oneof" && r.P(35) {
			t.Ints = []int64{11, 0, 1, 2, 3, 4, 5, 6, 7, 8, 9, 10}
		}
	case KFloat32, KFloat64:
		t.Builtin = Pick(r, []string{"gt", "gte", "lt", "lte", "eq", "oneof"})
		t.F = Pick(r, []float64{0, 1, 2.5, 3.25, 10, -1})
		t.Fs = []float64{Pick(r, []float64{0, 1, 2.5}), 3.25}
	case KBool:
		t.Builtin = Pick(r, []string{"true", "false", "eq"})
		t.B = r.P(50)
	case KTime:
		t.Builtin = Pick(r, []string{"after", "before", "eq"})
		t.T = baseTime.Add(time.Duration(r.Intn(200)-100) * time.Hour)
	case KSlice:
		t.Builtin = Pick(r, []string{"min", "max", "len", "contains"})
		t.N = int64(r.Intn(4))
		if t.Builtin == "contains" {
			switch n.Elem.Kind {
			case KString, KInt, KBool, KInt64, KInt32:
				l := g.leaf(n.Elem.Kind)
				t.Elem = &l
			default:
				t.Builtin = "min"
			}
		}
	default:
		t.ID = g.id()
		t.User = g.userPred(n.Kind)
	}
	if g.P.PLongOneOf > 0 && r.P(g.P.PLongOneOf) {
		// values a test captured: a long list, reported with the default message (the list is a parameter of the message)
		switch n.Kind {
		case KString:
			t.Builtin, t.Not = "oneof", false
			t.Strs = append([]string{}, sampleStrings[1:12]...)
			return t
		case KInt, KInt32, KInt64:
			t.Builtin = "oneof"
			t.Ints = []int64{11, 0, 1, 2, 3, 4, 5, 6, 7, 8, 9, 10}
			return t
		}
	}
	// True()/False()/EQ() on bool take no options
	if n.Kind != KBool {
		g.opts(&t)
	}
	return t
}

func (g *Gen) pt(n *Node) PTSpec {
	r := g.R
	p := PTSpec{ID: g.id()}
	if r.P(g.P.PPTErr) {
		p.Op = Pick(r, []string{"err", "mut_err", "issue", "wrap_issue"})
		if p.Op == "issue" && r.Fork(0xba5e).P(40) {
			p.Op = "bare_issue"
		}
		if g.P.PBareIssue > 0 && r.Fork(0xba5f).P(g.P.PBareIssue) {
			p.Op = "bare_issue"
		}
		p.S = Pick(r, []string{"boom", "bad"})
		p.N = 1
	} else {
		switch n.Kind {
		case KString:
			p.Op = Pick(r, []string{"upper", "append", "noop"})
			p.S = Pick(r, []string{"!", "_x"})
		case KInt, KInt32, KInt64:
			p.Op = Pick(r, []string{"add", "noop"})
			p.N = int64(r.Intn(5) + 1)
		case KStruct:
			p.Op = "noop"
			for _, f := range n.Fields {
				if f.Node.Kind == KString {
					p.Op = "setfield"
					p.Key = f.Key
					p.S = Pick(r, []string{"SET", "X"})
				}
			}
		case KSlice:
			p.Op = "noop"
			if n.Elem.Kind == KString {
				p.Op = "setfirst"
				p.S = "FIRST"
			}
		default:
			p.Op = "noop"
		}
	}
	if p.Op == "mut_err" && n.Kind == KStruct {
		for _, f := range n.Fields {
			if f.Node.Kind == KString {
				p.Key = f.Key
			}
		}
	}
	return p
}

func (g *Gen) tests(n *Node) {
	for i := 0; i < 3 && g.R.P(g.P.PTests); i++ {
		n.Tests = append(n.Tests, g.test(n))
	}
	if g.P.PSameKind > 0 && n.Kind == KString && len(n.Tests) >= 2 && n.Tests[0].Builtin != "" && g.R.Fork(0x5a3e).P(g.P.PSameKind) {
		// the same kind of test declared several times (each with its own argument): every declaration counts
		for i := 1; i < len(n.Tests); i++ {
			if n.Tests[i].Builtin != "" {
				n.Tests[i].Builtin = n.Tests[0].Builtin
			}
		}
		// ... the first declaration the strictest, the last the most permissive
		first, last := &n.Tests[0], &n.Tests[len(n.Tests)-1]
		if last.Builtin == first.Builtin && !first.Not && !last.Not {
			switch first.Builtin {
			case "min":
				first.N, last.N = 6, 0
			case "max":
				first.N, last.N = 1, 6
			case "contains", "prefix", "suffix":
				first.S, last.S = Pick(g.R.Fork(0x5a3f), []string{"zq", "Hello", "@"}), ""
			}
		}
	}
}

func (g *Gen) pts(n *Node) {
	if g.R.P(g.P.PPT) {
		n.PTs = append(n.PTs, g.pt(n))
		if g.R.P(40) {
			n.PTs = append(n.PTs, g.pt(n))
		}
	}
}

func (g *Gen) req(n *Node) {
	if g.R.P(g.P.PRequired) {
		t := TestSpec{}
		g.opts(&t)
		n.Req = &t
	}
}

func (g *Gen) prim(kind string) *Node {
	n := &Node{Kind: kind}
	g.req(n)
	if g.R.P(g.P.PDefault) {
		l := g.leaf(kind)
		n.Def = &l
	}
	if g.R.P(g.P.PCatch) {
		l := g.leaf(kind)
		n.Catch = &l
	}
	g.tests(n)
	g.pts(n)
	if kind == KTime && g.R.P(g.P.PLayout) {
		n.Layout = Pick(g.R, layouts)
	}
	if g.R.P(g.P.PCoercer) {
		if g.R.P(70) {
			n.Coercer = "const"
			l := g.leaf(kind)
			if kind == KString && g.P.PBlankCo > 0 && g.R.P(g.P.PBlankCo) {
				l.S = Pick(g.R, []string{"", " ", "\t"})
			}
			n.CoerceTo = &l
		} else {
			n.Coercer = "err"
		}
	}
	return n
}

var keyPool = []string{"name", "age", "email", "tags", "addr", "flag", "when", "score", "items", "nick", "Zip", "aVeryLongFieldNameThatIsLongerThanThirtyTwoBytes", "x", "id", "Count", "Ratio", "Active", "At"}

func (g *Gen) node(depth int) *Node {
	r := g.R
	if depth < g.P.MaxDepth {
		c := r.Intn(100)
		switch {
		case c < g.P.PStruct:
			return g.strct(depth)
		case c < g.P.PStruct+g.P.PSlice:
			n := &Node{Kind: KSlice, Elem: g.node(depth + 1)}
			if r.P(g.P.PCoercer) { // a custom coercer on the slice itself (not on its elements)
				n.Coercer = "err"
				if k := n.Elem.Kind; (k == KString || k == KInt || k == KBool) && r.P(70) {
					n.Coercer = "const"
					n.CoList = []Leaf{}
					for i := r.Intn(3); i > 0; i-- {
						n.CoList = append(n.CoList, g.leaf(k))
					}
				}
			}
			g.req(n)
			if r.P(g.P.PDefault) && n.Elem.Kind == KSlice && IsPrim(n.Elem.Elem.Kind) && !n.Elem.Elem.Named {
				// a default for a slice of slices
				n.HasDef = true
				n.DefSlice = []Leaf{}
				for i := r.Intn(3); i > 0; i-- {
					inner := Leaf{Kind: KSlice, L: []Leaf{}}
					for j := r.Intn(3); j > 0; j-- {
						inner.L = append(inner.L, g.leaf(n.Elem.Elem.Kind))
					}
					n.DefSlice = append(n.DefSlice, inner)
				}
			}
			if r.P(g.P.PDefault) && IsPrim(n.Elem.Kind) {
				n.HasDef = true
				k := r.Intn(3)
				for i := 0; i < k; i++ {
					n.DefSlice = append(n.DefSlice, g.leaf(n.Elem.Kind))
				}
				if n.DefSlice == nil {
					n.DefSlice = []Leaf{}
				}
			}
			g.tests(n)
			g.rewriteScenario(n)
			g.pts(n)
			n.DefOver = r.Fork(0xdef0).P(12)
			n.ReqOver = r.Fork(0x0b71).P(25)
			return n
		case c < g.P.PStruct+g.P.PSlice+g.P.PPtr:
			n := &Node{Kind: KPtr, Elem: g.node(depth + 1)}
			if n.Elem.Kind == KPtr && (n.Elem.Elem.Kind == KPtr || n.Elem.Elem.Kind == KPre || !r.P(60)) {
				// pointer chains up to depth 2 (a pointer to a pointer)
				n.Elem = g.prim(Pick(r, g.P.Kinds))
			}
			if n.Elem.Kind == KPre && r.Fork(0xb1a).P(50) {
				// a Preprocess behind a pointer whose output is blank although the pointer's input is there:
				// absence is decided again, on the output, by the wrapped schema's own modifiers
				n.Elem.PreOp = "blank"
			}
			if IsPrim(n.Elem.Kind) && n.Elem.Coercer != "" && !n.Elem.Named && r.P(50) {
				n.PtrCo = true
			}
			if r.P(g.P.PRequired) {
				t := TestSpec{}
				g.opts(&t)
				n.Req = &t
			}
			return n
		}
	}
	c := r.Intn(100)
	if c < g.P.PCustom {
		t := TestSpec{ID: g.id(), User: g.userPred(KCustom)}
		g.opts(&t)
		return &Node{Kind: KCustom, Tests: []TestSpec{t}}
	}
	if c < g.P.PCustom+g.P.PPre {
		inner := g.prim(KString)
		inner.Coercer = ""
		return &Node{Kind: KPre, Elem: inner, PreOp: Pick(r, []string{"upper", "upper", "trim", "err", "issue", "wrap", "blank"}), PreID: g.id()}
	}
	return g.prim(Pick(r, g.P.Kinds))
}

func (g *Gen) strct(depth int) *Node {
	r := g.R
	n := &Node{Kind: KStruct}
	nf := 1 + r.Intn(g.P.MaxFields)
	used := map[string]bool{}
	usedEmpty := false
	// records meant to be handed over as Go struct values: every key an exported identifier
	exported := g.forceExported || (depth <= 1 && r.P(g.P.PStructIn))
	n.Exported = exported
	for len(n.Fields) < nf {
		k := Pick(r, keyPool)
		if exported {
			k = Pick(r, []string{"Count", "Ratio", "Active", "At", "Zip", "Label", "Total"})
		}
		if used[GoName(k)] {
			continue
		}
		used[GoName(k)] = true
		f := Field{Key: k, Node: g.node(depth + 1)}
		if f.Node.Kind == KString && f.Node.Coercer == "" && r.P(25) {
			f.Node.Named = true // StringSchema[NamedStr] over a `type NamedStr string` field
		}
		if r.P(g.P.PTags) {
			f.Tags = map[string]string{}
			if r.P(60) {
				f.Tags["zog"] = "z_" + k
				if exported {
					f.Tags["zog"] = "Z_" + k
				} else if r.P(12) {
					f.Tags["zog"] = "z_" + k + Pick(r, []string{",x", ",omitempty", " y", "-", ";"}) // a tag is a key as it stands
				} else if depth > 0 && !usedEmpty && r.Fork(0xe0e0).P(2) {
					f.Tags["zog"] = "" // ... also the empty one (its path segment is empty)
					usedEmpty = true
				}
			}
			if r.P(40) {
				f.Tags["json"] = "j_" + k
				if r.P(12) {
					f.Tags["json"] = "j_" + k + ",omitempty"
				}
			}
			if g.P.FETags {
				if r.P(35) {
					f.Tags["form"] = "f_" + k
				}
				if r.P(35) {
					f.Tags["query"] = "q_" + k
				}
				if f.Node.Kind == KSlice && r.P(60) {
					// the []-suffixed parameter names of HTML forms: always presented as a list
					if _, ok := f.Tags["form"]; ok || r.P(50) {
						f.Tags["form"] = "f_" + k + "[]"
					}
					if _, ok := f.Tags["query"]; ok || r.P(50) {
						f.Tags["query"] = "q_" + k + "[]"
					}
				}
			}
		}
		n.Fields = append(n.Fields, f)
	}
	if r.P(g.P.PExtra) {
		n.Extra = []string{"Xa"}
		if r.P(40) {
			n.Extra = append(n.Extra, "Xb")
		}
		n.ExtraFirst = r.P(50)
	}
	if depth == 0 && g.P.PSiblings > 0 && r.P(g.P.PSiblings) {
		// "what happened at a sibling": a primitive whose Catch swallows a failing test, and a composite
		// field (visited before or after it, as the runtime pleases) with several tests of its own
		cf := &Node{Kind: KString, Tests: []TestSpec{{Builtin: "min", N: 9}}}
		l := g.leaf(KString)
		cf.Catch = &l
		n.Fields = append(n.Fields, Field{Key: "cf", Node: cf})
		var comp *Node
		for _, f := range n.Fields {
			if f.Node.Kind == KSlice || f.Node.Kind == KStruct {
				comp = f.Node
				break
			}
		}
		if comp == nil {
			comp = &Node{Kind: KSlice, Elem: g.prim(KString)}
			n.Fields = append(n.Fields, Field{Key: "cs", Node: comp})
		}
		for len(comp.Tests) < 2 {
			comp.Tests = append(comp.Tests, g.test(comp))
		}
		if r.Fork(0xa11b).P(75) {
			// two pointers of one type with different demands: in a validated value they may share their pointee
			n.Fields = append(n.Fields,
				Field{Key: "pa", Node: &Node{Kind: KPtr, Elem: &Node{Kind: KInt, Tests: []TestSpec{{Builtin: "gt", N: 0}}}}},
				Field{Key: "pb", Node: &Node{Kind: KPtr, Elem: &Node{Kind: KInt, Tests: []TestSpec{{Builtin: "gt", N: 100}}}}})
		}
	}
	g.tests(n)
	if depth == 0 {
		// a struct-level test reported under the key of one of the fields (the "passwords must match"
		// idiom): that key then collects issues from two nodes
		for i := range n.Tests {
			if n.Tests[i].OptPath != nil && len(n.Fields) > 0 && r.P(65) {
				f := n.Fields[r.Intn(len(n.Fields))]
				k := f.Key
				if t, ok := f.Tags["zog"]; ok {
					k = t
				}
				n.Tests[i].OptPath = &k
			}
		}
	}
	g.pts(n)
	if depth == 0 && len(n.PTs) == 0 && r.P(g.P.PTopPT) {
		n.PTs = append(n.PTs, g.pt(n))
		if r.P(40) {
			n.PTs = append(n.PTs, g.pt(n))
		}
	}
	return n
}

// Schema generates a top-level schema: mostly structs, sometimes slices / pointers / primitives.
// rewriteScenario turns a slice of primitives (under a profile with PRewrite) into a slice of strings whose
// item schema rewrites items in place, with a slice test about the contents.
func (g *Gen) rewriteScenario(n *Node) {
	r := g.R
	if g.P.PRewrite > 0 && IsPrim(n.Elem.Kind) && n.Coercer == "" && !n.HasDef && r.P(g.P.PRewrite) {
		n.Elem = &Node{Kind: KString}
		n.Tests = nil
		// the value a slice test must hold of is the slice as the execution leaves it: items rewritten by
		// their own schema (a Catch value over a failing test, a Default over a zero item) included
		e := n.Elem
		var el Leaf
		if r.P(50) {
			e.Tests = append([]TestSpec{{Builtin: "min", N: 3}}, e.Tests...)
			if e.Catch == nil {
				e.Catch = &Leaf{Kind: KString, S: "caught"}
			}
			// the slice must contain: the value the rewrite puts there / a value the rewrite removes
			el = Leaf{Kind: KString, S: Pick(r, []string{e.Catch.S, e.Catch.S, e.Catch.S, "a", "ab"})}
		} else {
			if e.Def == nil {
				e.Def = &Leaf{Kind: KString, S: "dflt"}
			}
			el = Leaf{Kind: KString, S: Pick(r, []string{e.Def.S, e.Def.S, e.Def.S, ""})}
		}
		n.Tests = append(n.Tests, TestSpec{Builtin: "contains", Elem: &el})
	}
}

func (g *Gen) Schema() *Node {
	n := g.schema0()
	g.preRoot = nil
	if n.Kind == KPre {
		g.preRoot = n
	}
	return n
}

func (g *Gen) schema0() *Node {
	g.manyNil = false
	if g.P.PManyNil > 0 && g.R.Fork(0x9a11).P(g.P.PManyNil) {
		// a record with a long list of items, each with an optional pointer that is mostly nil, and pointer fields of
		// its own: what is reported for one field does not depend on how many nodes were visited before it
		g.manyNil = true
		item := &Node{Kind: KStruct, Fields: []Field{
			{Key: "note", Node: &Node{Kind: KPtr, Elem: g.prim(KString)}},
			{Key: "qty", Node: g.prim(KInt)}}}
		root := &Node{Kind: KStruct, Fields: []Field{
			{Key: "items", Node: &Node{Kind: KSlice, Elem: item}},
			{Key: "owner", Node: &Node{Kind: KPtr, Elem: g.prim(KString)}},
			{Key: "alt", Node: &Node{Kind: KPtr, Elem: g.prim(Pick(g.R, []string{KInt, KString, KBool}))}}}}
		if g.R.P(50) {
			root.Fields[0], root.Fields[1] = root.Fields[1], root.Fields[0]
		}
		return root
	}
	if g.P.PTypedRoot > 0 && g.P.PCustom+g.P.PPre > 0 && g.R.Fork(0x7007).P(g.P.PTypedRoot) {
		// CustomFunc / Preprocess as the execution root: their own typed Parse / Validate entry points
		// (a profile that draws no Preprocess / no CustomFunc nodes gets none at the root either)
		if g.P.PCustom > 0 && (g.P.PPre == 0 || g.R.P(45)) {
			t := TestSpec{ID: g.id(), User: g.userPred(KCustom)}
			g.opts(&t)
			return &Node{Kind: KCustom, Tests: []TestSpec{t}}
		}
		if g.P.PPre > 0 {
			inner := g.prim(KString)
			inner.Coercer = ""
			return &Node{Kind: KPre, Elem: inner, PreOp: Pick(g.R, []string{"upper", "upper", "trim", "err", "issue", "wrap"}), PreID: g.id()}
		}
	}
	if g.P.PTopPtrRecord > 0 && g.R.P(g.P.PTopPtrRecord) {
		g.forceExported = true
		e := g.strct(g.P.MaxDepth - 1) // (its fields are primitives)
		g.forceExported = false
		return &Node{Kind: KPtr, Elem: e}
	}
	if g.R.P(g.P.PTopSlice) {
		n := &Node{Kind: KSlice, Elem: g.node(1)}
		if n.Elem.Kind == KPre || n.Elem.Kind == KCustom {
			n.Elem = g.prim(Pick(g.R, g.P.Kinds))
		}
		g.req(n)
		n.ReqOver = g.R.Fork(0x0b72).P(25)
		g.tests(n)
		g.rewriteScenario(n)
		return n
	}
	c := g.R.Intn(100)
	switch {
	case c < 70:
		return g.strct(0)
	case c < 82:
		n := g.node(0)
		if (n.Kind == KPre || n.Kind == KCustom) && g.P.PTypedRoot == 0 {
			return g.strct(0)
		}
		return n
	default:
		return g.prim(Pick(g.R, g.P.Kinds))
	}
}

// ProfileByName returns the generator profile a property's check uses.
func ProfileByName(name string) Profile {
	p := DefaultProfile()
	p.Name = name
	switch name {
	case "C01":
		// mostly valid inputs: a single swallowed issue then yields a nil result over a violated constraint
		p.PValid = 85
		p.PAbsent = 8
		p.PDefault = 30
		p.PSpecialFloat = 20
		p.PTests = 55
		p.PUserTest = 15
		p.PPtr = 25
		p.PPT = 5
		p.PCatch = 30
		p.PSameKind = 30
	case "C01s":
		// what happens at one field (a Catch that fires, a failing test, a panic-free error) next to composite siblings
		// that carry several tests of their own
		p.MaxFields = 5
		p.PValid = 85
		p.PAbsent = 8
		p.PCatch = 40
		p.PSlice = 35
		p.PStruct = 30
		p.PTests = 85
		p.PUserTest = 25
		p.PPT = 0
		p.PDefault = 15
		p.NilBias = true
		p.PSiblings = 60
		p.PSameKind = 40
	case "C01d":
		// values the schema itself places (Default, Catch) at every depth, everything else valid
		p.PValid = 90
		p.PAbsent = 30
		p.PDefault = 60
		p.PSlice = 35
		p.PTests = 80
		p.PUserTest = 15
		p.PPT = 0
		p.PCatch = 15
		p.MaxFields = 2
		p.NilBias = true
		p.PSameKind = 40
		p.PRewrite = 70
		p.PTopSlice = 15
		p.PSpecialFloat = 35
		p.Kinds = []string{KString, KInt, KFloat64, KFloat64, KFloat32, KInt64, KBool, KTime} // floats: NaN and the infinities are values too
	case "C06":
		// hostile values for every test: NaN and the infinities, wrong dynamic types, long lists
		p.PSpecialFloat = 25
		p.PWrongType = 25
		p.PTests = 85
		p.Kinds = []string{KString, KInt, KFloat64, KFloat64, KFloat32, KInt32, KInt64, KBool, KTime}
	case "C02":
		p.PInvalid = 45
		p.PTests = 75
	case "C05":
		p.PCatch = 55
		p.PTests = 80
		p.PSlice = 30
		p.PIssuePath = 12 // a caught test may file its issue elsewhere: it is still the catching node's failure
	case "C04":
		p.PAbsent = 45
		p.PDefault = 35
		p.PCatch = 10
		p.PStructIn = 40
		p.PFalsy = 20
		p.PPre = 14 // what is absent is decided on the Preprocess function's output, by the rule of the mode
	case "C09":
		p.MaxFields = 4
		p.PStruct = 40
		p.PCatch = 50
		p.PTests = 80
		p.PInvalid = 45
		p.Repeats = 7
		p.PIssuePath = 12 // issues filed under another node's key: the key's list is built from several visits
		p.PCustomTpl = 12
		p.PManyNil = 3
	case "C12":
		p.PUserTest = 60
		p.PPT = 50
		p.PPTErr = 30
		p.PCustom = 12
		p.PPre = 12
	case "C03":
		p.PAbsent = 12
		p.PWrongType = 5
		p.PTests = 40
		p.PCatch = 35
		p.PCoercer = 12
		p.PGlobal = 25
		p.PLayout = 50
		p.PPrefill = 50
		p.PExtra = 60
	case "C17c":
		// WithCoercer on every kind of schema object: on primitives, through pointers (the option given to the pointer),
		// next to a Catch, returning absent-looking values
		p.PAbsent = 12
		p.PWrongType = 5
		p.PTests = 40
		p.PCatch = 40
		p.PCoercer = 45
		p.PBlankCo = 25
		p.PPtr = 35
		p.PGlobal = 15
		p.PLayout = 50
		p.PPrefill = 50
	case "C08":
		p.PTopSlice = 25
		p.PPT = 10
		p.PDefault = 35
		p.PCatch = 30
		p.PSlice = 30
	case "C19":
		p.PTopPtrRecord = 8
		p.PLongOneOf = 20
		p.PStructIn = 35
		p.PDefault = 45
		p.PSlice = 35
		p.PPT = 30
		p.PCatch = 25
		p.PValid = 50
	case "C13":
		p.PExtra = 0
		p.PTopPT = 45
		p.PPre = 0
		p.PCustom = 12
		p.PPT = 20
		p.PPTErr = 45 // (errors and hand-built issues returned by PostTransforms: both modes report them alike)
		p.PBareIssue = 50
		p.PCoercer = 0
		p.PTests = 75
		p.PCatch = 25
		p.PTags = 50
	case "fe":
		p.FETags = true
		p.PTags = 65
		p.PStruct = 8
		p.PSlice = 25
		p.PCustom = 0
		p.PPre = 2
		p.PPT = 8
		p.PUserTest = 10
		p.MaxDepth = 2
	case "C10":
		p.PTags = 70
		p.PIssuePath = 15
		p.PStruct = 40
		p.PSlice = 35
		p.MaxDepth = 5 // deep paths: the path builder must grow beyond its initial capacity
		p.MaxFields = 2
		p.MaxElems = 2
		p.PInvalid = 45
		// issues that are not the issue of a test (failing transforms, Preprocess errors) next to tests that redirect theirs
		p.PIssuePath = 25
		p.PPT = 30
		p.PPTErr = 55
		p.PPre = 12
	}
	return p
}
