package eng

import (
	"errors"
	"fmt"
	"reflect"
	"regexp"
	"strings"
	"time"

	z "github.com/Oudwins/zog"
	"github.com/Oudwins/zog/conf"
)

// NamedStr is the named string type of StringSchema[NamedStr] destinations.
type NamedStr string

// CallRec is one observed user-callback invocation.
type CallRec struct {
	Type string // %T of the argument the callback received
	ID   int
	Kind string // "test", "pt", "custom", "pre"
	Arg  any    // the dereferenced argument as a reflect-serialisable value; nil = the callback got nil
	Nil  bool
	Ctx  map[string]any // ctx.Get of the probe keys
	coqArg string
}

// Recorder collects callback invocations of one execution.
type Recorder struct {
	Calls   []CallRec
	CtxKeys []string
	// values the callbacks of the schema built with this recorder captured (part of the schema: an execution must not change them)
	Captured []any
}

func (r *Recorder) rec(id int, kind string, arg any, ctx z.Ctx) {
	if r == nil { // a schema shared between goroutines: its callbacks are pure
		return
	}
	c := CallRec{ID: id, Kind: kind, Type: fmt.Sprintf("%T", arg)}
	if arg == nil {
		c.Nil = true
	} else {
		rv := reflect.ValueOf(arg)
		if rv.Kind() == reflect.Pointer {
			if rv.IsNil() {
				c.Nil = true
			} else {
				// snapshot the pointee now (it may be changed later)
				cp := reflect.New(rv.Elem().Type()).Elem()
				cp.Set(rv.Elem())
				c.Arg = deepCopy(cp).Interface()
			}
		} else {
			c.Arg = arg
		}
	}
	if len(r.CtxKeys) > 0 {
		c.Ctx = map[string]any{}
		for _, k := range r.CtxKeys {
			c.Ctx[k] = ctx.Get(k)
		}
	}
	r.Calls = append(r.Calls, c)
}

func deepCopy(v reflect.Value) reflect.Value { return deepCopyMemo(v, map[uintptr]reflect.Value{}) }

// (pointers that share a pointee in the original share one in the copy)
func deepCopyMemo(v reflect.Value, seen map[uintptr]reflect.Value) reflect.Value {
	switch v.Kind() {
	case reflect.Slice:
		if v.IsNil() {
			return v
		}
		n := reflect.MakeSlice(v.Type(), v.Len(), v.Len())
		for i := 0; i < v.Len(); i++ {
			n.Index(i).Set(deepCopyMemo(v.Index(i), seen))
		}
		return n
	case reflect.Pointer:
		if v.IsNil() {
			return v
		}
		if c, ok := seen[v.Pointer()]; ok && c.Type() == v.Type() {
			return c
		}
		n := reflect.New(v.Type().Elem())
		seen[v.Pointer()] = n
		n.Elem().Set(deepCopyMemo(v.Elem(), seen))
		return n
	case reflect.Struct:
		if v.Type() == reflect.TypeOf(time.Time{}) {
			return v
		}
		n := reflect.New(v.Type()).Elem()
		for i := 0; i < v.NumField(); i++ {
			n.Field(i).Set(deepCopyMemo(v.Field(i), seen))
		}
		return n
	}
	return v
}

// GoName is the destination field name zog derives from a schema key.
func GoName(key string) string {
	if key == "" {
		return key
	}
	if key[0] >= 'a' && key[0] <= 'z' {
		return string(key[0]-32) + key[1:]
	}
	return key
}

var timeType = reflect.TypeOf(time.Time{})

// TypeOfAlt builds a second destination type for the same schema: the same field names and types,
// laid out in the opposite order at every struct level.
func TypeOfAlt(n *Node) reflect.Type { return typeOf(n, true) }

// TypeOf builds the destination type for a node.
func TypeOf(n *Node) reflect.Type { return typeOf(n, false) }

func typeOf(n *Node, rev bool) reflect.Type {
	switch n.Kind {
	case KString, KCustom, KPre:
		if n.Named {
			return reflect.TypeOf(NamedStr(""))
		}
		return reflect.TypeOf("")
	case KInt:
		return reflect.TypeOf(int(0))
	case KInt32:
		return reflect.TypeOf(int32(0))
	case KInt64:
		return reflect.TypeOf(int64(0))
	case KFloat32:
		return reflect.TypeOf(float32(0))
	case KFloat64:
		return reflect.TypeOf(float64(0))
	case KBool:
		return reflect.TypeOf(false)
	case KTime:
		return timeType
	case KSlice:
		return reflect.SliceOf(typeOf(n.Elem, rev))
	case KPtr:
		return reflect.PointerTo(typeOf(n.Elem, rev))
	case KStruct:
		var fs []reflect.StructField
		extras := func() {
			for _, x := range n.Extra {
				fs = append(fs, reflect.StructField{Name: x, Type: reflect.TypeOf(int(0))})
			}
		}
		if n.ExtraFirst {
			extras()
		}
		for _, f := range n.Fields {
			var tag []string
			for _, k := range sortedKeys(f.Tags) {
				tag = append(tag, fmt.Sprintf("%s:%q", k, f.Tags[k]))
			}
			fs = append(fs, reflect.StructField{Name: GoName(f.Key), Type: typeOf(f.Node, rev), Tag: reflect.StructTag(strings.Join(tag, " "))})
		}
		if !n.ExtraFirst {
			extras()
		}
		if rev {
			for i, j := 0, len(fs)-1; i < j; i, j = i+1, j-1 {
				fs[i], fs[j] = fs[j], fs[i]
			}
		}
		return reflect.StructOf(fs)
	}
	panic("TypeOf: " + n.Kind)
}

func sortedKeys(m map[string]string) []string {
	ks := make([]string, 0, len(m))
	for k := range m {
		ks = append(ks, k)
	}
	for i := range ks {
		for j := i + 1; j < len(ks); j++ {
			if ks[j] < ks[i] {
				ks[i], ks[j] = ks[j], ks[i]
			}
		}
	}
	return ks
}

func testOpts(t *TestSpec) []z.TestOption {
	var o []z.TestOption
	if t.OptMsg != nil {
		// (for every other message: an earlier message option of the other kind on the same test, which the later one replaces)
		m := *t.OptMsg
		twice := len(m) > 0 && m[len(m)-1]%2 == 1
		if t.OptMsgFunc {
			if twice {
				o = append(o, z.Message("replaced by the later MessageFunc"))
			}
			o = append(o, z.MessageFunc(func(i *z.ZogIssue, _ z.Ctx) { i.SetMessage(m) }))
		} else {
			if twice {
				o = append(o, z.MessageFunc(func(i *z.ZogIssue, _ z.Ctx) { i.SetMessage("replaced by the later Message") }))
			}
			o = append(o, z.Message(m))
		}
	}
	if t.OptParams != nil {
		ps := map[string]any{}
		for _, kv := range t.OptParams {
			ps[kv[0]] = kv[1]
		}
		o = append(o, z.Params(ps))
	}
	if t.OptCode != nil {
		o = append(o, z.IssueCode(*t.OptCode))
	}
	if t.OptPath != nil {
		o = append(o, z.IssuePath(*t.OptPath))
	}
	return o
}

// addUserTest attaches a user test.  Two documented routes build the same test: schema.TestFunc(fn, opts...)
// and a reusable z.TestFunc(...) value, copied, given its options afterwards and added with schema.Test(t).
func addUserTest(t *TestSpec, fn z.BoolTFunc, o []z.TestOption, viaTestFunc func(z.BoolTFunc, ...z.TestOption), viaTest func(z.Test)) {
	if t.ID%3 != 0 {
		viaTestFunc(fn, o...)
		return
	}
	base := z.TestFunc("", fn) // the reusable test ...
	variant := base            // ... a copy of it ...
	for _, opt := range o {
		opt(&variant) // ... which gets its own code / path / params / message
	}
	viaTest(variant)
}

// EvalPred evaluates a user predicate on a (dereferenced) destination value.
func EvalPred(p *Pred, v reflect.Value) bool {
	switch p.Op {
	case "const":
		return p.B
	case "strlen_ge":
		return v.Kind() == reflect.String && int64(len(v.String())) >= p.N
	case "str_eq":
		return v.Kind() == reflect.String && v.String() == p.S
	case "int_ge":
		return v.CanInt() && v.Int() >= p.N
	case "float_ge":
		return v.CanFloat() && v.Float() >= float64(p.N)
	case "slicelen_ge":
		return v.Kind() == reflect.Slice && int64(v.Len()) >= p.N
	case "field_str_eq":
		if v.Kind() != reflect.Struct {
			return false
		}
		f := v.FieldByName(GoName(p.Key))
		return f.IsValid() && f.Kind() == reflect.String && f.String() == p.S
	}
	panic("pred " + p.Op)
}

func asciiUpper(s string) string {
	b := []byte(s)
	for i, c := range b {
		if c >= 'a' && c <= 'z' {
			b[i] = c - 32
		}
	}
	return string(b)
}

// UserIssue is the fully explicit ZogIssue a DSL callback returns for op "issue".
func UserIssue() *z.ZogIssue {
	return &z.ZogIssue{Code: "user_code", Path: "user.path", Dtype: "user_type", Message: "user message"}
}

func mkPT(rec *Recorder, pt PTSpec) z.PostTransform {
	// the sentinel-error idiom: one hand-built issue, created with the schema and returned by every failing call
	sentinel := &z.ZogIssue{Code: "user_code", Message: "user message"}
	if rec != nil && pt.Op == "bare_issue" {
		rec.Captured = append(rec.Captured, sentinel)
	}
	return func(ptr any, ctx z.Ctx) error {
		rec.rec(pt.ID, "pt", ptr, ctx)
		if ptr == nil {
			return nil
		}
		rv := reflect.ValueOf(ptr)
		if rv.Kind() != reflect.Pointer || rv.IsNil() {
			return nil
		}
		v := rv.Elem()
		mutate := func() {
			switch v.Kind() {
			case reflect.String:
				switch pt.Op {
				case "upper", "mut_err":
					v.SetString(asciiUpper(v.String()))
				case "append":
					v.SetString(v.String() + pt.S)
				}
			case reflect.Int, reflect.Int32, reflect.Int64:
				switch pt.Op {
				case "add", "mut_err":
					v.SetInt(v.Int() + pt.N)
				}
			case reflect.Struct:
				if pt.Op == "setfield" || pt.Op == "mut_err" {
					f := v.FieldByName(GoName(pt.Key))
					if f.IsValid() && f.Kind() == reflect.String {
						f.SetString(pt.S)
					}
				}
			case reflect.Slice:
				if (pt.Op == "setfirst" || pt.Op == "mut_err") && v.Len() > 0 && v.Index(0).Kind() == reflect.String {
					v.Index(0).SetString(pt.S)
				}
			}
		}
		switch pt.Op {
		case "err":
			return errors.New(pt.S)
		case "mut_err":
			mutate()
			return errors.New(pt.S)
		case "issue":
			return UserIssue()
		case "bare_issue":
			if rec == nil { // (a schema shared between goroutines: no shared mutable object of ours)
				return &z.ZogIssue{Code: "user_code", Message: "user message"}
			}
			return sentinel
		case "wrap_issue":
			return fmt.Errorf("delegated check failed: %w", UserIssue())
		case "noop":
			return nil
		default:
			mutate()
			return nil
		}
	}
}

func userTest(rec *Recorder, t *TestSpec, kind string) z.BoolTFunc {
	return func(val any, ctx z.Ctx) bool {
		rec.rec(t.ID, kind, val, ctx)
		if t.User != nil && t.User.Op == "ctx_k1_eq" {
			return fmt.Sprint(ctx.Get("k1")) == t.User.S // depends on this call's options, not on the value
		}
		if val == nil {
			return false
		}
		rv := reflect.ValueOf(val)
		if rv.Kind() == reflect.Pointer {
			if rv.IsNil() {
				return false
			}
			rv = rv.Elem()
		}
		return EvalPred(t.User, rv)
	}
}

// MatchRegex is the one regular expression the Match built-in is exercised with.
var MatchRegex = regexp.MustCompile(`^[a-c]+[0-9]?$`)

func buildString(rec *Recorder, n *Node) z.ZogSchema {
	if n.Named {
		s := &z.StringSchema[NamedStr]{}
		z.WithCoercer(func(d any) (any, error) {
			v, err := conf.Coercers.String(d)
			if err != nil {
				return nil, err
			}
			return NamedStr(v.(string)), nil
		})(s)
		return buildStringT(rec, n, s)
	}
	var opts []z.SchemaOption
	if n.Coercer != "" && !n.GlobalCo {
		opts = append(opts, z.WithCoercer(customCoercer(n)))
	}
	return buildStringT(rec, n, z.String(opts...))
}

func toT[T ~string](xs []string) []T {
	r := make([]T, len(xs))
	for i, x := range xs {
		r[i] = T(x)
	}
	return r
}

func buildStringT[T ~string](rec *Recorder, n *Node, s *z.StringSchema[T]) *z.StringSchema[T] {
	applyMods(n, func(o ...z.TestOption) { s.Required(o...) }, func() { s.Optional() })
	if n.Def != nil {
		s.Default(T(n.Def.S))
	}
	if n.Catch != nil {
		s.Catch(T(n.Catch.S))
	}
	for i := range n.Tests {
		t := &n.Tests[i]
		o := testOpts(t)
		if t.Builtin == "" {
			addUserTest(t, userTest(rec, t, "test"), o, func(f z.BoolTFunc, os ...z.TestOption) { s.TestFunc(f, os...) }, func(tv z.Test) { s.Test(tv) })
			continue
		}
		var ns z.NotStringSchema[T]
		if t.Not {
			ns = s.Not()
		}
		switch t.Builtin {
		case "min":
			if t.Not { // Min/Max are not part of the Not interface: statement style
				s.Min(int(t.N), o...)
			} else {
				s.Min(int(t.N), o...)
			}
		case "max":
			s.Max(int(t.N), o...)
		case "len":
			if t.Not {
				ns.Len(int(t.N), o...)
			} else {
				s.Len(int(t.N), o...)
			}
		case "oneof":
			if t.Not {
				ns.OneOf(toT[T](t.Strs), o...)
			} else {
				s.OneOf(toT[T](t.Strs), o...)
			}
		case "prefix":
			if t.Not {
				ns.HasPrefix(T(t.S), o...)
			} else {
				s.HasPrefix(T(t.S), o...)
			}
		case "suffix":
			if t.Not {
				ns.HasSuffix(T(t.S), o...)
			} else {
				s.HasSuffix(T(t.S), o...)
			}
		case "contains":
			if t.Not {
				ns.Contains(T(t.S), o...)
			} else {
				s.Contains(T(t.S), o...)
			}
		case "upper":
			if t.Not {
				ns.ContainsUpper(o...)
			} else {
				s.ContainsUpper(o...)
			}
		case "digit":
			if t.Not {
				ns.ContainsDigit(o...)
			} else {
				s.ContainsDigit(o...)
			}
		case "special":
			if t.Not {
				ns.ContainsSpecial(o...)
			} else {
				s.ContainsSpecial(o...)
			}
		case "email":
			if t.Not {
				ns.Email(o...)
			} else {
				s.Email(o...)
			}
		case "uuid":
			if t.Not {
				ns.UUID(o...)
			} else {
				s.UUID(o...)
			}
		case "url":
			if t.Not {
				ns.URL(o...)
			} else {
				s.URL(o...)
			}
		case "match":
			if t.Not {
				ns.Match(MatchRegex, o...)
			} else {
				s.Match(MatchRegex, o...)
			}
		default:
			panic("string builtin " + t.Builtin)
		}
	}
	for _, pt := range n.PTs {
		s.PostTransform(mkPT(rec, pt))
	}
	return s
}

func applyMods(n *Node, req func(o ...z.TestOption), opt func()) {
	if n.Req != nil {
		req(testOpts(n.Req)...)
	}
}

func customCoercer(n *Node) z.CoercerFunc {
	return func(data any) (any, error) {
		if n.Coercer == "err" {
			return nil, errors.New("custom coercer error")
		}
		return leafGo(*n.CoerceTo, n.Kind), nil
	}
}

// leafGo converts a leaf to the Go value of the destination kind.
func leafGo(l Leaf, kind string) any {
	switch kind {
	case KString, KCustom, KPre:
		return l.S
	case KInt:
		return int(l.I)
	case KInt32:
		return int32(l.I)
	case KInt64:
		return l.I
	case KFloat32:
		return float32(l.F)
	case KFloat64:
		return l.F
	case KBool:
		return l.B
	case KTime:
		return l.T
	}
	panic("leafGo " + kind)
}

type number interface {
	~int | ~int32 | ~int64 | ~float32 | ~float64
}

func buildNumber[T number](rec *Recorder, n *Node, s *z.NumberSchema[T], conv func(t *TestSpec) T, convs func(t *TestSpec) []T, leaf func(l Leaf) T) *z.NumberSchema[T] {
	if n.Req != nil {
		s.Required(testOpts(n.Req)...)
	}
	if n.Def != nil {
		s.Default(leaf(*n.Def))
	}
	if n.Catch != nil {
		s.Catch(leaf(*n.Catch))
	}
	for i := range n.Tests {
		t := &n.Tests[i]
		o := testOpts(t)
		switch t.Builtin {
		case "":
			addUserTest(t, userTest(rec, t, "test"), o, func(f z.BoolTFunc, os ...z.TestOption) { s.TestFunc(f, os...) }, func(tv z.Test) { s.Test(tv) })
		case "gt":
			s.GT(conv(t), o...)
		case "gte":
			s.GTE(conv(t), o...)
		case "lt":
			s.LT(conv(t), o...)
		case "lte":
			s.LTE(conv(t), o...)
		case "eq":
			s.EQ(conv(t), o...)
		case "oneof":
			s.OneOf(convs(t), o...)
		default:
			panic("number builtin " + t.Builtin)
		}
	}
	for _, pt := range n.PTs {
		s.PostTransform(mkPT(rec, pt))
	}
	return s
}

func numOpts(n *Node) []z.SchemaOption {
	if n.Coercer != "" && !n.GlobalCo {
		return []z.SchemaOption{z.WithCoercer(customCoercer(n))}
	}
	return nil
}

func intsTo[T number](xs []int64) []T {
	r := make([]T, len(xs))
	for i, x := range xs {
		r[i] = T(x)
	}
	return r
}
func floatsTo[T number](xs []float64) []T {
	r := make([]T, len(xs))
	for i, x := range xs {
		r[i] = T(x)
	}
	return r
}

// Build constructs the real zog schema for a node through the public builder API.
func Build(rec *Recorder, n *Node, validate bool) z.ZogSchema {
	switch n.Kind {
	case KString:
		return buildString(rec, n)
	case KInt:
		return buildNumber(rec, n, z.Int(numOpts(n)...), func(t *TestSpec) int { return int(t.N) }, func(t *TestSpec) []int { return intsTo[int](t.Ints) }, func(l Leaf) int { return int(l.I) })
	case KInt32:
		return buildNumber(rec, n, z.Int32(numOpts(n)...), func(t *TestSpec) int32 { return int32(t.N) }, func(t *TestSpec) []int32 { return intsTo[int32](t.Ints) }, func(l Leaf) int32 { return int32(l.I) })
	case KInt64:
		return buildNumber(rec, n, z.Int64(numOpts(n)...), func(t *TestSpec) int64 { return t.N }, func(t *TestSpec) []int64 { return intsTo[int64](t.Ints) }, func(l Leaf) int64 { return l.I })
	case KFloat32:
		return buildNumber(rec, n, z.Float32(numOpts(n)...), func(t *TestSpec) float32 { return float32(t.F) }, func(t *TestSpec) []float32 { return floatsTo[float32](t.Fs) }, func(l Leaf) float32 { return float32(l.F) })
	case KFloat64:
		return buildNumber(rec, n, z.Float64(numOpts(n)...), func(t *TestSpec) float64 { return t.F }, func(t *TestSpec) []float64 { return floatsTo[float64](t.Fs) }, func(l Leaf) float64 { return l.F })
	case KBool:
		var opts []z.SchemaOption
		if n.Coercer != "" && !n.GlobalCo {
			opts = append(opts, z.WithCoercer(customCoercer(n)))
		}
		s := z.Bool(opts...)
		if n.Req != nil {
			s.Required(testOpts(n.Req)...)
		}
		if n.Def != nil {
			s.Default(n.Def.B)
		}
		if n.Catch != nil {
			s.Catch(n.Catch.B)
		}
		for i := range n.Tests {
			t := &n.Tests[i]
			switch t.Builtin {
			case "":
				addUserTest(t, userTest(rec, t, "test"), testOpts(t), func(f z.BoolTFunc, os ...z.TestOption) { s.TestFunc(f, os...) }, func(tv z.Test) { s.Test(tv) })
			case "true":
				s.True()
			case "false":
				s.False()
			case "eq":
				s.EQ(t.B)
			default:
				panic("bool builtin " + t.Builtin)
			}
		}
		for _, pt := range n.PTs {
			s.PostTransform(mkPT(rec, pt))
		}
		return s
	case KTime:
		var opts []z.SchemaOption
		if n.Layout != "" {
			opts = append(opts, z.Time.Format(n.Layout))
		}
		if n.Coercer != "" && !n.GlobalCo {
			opts = append(opts, z.WithCoercer(customCoercer(n)))
		}
		s := z.Time(opts...)
		if n.Req != nil {
			s.Required(testOpts(n.Req)...)
		}
		if n.Def != nil {
			s.Default(n.Def.T)
		}
		if n.Catch != nil {
			s.Catch(n.Catch.T)
		}
		for i := range n.Tests {
			t := &n.Tests[i]
			o := testOpts(t)
			switch t.Builtin {
			case "":
				addUserTest(t, userTest(rec, t, "test"), o, func(f z.BoolTFunc, os ...z.TestOption) { s.TestFunc(f, os...) }, func(tv z.Test) { s.Test(tv) })
			case "after":
				s.After(t.T, o...)
			case "before":
				s.Before(t.T, o...)
			case "eq":
				s.EQ(t.T, o...)
			default:
				panic("time builtin " + t.Builtin)
			}
		}
		for _, pt := range n.PTs {
			s.PostTransform(mkPT(rec, pt))
		}
		return s
	case KStruct:
		sc := z.Schema{}
		for _, f := range n.Fields {
			sc[f.Key] = Build(rec, f.Node, validate)
		}
		s := z.Struct(sc)
		for i := range n.Tests {
			t := &n.Tests[i]
			addUserTest(t, userTest(rec, t, "test"), testOpts(t), func(f z.BoolTFunc, os ...z.TestOption) { s.TestFunc(f, os...) }, func(tv z.Test) { s.Test(tv) })
		}
		for _, pt := range n.PTs {
			s.PostTransform(mkPT(rec, pt))
		}
		return s
	case KSlice:
		var sopts []z.SchemaOption
		switch n.Coercer {
		case "err":
			sopts = append(sopts, z.WithCoercer(func(any) (any, error) { return nil, errors.New("custom slice coercer failed") }))
		case "const":
			items := make([]any, len(n.CoList))
			for i, l := range n.CoList {
				items[i] = leafGo(l, n.Elem.Kind)
			}
			sopts = append(sopts, z.WithCoercer(func(any) (any, error) { return items, nil }))
		}
		s := z.Slice(Build(rec, n.Elem, validate), sopts...)
		if n.Req != nil {
			if n.ReqOver {
				s.Optional()
			}
			s.Required(testOpts(n.Req)...)
		} else if n.ReqOver {
			s.Required().Optional() // the last call decides
		}
		if n.DefOver {
			// the last Default call decides, also when it says "none"
			s.Default(reflect.MakeSlice(reflect.SliceOf(TypeOf(n.Elem)), 1, 1).Interface())
			if !n.HasDef {
				s.Default(nil)
			}
		}
		if n.HasDef {
			s.Default(sliceDefaultGo(n))
		}
		for i := range n.Tests {
			t := &n.Tests[i]
			o := testOpts(t)
			switch t.Builtin {
			case "":
				addUserTest(t, userTest(rec, t, "test"), o, func(f z.BoolTFunc, os ...z.TestOption) { s.TestFunc(f, os...) }, func(tv z.Test) { s.Test(tv) })
			case "min":
				s.Min(int(t.N), o...)
			case "max":
				s.Max(int(t.N), o...)
			case "len":
				s.Len(int(t.N), o...)
			case "contains":
				s.Contains(leafGo(*t.Elem, n.Elem.Kind), o...)
			default:
				panic("slice builtin " + t.Builtin)
			}
		}
		for _, pt := range n.PTs {
			s.PostTransform(mkPT(rec, pt))
		}
		return s
	case KPtr:
		var s *z.PointerSchema
		if n.PtrCo {
			// the coercer reaches the pointed-to schema through the pointer schema and replaces whatever
			// coercer that schema had (here sometimes: one that always fails)
			inner := *n.Elem
			if n.Elem.Tests != nil && len(n.Elem.Tests)%2 == 1 {
				inner.Coercer, inner.CoerceTo = "err", nil
			} else {
				inner.GlobalCo = true
			}
			s = z.Ptr(Build(rec, &inner, validate))
			z.WithCoercer(customCoercer(n.Elem))(s)
		} else {
			s = z.Ptr(Build(rec, n.Elem, validate))
		}
		if n.Req != nil {
			s.NotNil(testOpts(n.Req)...)
		}
		return s
	case KCustom:
		t := &n.Tests[0]
		return z.CustomFunc(func(p *string, ctx z.Ctx) bool {
			rec.rec(t.ID, "custom", p, ctx)
			ok := false
			if t.User.Op == "ctx_k1_eq" {
				ok = fmt.Sprint(ctx.Get("k1")) == t.User.S
			} else {
				ok = EvalPred(t.User, reflect.ValueOf(p).Elem())
			}
			if n.CustomMut {
				*p = asciiUpper(*p) // the pointer is the destination: what is written through it stays
			}
			return ok
		}, testOpts(t)...)
	case KPre:
		inner := Build(rec, n.Elem, validate)
		apply := func(s string) (string, error) {
			switch n.PreOp {
			case "upper":
				return asciiUpper(s), nil
			case "trim":
				return strings.Trim(s, " "), nil
			case "blank":
				return "", nil // ("n/a" and the like mapped to nothing: the wrapped schema decides what an absent value means)
			case "err":
				return "", errors.New("pre error")
			case "issue":
				return "", UserIssue()
			case "wrap":
				return "", fmt.Errorf("delegated check failed: %w", UserIssue())
			}
			panic("preop " + n.PreOp)
		}
		if validate {
			return z.Preprocess(func(p *string, ctx z.Ctx) (string, error) {
				rec.rec(n.PreID, "pre", p, ctx)
				return apply(*p)
			}, inner)
		}
		return z.Preprocess(func(s string, ctx z.Ctx) (string, error) {
			rec.rec(n.PreID, "pre", nil, ctx)
			return apply(s)
		}, inner)
	}
	panic("Build: " + n.Kind)
}

// sliceDefaultGo builds the typed slice given to Default().
func sliceDefaultGo(n *Node) any {
	et := TypeOf(n.Elem)
	sl := reflect.MakeSlice(reflect.SliceOf(et), len(n.DefSlice), len(n.DefSlice))
	for i, l := range n.DefSlice {
		if l.Kind == KSlice { // a slice of slices
			inner := reflect.MakeSlice(et, len(l.L), len(l.L))
			for j, x := range l.L {
				inner.Index(j).Set(reflect.ValueOf(leafGo(x, n.Elem.Elem.Kind)))
			}
			sl.Index(i).Set(inner)
			continue
		}
		sl.Index(i).Set(reflect.ValueOf(leafGo(l, n.Elem.Kind)))
	}
	return sl.Interface()
}
