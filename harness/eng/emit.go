package eng

import (
	"fmt"
	"math"
	"net/url"
	"reflect"
	"sort"
	"strconv"
	"strings"
	"time"
)

type timeT = time.Time

// ---- Gallina printers ----

func CoqStr(s string) string {
	plain := true
	for i := 0; i < len(s); i++ {
		if s[i] < 32 || s[i] > 126 {
			plain = false
			break
		}
	}
	if plain {
		return `"` + strings.ReplaceAll(s, `"`, `""`) + `"`
	}
	var b []string
	for i := 0; i < len(s); i++ {
		b = append(b, strconv.Itoa(int(s[i])))
	}
	return "(bs [" + strings.Join(b, ";") + "])"
}

func CoqZ(i int64) string { return fmt.Sprintf("(%d)%%Z", i) }

func CoqOptStr(s *string) string {
	if s == nil {
		return "None"
	}
	return "(Some " + CoqStr(*s) + ")"
}

func CoqBool(b bool) string {
	if b {
		return "true"
	}
	return "false"
}

// CoqFloat prints the exact value of a float64 as a spec_float.
func CoqFloat(f float64) string {
	bits := math.Float64bits(f)
	sign := bits>>63 == 1
	exp := int((bits >> 52) & 0x7ff)
	mant := bits & ((1 << 52) - 1)
	sg := CoqBool(sign)
	switch {
	case exp == 0x7ff && mant != 0:
		return "S754_nan"
	case exp == 0x7ff:
		return "(S754_infinity " + sg + ")"
	case exp == 0 && mant == 0:
		return "(S754_zero " + sg + ")"
	case exp == 0:
		return fmt.Sprintf("(S754_finite %s %d (-1074))", sg, mant)
	default:
		return fmt.Sprintf("(S754_finite %s %d (%d))", sg, mant|(1<<52), exp-1075)
	}
}

func CoqTime(t time.Time) string {
	_, off := t.Zone()
	return fmt.Sprintf("(mkT (%d) (%d) (%d))", t.Unix(), t.Nanosecond(), off)
}

func coqList(xs []string) string { return "[" + strings.Join(xs, "; ") + "]" }

func CoqLeaf(l Leaf) string {
	switch l.Kind {
	case KSlice:
		var xs []string
		for _, x := range l.L {
			xs = append(xs, CoqLeaf(x))
		}
		return "(DSlice " + coqList(xs) + ")"
	case KString:
		return "(DStr " + CoqStr(l.S) + ")"
	case KBool:
		return "(DBool " + CoqBool(l.B) + ")"
	case KTime:
		return "(DTime " + CoqTime(l.T) + ")"
	case KFloat32, KFloat64:
		return "(DFloat " + CoqFloat(l.F) + ")"
	}
	return "(DInt " + CoqZ(l.I) + ")"
}

// CoqDval prints a destination value of the type belonging to node n.
// CoqDval renders a Go value as the model's dval along the schema.  A value whose Go type does not
// fit the schema node (only a broken implementation hands one to a callback) renders as an opaque
// value no model value equals, so the case is reported instead of crashing the harness.
func CoqDval(v reflect.Value, n *Node) (out string) {
	defer func() {
		if r := recover(); r != nil {
			out = "(DOpaque 4242)"
		}
	}()
	return coqDval(v, n)
}

func coqDval(v reflect.Value, n *Node) string {
	switch n.Kind {
	case KString, KCustom, KPre:
		return "(DStr " + CoqStr(v.String()) + ")"
	case KInt, KInt32, KInt64:
		return "(DInt " + CoqZ(v.Int()) + ")"
	case KFloat32, KFloat64:
		return "(DFloat " + CoqFloat(v.Float()) + ")"
	case KBool:
		return "(DBool " + CoqBool(v.Bool()) + ")"
	case KTime:
		return "(DTime " + CoqTime(v.Interface().(time.Time)) + ")"
	case KPtr:
		if v.IsNil() {
			return "(DPtr None)"
		}
		return "(DPtr (Some " + CoqDval(v.Elem(), n.Elem) + "))"
	case KSlice:
		var xs []string
		for i := 0; i < v.Len(); i++ {
			xs = append(xs, CoqDval(v.Index(i), n.Elem))
		}
		return "(DSlice " + coqList(xs) + ")"
	case KStruct:
		byName := map[string]*Field{}
		for i := range n.Fields {
			byName[GoName(n.Fields[i].Key)] = &n.Fields[i]
		}
		var xs []string
		for i := 0; i < v.NumField(); i++ {
			name := v.Type().Field(i).Name
			if f, ok := byName[name]; ok {
				xs = append(xs, "("+CoqStr(f.Key)+", "+CoqDval(v.Field(i), f.Node)+")")
			} else {
				xs = append(xs, "("+CoqStr(name)+", (DInt "+CoqZ(v.Field(i).Int())+"))")
			}
		}
		return "(DStruct " + coqList(xs) + ")"
	}
	panic("CoqDval " + n.Kind)
}

func CoqIVal(v IVal) string {
	switch v.Kind {
	case "nil":
		return "VNil"
	case "bool":
		return "(VBool " + CoqBool(v.B) + ")"
	case "int":
		return "(VInt " + CoqZ(v.I) + ")"
	case "int64":
		return "(VI64 " + CoqZ(v.I) + ")"
	case "int32":
		return "(VI32 " + CoqZ(v.I) + ")"
	case "f64":
		return "(VF64 " + CoqFloat(v.F) + ")"
	case "f32":
		return "(VF32 " + CoqFloat(v.F) + ")"
	case "str":
		return "(VStr " + CoqStr(v.S) + ")"
	case "time":
		return "(VTime " + CoqTime(v.T) + ")"
	case "list":
		var xs []string
		for _, e := range v.L {
			xs = append(xs, CoqIVal(e))
		}
		return "(VList " + coqList(xs) + ")"
	case "map":
		var xs []string
		for _, kv := range v.M {
			xs = append(xs, "("+CoqStr(kv.K)+", "+CoqIVal(kv.V)+")")
		}
		return "(VMap " + coqList(xs) + ")"
	case "other":
		return fmt.Sprintf("(VOther %d)", v.I)
	}
	panic("CoqIVal " + v.Kind)
}

func coqParams(ps [][2]string) string {
	var xs []string
	for _, p := range ps {
		xs = append(xs, "("+CoqStr(p[0])+", "+CoqStr(p[1])+")")
	}
	return coqList(xs)
}

func coqPred(p *Pred) string {
	switch p.Op {
	case "const":
		return "(PConst " + CoqBool(p.B) + ")"
	case "ctx_k1_eq":
		// a predicate over the call's context values: for the judged call it is the constant B (resolved by the generator)
		return "(PConst " + CoqBool(p.B) + ")"
	case "strlen_ge":
		return "(PStrLenGe " + CoqZ(p.N) + ")"
	case "str_eq":
		return "(PStrEq " + CoqStr(p.S) + ")"
	case "int_ge":
		return "(PIntGe " + CoqZ(p.N) + ")"
	case "float_ge":
		return "(PFloatGe " + CoqZ(p.N) + ")"
	case "slicelen_ge":
		return "(PSliceLenGe " + CoqZ(p.N) + ")"
	case "field_str_eq":
		return "(PFieldStrEq " + CoqStr(p.Key) + " " + CoqStr(p.S) + ")"
	}
	panic("coqPred")
}

// builtin returns (default code, params, Gallina btest) for a built-in test on a node.
func builtin(n *Node, t *TestSpec) (string, [][2]string, string) {
	sv := func(v any) string { return fmt.Sprintf("%v", v) }
	switch n.Kind {
	case KString:
		switch t.Builtin {
		case "min":
			return "min", [][2]string{{"min", sv(int(t.N))}}, "(BStrMin " + CoqZ(t.N) + ")"
		case "max":
			return "max", [][2]string{{"max", sv(int(t.N))}}, "(BStrMax " + CoqZ(t.N) + ")"
		case "len":
			return "len", [][2]string{{"len", sv(int(t.N))}}, "(BStrLen " + CoqZ(t.N) + ")"
		case "oneof":
			var xs []string
			for _, s := range t.Strs {
				xs = append(xs, CoqStr(s))
			}
			return "one_of_options", [][2]string{{"one_of_options", sv(t.Strs)}}, "(BStrOneOf " + coqList(xs) + ")"
		case "prefix":
			return "prefix", [][2]string{{"prefix", t.S}}, "(BHasPrefix " + CoqStr(t.S) + ")"
		case "suffix":
			return "suffix", [][2]string{{"suffix", t.S}}, "(BHasSuffix " + CoqStr(t.S) + ")"
		case "contains":
			return "contained", [][2]string{{"contained", t.S}}, "(BStrContains " + CoqStr(t.S) + ")"
		case "upper":
			return "contains_upper", nil, "BContainsUpper"
		case "digit":
			return "contains_digit", nil, "BContainsDigit"
		case "special":
			return "contains_special", nil, "BContainsSpecial"
		case "email":
			return "email", nil, "BEmail"
		case "uuid":
			return "uuid", nil, "BUUID"
		case "url":
			return "url", nil, "(BTable url_tbl)"
		case "match":
			return "match", [][2]string{{"match", MatchRegex.String()}}, "(BTable match_tbl)"
		}
	case KInt, KInt32, KInt64:
		var conv func(int64) any
		switch n.Kind {
		case KInt:
			conv = func(i int64) any { return int(i) }
		case KInt32:
			conv = func(i int64) any { return int32(i) }
		default:
			conv = func(i int64) any { return i }
		}
		cmp := map[string]string{"gt": "CGt", "gte": "CGte", "lt": "CLt", "lte": "CLte", "eq": "CEq"}
		if c, ok := cmp[t.Builtin]; ok {
			return t.Builtin, [][2]string{{t.Builtin, sv(conv(t.N))}}, "(BIntCmp " + c + " " + CoqZ(t.N) + ")"
		}
		if t.Builtin == "oneof" {
			var xs, vs []string
			for _, i := range t.Ints {
				xs = append(xs, CoqZ(i))
				vs = append(vs, sv(conv(i)))
			}
			return "one_of_options", [][2]string{{"one_of_options", "[" + strings.Join(vs, " ") + "]"}}, "(BIntOneOf " + coqList(xs) + ")"
		}
	case KFloat32, KFloat64:
		conv := func(f float64) any { return f }
		rnd := func(f float64) float64 { return f }
		if n.Kind == KFloat32 {
			conv = func(f float64) any { return float32(f) }
			rnd = f32
		}
		cmp := map[string]string{"gt": "CGt", "gte": "CGte", "lt": "CLt", "lte": "CLte", "eq": "CEq"}
		if c, ok := cmp[t.Builtin]; ok {
			return t.Builtin, [][2]string{{t.Builtin, sv(conv(t.F))}}, "(BFloatCmp " + c + " " + CoqFloat(rnd(t.F)) + ")"
		}
		if t.Builtin == "oneof" {
			var xs, vs []string
			for _, f := range t.Fs {
				xs = append(xs, CoqFloat(rnd(f)))
				vs = append(vs, sv(conv(f)))
			}
			return "one_of_options", [][2]string{{"one_of_options", "[" + strings.Join(vs, " ") + "]"}}, "(BFloatOneOf " + coqList(xs) + ")"
		}
	case KBool:
		switch t.Builtin {
		case "true":
			return "eq", [][2]string{{"eq", "true"}}, "(BBoolEq true)"
		case "false":
			return "eq", [][2]string{{"eq", "false"}}, "(BBoolEq false)"
		case "eq":
			return "eq", [][2]string{{"eq", sv(t.B)}}, "(BBoolEq " + CoqBool(t.B) + ")"
		}
	case KTime:
		switch t.Builtin {
		case "after":
			return "after", [][2]string{{"after", sv(t.T)}}, "(BTimeAfter " + CoqTime(t.T) + ")"
		case "before":
			return "before", [][2]string{{"before", sv(t.T)}}, "(BTimeBefore " + CoqTime(t.T) + ")"
		case "eq":
			return "eq", [][2]string{{"eq", sv(t.T)}}, "(BTimeEq " + CoqTime(t.T) + ")"
		}
	case KSlice:
		switch t.Builtin {
		case "min":
			return "min", [][2]string{{"min", sv(int(t.N))}}, "(BSliceMin " + CoqZ(t.N) + ")"
		case "max":
			return "max", [][2]string{{"max", sv(int(t.N))}}, "(BSliceMax " + CoqZ(t.N) + ")"
		case "len":
			return "len", [][2]string{{"len", sv(int(t.N))}}, "(BSliceLen " + CoqZ(t.N) + ")"
		case "contains":
			return "contained", [][2]string{{"contained", sv(leafGo(*t.Elem, n.Elem.Kind))}}, "(BSliceContains " + CoqLeaf(*t.Elem) + ")"
		}
	}
	panic("builtin " + n.Kind + "/" + t.Builtin)
}

// leafIVal: a leaf as the input value of the same Go type (what a custom slice coercer hands on)
func leafIVal(l Leaf, kind string) IVal {
	switch kind {
	case KInt:
		return intV(l.I)
	case KBool:
		return boolV(l.B)
	}
	return strV(l.S)
}

func coqTest(n *Node, t *TestSpec, defaultCode string) string {
	code := defaultCode
	var params [][2]string
	ok := ""
	if t.Builtin == "" && t.User != nil {
		ok = "(ut " + coqPred(t.User) + ")"
	} else if t.Builtin != "" {
		c, ps, b := builtin(n, t)
		code, params = c, ps
		if t.Not {
			code = "not_" + code
			ok = "(nbt " + b + ")"
		} else {
			ok = "(bt " + b + ")"
		}
	} else {
		ok = "(fun _ => true)" // required / not_nil: no function
	}
	if t.OptCode != nil {
		code = *t.OptCode
	}
	if t.OptParams != nil {
		params = t.OptParams
	}
	return fmt.Sprintf("(T %d %s %s %s %s %s)", t.ID, CoqStr(code), CoqOptStr(t.OptPath), CoqOptStr(t.OptMsg), coqParams(params), ok)
}

func coqTests(n *Node) string {
	var xs []string
	for i := range n.Tests {
		xs = append(xs, coqTest(n, &n.Tests[i], ""))
	}
	return coqList(xs)
}

func coqPTs(n *Node) string {
	var xs []string
	for _, p := range n.PTs {
		var op string
		switch p.Op {
		case "upper":
			op = "TUpper"
		case "append":
			op = "(TAppend " + CoqStr(p.S) + ")"
		case "add":
			op = "(TAdd " + CoqZ(p.N) + ")"
		case "err":
			op = "(TErr " + CoqStr(p.S) + ")"
		case "mut_err":
			op = "(TMutErr " + CoqZ(p.N) + " " + CoqStr(p.Key) + " " + CoqStr(p.S) + ")"
		case "issue":
			op = "TIssue"
		case "bare_issue":
			op = "TIssueBare"
		case "wrap_issue":
			op = "(TErr \"delegated check failed\")"
		case "setfield":
			op = "(TSetField " + CoqStr(p.Key) + " " + CoqStr(p.S) + ")"
		case "setfirst":
			op = "(TSetFirst " + CoqStr(p.S) + ")"
		case "noop":
			op = "TNoop"
		default:
			panic("pt op " + p.Op)
		}
		xs = append(xs, fmt.Sprintf("(PT %d %s)", p.ID, op))
	}
	return coqList(xs)
}

func coqOptTest(n *Node, t *TestSpec, code string) string {
	if t == nil {
		return "None"
	}
	return "(Some " + coqTest(n, t, code) + ")"
}

func coqOptLeaf(l *Leaf) string {
	if l == nil {
		return "None"
	}
	return "(Some " + CoqLeaf(*l) + ")"
}

func coqKind(k string) string {
	return map[string]string{KString: "KString", KInt: "KInt", KInt32: "KInt32", KInt64: "KInt64", KFloat32: "KFloat32",
		KFloat64: "KFloat64", KBool: "KBool", KTime: "KTime"}[k]
}

// ZeroD prints the zero value of the node's destination type.
func ZeroD(n *Node) string { return CoqDval(reflect.Zero(TypeOf(n)), n) }

// CoqSchema prints the schema; struct fields follow order[n] when a visit order was observed.
func CoqSchema(n *Node, order map[*Node][]string) string {
	switch n.Kind {
	case KStruct:
		fields := n.Fields
		if o, ok := order[n]; ok && len(o) == len(fields) {
			idx := map[string]int{}
			for i, k := range o {
				idx[k] = i
			}
			fields = append([]Field(nil), fields...)
			sort.SliceStable(fields, func(a, b int) bool { return idx[fields[a].Key] < idx[fields[b].Key] })
		}
		var xs []string
		for _, f := range fields {
			var tags [][2]string
			for _, k := range sortedKeys(f.Tags) {
				tags = append(tags, [2]string{k, f.Tags[k]})
			}
			xs = append(xs, "("+CoqStr(f.Key)+", ("+coqParams(tags)+", "+CoqSchema(f.Node, order)+"))")
		}
		return "(SStruct " + coqList(xs) + " " + coqTests(n) + " " + coqPTs(n) + ")"
	case KSlice:
		def := "None"
		if n.HasDef {
			var xs []string
			for _, l := range n.DefSlice {
				xs = append(xs, CoqLeaf(l))
			}
			def = "(Some " + coqList(xs) + ")"
		}
		sco := "coerce_slice"
		switch n.Coercer {
		case "err":
			sco = "(fun _ => None)"
		case "const":
			var xs []string
			for _, l := range n.CoList {
				xs = append(xs, CoqIVal(leafIVal(l, n.Elem.Kind)))
			}
			sco = "(fun _ => Some " + coqList(xs) + ")"
		}
		return "(SSlice " + CoqSchema(n.Elem, order) + " (SL " + sco + " " + coqOptTest(n, n.Req, "required") + " " + def + " " + ZeroD(n.Elem) + " " + coqTests(n) + " " + coqPTs(n) + "))"
	case KPtr:
		return "(SPtr " + CoqSchema(n.Elem, order) + " " + coqOptTest(n, n.Req, "not_nil") + " " + ZeroD(n.Elem) + ")"
	case KCustom:
		return "(SCustom conv_string " + coqTest(n, &n.Tests[0], "") + ")"
	case KPre:
		return fmt.Sprintf("(SPre (PRE %d %s) %s)", n.PreID, map[string]string{"upper": "PreUpper", "trim": "PreTrim", "err": "PreErr", "issue": "PreIssue", "wrap": "PreWrap", "blank": "PreBlank"}[n.PreOp], CoqSchema(n.Elem, order))
	}
	// primitive
	co := ""
	switch n.Coercer {
	case "":
		layout := "rfc3339"
		if n.Layout != "" {
			layout = CoqStr(n.Layout)
		}
		co = "(cdef orc " + layout + " " + coqKind(n.Kind) + ")"
	case "const":
		co = "(cconst " + CoqLeaf(*n.CoerceTo) + ")"
	case "err":
		co = "cerr"
	}
	return "(SPrim (P " + coqKind(n.Kind) + " " + co + " " + coqOptTest(n, n.Req, "required") + " " + coqOptLeaf(n.Def) + " " + coqOptLeaf(n.Catch) + " " + coqTests(n) + " " + coqPTs(n) + "))"
}

// ---- oracle tables ----

func collectStrings(v IVal, out map[string]bool) {
	switch v.Kind {
	case "str":
		out[v.S] = true
	case "int", "int64", "int32":
		out[strconv.FormatInt(v.I, 10)] = true
	case "bool":
		out[strconv.FormatBool(v.B)] = true
	case "f64":
		out[fmt.Sprintf("%v", v.F)] = true
	case "f32":
		out[fmt.Sprintf("%v", float32(v.F))] = true
	case "list":
		for _, e := range v.L {
			collectStrings(e, out)
		}
	case "map":
		for _, kv := range v.M {
			collectStrings(kv.V, out)
		}
	}
}

func collectFloats(v IVal, out map[[2]uint64]string) {
	switch v.Kind {
	case "f64":
		out[[2]uint64{0, math.Float64bits(v.F)}] = fmt.Sprintf("%v", v.F)
	case "f32":
		out[[2]uint64{1, math.Float64bits(v.F)}] = fmt.Sprintf("%v", float32(v.F))
	case "list":
		for _, e := range v.L {
			collectFloats(e, out)
		}
	case "map":
		for _, kv := range v.M {
			collectFloats(kv.V, out)
		}
	}
}

func schemaStrings(n *Node, out map[string]bool, layoutsOut map[string]bool) {
	add := func(l *Leaf) {
		if l != nil && l.Kind == KString {
			out[l.S] = true
		}
	}
	add(n.Def)
	add(n.Catch)
	for _, x := range n.ExtraStrs {
		out[x] = true
	}
	add(n.CoerceTo)
	for _, l := range n.DefSlice {
		if l.Kind == KString {
			out[l.S] = true
		}
		for _, x := range l.L {
			if x.Kind == KString {
				out[x.S] = true
			}
		}
	}
	for _, l := range n.CoList {
		if l.Kind == KString {
			out[l.S] = true
		}
	}
	if n.Kind == KTime {
		if n.Layout != "" {
			layoutsOut[n.Layout] = true
		} else {
			layoutsOut[time.RFC3339] = true
		}
	}
	for _, f := range n.Fields {
		schemaStrings(f.Node, out, layoutsOut)
	}
	if n.Elem != nil {
		schemaStrings(n.Elem, out, layoutsOut)
	}
}

func destStrings(v reflect.Value, out map[string]bool) {
	switch v.Kind() {
	case reflect.String:
		out[v.String()] = true
	case reflect.Slice:
		for i := 0; i < v.Len(); i++ {
			destStrings(v.Index(i), out)
		}
	case reflect.Pointer:
		if !v.IsNil() {
			destStrings(v.Elem(), out)
		}
	case reflect.Struct:
		if v.Type() == timeType {
			return
		}
		for i := 0; i < v.NumField(); i++ {
			destStrings(v.Field(i), out)
		}
	}
}

// Oracles prints the oracle definitions (orc, url_tbl, match_tbl) for one case.
func Oracles(n *Node, in *IVal, dest0 reflect.Value) string {
	strs := map[string]bool{}
	layoutSet := map[string]bool{}
	floats := map[[2]uint64]string{}
	if in != nil {
		collectStrings(*in, strs)
		collectFloats(*in, floats)
	}
	schemaStrings(n, strs, layoutSet)
	destStrings(dest0, strs)
	// Preprocess variants
	for s := range strs {
		strs[asciiUpper(s)] = true
		strs[strings.Trim(s, " ")] = true
	}
	keys := make([]string, 0, len(strs))
	for s := range strs {
		keys = append(keys, s)
	}
	sort.Strings(keys)
	var pf, ut, mt, tt []string
	for _, s := range keys {
		f, err := strconv.ParseFloat(s, 64)
		if err != nil {
			pf = append(pf, "("+CoqStr(s)+", None)")
		} else {
			pf = append(pf, "("+CoqStr(s)+", Some "+CoqFloat(f)+")")
		}
		u, err := url.Parse(s)
		ut = append(ut, "("+CoqStr(s)+", "+CoqBool(err == nil && u.Scheme != "" && u.Host != "")+")")
		mt = append(mt, "("+CoqStr(s)+", "+CoqBool(MatchRegex.MatchString(s))+")")
	}
	ls := make([]string, 0, len(layoutSet))
	for l := range layoutSet {
		ls = append(ls, l)
	}
	sort.Strings(ls)
	for _, l := range ls {
		for _, s := range keys {
			t, err := time.Parse(l, s)
			if err != nil {
				tt = append(tt, "(("+CoqStr(l)+", "+CoqStr(s)+"), None)")
			} else {
				tt = append(tt, "(("+CoqStr(l)+", "+CoqStr(s)+"), Some "+CoqTime(t)+")")
			}
		}
	}
	fk := make([][2]uint64, 0, len(floats))
	for k := range floats {
		fk = append(fk, k)
	}
	sort.Slice(fk, func(a, b int) bool { return fk[a][0] < fk[b][0] || (fk[a][0] == fk[b][0] && fk[a][1] < fk[b][1]) })
	var st []string
	for _, k := range fk {
		st = append(st, "(("+CoqBool(k[0] == 1)+", "+CoqFloat(math.Float64frombits(k[1]))+"), "+CoqStr(floats[k])+")")
	}
	return "let orc := mk_orc " + coqList(pf) + " " + coqList(st) + " " + coqList(tt) + " in\n   let url_tbl : list (string * bool) := " + coqList(ut) + " in\n   let match_tbl : list (string * bool) := " + coqList(mt) + " in"
}

// ---- observed outcome ----

func coqObsIssue(i ObsIssue) string {
	return fmt.Sprintf("(OI %s %s %s %s %s %s)", CoqStr(i.Path), CoqStr(i.Code), CoqStr(i.Dtype), coqParams(i.Params), CoqStr(i.Message), CoqBool(i.HasErr))
}

func CoqObserved(o *Observed, n *Node) string {
	var keys []string
	for _, k := range o.Keys {
		var is []string
		for _, i := range o.ByKey[k] {
			is = append(is, coqObsIssue(i))
		}
		keys = append(keys, "("+CoqStr(k)+", "+coqList(is)+")")
	}
	first := "None"
	if o.First != nil {
		first = "(Some " + coqObsIssue(*o.First) + ")"
	}
	var calls []string
	for _, c := range o.Calls {
		calls = append(calls, fmt.Sprintf("(OC %d %s %s)", c.ID, map[string]string{"test": "CbTest", "pt": "CbPT", "custom": "CbCustom", "pre": "CbPre"}[c.Kind], c.coqArg))
	}
	_, badFirst := o.ByKey["$first_len"]
	return fmt.Sprintf("(OBS %s %s %s %s %s %s %s)", CoqBool(o.Panic != ""), CoqBool(o.Nil), coqList(keys), first, CoqBool(badFirst), coqList(calls), CoqDval(o.Dest, n))
}
