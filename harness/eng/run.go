package eng

import (
	"fmt"
	"reflect"
	"sort"

	z "github.com/Oudwins/zog"
	"github.com/Oudwins/zog/internals"
)

// orderLog records, per struct schema node, the order in which each visit asked for its fields.
type orderLog struct {
	visits map[*Node][][]string
}

type recProvider struct {
	inner internals.DataProvider
	log   *orderLog
	node  *Node
	order *[]string
}

func (l *orderLog) provider(n *Node, m map[string]any) any {
	inner, err := internals.TryNewAnyDataProvider(m)
	if err != nil || inner == nil {
		return m
	}
	o := &[]string{}
	return &recProvider{inner: inner, log: l, node: n, order: o}
}

func (p *recProvider) Get(key string) any { return p.inner.Get(key) }
func (p *recProvider) GetByField(field reflect.StructField, fallback string) (any, string) {
	if len(*p.order) == 0 {
		p.log.visits[p.node] = append(p.log.visits[p.node], nil)
	}
	*p.order = append(*p.order, fallback)
	vs := p.log.visits[p.node]
	vs[len(vs)-1] = *p.order
	return p.inner.GetByField(field, fallback)
}
func (p *recProvider) GetNestedProvider(key string) internals.DataProvider {
	return p.inner.GetNestedProvider(key)
}
func (p *recProvider) GetUnderlying() any { return p.inner.GetUnderlying() }

// ObsIssue is one observed issue.
type ObsIssue struct {
	Path, Code, Dtype, Message string
	Params                     [][2]string
	HasErr                     bool
}

func obsIssue(i *z.ZogIssue) ObsIssue {
	o := ObsIssue{Path: i.Path, Code: i.Code, Dtype: i.Dtype, Message: i.Message, HasErr: i.Err != nil}
	ks := make([]string, 0, len(i.Params))
	for k := range i.Params {
		ks = append(ks, k)
	}
	sort.Strings(ks)
	for _, k := range ks {
		o.Params = append(o.Params, [2]string{k, fmt.Sprintf("%v", i.Params[k])})
	}
	return o
}

// Observed is everything one execution exposed.
type Observed struct {
	Panic   string
	IsList  bool
	Nil     bool
	Keys    []string
	ByKey   map[string][]ObsIssue
	First   *ObsIssue
	Calls   []CallRec
	Dest    reflect.Value
	Orders  map[*Node][][]string
	RawMap  z.ZogIssueMap  // the containers zog returned (for the Collect / Sanitize helpers)
	RawList z.ZogIssueList
}

// Exec runs one Parse or Validate of the real schema.
//   data: the input (Parse); dest: pointer to the destination / the validated value.
func Exec(schema z.ZogSchema, validate bool, data any, dest reflect.Value, rec *Recorder, opts ...z.ExecOption) (obs Observed) {
	rec.Calls = nil
	defer func() {
		if r := recover(); r != nil {
			obs.Panic = fmt.Sprint(r)
		}
		obs.Calls = rec.Calls
		obs.Dest = dest.Elem()
	}()
	var m z.ZogIssueMap
	var l z.ZogIssueList
	isList := false
	dp := dest.Interface()
	switch s := schema.(type) {
	case *z.StructSchema:
		if validate {
			m = s.Validate(dp, opts...)
		} else {
			m = s.Parse(data, dp, opts...)
		}
	case *z.SliceSchema:
		if validate {
			m = s.Validate(dp, opts...)
		} else {
			m = s.Parse(data, dp, opts...)
		}
	case *z.PointerSchema:
		if validate {
			m = s.Validate(dp, opts...)
		} else {
			m = s.Parse(data, dp, opts...)
		}
	case *z.StringSchema[string]:
		isList = true
		if validate {
			l = s.Validate(dp.(*string), opts...)
		} else {
			l = s.Parse(data, dp.(*string), opts...)
		}
	case *z.NumberSchema[int]:
		isList = true
		if validate {
			l = s.Validate(dp.(*int), opts...)
		} else {
			l = s.Parse(data, dp.(*int), opts...)
		}
	case *z.NumberSchema[int32]:
		isList = true
		if validate {
			l = s.Validate(dp.(*int32), opts...)
		} else {
			l = s.Parse(data, dp.(*int32), opts...)
		}
	case *z.NumberSchema[int64]:
		isList = true
		if validate {
			l = s.Validate(dp.(*int64), opts...)
		} else {
			l = s.Parse(data, dp.(*int64), opts...)
		}
	case *z.NumberSchema[float32]:
		isList = true
		if validate {
			l = s.Validate(dp.(*float32), opts...)
		} else {
			l = s.Parse(data, dp.(*float32), opts...)
		}
	case *z.NumberSchema[float64]:
		isList = true
		if validate {
			l = s.Validate(dp.(*float64), opts...)
		} else {
			l = s.Parse(data, dp.(*float64), opts...)
		}
	case *z.BoolSchema[bool]:
		isList = true
		if validate {
			l = s.Validate(dp.(*bool), opts...)
		} else {
			l = s.Parse(data, dp.(*bool), opts...)
		}
	case *z.TimeSchema:
		isList = true
		if validate {
			l = s.Validate(dp.(*timeT), opts...)
		} else {
			l = s.Parse(data, dp.(*timeT), opts...)
		}
	case *z.Custom[string]:
		// CustomFunc as the execution root (its own typed Parse / Validate)
		isList = true
		if validate {
			l = s.Validate(dp.(*string), opts...)
		} else {
			l = s.Parse(data, dp.(*string), opts...)
		}
	case *z.PreprocessSchema[string, string]:
		// Preprocess as the execution root: Parse takes the function's argument type
		isList = true
		ds, ok := data.(string)
		if validate || !ok {
			panic(fmt.Sprintf("Exec: Preprocess[string,string] root needs Parse and a string, got validate=%v %T", validate, data))
		}
		l = s.Parse(ds, dp.(*string), opts...)
	case *z.PreprocessSchema[*string, string]:
		isList = true
		if !validate {
			panic("Exec: Preprocess[*string,string] root is the Validate form")
		}
		l = s.Validate(dp.(*string), opts...)
	default:
		panic(fmt.Sprintf("Exec: unsupported top-level schema %T", schema))
	}
	obs.IsList = isList
	obs.RawMap, obs.RawList = m, l
	obs.ByKey = map[string][]ObsIssue{}
	if isList {
		obs.Nil = l == nil
		if l != nil {
			obs.Keys = []string{"$list"}
			for _, i := range l {
				obs.ByKey["$list"] = append(obs.ByKey["$list"], obsIssue(i))
			}
			f := obsIssue(l[0])
			obs.First = &f
		}
		return
	}
	obs.Nil = m == nil
	for k, is := range m {
		if k == "$first" {
			if len(is) > 0 {
				f := obsIssue(is[0])
				obs.First = &f
			}
			if len(is) != 1 {
				obs.ByKey["$first_len"] = make([]ObsIssue, len(is))
			}
			continue
		}
		obs.Keys = append(obs.Keys, k)
		for _, i := range is {
			obs.ByKey[k] = append(obs.ByKey[k], obsIssue(i))
		}
	}
	sort.Strings(obs.Keys)
	return
}

// SanitizeDiff checks Issues.SanitizeMap / SanitizeList against what they are documented to
// return for this result: the same keys, lists of the same length and order, only the messages.
func SanitizeDiff(o *Observed) string {
	if o.RawMap != nil {
		san := z.Issues.SanitizeMap(o.RawMap)
		if len(san) != len(o.RawMap) {
			return fmt.Sprintf("SanitizeMap has %d keys, the issue map %d", len(san), len(o.RawMap))
		}
		for k, is := range o.RawMap {
			ms, ok := san[k]
			if !ok {
				return fmt.Sprintf("SanitizeMap lacks the key %q", k)
			}
			if len(ms) != len(is) {
				return fmt.Sprintf("SanitizeMap[%q] has %d messages for %d issues", k, len(ms), len(is))
			}
			for j := range is {
				if ms[j] != is[j].Message {
					return fmt.Sprintf("SanitizeMap[%q][%d] = %q, the issue's message is %q", k, j, ms[j], is[j].Message)
				}
			}
		}
	}
	if o.RawList != nil {
		ms := z.Issues.SanitizeList(o.RawList)
		if len(ms) != len(o.RawList) {
			return fmt.Sprintf("SanitizeList has %d messages for %d issues", len(ms), len(o.RawList))
		}
		for j := range o.RawList {
			if ms[j] != o.RawList[j].Message {
				return fmt.Sprintf("SanitizeList[%d] = %q, the issue's message is %q", j, ms[j], o.RawList[j].Message)
			}
		}
	}
	return ""
}
