//go:build nodirty

package eng

// DirtyPools (fallback build): the representation of the pooled objects changed in the tree under
// check, so junk-filled objects cannot be constructed from outside; pool mode "dirty" then behaves
// like "recycled".  The driver records that this fallback was used.
func DirtyPools() {}

// DirtyPoolsAvailable reports whether this build can pre-fill the pools with junk objects.
const DirtyPoolsAvailable = false
