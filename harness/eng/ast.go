// Package eng is the engine-family correspondence harness: it generates schema trees, builds the
// real zog schema and a matching destination type for each, runs Parse / Validate on generated
// inputs, observes everything the API exposes plus the harness callbacks, and prints each case as a
// Gallina term together with what the implementation did.
package eng

import (
	"fmt"
	"math"
	"time"
)

// Rng is splitmix64; every random choice of a run derives from one seed.
type Rng struct{ s uint64 }

func NewRng(seed uint64) *Rng { return &Rng{s: seed*0x9E3779B97F4A7C15 + 0x1234567} }
func (r *Rng) U64() uint64 {
	r.s += 0x9E3779B97F4A7C15
	z := r.s
	z = (z ^ (z >> 30)) * 0xBF58476D1CE4E5B9
	z = (z ^ (z >> 27)) * 0x94D049BB133111EB
	return z ^ (z >> 31)
}
func (r *Rng) Intn(n int) int {
	if n <= 0 {
		return 0
	}
	return int(r.U64() % uint64(n))
}
func (r *Rng) P(pct int) bool { return r.Intn(100) < pct }

// Fork returns a generator derived from the current state; drawing from it leaves r's own stream as it was.
func (r *Rng) Fork(salt uint64) *Rng { return &Rng{s: (r.s ^ salt) * 0x9E3779B97F4A7C15} }
func Pick[T any](r *Rng, xs []T) T { return xs[r.Intn(len(xs))] }

// Kinds of schema nodes.
const (
	KString  = "string"
	KInt     = "int"
	KInt32   = "int32"
	KInt64   = "int64"
	KFloat32 = "float32"
	KFloat64 = "float64"
	KBool    = "bool"
	KTime    = "time"
	KStruct  = "struct"
	KSlice   = "slice"
	KPtr     = "ptr"
	KCustom  = "custom" // CustomFunc[string]
	KPre     = "pre"    // Preprocess[string,string] (Parse) / Preprocess[*string,string] (Validate) around a String schema
)

func IsPrim(k string) bool {
	switch k {
	case KString, KInt, KInt32, KInt64, KFloat32, KFloat64, KBool, KTime:
		return true
	}
	return false
}
func IsIntKind(k string) bool   { return k == KInt || k == KInt32 || k == KInt64 }
func IsFloatKind(k string) bool { return k == KFloat32 || k == KFloat64 }

// Leaf is a destination leaf value (a Default, a Catch, a test parameter).
type Leaf struct {
	Kind string
	L    []Leaf // Kind == KSlice: a nested slice value (defaults of slices of slices)
	S    string
	I    int64
	F    float64
	B    bool
	T    time.Time
}

// Pred is a user test predicate (the DSL the Coq model also interprets).
type Pred struct {
	Op  string // "const", "strlen_ge", "str_eq", "int_ge", "slicelen_ge", "field_str_eq", "float_ge"
	B   bool
	N   int64
	S   string
	Key string
}

// TestSpec is one test on a node: a built-in or a user TestFunc, with its options.
type TestSpec struct {
	ID      int    // user callback identity (>0) or 0 for built-ins
	Builtin string // "" for user tests
	Not     bool   // string schemas: preceded by Not()
	N       int64
	S       string
	Strs    []string
	Ints    []int64
	F       float64
	Fs      []float64
	B       bool
	T       time.Time
	Elem    *Leaf // slice Contains
	User    *Pred
	OptMsg  *string
	OptCode *string
	OptPath *string
	OptMsgFunc bool        // the message is given through MessageFunc instead of Message
	OptParams  [][2]string // Params(...): replaces the parameters of the test (sorted by key)
}

// PTSpec is a PostTransform from the DSL.
type PTSpec struct {
	ID  int
	Op  string // "upper", "append", "add", "neg", "err", "mut_err", "issue", "setfield", "noop"
	S   string
	N   int64
	Key string
}

type Field struct {
	Key  string
	Tags map[string]string // struct tags of the destination field
	Node *Node
}

type Node struct {
	Kind string
	// primitives and slices
	Req      *TestSpec // Required(opts...) ; for pointers: NotNil(opts...)
	Def      *Leaf     // primitives
	DefSlice []Leaf    // slices: Default([]T{...}); nil = none
	Exported  bool     // struct nodes: every key is an exported Go identifier (records that can be handed over as Go structs)
	PtrCo     bool     // pointer nodes: the pointed-to primitive's coercer is installed through the pointer schema (WithCoercer(f)(Ptr(...)))
	CoList    []Leaf   // slice nodes with Coercer "const": the elements the custom slice coercer returns
	GlobalCo  bool     // Coercer/CoerceTo describe the global conf.Coercers override in effect, not a WithCoercer option
	ExtraStrs []string // further strings the oracle tables must cover (builder chains: every Default/Catch value)
	HasDef   bool
	ReqOver  bool // slices: Required() is called and then overridden by Optional() (Req == nil), or Optional() is called first and Required(...) after it (Req != nil): the last call decides
	DefOver  bool // slices: an earlier Default call is overridden by the last one (Default(x).Default(final) or Default(x).Default(nil))
	Catch    *Leaf
	Tests    []TestSpec
	PTs      []PTSpec
	// coercion options
	Layout   string // KTime: Time.Format(layout); "" = default
	Coercer  string // WithCoercer DSL: "", "const", "err"
	CoerceTo *Leaf
	// composites
	Fields []Field // KStruct, in insertion order
	Extra  []string // KStruct: names of destination fields the schema does not name (sentinels), int typed
	ExtraFirst bool // place the extras before the named fields
	Elem   *Node   // KSlice, KPtr, KPre
	// KCustom: the test is Tests[0]; KPre: PreOp
	PreOp string // "upper", "err", "trim", "issue", "wrap"
	Named bool   // KString: the destination type is the named type NamedStr (StringSchema[NamedStr])
	PreID int
	CustomMut bool // KCustom: the function also writes through the pointer it is given (upper-cases the string)
}

func strp(s string) *string { return &s }

func (l Leaf) String() string {
	switch l.Kind {
	case KString:
		return fmt.Sprintf("%q", l.S)
	case KBool:
		return fmt.Sprint(l.B)
	case KTime:
		return l.T.Format(time.RFC3339Nano)
	case KFloat32, KFloat64:
		return fmt.Sprint(l.F)
	}
	return fmt.Sprint(l.I)
}

// f32 rounds to float32 precision (for float32 leaves)
func f32(f float64) float64 {
	if math.IsNaN(f) {
		return f
	}
	return float64(float32(f))
}
