package eng

import (
	"fmt"
	"github.com/Oudwins/zog/conf"
	"github.com/Oudwins/zog/i18n/en"
	"reflect"
	"sort"
	"strings"

	z "github.com/Oudwins/zog"
	"github.com/Oudwins/zog/internals"
)

// Case is one generated (schema, input, mode) with everything observed on the implementation.
type Case struct {
	ID        int
	Validate  bool
	Schema    *Node
	In        *IVal
	Dest0     string // Gallina term, destination before the call
	Known     bool   // every struct visit followed the printed field order
	Collide   bool
	Obs       Observed
	Order     map[*Node][]string
	Wrapped   bool
	Shape     string
	ExecFmt   *string // prefix the execution's formatter puts before the code (nil: no WithIssueFormatter)
	CtxOK     bool
	Opts      []string // the call's execution options as model terms (OCtx k v / OFmt prefix), in the order passed
	CtxViews  string   // the distinct ctx.Get answers of the callbacks over the probe keys (a Gallina list)
	Repeats   []string // canonical renderings of repeated runs (C09 oracle)
	dest0v    reflect.Value
	PoolMode  string
	TypesOK   bool   // every callback received an argument of the documented dynamic type
	SchemaCoq string // Gallina schema term when the schema is given as a builder chain
	FE        string // front end the input travelled through ("" = plain Go value)
	DataCoq   string // Gallina [data] term when the input is a provider or a factory
	FEChecked bool   // the cross-front-end oracle applied
	FEDiff    string // ... and what it found
	SkipModel bool   // the case ran under a configuration the model is not given (a user-edited language map): model-free oracles only
	Sanitize  string // what Issues.SanitizeMap / SanitizeList got wrong for this result
	FEPure    string // the request was modified by Parse / a second Parse of it differs
	FENested  bool   // ... in a schema with a nested struct read from a flat source (the recorded finding)
}

func indexIDs(n *Node, m map[int]*Node) {
	for i := range n.Tests {
		if n.Tests[i].ID != 0 {
			m[n.Tests[i].ID] = n
		}
	}
	for _, p := range n.PTs {
		m[p.ID] = n
	}
	if n.Kind == KPre {
		m[n.PreID] = n
	}
	for _, f := range n.Fields {
		indexIDs(f.Node, m)
	}
	if n.Elem != nil {
		indexIDs(n.Elem, m)
	}
}

func structNodes(n *Node, out *[]*Node) {
	if n.Kind == KStruct {
		*out = append(*out, n)
	}
	for _, f := range n.Fields {
		structNodes(f.Node, out)
	}
	if n.Elem != nil {
		structNodes(n.Elem, out)
	}
}

func hasIssuePath(n *Node) bool {
	chk := func(t *TestSpec) bool { return t != nil && t.OptPath != nil }
	if chk(n.Req) {
		return true
	}
	for i := range n.Tests {
		if chk(&n.Tests[i]) {
			return true
		}
	}
	for _, p := range n.PTs {
		if p.Op == "issue" || p.Op == "bare_issue" {
			return true
		}
	}
	if n.Kind == KPre && n.PreOp == "issue" {
		return true
	}
	for _, f := range n.Fields {
		if hasIssuePath(f.Node) {
			return true
		}
	}
	if n.Elem != nil {
		return hasIssuePath(n.Elem)
	}
	return false
}

// Shape is a coarse structural hash of a schema (for counting distinct cases).
func Shape(n *Node) string {
	var b strings.Builder
	var w func(n *Node)
	w = func(n *Node) {
		b.WriteString(n.Kind)
		if n.Req != nil {
			b.WriteString("R")
		}
		if n.Def != nil || n.HasDef {
			b.WriteString("D")
		}
		if n.Catch != nil {
			b.WriteString("C")
		}
		fmt.Fprintf(&b, "t%dp%d", len(n.Tests), len(n.PTs))
		if len(n.Fields) > 0 {
			b.WriteString("{")
			for _, f := range n.Fields {
				w(f.Node)
				b.WriteString(",")
			}
			b.WriteString("}")
		}
		if n.Elem != nil {
			b.WriteString("<")
			w(n.Elem)
			b.WriteString(">")
		}
	}
	w(n)
	return b.String()
}

func copyDest(t reflect.Type, v reflect.Value) reflect.Value {
	d := reflect.New(t)
	d.Elem().Set(deepCopy(v))
	return d
}

// canon renders an observation for the repeated-run comparison (order-insensitive where the API is).
func (o *Observed) canon(n *Node) string {
	var b strings.Builder
	fmt.Fprintf(&b, "panic=%v nil=%v\n", o.Panic != "", o.Nil)
	for _, k := range o.Keys {
		var kb strings.Builder
		var parts []string
		for _, i := range o.ByKey[k] {
			// the property (C09) speaks of issues from required checks, coercion and tests; an issue that
			// wraps a PostTransform's own error (or is the ZogIssue a callback returned) is not one of them
			if (i.Code == "" && i.HasErr) || i.Code == "user_code" {
				continue
			}
			parts = append(parts, fmt.Sprintf(" {%s|%s|%s|%v|%s}", i.Path, i.Code, i.Dtype, i.Params, i.Message))
		}
		if hasIssuePath(n) {
			// a key that tests of several nodes report under (IssuePath) lists them in visit order:
			// the same issues, their order within the key is not compared
			sort.Strings(parts)
		}
		kb.WriteString(strings.Join(parts, ""))
		if kb.Len() > 0 {
			fmt.Fprintf(&b, "%q:%s\n", k, kb.String())
		}
	}
	if o.Nil {
		b.WriteString(CoqDval(o.Dest, n))
	}
	return b.String()
}

var ctxProbe = []string{"k1", "k2", "k3", "k4", "k5", "k6", "k7", "k8"}

// NewCase generates and runs one case.
// installGlobal overrides conf.Coercers for one kind (String, Bool or Time) with a constant or
// failing coercer, marks the nodes it applies to (the model is given the same coercer for exactly
// those) and returns the function that restores the configuration.
func (g *Gen) installGlobal(root *Node) func() {
	kind := Pick(g.R, []string{KString, KBool, KTime, KTime})
	present := map[string]bool{}
	var scan func(x *Node)
	scan = func(x *Node) {
		present[x.Kind] = true
		for _, f := range x.Fields {
			scan(f.Node)
		}
		if x.Elem != nil {
			scan(x.Elem)
		}
	}
	scan(root)
	for _, k := range []string{KTime, KBool, KString} { // prefer a kind the schema contains
		if present[k] && !present[kind] {
			kind = k
		}
	}
	ov := &Node{Kind: kind, Coercer: "err"}
	if g.R.P(70) {
		l := g.leaf(kind)
		ov.Coercer, ov.CoerceTo = "const", &l
	}
	var mark func(x *Node)
	mark = func(x *Node) {
		if x.Kind == kind && x.Coercer == "" && !(kind == KTime && x.Layout != "") {
			x.GlobalCo, x.Coercer, x.CoerceTo = true, ov.Coercer, ov.CoerceTo
		}
		for _, f := range x.Fields {
			mark(f.Node)
		}
		if x.Elem != nil {
			mark(x.Elem)
		}
	}
	mark(root)
	saved := conf.Coercers
	f := customCoercer(ov)
	switch kind {
	case KString:
		conf.Coercers.String = f
	case KBool:
		conf.Coercers.Bool = f
	case KTime:
		conf.Coercers.Time = f
	}
	return func() { conf.Coercers = saved }
}

// acceptable: does the implementation report no issues for one of a few generated inputs?
func (g *Gen) acceptable(n *Node, validate bool) bool {
	t := TypeOf(n)
	probe := Build(&Recorder{}, n, validate)
	for try := 0; try < 6; try++ {
		var o Observed
		if validate {
			o = Exec(probe, true, nil, copyDest(t, g.DestValue(n, t, false)), &Recorder{})
		} else {
			in := g.Input(n)
			o = Exec(probe, false, in.Go(nil), reflect.New(t), &Recorder{})
		}
		if o.Panic == "" && o.Nil {
			return true
		}
	}
	return false
}

func NewCase(g *Gen, id int, forceValidate *bool) *Case {
	n := g.Schema()
	validate := g.R.P(40)
	if forceValidate != nil {
		validate = *forceValidate
	}
	if g.manyNil && forceValidate == nil {
		validate = true
		g.longNil = true
		defer func() { g.longNil = false }()
	}
	if g.P.NilBias {
		// prefer schemas some input of which the implementation accepts
		for try := 0; try < 8 && !g.acceptable(n, validate); try++ {
			n = g.Schema()
		}
	}
	c := &Case{ID: id, Validate: validate, Schema: n, Collide: hasIssuePath(n), Shape: Shape(n)}
	rec := &Recorder{CtxKeys: ctxProbe}
	if g.P.PGlobal > 0 && g.R.P(g.P.PGlobal) {
		// a global coercer override: every schema of that kind built without its own coercer / layout uses it
		defer g.installGlobal(n)()
		c.Shape += ":global"
	}
	if g.P.PCustomTpl > 0 && g.R.P(g.P.PCustomTpl) {
		// a user-edited language map whose templates name two parameters, on tests that carry both: the message
		// is a function of the issue, not of the order in which its parameters are met (judged by the repeat oracle)
		twoParams(n, g.R)
		c.Shape += ":twoparams"
		if g.R.P(50) {
			defer installTwoParamTemplates()()
			c.SkipModel = true // (the model formats with the shipped templates)
		}
	}
	schema := Build(rec, n, validate)
	t := TypeOf(n)

	// execution options: context values (checked by the callbacks' ctx.Get)
	ctxVals := map[string]any{}
	var opts []z.ExecOption
	fork := g.R.Fork(0x0b7105)
	if g.R.P(50) {
		ctxVals["k1"] = fmt.Sprintf("v%d", g.R.Intn(100))
		opts = append(opts, z.WithCtxValue("k1", ctxVals["k1"]))
		c.Opts = append(c.Opts, fmt.Sprintf("OCtx \"k1\" %s", CoqStr(fmt.Sprint(ctxVals["k1"]))))
	}
	if g.R.P(12) {
		tag := fmt.Sprintf("F%d:", g.R.Intn(100))
		if fork.P(25) {
			// a formatter option that a later one replaces
			opts = append(opts, z.WithIssueFormatter(func(i *z.ZogIssue, _ z.Ctx) { i.SetMessage("replaced:" + i.Code) }))
			c.Opts = append(c.Opts, `OFmt "replaced:" None`)
		}
		c.ExecFmt = &tag
		opts = append(opts, z.WithIssueFormatter(func(i *z.ZogIssue, _ z.Ctx) { i.SetMessage(tag + i.Code) }))
		c.Opts = append(c.Opts, "OFmt "+CoqStr(tag)+" None")
	}
	if fork.P(20) {
		// the same key again, and other keys, after the formatter: the last value of a key is the one read
		for _, k := range []string{"k1", "k3", "k1"}[:1+fork.Intn(3)] {
			ctxVals[k] = fmt.Sprintf("w%d", fork.Intn(100))
			opts = append(opts, z.WithCtxValue(k, ctxVals[k]))
			c.Opts = append(c.Opts, fmt.Sprintf("OCtx %s %s", CoqStr(k), CoqStr(fmt.Sprint(ctxVals[k]))))
		}
	}

	var dest0 reflect.Value
	var structData func() any
	if validate {
		g.aliasPtrs = true
		defer func() { g.aliasPtrs = false }()
		dest0 = g.DestValue(n, t, false)
		if g.P.NilBias {
			// prefer a value the implementation accepts: the "no issues" premise of C01 must be met often
			probe := Build(&Recorder{}, n, true)
			for try := 0; try < 10; try++ {
				if o := Exec(probe, true, nil, copyDest(t, dest0), &Recorder{}); o.Panic != "" || o.Nil {
					break
				}
				dest0 = g.DestValue(n, t, false)
			}
		}
	} else {
		in := g.Input(n)
		if g.P.NilBias {
			probe := Build(&Recorder{}, n, false)
			for try := 0; try < 10; try++ {
				if o := Exec(probe, false, in.Go(nil), reflect.New(t), &Recorder{}); o.Panic != "" || o.Nil {
					break
				}
				in = g.Input(n)
			}
		}
		c.In = &in
		if n.Kind == KStruct && in.Kind == "map" && ((n.Exported && g.R.P(80)) || g.R.P(3)) {
			// the record handed over as a Go struct value (falsy fields are values, not absent)
			if vis, mk, ok := StructInput(in, g.R.Fork(0x51a7).Intn(5)); ok { // (variants 1-3: embedded structs, 0 and 4: flat)
				c.In = &vis
				structData = mk
				c.Shape += ":structinput"
			}
		}
		if g.R.P(g.P.PPrefill) {
			dest0 = g.DestValue(n, t, false)
		} else {
			dest0 = reflect.Zero(t)
		}
	}
	c.Dest0 = CoqDval(dest0, n)
	c.dest0v = dest0
	c.Wrapped = !validate && g.R.P(75) && structData == nil

	var structs []*Node
	structNodes(n, &structs)
	// a struct below a slice is visited once per element; visits on nil / non-map elements are not
	// recorded, so the recorded order says nothing about them
	underSlice := map[*Node]bool{}
	var mark func(x *Node, below bool)
	mark = func(x *Node, below bool) {
		if x.Kind == KStruct && below {
			underSlice[x] = true
		}
		for _, f := range x.Fields {
			mark(f.Node, below)
		}
		if x.Elem != nil {
			mark(x.Elem, below || x.Kind == KSlice)
		}
	}
	mark(n, false)

	// pooled objects: freshly allocated (path builders at their initial capacity, ...), whatever the
	// previous cases left behind, or *dirty* objects with every field set to junk (what sync.Pool may
	// legitimately hand out after arbitrary earlier executions)
	c.PoolMode = Pick(g.R, []string{"fresh", "recycled", "dirty", "dirty"})
	poolMode := c.PoolMode
	// the schema value is not tied to one destination type: sometimes it first meets a second
	// destination type with the same fields laid out in the opposite order
	altFirst := len(structs) > 0 && g.R.P(20)
	altT := TypeOfAlt(n)
	var altDest0 reflect.Value
	if altFirst {
		if validate {
			altDest0 = g.DestValue(n, altT, false)
		} else {
			altDest0 = reflect.Zero(altT)
		}
		c.Shape += ":altfirst"
	}
	run := func() (Observed, map[*Node][]string, bool) {
		if altFirst {
			var d any
			if !validate {
				d = c.In.Go(nil)
			}
			Exec(schema, validate, d, copyDest(altT, altDest0), rec, opts...)
		}
		switch poolMode {
		case "fresh":
			internals.ClearPools()
		case "dirty":
			DirtyPools()
			defer internals.ClearPools()
		}
		dest := copyDest(t, dest0)
		var data any
		log := &orderLog{visits: map[*Node][][]string{}}
		if !validate {
			switch {
			case structData != nil:
				data = structData()
			case c.Wrapped:
				data = c.In.Go(log)
			default:
				data = c.In.Go(nil)
			}
		}
		obs := Exec(schema, validate, data, dest, rec, opts...)
		order := map[*Node][]string{}
		known := true
		for _, s := range structs {
			if len(s.Fields) <= 1 {
				continue
			}
			vs := log.visits[s]
			if validate || !c.Wrapped || len(vs) == 0 || underSlice[s] {
				// no recording provider saw this struct (nil or non-map data, or an unwrapped input):
				// the order its fields were visited in is not known
				known = false
				continue
			}
			for _, v := range vs {
				if len(v) != len(s.Fields) || fmt.Sprint(v) != fmt.Sprint(vs[0]) {
					known = false
				}
			}
			if len(vs) > 0 && len(vs[0]) == len(s.Fields) {
				order[s] = vs[0]
			}
		}
		return obs, order, known
	}
	for try := 0; try < 8; try++ {
		c.Obs, c.Order, c.Known = run()
		c.Repeats = append(c.Repeats, c.Obs.canon(n))
		if c.Sanitize == "" {
			c.Sanitize = SanitizeDiff(&c.Obs)
		}
		if c.Known {
			break
		}
	}
	// repetitions: the same schema built with reshuffled key insertion orders (the runtime's iteration
	// order is a function of insertion order and a random start), under rotating pool states
	nrep := 3
	if g.P.Repeats > nrep {
		nrep = g.P.Repeats
	}
	modes := []string{"fresh", "dirty", "recycled"}
	for k := 0; len(c.Repeats) < nrep; k++ {
		schema = Build(rec, shuffled(g.R, n), validate)
		poolMode = modes[k%len(modes)]
		o, _, _ := run()
		c.Repeats = append(c.Repeats, o.canon(n))
	}
	// callbacks: argument rendering and context check
	ids := map[int]*Node{}
	indexIDs(n, ids)
	c.CtxOK = true
	c.TypesOK = true
	for i := range c.Obs.Calls {
		cr := &c.Obs.Calls[i]
		node := ids[cr.ID]
		if want := expectedArgType(node, cr.Kind, validate); want != "" && want != cr.Type {
			c.TypesOK = false
		}
		switch {
		case cr.Nil || cr.Arg == nil:
			cr.coqArg = "None"
		default:
			cr.coqArg = "(Some " + CoqDval(reflect.ValueOf(cr.Arg), argNode(node, cr.Kind)) + ")"
		}
		for _, k := range ctxProbe {
			if !reflect.DeepEqual(cr.Ctx[k], ctxVals[k]) {
				c.CtxOK = false
			}
		}
	}
	c.CtxViews = ctxViews(c.Obs.Calls)
	return c
}

// ctxViews renders the distinct answers the callbacks got from ctx.Get over the probe keys.
func ctxViews(calls []CallRec) string {
	seen := map[string]bool{}
	var views []string
	for i := range calls {
		var kv []string
		for _, k := range ctxProbe {
			v := "None"
			if x := calls[i].Ctx[k]; x != nil {
				v = "(Some " + CoqStr(fmt.Sprint(x)) + ")"
			}
			kv = append(kv, "("+CoqStr(k)+", "+v+")")
		}
		view := "[" + strings.Join(kv, "; ") + "]"
		if !seen[view] {
			seen[view] = true
			views = append(views, view)
		}
	}
	return "[" + strings.Join(views, "; ") + "]"
}

// expectedArgType: the documented dynamic type of a callback's argument - the value itself for
// primitive TestFuncs, a pointer to the destination for everything else.
func expectedArgType(n *Node, kind string, validate bool) string {
	if n == nil {
		return ""
	}
	switch kind {
	case "test":
		if IsPrim(n.Kind) {
			return TypeOf(n).String()
		}
		return "*" + TypeOf(n).String()
	case "pt", "custom":
		return "*" + TypeOf(n).String()
	case "pre":
		if validate {
			return "*string"
		}
		return "<nil>" // the Parse-mode probe records no argument
	}
	return ""
}

// argNode: the node whose destination type the callback argument has.
func argNode(n *Node, kind string) *Node {
	if n.Kind == KPre && kind == "pre" {
		return &Node{Kind: KString}
	}
	return n
}

// RepeatsAgree: the model-free C09 oracle — every repetition exposed the same result.
func (c *Case) RepeatsAgree() bool {
	for _, r := range c.Repeats[1:] {
		if r != c.Repeats[0] {
			return false
		}
	}
	return true
}

// Coq prints the case as an [ecase] term.
func (c *Case) Coq() string {
	mode := "Parse"
	data := "(DVal VNil)"
	if c.Validate {
		mode = "Validate"
	} else if c.DataCoq != "" {
		data = c.DataCoq
	} else {
		data = "(DVal " + CoqIVal(*c.In) + ")"
	}
	optTerms := c.Opts
	if optTerms == nil && c.ExecFmt != nil {
		optTerms = []string{"OFmt " + CoqStr(*c.ExecFmt) + " None"}
	}
	views := c.CtxViews
	if views == "" {
		views = "[]"
	}
	ef := "[" + strings.Join(optTerms, "; ") + "] " + views
	return fmt.Sprintf("  (%s\n   EC %d %s %s\n     %s\n     %s %s %s %s %s %s\n     %s)",
		c.oracles(), c.ID, mode, c.schemaCoq(), data, c.Dest0,
		CoqBool(c.Known), CoqBool(c.Collide), CoqBool(c.CtxOK && c.TypesOK), CoqBool(c.RepeatsAgree()), ef, CoqObserved(&c.Obs, c.Schema))
}

func (c *Case) schemaCoq() string {
	if c.SchemaCoq != "" {
		return c.SchemaCoq
	}
	return CoqSchema(c.Schema, c.Order)
}

func (c *Case) oracles() string {
	// destination strings matter in Validate (tests run on them)
	return Oracles(c.Schema, c.In, c.dest0v)
}

// Stats summarises the input distribution of a batch.
type Stats struct {
	Cases, Validate, Known, Wrapped, Panics, WithIssues, NilResult int
	Kinds                                                          map[string]int
	Codes                                                          map[string]int
	Shapes                                                         map[string]bool
	Outcomes                                                       map[string]bool
}

func NewStats() *Stats {
	return &Stats{Kinds: map[string]int{}, Codes: map[string]int{}, Shapes: map[string]bool{}, Outcomes: map[string]bool{}}
}

func (s *Stats) Add(c *Case) {
	s.Cases++
	if c.Validate {
		s.Validate++
	}
	if c.FE != "" {
		s.Kinds["fe:"+c.FE]++
	}
	if c.PoolMode != "" {
		s.Kinds["pools:"+c.PoolMode]++
	}
	if c.FEChecked {
		s.Kinds["fe:cross-front-end oracle applied"]++
	}
	if c.Known {
		s.Known++
	}
	if c.Wrapped {
		s.Wrapped++
	}
	if c.Obs.Panic != "" {
		s.Panics++
	}
	if c.Obs.Nil {
		s.NilResult++
	} else {
		s.WithIssues++
	}
	var w func(n *Node)
	w = func(n *Node) {
		s.Kinds[n.Kind]++
		for _, f := range n.Fields {
			w(f.Node)
		}
		if n.Elem != nil {
			w(n.Elem)
		}
	}
	w(c.Schema)
	var codes []string
	for _, k := range c.Obs.Keys {
		for _, i := range c.Obs.ByKey[k] {
			code := i.Code
			if strings.HasPrefix(code, "code") {
				code = "(IssueCode option)"
			}
			s.Codes[code]++
			codes = append(codes, i.Code)
		}
	}
	sort.Strings(codes)
	s.Shapes[c.Shape] = true
	// non-trivial: something other than "everything present and valid" happened
	if !c.Obs.Nil || len(c.Obs.Calls) > 0 {
		s.Outcomes[c.Shape+"|"+strings.Join(codes, ",")+fmt.Sprint(c.Validate)] = true
	}
}

// shuffled copies the schema tree with the fields of every struct in a random order (the order in
// which the keys are inserted into the z.Schema map).
func shuffled(r *Rng, n *Node) *Node {
	c := *n
	if n.Elem != nil {
		c.Elem = shuffled(r, n.Elem)
	}
	if len(n.Fields) > 0 {
		c.Fields = make([]Field, len(n.Fields))
		for i, f := range n.Fields {
			c.Fields[i] = Field{Key: f.Key, Tags: f.Tags, Node: shuffled(r, f.Node)}
		}
		for i := len(c.Fields) - 1; i > 0; i-- {
			j := r.Intn(i + 1)
			c.Fields[i], c.Fields[j] = c.Fields[j], c.Fields[i]
		}
	}
	return &c
}

// installTwoParamTemplates appends a second placeholder to every template of the default language map.
func installTwoParamTemplates() func() {
	saved := map[string]map[string]string{}
	for typ, codes := range en.Map {
		saved[typ] = map[string]string{}
		for code, tpl := range codes {
			saved[typ][code] = tpl
			if code != "fallback" {
				codes[code] = tpl + " [{{hint}}] [{{limit}}]"
			}
		}
	}
	return func() {
		for typ, codes := range saved {
			for code, tpl := range codes {
				en.Map[typ][code] = tpl
			}
		}
	}
}

// twoParams gives the length and comparison tests of a schema (those whose parameter is named after
// their code) a Params option holding that parameter and two more.
func twoParams(n *Node, r *Rng) {
	for i := range n.Tests {
		t := &n.Tests[i]
		if t.OptMsg != nil || t.OptCode != nil || t.Not {
			continue
		}
		switch {
		case n.Kind == KString && (t.Builtin == "min" || t.Builtin == "max" || t.Builtin == "len"),
			(n.Kind == KInt || n.Kind == KInt64 || n.Kind == KInt32) && (t.Builtin == "gt" || t.Builtin == "gte" || t.Builtin == "lt" || t.Builtin == "lte"):
			own := fmt.Sprint(t.N)
			if r.P(35) {
				own = Pick(r, []string{"{{hint}}", "{{limit}} or {{hint}}", "{{value}}"}) // a value that spells another placeholder is text
			}
			t.OptParams = [][2]string{{"hint", fmt.Sprintf("h%d", r.Intn(100))}, {"limit", fmt.Sprint(r.Intn(50))}, {t.Builtin, own}}
			sort.Slice(t.OptParams, func(a, b int) bool { return t.OptParams[a][0] < t.OptParams[b][0] })
		}
	}
	for _, f := range n.Fields {
		twoParams(f.Node, r)
	}
	if n.Elem != nil {
		twoParams(n.Elem, r)
	}
}
