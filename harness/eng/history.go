package eng

import (
	"bytes"
	"encoding/json"
	"fmt"
	"github.com/Oudwins/zog/conf"
	"github.com/Oudwins/zog/i18n"
	"github.com/Oudwins/zog/i18n/en"
	"github.com/Oudwins/zog/i18n/es"
	"github.com/Oudwins/zog/zconst"
	"github.com/Oudwins/zog/zhttp"
	"net/http"
	"net/url"
	"reflect"
	"regexp"
	"runtime"
	"runtime/debug"
	"sort"
	"strings"

	z "github.com/Oudwins/zog"
	"github.com/Oudwins/zog/internals"
)

// ---- C07: each execution is isolated from every other ---------------------------------------------

var addrRE = regexp.MustCompile(`0x[0-9a-f]{6,}`)

// fullCanon renders everything one execution exposed: every field of every issue, the destination,
// and what ctx.Get returned inside every callback.
func fullCanon(o *Observed, n *Node) string {
	var b strings.Builder
	fmt.Fprintf(&b, "panic=%q nil=%v\n", o.Panic, o.Nil)
	issue := func(i *z.ZogIssue) string {
		var ks []string
		for k, v := range i.Params {
			ks = append(ks, fmt.Sprintf("%s=%v", k, v))
		}
		sort.Strings(ks)
		val := valStr(reflect.ValueOf(i.Value), 0)
		if hasPT(n) && (i.Dtype == "struct" || i.Dtype == "slice") {
			val = "(a composite that order-dependent PostTransforms may have written)"
		}
		// (a user template may quote the value, which for most issues is a pointer: addresses are not compared)
		return fmt.Sprintf("{code=%s path=%s dtype=%s params=%v msg=%q value=%s err=%v}", i.Code, i.Path, i.Dtype, ks, addrRE.ReplaceAllString(i.Message, "<addr>"), val, i.Err)
	}
	if o.RawList != nil {
		for _, i := range o.RawList {
			b.WriteString("  " + issue(i) + "\n")
		}
	}
	var keys []string
	for k := range o.RawMap {
		keys = append(keys, k)
	}
	sort.Strings(keys)
	for _, k := range keys {
		if k == "$first" { // which issue is first depends on the visit order
			fmt.Fprintf(&b, "%q: %d issue(s)\n", k, len(o.RawMap[k]))
			continue
		}
		var xs []string
		for _, i := range o.RawMap[k] {
			if (i.Code == "" && i.Err != nil) || i.Code == "user_code" {
				continue // a PostTransform's own error: gated on the execution-wide error state, order-dependent
			}
			if hasPT(n) && (i.Dtype == "struct" || i.Dtype == "slice") {
				// the verdict of a test on a composite may depend on what those gated PostTransforms wrote
				// below it, hence on this run's field visit order (the recorded C09 finding); the comparison
				// with the model (under the run's own order) still covers these issues
				continue
			}
			xs = append(xs, issue(i))
		}
		if len(xs) > 0 {
			fmt.Fprintf(&b, "%q: %s\n", k, strings.Join(xs, " "))
		}
	}
	var cs []string
	for _, c := range o.Calls {
		if c.Kind == "pt" {
			continue
		}
		cs = append(cs, fmt.Sprintf("%d:%s ctx=%v", c.ID, c.Kind, c.Ctx))
	}
	sort.Strings(cs)
	b.WriteString(strings.Join(cs, "\n") + "\n")
	if o.Nil {
		b.WriteString(CoqDval(o.Dest, n))
	}
	return b.String()
}

// aliased: does one result contain the same issue object twice (other than $first, which is
// documented to be the first issue again)?
func aliased(o *Observed) string {
	seen := map[*z.ZogIssue]string{}
	for k, is := range o.RawMap {
		if k == "$first" {
			continue
		}
		for _, i := range is {
			if prev, ok := seen[i]; ok {
				return fmt.Sprintf("one issue object appears under %q and under %q", prev, k)
			}
			seen[i] = k
		}
	}
	seenL := map[*z.ZogIssue]bool{}
	for _, i := range o.RawList {
		if seenL[i] {
			return "one issue object appears twice in the list"
		}
		seenL[i] = true
	}
	return ""
}

type execSpec struct {
	node     *Node
	schema   z.ZogSchema
	validate bool
	in       *IVal
	dest0    reflect.Value
	t        reflect.Type
	opts     []z.ExecOption
	rec      *Recorder
	fmtTag   *string
	ctxVals  map[string]any // what this call passes through WithCtxValue
	optTerms []string       // the options as model terms, in the order passed
	factory  func() any     // history steps only: a front-end request whose body cannot be decoded
}

// heldCanon renders a result object completely, the $first entry included (the same object is rendered twice:
// when it was returned and after later calls), and says whether the $first issue is filed under its own path.
func heldCanon(o *Observed, n *Node) string {
	c := fullCanon(o, n)
	if f := o.RawMap["$first"]; len(f) > 0 && f[0] != nil {
		key := f[0].Path
		if key == "" {
			key = "$root"
		}
		filed := false
		for _, i := range o.RawMap[key] {
			if i == f[0] {
				filed = true
			}
		}
		c += fmt.Sprintf("\n$first = {code=%s path=%s msg=%q} filed under its own key: %v", f[0].Code, f[0].Path, addrRE.ReplaceAllString(f[0].Message, "<addr>"), filed)
	}
	return c
}

type heldResult struct {
	obs   *Observed
	node  *Node
	canon string
	step  int
}

// sharedCtxOpt is one option value reused by calls of every case (options are values a program may keep).
var sharedCtxOpt = z.WithCtxValue("k8", "shared")

var sharedFmtOpt = z.WithIssueFormatter(func(i *z.ZogIssue, _ z.Ctx) {
	if i.Code != "required" {
		i.SetMessage("S:" + i.Code)
	}
})

func (g *Gen) execSpec() *execSpec { return g.execSpecFor(g.Schema()) }

func (g *Gen) execSpecFor(n *Node) *execSpec {
	e := &execSpec{node: n, validate: g.R.P(40), rec: &Recorder{CtxKeys: ctxProbe}}
	e.schema = Build(e.rec, n, e.validate)
	e.t = TypeOf(n)
	if e.validate {
		e.dest0 = g.DestValue(n, e.t, false)
	} else {
		in := g.Input(n)
		e.in = &in
		e.dest0 = reflect.Zero(e.t)
	}
	e.ctxVals = map[string]any{}
	setCtx := func(k string, v any) {
		e.ctxVals[k] = v
		e.opts = append(e.opts, z.WithCtxValue(k, v))
		e.optTerms = append(e.optTerms, fmt.Sprintf("OCtx %s %s", CoqStr(k), CoqStr(fmt.Sprint(v))))
	}
	if g.R.Fork(0x5ca1ab1e).P(35) {
		// an option value created once for the whole process and passed to many calls, ahead of the call's own options
		e.ctxVals["k8"] = "shared"
		e.opts = append(e.opts, sharedCtxOpt)
		e.optTerms = append(e.optTerms, `OCtx "k8" "shared"`)
	}
	if g.R.P(45) {
		setCtx("k1", fmt.Sprintf("v%d", g.R.Intn(100)))
	}
	if g.R.P(25) {
		setCtx("k2", g.R.Intn(100))
	}
	if g.R.P(15) {
		// many context values in one call (stores with an inline part and a spill-over part)
		for _, k := range ctxProbe[2 : 2+g.R.Intn(7)] {
			setCtx(k, g.R.Intn(100))
		}
	}
	if g.R.P(20) {
		tag := fmt.Sprintf("F%d:", g.R.Intn(100))
		e.fmtTag = &tag
		e.opts = append(e.opts, z.WithIssueFormatter(func(i *z.ZogIssue, c z.Ctx) { i.SetMessage(tag + i.Code) }))
		e.optTerms = append(e.optTerms, "OFmt "+CoqStr(tag)+" None")
	}
	if g.R.Fork(0xf0f0).P(25) {
		// a formatter option kept by the program and passed to many calls; it leaves `required` issues without a
		// message (they stay without one: a formatter is not chained to the one it replaced)
		e.opts = append(e.opts, sharedFmtOpt)
		e.optTerms = append(e.optTerms, `OFmt "S:" (Some "required")`)
		tag := "S:"
		e.fmtTag = &tag
	}
	return e
}

func (e *execSpec) run() Observed { return e.runWith(e.rec) }

func (e *execSpec) runWith(rec *Recorder) Observed {
	dest := copyDest(e.t, e.dest0)
	var data any
	if e.factory != nil {
		data = e.factory()
	} else if !e.validate {
		data = e.in.Go(nil)
	}
	return Exec(e.schema, e.validate, data, dest, rec, e.opts...)
}

// NewHistoryCase: a probe execution is run (a) on freshly cleared pools, (b) after a random history
// of other executions whose results are (or are not) handed back through the Collect / Sanitize
// helpers, (c) on pools that hand out dirty objects.  All three must expose the same result.
func NewHistoryCase(g *Gen, id int) (*Case, []string, string) {
	old := debug.SetGCPercent(-1) // sync.Pool is emptied by the collector: keep the recycled objects alive
	defer debug.SetGCPercent(old)
	runtime.LockOSThread() // the pools are per-P: stay on one
	defer runtime.UnlockOSThread()
	// the global configuration of the moment: sometimes a user-edited default language map whose
	// templates quote the offending value (a message then differs from call to call)
	customMap := g.R.P(15)
	if customMap {
		saved := map[string]map[string]string{}
		for typ, codes := range en.Map {
			saved[typ] = map[string]string{}
			for code, tpl := range codes {
				saved[typ][code] = tpl
				if !strings.Contains(tpl, "{{") && code != "fallback" { // (the fallback text is used verbatim, without substitution)
					codes[code] = "'{{value}}': " + tpl
				}
			}
		}
		// ... and a template of its own for coercion failures (their value is the input itself, not a pointer)
		added := []string{}
		for typ, codes := range en.Map {
			if _, ok := codes["coerce"]; !ok {
				codes["coerce"] = "'{{value}}': cannot be read as " + typ
				added = append(added, typ)
			}
		}
		defer func() {
			for typ, codes := range saved {
				for code, tpl := range codes {
					en.Map[typ][code] = tpl
				}
			}
			for _, typ := range added {
				delete(en.Map[typ], "coerce")
			}
		}()
	}
	// ... sometimes the i18n formatter (en, es; default en): the language of a call is the one its own
	// WithCtxValue("lang", ...) names - or the default - whatever language earlier calls were answered in
	i18nOn := g.R.Fork(0x118).P(18)
	langOpt := func(e *execSpec, f *Rng) {
		if l := Pick(f, []string{"", "en", "es", "es", "fr"}); l != "" {
			e.opts = append(e.opts, z.WithCtxValue("lang", l))
		}
	}
	if i18nOn {
		savedFmt := conf.IssueFormatter
		i18n.SetLanguagesErrsMap(map[string]zconst.LangMap{"en": en.Map, "es": es.Map}, "en")
		defer func() { conf.IssueFormatter = savedFmt }()
	}
	probe := g.execSpec()
	primed := false
	if i18nOn && g.R.Fork(0x11f).P(35) {
		// directed: the call's first issue brings its own message, a later one is left to the language formatter
		g2 := &Gen{R: g.R.Fork(0x120), P: g.P, nextID: 600}
		own := "own message"
		str := func() *Node {
			return &Node{Kind: KString, Tests: []TestSpec{{Builtin: "min", N: 5, OptMsg: &own}, {Builtin: "contains", S: "zz"}, {Builtin: "max", N: 2}}}
		}
		n2 := str()
		in := strV("abc")
		if g2.R.P(50) {
			n2 = &Node{Kind: KSlice, Elem: str()}
			in = IVal{Kind: "list", L: []IVal{strV("abc"), strV("abcd")}}
		}
		probe = g2.execSpecFor(n2)
		probe.validate = false
		probe.schema = Build(probe.rec, n2, false)
		probe.in = &in
		probe.dest0 = reflect.Zero(probe.t)
		primed = true
	}
	if i18nOn {
		langOpt(probe, g.R.Fork(0x119))
	}
	if f := g.R.Fork(0xc7c8); f.P(12) {
		// directed: a slice whose Default is run through an item schema with a user test, parsed from nothing
		g2 := &Gen{R: f, P: g.P, nextID: 500}
		item := &Node{Kind: KString, Tests: []TestSpec{{ID: g2.id(), User: &Pred{Op: "const", B: true}}}}
		n2 := &Node{Kind: KSlice, Elem: item, HasDef: true, DefSlice: []Leaf{{Kind: KString, S: "abc"}, {Kind: KString, S: "de"}}}
		if f.P(50) {
			n2 = &Node{Kind: KStruct, Fields: []Field{{Key: "tags", Node: n2}, {Key: "name", Node: &Node{Kind: KString}}}}
		}
		probe = g2.execSpecFor(n2)
		probe.validate = false
		probe.schema = Build(probe.rec, n2, false)
		in := nilV()
		if n2.Kind == KStruct {
			in = IVal{Kind: "map", node: n2, M: []IKV{{K: "name", V: strV("x")}}}
		}
		probe.in = &in
		probe.dest0 = reflect.Zero(probe.t)
		primed = true
	}
	probeData := ""
	if !probe.validate && (probe.node.Kind == KStruct || (probe.node.Kind == KPtr && probe.node.Elem.Kind == KStruct)) && g.R.P(20) {
		// the probed call itself is a request whose body cannot be decoded: exactly one front-end issue,
		// carrying nothing of earlier calls
		body := Pick(g.R, []string{`{"a":`, `null`, ``, `[1]`, "a=%zz"})
		ct, code := "application/json", "invalid_json"
		if body == "a=%zz" {
			ct, code = "application/x-www-form-urlencoded", "invalid_form"
		}
		probe.factory = func() any {
			r, _ := http.NewRequest("POST", "http://example.com/p", strings.NewReader(body))
			r.Header.Set("Content-Type", ct)
			return zhttp.Request(r)
		}
		probeData = `(DFactory (FErr "` + code + `" ""))`
	}
	n := probe.node
	var probeStructs []*Node
	structNodes(n, &probeStructs)
	if len(probeStructs) > 0 && probe.factory == nil && g.R.P(25) {
		// the schema object's very first execution is on another destination type (the same fields laid
		// out in the opposite order): nothing of that may stay behind in the schema
		altT := TypeOfAlt(n)
		altDest := reflect.Zero(altT)
		if probe.validate {
			altDest = g.DestValue(n, altT, false)
		}
		var d any
		if !probe.validate {
			d = probe.in.Go(nil)
		}
		Exec(probe.schema, probe.validate, d, copyDest(altT, altDest), &Recorder{}, probe.opts...)
	}
	if primed || g.R.Fork(0xc7c7).P(45) {
		// user tests that depend on the call's context values; the schema object is first used by a call with
		// other values (whatever it may remember of that call is not this call's)
		var conv func(x *Node)
		conv = func(x *Node) {
			for i := range x.Tests {
				if u := x.Tests[i].User; u != nil && u.Op == "const" {
					u.Op, u.S = "ctx_k1_eq", "prime"
					u.B = fmt.Sprint(probe.ctxVals["k1"]) == "prime" // (never: the probe's k1 is absent or "vNN")
				}
			}
			for _, f := range x.Fields {
				conv(f.Node)
			}
			if x.Elem != nil {
				conv(x.Elem)
			}
		}
		conv(n)
		var d any
		if probe.factory != nil {
			d = probe.factory()
		} else if !probe.validate {
			d = probe.in.Go(nil)
		}
		Exec(probe.schema, probe.validate, d, copyDest(probe.t, probe.dest0), &Recorder{}, z.WithCtxValue("k1", "prime"))
	}
	internals.ClearPools()
	ref := probe.run()
	refCanon := fullCanon(&ref, n)
	refHeld := heldCanon(&ref, n)
	var tags, notes []string
	if id%5 < 2 {
		// the usual life of a schema: its issues are rendered, handed back, and the same schema object runs again
		if ref.RawMap != nil {
			z.Issues.CollectMap(ref.RawMap)
		} else if ref.RawList != nil {
			z.Issues.CollectList(ref.RawList)
		}
	}
	// (b) history
	internals.ClearPools()
	k := 1 + g.R.Intn(5)
	var hist []string
	var held []heldResult // results of earlier calls the caller keeps: no later call may show in them
	if g.R.Fork(0x3b3b).P(30) {
		// a call that reports many issues as a list (the list outgrows any small initial capacity), kept by its
		// caller, followed by another failing call that returns a list
		g2 := &Gen{R: g.R.Fork(0x3b3c), P: g.P}
		for step, n2 := range []*Node{
			{Kind: KString, Tests: []TestSpec{{Builtin: "min", N: 10}, {Builtin: "contains", S: "zq"}, {Builtin: "prefix", S: "zq"}, {Builtin: "suffix", S: "zq"}}},
			{Kind: KInt, Tests: []TestSpec{{Builtin: "gt", N: 100}}},
		} {
			h := g2.execSpecFor(n2)
			h.validate = false
			h.schema = Build(h.rec, n2, false)
			in := strV("a")
			if n2.Kind == KInt {
				in = intV(1)
			}
			h.in = &in
			h.dest0 = reflect.Zero(h.t)
			o := h.run()
			hist = append(hist, fmt.Sprintf("Parse(%s) with %d issue(s) kept", Shape(n2), len(o.RawList)))
			oc := o
			held = append(held, heldResult{obs: &oc, node: n2, canon: heldCanon(&oc, n2), step: -2 + step})
		}
	}
	for i := 0; i < k; i++ {
		h := g.execSpec()
		if i18nOn {
			langOpt(h, g.R.Fork(0x11a+uint64(i)))
		}
		if g.R.P(15) {
			// the documented "top level optional struct": a pointer schema over a request
			h = g.execSpecFor(&Node{Kind: KPtr, Elem: g.strct(2)})
			h.validate = false
			h.schema = Build(h.rec, h.node, false)
			in := g.Input(h.node)
			h.in = &in
			h.dest0 = reflect.Zero(h.t)
		}
		if !h.validate && (h.node.Kind == KPtr || h.node.Kind == KStruct) && g.R.P(45) {
			// an earlier request whose body could not be decoded (zhttp / zjson error paths)
			body := Pick(g.R, []string{`{"a":`, `null`, ``, `[1]`, "a=%zz"})
			ct := "application/json"
			if body == "a=%zz" {
				ct = "application/x-www-form-urlencoded"
			}
			h.factory = func() any {
				r, _ := http.NewRequest("POST", "http://example.com/p", strings.NewReader(body))
				r.Header.Set("Content-Type", ct)
				return zhttp.Request(r)
			}
		}
		o := h.run()
		how := "kept"
		switch g.R.Intn(6) {
		case 0:
			if o.RawMap != nil {
				z.Issues.CollectMap(o.RawMap)
				how = "CollectMap"
			} else if o.RawList != nil {
				z.Issues.CollectList(o.RawList)
				how = "CollectList"
			}
		case 1:
			if o.RawMap != nil {
				z.Issues.SanitizeMapAndCollect(o.RawMap)
				how = "SanitizeMapAndCollect"
			} else if o.RawList != nil {
				z.Issues.SanitizeListAndCollect(o.RawList)
				how = "SanitizeListAndCollect"
			}
		case 2:
			if o.RawMap != nil {
				z.Issues.SanitizeMap(o.RawMap)
				how = "SanitizeMap"
			}
		}
		hist = append(hist, fmt.Sprintf("%s(%s, %d opts, nil=%v) %s", map[bool]string{true: "Validate", false: "Parse"}[h.validate], Shape(h.node), len(h.opts), o.Nil, how))
		if how == "kept" && !o.Nil {
			oc := o
			held = append(held, heldResult{obs: &oc, node: h.node, canon: heldCanon(&oc, h.node), step: i})
		}
	}
	after := probe.run()
	if c := fullCanon(&after, n); c != refCanon {
		tags = append(tags, "isolation")
		notes = append(notes, "history: "+strings.Join(hist, " ; ")+"\non fresh pools:\n"+refCanon+"\nafter the history:\n"+c)
	}
	if customMap {
		// every message quotes the value of its own issue, whatever was formatted before in this process
		check := func(i *z.ZogIssue) {
			if !strings.HasPrefix(i.Message, "'") {
				return
			}
			end := strings.Index(i.Message, "': ")
			if end < 0 {
				return
			}
			got := addrRE.ReplaceAllString(i.Message[1:end], "<addr>")
			want := addrRE.ReplaceAllString(fmt.Sprintf("%v", i.Value), "<addr>")
			if got != want && len(notes) < 3 {
				tags = append(tags, "isolation")
				notes = append(notes, fmt.Sprintf("the message of the %s issue at %q quotes %q, its own value is %q (user template '{{value}}': ...)", i.Code, i.Path, got, want))
			}
		}
		for _, i := range after.RawList {
			check(i)
		}
		for k, is := range after.RawMap {
			if k != "$first" {
				for _, i := range is {
					check(i)
				}
			}
		}
	}
	if id%5 >= 2 {
		// the caller still holds the first result (it was not handed back): nothing a later call does may show in it
		if c := heldCanon(&ref, n); c != refHeld {
			tags = append(tags, "held_result")
			notes = append(notes, "history: "+strings.Join(hist, " ; ")+"\nthe result of the first call, as returned:\n"+refHeld+"\nthe same result object after the later calls:\n"+c)
		}
	}
	for _, h := range held {
		if c := heldCanon(h.obs, h.node); c != h.canon && len(notes) < 4 {
			tags = append(tags, "held_result")
			notes = append(notes, fmt.Sprintf("history: %s\nthe result of step %d, as returned:\n%s\nthe same result object after the later calls:\n%s", strings.Join(hist, " ; "), h.step, h.canon, c))
		}
	}
	if a := aliased(&after); a != "" {
		tags = append(tags, "issue_aliased")
		notes = append(notes, a+" after history "+strings.Join(hist, " ; "))
	}
	// (c) dirty pools
	DirtyPools()
	dirty := probe.run()
	internals.ClearPools()
	if c := fullCanon(&dirty, n); c != refCanon {
		tags = append(tags, "isolation_dirty")
		notes = append(notes, "on fresh pools:\n"+refCanon+"\non pools handing out dirty objects:\n"+c)
	}
	c := &Case{ID: id, Validate: probe.validate, Schema: n, In: probe.in, Collide: hasIssuePath(n), Shape: Shape(n), PoolMode: "history", TypesOK: true, CtxOK: true, Known: false, ExecFmt: probe.fmtTag}
	c.Dest0 = CoqDval(probe.dest0, n)
	c.dest0v = probe.dest0
	c.DataCoq = probeData
	c.SkipModel = customMap || i18nOn // (the model formats with the shipped default language and is not given the call's language)
	c.Obs = after
	c.Opts = probe.optTerms
	c.CtxViews = ctxViews(after.Calls)
	c.Repeats = []string{c.Obs.canon(n)}
	ids := map[int]*Node{}
	indexIDs(n, ids)
	for i := range c.Obs.Calls {
		cr := &c.Obs.Calls[i]
		if cr.Nil || cr.Arg == nil {
			cr.coqArg = "None"
		} else {
			cr.coqArg = "(Some " + CoqDval(reflect.ValueOf(cr.Arg), argNode(ids[cr.ID], cr.Kind)) + ")"
		}
		// ctx.Get inside every callback: exactly the values this call passed, nil for every other key
		for _, k := range ctxProbe {
			if !reflect.DeepEqual(cr.Ctx[k], probe.ctxVals[k]) {
				c.CtxOK = false
			}
		}
	}
	return c, tags, strings.Join(notes, "\n")
}

// valStr renders a value without addresses (pointers are followed).
func valStr(v reflect.Value, depth int) string {
	if !v.IsValid() {
		return "<nil>"
	}
	if depth > 8 {
		return "..."
	}
	switch v.Kind() {
	case reflect.Pointer, reflect.Interface:
		if v.IsNil() {
			return "nil"
		}
		return "&" + valStr(v.Elem(), depth+1)
	case reflect.Slice, reflect.Array:
		var xs []string
		for i := 0; i < v.Len(); i++ {
			xs = append(xs, valStr(v.Index(i), depth+1))
		}
		return "[" + strings.Join(xs, " ") + "]"
	case reflect.Struct:
		if v.Type() == timeType && v.CanInterface() {
			return fmt.Sprint(v.Interface())
		}
		var xs []string
		for i := 0; i < v.NumField(); i++ {
			xs = append(xs, valStr(v.Field(i), depth+1))
		}
		return "{" + strings.Join(xs, " ") + "}"
	case reflect.Map:
		var xs []string
		it := v.MapRange()
		for it.Next() {
			xs = append(xs, valStr(it.Key(), depth+1)+":"+valStr(it.Value(), depth+1))
		}
		sort.Strings(xs)
		return "map[" + strings.Join(xs, " ") + "]"
	case reflect.Func, reflect.Chan, reflect.UnsafePointer:
		return "<" + v.Kind().String() + ">"
	}
	if v.CanInterface() {
		return fmt.Sprintf("%v", v.Interface())
	}
	return fmt.Sprintf("%v", v)
}

// ---- C08: schemas shared between goroutines --------------------------------------------------------

// ExecSpec is one shared schema with several (data, destination, options) variants.
type ExecSpec struct {
	node     *Node
	schemaP  z.ZogSchema // built for Parse
	schemaV  z.ZogSchema // built for Validate (Preprocess functions differ in type)
	variants []*execSpec
}

// SharedSpec builds one schema object pair and k variants of calls on it.  The user callbacks of
// the shared schema are pure (they record nothing), as the property requires of shared schemas.
func (g *Gen) SharedSpec(k int) *ExecSpec {
	n := g.Schema()
	s := &ExecSpec{node: n, schemaP: Build(nil, n, false), schemaV: Build(nil, n, true)}
	for i := 0; i < k; i++ {
		// half of the calls use a second destination type with the same fields in the opposite order
		t := TypeOf(n)
		if i%2 == 1 {
			t = TypeOfAlt(n)
		}
		e := &execSpec{node: n, validate: g.R.P(40), t: t}
		if e.validate {
			e.schema = s.schemaV
			e.dest0 = g.DestValue(n, t, false)
		} else {
			e.schema = s.schemaP
			in := g.Input(n)
			e.in = &in
			e.dest0 = reflect.Zero(t)
		}
		if g.R.Fork(0x5ca1ab1e).P(35) {
			e.opts = append(e.opts, sharedCtxOpt)
		}
		if g.R.P(40) {
			e.opts = append(e.opts, z.WithCtxValue("k1", fmt.Sprintf("v%d", g.R.Intn(100))))
		}
		if g.R.P(20) {
			tag := fmt.Sprintf("F%d:", g.R.Intn(100))
			e.opts = append(e.opts, z.WithIssueFormatter(func(i *z.ZogIssue, c z.Ctx) { i.SetMessage(tag + i.Code) }))
		}
		s.variants = append(s.variants, e)
	}
	return s
}

// FrontEndSpec: one struct schema shared by requests of both url-encoded front ends (form bodies and
// query strings, whose tags name the fields differently) and by JSON bodies; each variant is a
// request of its own.
func (g *Gen) FrontEndSpec(k int) *ExecSpec {
	n := &Node{Kind: KStruct}
	for _, key := range []string{"name", "email", "city", "team"} {
		f := Field{Key: key, Node: &Node{Kind: KString, Req: &TestSpec{}}, Tags: map[string]string{"form": "f_" + key, "query": "q_" + key, "json": "j_" + key}}
		n.Fields = append(n.Fields, f)
	}
	s := &ExecSpec{node: n, schemaP: Build(nil, n, false)}
	for i := 0; i < k; i++ {
		vals := map[string]string{}
		for _, f := range n.Fields {
			if g.R.P(80) {
				vals[f.Key] = fmt.Sprintf("%s-%d", f.Key, g.R.Intn(1000))
			}
		}
		kind := i % 3
		nullBody := kind == 2 && g.R.P(35) // a body that is not an object: one front-end issue per call, its own
		e := &execSpec{node: n, schema: s.schemaP, t: TypeOf(n), dest0: reflect.Zero(TypeOf(n))}
		e.factory = func() any {
			q := url.Values{}
			for key, v := range vals {
				q.Set(map[int]string{0: "f_", 1: "q_", 2: "j_"}[kind]+key, v)
			}
			var r *http.Request
			switch kind {
			case 0:
				r, _ = http.NewRequest("POST", "http://example.com/p", strings.NewReader(q.Encode()))
				r.Header.Set("Content-Type", "application/x-www-form-urlencoded")
			case 1:
				r, _ = http.NewRequest("GET", "http://example.com/p?"+q.Encode(), nil)
			default:
				m := map[string]string{}
				for key, v := range vals {
					m["j_"+key] = v
				}
				b, _ := json.Marshal(m)
				if nullBody {
					b = []byte("null")
				}
				r, _ = http.NewRequest("POST", "http://example.com/p", bytes.NewReader(b))
				r.Header.Set("Content-Type", "application/json")
			}
			return zhttp.Request(r)
		}
		s.variants = append(s.variants, e)
	}
	return s
}

func (s *ExecSpec) Variants() int { return len(s.variants) }
func (s *ExecSpec) Shape() string { return Shape(s.node) }

// RunVariant executes one variant (own data, own destination) and renders the result; with collect
// the issues are handed back through the Collect helpers afterwards.
func (s *ExecSpec) RunVariant(v int, collect bool) string {
	e := s.variants[v]
	o := e.runWith(&Recorder{}) // per call: nothing is shared between goroutines but the schema
	c := fullCanon(&o, s.node)
	if a := aliased(&o); a != "" {
		c += "\nALIASED: " + a
	}
	if collect {
		// hand the issues back through one of the Collect helpers; the combined helper must return the
		// messages these issues had (they were read above, before anything was freed)
		switch {
		case o.RawMap != nil && v%2 == 0:
			want := map[string][]string{}
			for k, is := range o.RawMap {
				for _, i := range is {
					want[k] = append(want[k], i.Message)
				}
			}
			got := z.Issues.SanitizeMapAndCollect(o.RawMap)
			if len(got) != len(want) {
				c += fmt.Sprintf("\nSANITIZE: %d keys for %d", len(got), len(want))
			}
			for k, ms := range want {
				if fmt.Sprint(got[k]) != fmt.Sprint(ms) {
					c += fmt.Sprintf("\nSANITIZE: SanitizeMapAndCollect[%q] = %q, the issues said %q", k, got[k], ms)
				}
			}
		case o.RawMap != nil:
			z.Issues.CollectMap(o.RawMap)
		case o.RawList != nil && v%2 == 0:
			var want []string
			for _, i := range o.RawList {
				want = append(want, i.Message)
			}
			if got := z.Issues.SanitizeListAndCollect(o.RawList); fmt.Sprint(got) != fmt.Sprint(want) {
				c += fmt.Sprintf("\nSANITIZE: SanitizeListAndCollect = %q, the issues said %q", got, want)
			}
		case o.RawList != nil:
			z.Issues.CollectList(o.RawList)
		}
	}
	return c
}
