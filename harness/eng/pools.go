//go:build !nodirty

package eng

import (
	"errors"
	"strings"
	"sync"

	"github.com/Oudwins/zog/internals"
)

// DirtyPools replaces every pool of recycled objects by one that hands out *dirty* objects: every
// field a previous execution could have left behind is set to junk.  A correct acquisition function
// re-initialises all of it, so results must not change.
func DirtyPools() {
	internals.ExecCtxPool = sync.Pool{New: func() any {
		c := &internals.ExecCtx{}
		c.Set("k1", "leaked-from-an-earlier-call")
		c.Set("k2", 42)
		c.Set("lang", "es")
		c.Fmter = func(e *internals.ZogIssue, ctx internals.Ctx) { e.Message = "message from an earlier execution's formatter" }
		c.Errors = &internals.ErrsList{List: internals.ZogIssueList{{Code: "stale", Path: "stale.path", Message: "stale"}}}
		return c
	}}
	internals.SchemaCtxPool = sync.Pool{New: func() any {
		junk := "junk"
		pb := internals.PathBuilder{"stale", "path"}
		return &internals.SchemaCtx{Data: junk, ValPtr: &junk, Path: &pb, DType: "stale_type", CanCatch: true, Exit: true, HasCaught: true,
			Test: &internals.Test{IssueCode: "stale_code", IssuePath: "stale.issue.path", Params: map[string]any{"stale": 1}}}
	}}
	internals.InternalIssueListPool = sync.Pool{New: func() any {
		return &internals.ErrsList{List: internals.ZogIssueList{{Code: "stale", Path: "stale.path", Message: "stale"}}}
	}}
	internals.InternalIssueMapPool = sync.Pool{New: func() any {
		i := &internals.ZogIssue{Code: "stale", Path: "stale.path", Message: "stale"}
		return &internals.ErrsMap{M: internals.ZogIssueMap{"$first": {i}, "stale.path": {i}}}
	}}
	internals.ZogIssuePool = sync.Pool{New: func() any {
		return &internals.ZogIssue{Code: "stale_code", Path: "stale.path", Value: "stale value", Dtype: "stale_type",
			Params: map[string]any{"stale": "param", "min": 99}, Message: "stale message", Err: errors.New("stale error")}
	}}
	internals.PathBuilderPool = sync.Pool{New: func() any {
		pb := make(internals.PathBuilder, 3, 5)
		pb[0], pb[1], pb[2] = "", "stale", "[7]"
		return &pb
	}}
	internals.StringBuilderPool = sync.Pool{New: func() any {
		sb := strings.Builder{}
		sb.WriteString("stale text")
		return &sb
	}}
}

// DirtyPoolsAvailable reports whether this build can pre-fill the pools with junk objects.
const DirtyPoolsAvailable = true
