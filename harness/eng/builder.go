package eng

import (
	"fmt"
	"reflect"
	"strings"
	"time"

	z "github.com/Oudwins/zog"
)

// ---- C17: builder chains ---------------------------------------------------------------------------

type bcall struct {
	coq    string
	apply  func(s *z.StringSchema[string])
	applyI func(s any)
}

func (g *Gen) bopts() ([]z.TestOption, string) {
	t := TestSpec{}
	saved := g.P.POpts
	g.P.POpts = 35
	g.P.PIssuePath = 10
	g.opts(&t)
	g.P.POpts = saved
	g.P.PIssuePath = 0
	ps := "None"
	if t.OptParams != nil {
		ps = "(Some " + coqParams(t.OptParams) + ")"
	}
	return testOpts(&t), fmt.Sprintf("{| o_msg := %s; o_code := %s; o_path := %s; o_params := %s |}", CoqOptStr(t.OptMsg), CoqOptStr(t.OptCode), CoqOptStr(t.OptPath), ps)
}

// NewBuilderCase: a random chain of builder calls on a String, Int, Int64, Float64, Bool or Time schema
// (each type has its own copy of the builder methods), run on a random subject.
func NewBuilderCase(g *Gen, id int) *Case {
	r := g.R
	rec := &Recorder{CtxKeys: ctxProbe}
	isInt := r.P(45) // (historical name: any kind other than String)
	var calls []string
	node := &Node{Kind: KString}
	var apply []func(s *z.StringSchema[string])
	var applyI []func(s any) // the other kinds: methods are called by name (every builder method is fluent)
	if isInt {
		node = &Node{Kind: Pick(r, []string{KInt, KInt, KInt64, KFloat64, KBool, KTime})}
	}
	n := 1 + r.Intn(8)
	// the same modifier called twice, the earlier call with options and the later one without (and
	// the other way round): the last call must win completely
	twice := -1
	if r.P(15) {
		if n < 2 {
			n = 2
		}
		twice = r.Intn(2)
	}
	defReq := -1
	if twice < 0 && r.P(15) {
		if n < 2 {
			n = 2
		}
		defReq = r.Intn(2)
	}
	// ... likewise Catch and Required in either order: a missing required value takes the catch value
	catchReq := defReq >= 0 && r.Fork(0xca7c).P(50)
	for k := 0; k < n; k++ {
		c := r.Intn(100)
		forcedOpts := -1 // 1: options forced, 0: no options
		if twice >= 0 && (k == 0 || k == n-1) {
			c = 70 // Required
			forcedOpts = 0
			if (k == 0) == (twice == 0) {
				forcedOpts = 1
			}
		}
		if defReq >= 0 && (k == 0 || k == n-1) {
			// Default and Required on one schema, in either order: an absent value takes the Default
			c = 70
			if (k == 0) == (defReq == 0) {
				c = 80 // Default
				if catchReq {
					c = 86 // Catch
				}
			}
		}
		switch {
		case c < 18 && !isInt:
			calls = append(calls, "CNot")
			apply = append(apply, func(s *z.StringSchema[string]) { s.Not() })
		case c < 55:
			if isInt {
				var t TestSpec
				var args []any
				switch node.Kind {
				case KInt, KInt64:
					t = TestSpec{Builtin: Pick(r, []string{"gt", "gte", "lt", "lte", "eq"}), N: int64(r.Intn(10))}
					args = []any{t.N}
				case KFloat64:
					t = TestSpec{Builtin: Pick(r, []string{"gt", "gte", "lt", "lte", "eq"}), F: Pick(r, []float64{0, 1, 2.5, 3.25, 10, -1})}
					args = []any{t.F}
				case KBool:
					t = TestSpec{Builtin: Pick(r, []string{"true", "false", "eq"}), B: r.P(50)}
					if t.Builtin == "eq" {
						args = []any{t.B}
					}
				case KTime:
					t = TestSpec{Builtin: Pick(r, []string{"after", "before", "eq"}), T: baseTime.Add(time.Duration(r.Intn(200)-100) * time.Hour)}
					args = []any{t.T}
				}
				o, co := g.bopts()
				if node.Kind == KBool { // True() / False() / EQ() take no options
					o, co = nil, "{| o_msg := None; o_code := None; o_path := None; o_params := None |}"
				}
				code, params, b := builtin(node, &t)
				calls = append(calls, fmt.Sprintf("CBuiltin %s %s %s %s", CoqStr(code), coqParams(params), b, co))
				method := map[string]string{"gt": "GT", "gte": "GTE", "lt": "LT", "lte": "LTE", "eq": "EQ", "true": "True", "false": "False", "after": "After", "before": "Before"}[t.Builtin]
				applyI = append(applyI, func(s any) { callFluent(s, method, args, o) })
			} else {
				t := TestSpec{Builtin: Pick(r, []string{"min", "max", "len", "oneof", "prefix", "suffix", "contains", "upper", "digit", "special", "email", "uuid", "url", "match"}),
					N: int64(r.Intn(6)), S: Pick(r, []string{"a", "ab", "he", "", "1"}), Strs: []string{Pick(r, sampleStrings), Pick(r, sampleStrings)}}
				o, co := g.bopts()
				code, params, b := builtin(node, &t)
				calls = append(calls, fmt.Sprintf("CBuiltin %s %s %s %s", CoqStr(code), coqParams(params), b, co))
				tt := t
				apply = append(apply, func(s *z.StringSchema[string]) {
					switch tt.Builtin {
					case "min":
						s.Min(int(tt.N), o...)
					case "max":
						s.Max(int(tt.N), o...)
					case "len":
						s.Len(int(tt.N), o...)
					case "oneof":
						s.OneOf(tt.Strs, o...)
					case "prefix":
						s.HasPrefix(tt.S, o...)
					case "suffix":
						s.HasSuffix(tt.S, o...)
					case "contains":
						s.Contains(tt.S, o...)
					case "upper":
						s.ContainsUpper(o...)
					case "digit":
						s.ContainsDigit(o...)
					case "special":
						s.ContainsSpecial(o...)
					case "email":
						s.Email(o...)
					case "uuid":
						s.UUID(o...)
					case "url":
						s.URL(o...)
					case "match":
						s.Match(MatchRegex, o...)
					}
				})
			}
		case c < 65:
			t := &TestSpec{ID: g.id(), User: g.userPred(node.Kind)}
			o, co := g.bopts()
			calls = append(calls, fmt.Sprintf("CTestFunc %d (ut %s) %s", t.ID, coqPred(t.User), co))
			apply = append(apply, func(s *z.StringSchema[string]) { s.TestFunc(userTest(rec, t, "test"), o...) })
			applyI = append(applyI, func(s any) { callFluent(s, "TestFunc", []any{userTest(rec, t, "test")}, o) })
		case c < 73:
			o, co := g.bopts()
			switch forcedOpts {
			case 0:
				o, co = nil, "{| o_msg := None; o_code := None; o_path := None; o_params := None |}"
			case 1:
				m, cd := fmt.Sprintf("msg%d", r.Intn(1000)), fmt.Sprintf("code%d", r.Intn(1000))
				t := TestSpec{OptMsg: &m, OptCode: &cd}
				o, co = testOpts(&t), fmt.Sprintf("{| o_msg := %s; o_code := %s; o_path := None; o_params := None |}", CoqOptStr(t.OptMsg), CoqOptStr(t.OptCode))
			}
			calls = append(calls, "CRequired "+co)
			apply = append(apply, func(s *z.StringSchema[string]) { s.Required(o...) })
			applyI = append(applyI, func(s any) { callFluent(s, "Required", nil, o) })
		case c < 78:
			calls = append(calls, "COptional")
			apply = append(apply, func(s *z.StringSchema[string]) { s.Optional() })
			applyI = append(applyI, func(s any) { callFluent(s, "Optional", nil, nil) })
		case c < 84:
			l := g.leaf(node.Kind)
			calls = append(calls, "CDefault "+CoqLeaf(l))
			node.ExtraStrs = append(node.ExtraStrs, l.S)
			apply = append(apply, func(s *z.StringSchema[string]) { s.Default(l.S) })
			applyI = append(applyI, func(s any) { callFluent(s, "Default", []any{leafGo(l, node.Kind)}, nil) })
		case c < 90:
			l := g.leaf(node.Kind)
			calls = append(calls, "CCatch "+CoqLeaf(l))
			node.ExtraStrs = append(node.ExtraStrs, l.S)
			apply = append(apply, func(s *z.StringSchema[string]) { s.Catch(l.S) })
			applyI = append(applyI, func(s any) { callFluent(s, "Catch", []any{leafGo(l, node.Kind)}, nil) })
		default:
			p := PTSpec{ID: g.id(), Op: "noop"}
			if !isInt {
				p.Op = Pick(r, []string{"upper", "append"})
				p.S = "!"
			}
			if r.P(45) {
				// a failing transform: its issue is not the issue of any test of the chain
				p.Op, p.S = "err", "boom"
			}
			calls = append(calls, "CPT "+strings.TrimSuffix(strings.TrimPrefix(coqPTs(&Node{PTs: []PTSpec{p}}), "["), "]"))
			apply = append(apply, func(s *z.StringSchema[string]) { s.PostTransform(mkPT(rec, p)) })
			applyI = append(applyI, func(s any) { callFluent(s, "PostTransform", []any{z.PostTransform(mkPT(rec, p))}, nil) })
		}
	}
	var schema z.ZogSchema
	if isInt {
		switch node.Kind {
		case KInt:
			schema = z.Int()
		case KInt64:
			schema = z.Int64()
		case KFloat64:
			schema = z.Float64()
		case KBool:
			schema = z.Bool()
		case KTime:
			schema = z.Time()
		}
		for _, f := range applyI {
			f(schema)
		}
	} else {
		s := z.String()
		for _, f := range apply {
			f(s)
		}
		schema = s
	}
	validate := r.P(35)
	c := &Case{ID: id, Validate: validate, Schema: node, Shape: fmt.Sprintf("chain:%s:%d:%s", node.Kind, len(calls), strings.Join(firstWords(calls), ",")), PoolMode: "recycled", TypesOK: true, CtxOK: true, Known: true}
	t := TypeOf(node)
	var data any
	dest0 := reflect.Zero(t)
	if validate {
		dest0 = g.DestValue(node, t, false)
	} else {
		in := g.inputRaw(node)
		if defReq >= 0 && r.Fork(0xca7d).P(60) {
			in = g.absent() // (the patterns above are about absent values)
		}
		c.In = &in
		data = in.Go(nil)
	}
	c.Dest0 = CoqDval(dest0, node)
	c.dest0v = dest0
	dest := copyDest(t, dest0)
	c.Obs = Exec(schema, validate, data, dest, rec)
	c.Repeats = []string{c.Obs.canon(node)}
	for i := range c.Obs.Calls {
		cr := &c.Obs.Calls[i]
		if cr.Nil || cr.Arg == nil {
			cr.coqArg = "None"
		} else {
			cr.coqArg = "(Some " + CoqDval(reflect.ValueOf(cr.Arg), node) + ")"
		}
	}
	c.SchemaCoq = fmt.Sprintf("(SPrim (build %s (cdef orc rfc3339 %s) [%s]))", coqKind(node.Kind), coqKind(node.Kind), strings.Join(calls, "; "))
	return c
}

// callFluent calls a builder method by name: args are converted to the method's parameter types,
// the test options are passed as its variadic tail.
func callFluent(schema any, method string, args []any, opts []z.TestOption) {
	m := reflect.ValueOf(schema).MethodByName(method)
	if !m.IsValid() {
		panic("no builder method " + method + " on " + fmt.Sprintf("%T", schema))
	}
	mt := m.Type()
	var in []reflect.Value
	for i, a := range args {
		v := reflect.ValueOf(a)
		if pt := mt.In(i); v.Type() != pt {
			if v.Type().ConvertibleTo(pt) {
				v = v.Convert(pt)
			} else if pt.Kind() == reflect.Interface && v.Type().Implements(pt) {
				// passed as is
			} else {
				panic(fmt.Sprintf("%s: argument %d is %s, want %s", method, i, v.Type(), pt))
			}
		}
		in = append(in, v)
	}
	for _, o := range opts {
		in = append(in, reflect.ValueOf(o))
	}
	m.Call(in)
}

func firstWords(xs []string) []string {
	var ys []string
	for _, x := range xs {
		ys = append(ys, strings.SplitN(x, " ", 2)[0])
	}
	return ys
}

// ---- one schema object shared between several places ---------------------------------------------

// SharedSchemaProbe: a struct schema object used at two places whose destination struct types lay
// the same fields out in different orders must behave at each place as an independent copy would.
func SharedSchemaProbe(g *Gen) (string, bool) {
	mk := func() *z.StructSchema {
		return z.Struct(z.Schema{"street": z.String().Required().Min(2), "city": z.String().Required().Max(3)})
	}
	type home struct{ Street, City string }
	type work struct{ City, Street string }
	type outer struct {
		Home home
		Work work
	}
	run := func(h, w *z.StructSchema) (outer, []string) {
		var d outer
		errs := z.Struct(z.Schema{"home": h, "work": w}).Parse(map[string]any{
			"home": map[string]any{"street": "s-home", "city": "c-home"},
			"work": map[string]any{"street": "s-work", "city": "c"}}, &d)
		return d, keysOf(errs)
	}
	shared := mk()
	d1, e1 := run(shared, shared)
	d2, e2 := run(mk(), mk())
	detail := fmt.Sprintf("shared object: %+v %v ; independent copies: %+v %v", d1, e1, d2, e2)
	bad := d1 != d2 || fmt.Sprint(e1) != fmt.Sprint(e2)
	// a second, top-level use of the same object with another destination type
	var w work
	e3 := shared.Parse(map[string]any{"street": "s3", "city": "c3"}, &w)
	if w.Street != "s3" || w.City != "c3" || len(e3) != 0 {
		bad = true
		detail += fmt.Sprintf(" ; reused with another destination type: %+v %v", w, keysOf(e3))
	}
	// a primitive schema object shared by two fields, and by a slice element and a field
	ps := z.String().Min(3)
	type two struct {
		A, B string
		L    []string
	}
	var t1, t2 two
	in := map[string]any{"a": "ab", "b": "abcd", "l": []any{"x", "wxyz"}}
	ea := z.Struct(z.Schema{"a": ps, "b": ps, "l": z.Slice(ps)}).Parse(in, &t1)
	eb := z.Struct(z.Schema{"a": z.String().Min(3), "b": z.String().Min(3), "l": z.Slice(z.String().Min(3))}).Parse(in, &t2)
	if fmt.Sprint(keysOf(ea)) != fmt.Sprint(keysOf(eb)) || fmt.Sprint(t1) != fmt.Sprint(t2) {
		bad = true
		detail += fmt.Sprintf(" ; shared primitive: %v vs %v", keysOf(ea), keysOf(eb))
	}
	return detail, bad
}
