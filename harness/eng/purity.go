package eng

import (
	"fmt"
	"reflect"
	"sort"
	"strings"
	"time"

	"github.com/Oudwins/zog/internals"
)

// ---- C19: executions never modify the schema or the input ----------------------------------------

// fingerprint renders the whole object graph reachable from v, unexported fields included (read
// through reflect, never through Interface()): scalars by value, slices with length, capacity and
// the address of their backing array, funcs and channels by address, pointers followed once.
func fingerprint(v reflect.Value, seen map[uintptr]bool, b *strings.Builder, depth int) {
	if depth > 40 {
		b.WriteString("<deep>")
		return
	}
	if !v.IsValid() {
		b.WriteString("<invalid>")
		return
	}
	switch v.Kind() {
	case reflect.Bool:
		fmt.Fprint(b, v.Bool())
	case reflect.Int, reflect.Int8, reflect.Int16, reflect.Int32, reflect.Int64:
		fmt.Fprint(b, v.Int())
	case reflect.Uint, reflect.Uint8, reflect.Uint16, reflect.Uint32, reflect.Uint64, reflect.Uintptr:
		fmt.Fprint(b, v.Uint())
	case reflect.Float32, reflect.Float64:
		fmt.Fprintf(b, "%x", v.Float())
	case reflect.String:
		fmt.Fprintf(b, "%q", v.String())
	case reflect.Func, reflect.Chan, reflect.UnsafePointer:
		fmt.Fprintf(b, "@%x", v.Pointer())
	case reflect.Interface:
		if v.IsNil() {
			b.WriteString("nil")
			return
		}
		fmt.Fprintf(b, "(%s)", v.Elem().Type())
		fingerprint(v.Elem(), seen, b, depth+1)
	case reflect.Pointer:
		if v.IsNil() {
			b.WriteString("nil")
			return
		}
		if seen[v.Pointer()] {
			fmt.Fprintf(b, "^%x", v.Pointer())
			return
		}
		seen[v.Pointer()] = true
		b.WriteString("&")
		fingerprint(v.Elem(), seen, b, depth+1)
	case reflect.Slice:
		if v.IsNil() {
			b.WriteString("nil[]")
			return
		}
		fmt.Fprintf(b, "[len=%d cap=%d @%x:", v.Len(), v.Cap(), v.Pointer())
		for i := 0; i < v.Len(); i++ {
			fingerprint(v.Index(i), seen, b, depth+1)
			b.WriteString(",")
		}
		b.WriteString("]")
	case reflect.Array:
		b.WriteString("[")
		for i := 0; i < v.Len(); i++ {
			fingerprint(v.Index(i), seen, b, depth+1)
			b.WriteString(",")
		}
		b.WriteString("]")
	case reflect.Map:
		if v.IsNil() {
			b.WriteString("nilmap")
			return
		}
		var entries []string
		it := v.MapRange()
		for it.Next() {
			var kb, vb strings.Builder
			fingerprint(it.Key(), seen, &kb, depth+1)
			fingerprint(it.Value(), seen, &vb, depth+1)
			entries = append(entries, kb.String()+":"+vb.String())
		}
		sort.Strings(entries)
		b.WriteString("map{" + strings.Join(entries, ";") + "}")
	case reflect.Struct:
		if v.Type() == timeType {
			if v.CanInterface() {
				fmt.Fprint(b, v.Interface().(time.Time).UnixNano())
			} else {
				b.WriteString("time")
			}
			return
		}
		b.WriteString(v.Type().String() + "{")
		for i := 0; i < v.NumField(); i++ {
			b.WriteString(v.Type().Field(i).Name + "=")
			fingerprint(v.Field(i), seen, b, depth+1)
			b.WriteString(";")
		}
		b.WriteString("}")
	default:
		fmt.Fprintf(b, "<%s>", v.Kind())
	}
}

func Fingerprint(x any) string {
	var b strings.Builder
	fingerprint(reflect.ValueOf(x), map[uintptr]bool{}, &b, 0)
	return b.String()
}

// scribble overwrites everything reachable from a destination value (what a caller may legitimately
// do with the result it was handed).
func scribble(v reflect.Value) {
	switch v.Kind() {
	case reflect.String:
		if v.CanSet() {
			v.SetString(v.String() + "~scribbled")
		}
	case reflect.Int, reflect.Int32, reflect.Int64:
		if v.CanSet() {
			v.SetInt(v.Int() + 1000)
		}
	case reflect.Float32, reflect.Float64:
		if v.CanSet() {
			v.SetFloat(v.Float() + 0.5)
		}
	case reflect.Bool:
		if v.CanSet() {
			v.SetBool(!v.Bool())
		}
	case reflect.Pointer:
		if !v.IsNil() {
			scribble(v.Elem())
		}
	case reflect.Slice:
		for i := 0; i < v.Len(); i++ {
			scribble(v.Index(i))
		}
		// and use the spare capacity, if any
		if v.CanSet() && v.Cap() > v.Len() {
			full := v.Slice(0, v.Cap())
			for i := v.Len(); i < full.Len(); i++ {
				scribble(full.Index(i))
			}
		}
	case reflect.Struct:
		if v.Type() == timeType {
			if v.CanSet() {
				v.Set(reflect.ValueOf(v.Interface().(time.Time).Add(time.Hour)))
			}
			return
		}
		for i := 0; i < v.NumField(); i++ {
			scribble(v.Field(i))
		}
	}
}

func hasWriters(n *Node) bool {
	if n.Def != nil || n.HasDef || n.Catch != nil || len(n.PTs) > 0 || n.Kind == KPre {
		return true
	}
	for _, f := range n.Fields {
		if hasWriters(f.Node) {
			return true
		}
	}
	return n.Elem != nil && hasWriters(n.Elem)
}

// typed converts homogeneous []any lists of strings / ints inside the input into []string / []int
// (the input then has exactly the destination's slice type at such positions).
func typed(x any) any {
	switch v := x.(type) {
	case []any:
		allS, allI := len(v) > 0, len(v) > 0
		for _, e := range v {
			if _, ok := e.(string); !ok {
				allS = false
			}
			if _, ok := e.(int); !ok {
				allI = false
			}
		}
		switch {
		case allS:
			r := make([]string, len(v), len(v)+2)
			for i, e := range v {
				r[i] = e.(string)
			}
			return r
		case allI:
			r := make([]int, len(v), len(v)+2)
			for i, e := range v {
				r[i] = e.(int)
			}
			return r
		}
		for i := range v {
			v[i] = typed(v[i])
		}
		return v
	case map[string]any:
		for k := range v {
			v[k] = typed(v[k])
		}
		return v
	}
	return x
}

// flatRecord: every field a primitive or a slice of primitives (what a Go struct value of the
// destination type can carry to the field schemas unchanged)
func flatRecord(n *Node) bool {
	for _, f := range n.Fields {
		k := f.Node
		if k.Kind == KSlice {
			k = k.Elem
		}
		if !IsPrim(k.Kind) || k.Named {
			return false
		}
	}
	return true
}

func isIdent(k string) bool {
	for _, c := range k {
		if !(c == '_' || (c >= '0' && c <= '9') || (c >= 'a' && c <= 'z') || (c >= 'A' && c <= 'Z')) {
			return false
		}
	}
	return true
}

// NewPurityCase runs one generated case the way C19 needs it and returns the case (for the model
// comparison) plus the failures of the model-free purity oracles.
func NewPurityCase(g *Gen, id int) (*Case, []string, string) {
	n := g.Schema()
	validate := g.R.P(40)
	c := &Case{ID: id, Validate: validate, Schema: n, Collide: hasIssuePath(n), Shape: Shape(n), PoolMode: "recycled", TypesOK: true, CtxOK: true}
	rec := &Recorder{CtxKeys: ctxProbe}
	schema := Build(rec, n, validate)
	t := TypeOf(n)
	var dest0 reflect.Value
	mkData := func() any { return nil }
	if validate {
		dest0 = g.DestValue(n, t, false)
	} else {
		in := g.Input(n)
		c.In = &in
		useTyped := g.R.P(50)
		mkData = func() any {
			if useTyped {
				return typed(in.Go(nil))
			}
			return in.Go(nil)
		}
		if n.Kind == KPtr && n.Elem.Kind == KStruct && n.Elem.Exported && flatRecord(n.Elem) && g.R.P(70) {
			// the input is a pointer to a value of the destination's own struct type (a record loaded
			// elsewhere): Parse reads it, the destination gets memory of its own
			st := TypeOf(n.Elem)
			sv := g.DestValue(n.Elem, st, false)
			vis := IVal{Kind: "map", node: n.Elem}
			for _, f := range n.Elem.Fields {
				if key := feKey(f, ""); key == GoName(f.Key) { // (a zog tag that is not the field's name hides it)
					_, iv := toMap(f.Node, sv.FieldByName(GoName(f.Key)))
					vis.M = append(vis.M, IKV{K: key, V: iv})
				}
			}
			sort.Slice(vis.M, func(a, b int) bool { return vis.M[a].K < vis.M[b].K })
			in = vis
			c.In = &vis
			c.Shape += ":ptrinput"
			mkData = func() any {
				q := reflect.New(st)
				q.Elem().Set(deepCopy(sv))
				return q.Interface()
			}
		}
		if n.Kind == KStruct && in.Kind == "map" && g.R.P(40) {
			if vis, mk, ok := StructInput(in, Pick(g.R.Fork(0x51a7), []int{0, 1, 2, 2, 3})); ok {
				c.In = &vis
				c.Shape += ":structinput"
				mkData = mk
			}
		}
		if g.R.P(30) {
			dest0 = g.DestValue(n, t, false)
		} else {
			dest0 = reflect.Zero(t)
		}
	}
	c.Dest0 = CoqDval(dest0, n)
	c.dest0v = dest0
	var tags []string
	var notes []string
	internals.ClearPools()
	fp0 := Fingerprint(schema) + Fingerprint(rec.Captured)
	data := mkData()
	in0 := Fingerprint(data)
	before := ""
	dest1 := copyDest(t, dest0)
	before = CoqDval(dest1.Elem(), n)
	obs1 := Exec(schema, validate, data, dest1, rec)
	snap := reflect.New(t).Elem()
	snap.Set(deepCopy(dest1.Elem()))
	obs1.Dest = snap
	canon1 := obs1.canon(n) + CoqDval(obs1.Dest, n)
	c.Obs = obs1
	if fp := Fingerprint(schema) + Fingerprint(rec.Captured); fp != fp0 {
		tags = append(tags, "schema_modified")
		notes = append(notes, "the schema object graph (or a value its callbacks captured) changed during the execution:\nbefore: "+clip(fp0, 1500)+"\nafter:  "+clip(fp, 1500))
	}
	if in1 := Fingerprint(data); in1 != in0 {
		tags = append(tags, "input_modified")
		notes = append(notes, "input before: "+in0+"\ninput after:  "+in1)
	}
	if validate && !hasWriters(n) && obs1.Panic == "" && CoqDval(obs1.Dest, n) != before {
		tags = append(tags, "validate_wrote")
		notes = append(notes, "Validate changed a value although the schema has no Default, Catch or PostTransform: "+before+" -> "+CoqDval(obs1.Dest, n))
	}
	// the caller now owns the result and scribbles all over it
	scribble(dest1.Elem())
	if fp := Fingerprint(schema) + Fingerprint(rec.Captured); fp != fp0 {
		tags = append(tags, "dest_aliases_schema")
		notes = append(notes, "mutating the returned destination changed the schema (a default / catch value shares memory with it)")
	}
	if in1 := Fingerprint(data); in1 != in0 {
		tags = append(tags, "dest_aliases_input")
		notes = append(notes, "mutating the returned destination changed the input data: "+in0+" -> "+in1)
	}
	// a later identical use behaves like the first
	dest2 := copyDest(t, dest0)
	obs2 := Exec(schema, validate, mkData(), dest2, rec)
	obs2.Dest = dest2.Elem()
	if canon2 := obs2.canon(n) + CoqDval(obs2.Dest, n); canon2 != canon1 && !orderSensitive(n, &obs1) {
		tags = append(tags, "second_run_differs")
		notes = append(notes, "first use:\n"+canon1+"\nsecond use:\n"+canon2)
	}
	c.Known = false
	c.Repeats = []string{c.Obs.canon(n)}
	ids := map[int]*Node{}
	indexIDs(n, ids)
	for i := range c.Obs.Calls {
		cr := &c.Obs.Calls[i]
		if cr.Nil || cr.Arg == nil {
			cr.coqArg = "None"
		} else {
			cr.coqArg = "(Some " + CoqDval(reflect.ValueOf(cr.Arg), argNode(ids[cr.ID], cr.Kind)) + ")"
		}
	}
	return c, tags, strings.Join(notes, "\n")
}

// orderSensitive: PostTransforms exist and an issue was produced (the execution-wide gate makes
// such results depend on the field visit order, which differs between two runs).
func orderSensitive(n *Node, o *Observed) bool { return hasPT(n) && !o.Nil }

// clip shortens a fingerprint to what differs from here on (for notes)
func clip(s string, n int) string {
	if len(s) > n {
		return "..." + s[len(s)-n:]
	}
	return s
}
