package eng

import (
	"bytes"
	"fmt"
	"net/http"
	"reflect"
	"strings"

	z "github.com/Oudwins/zog"
	"github.com/Oudwins/zog/parsers/zjson"
	"github.com/Oudwins/zog/zhttp"
)

// Probe is a fixed, hand-written scenario run on every check: the concrete witness of a recorded
// finding (so that the KNOWN-FINDING line is backed by a reproduction on the current tree) or of a
// property clause the generated cases reach only rarely.
type Probe struct {
	Tag    string
	Detail string
	Failed bool
}

type nestedInner struct {
	First string `json:"first_name" form:"first_name" query:"first_name" env:"FIRST_NAME"`
}
type nestedOuter struct {
	Inner nestedInner `json:"inner"`
}

// FEProbes: front-end scenarios of C10 / C14.
func FEProbes() []Probe {
	var ps []Probe
	schema := z.Struct(z.Schema{"inner": z.Struct(z.Schema{"first": z.String().Required()})})
	// nested struct: the source tag must name the key at every depth
	{
		var d nestedOuter
		errs := schema.Parse(zjson.Decode(strings.NewReader(`{"inner":{"first_name":"b"}}`)), &d)
		p := Probe{Tag: "nested_source_tag", Detail: fmt.Sprintf(`Struct{inner:Struct{first:String().Required()}} with json:"first_name" on {"inner":{"first_name":"b"}}: issues=%v dest=%+v`, keysOf(errs), d)}
		p.Failed = len(errs) != 0 || d.Inner.First != "b"
		ps = append(ps, p)
	}
	// nested struct over a flat source resolves nested fields against the same source
	{
		var d nestedOuter
		r, _ := http.NewRequest("GET", "http://x/p?first_name=b", nil)
		errs := schema.Parse(zhttp.Request(r), &d)
		p := Probe{Tag: "nested_flat_source", Detail: fmt.Sprintf(`the same schema over the query string ?first_name=b: issues=%v dest=%+v`, keysOf(errs), d)}
		p.Failed = len(errs) != 0 || d.Inner.First != "b"
		ps = append(ps, p)
	}
	// Ptr(Struct) over a JSON body (the factory must be called once)
	{
		var d *nestedInner
		r, _ := http.NewRequest("POST", "http://x/p", bytes.NewReader([]byte(`{"first_name":"b"}`)))
		r.Header.Set("Content-Type", "application/json")
		errs := z.Ptr(z.Struct(z.Schema{"first": z.String().Required()})).Parse(zhttp.Request(r), &d)
		p := Probe{Tag: "fe_equiv", Detail: fmt.Sprintf(`Ptr(Struct) over a zhttp JSON body: issues=%v`, keysOf(errs))}
		p.Failed = len(errs) != 0 || d == nil || d.First != "b"
		ps = append(ps, p)
	}
	return ps
}

func keysOf(m z.ZogIssueMap) []string {
	var ks []string
	for k, is := range m {
		for _, i := range is {
			ks = append(ks, k+":"+i.Code)
		}
	}
	sortStrs(ks)
	return ks
}

func sortStrs(xs []string) {
	for i := range xs {
		for j := i + 1; j < len(xs); j++ {
			if xs[j] < xs[i] {
				xs[i], xs[j] = xs[j], xs[i]
			}
		}
	}
}

type probeItem struct {
	Name string
	Tags []string
	Next *probeItem
}

// PurityProbes: shapes of schema-owned values the generated schemas do not contain (defaults whose
// elements are structs holding slices and pointers).  After an execution the caller writes through the
// destination; the schema's value must stay what it was and the next execution must start from it.
func PurityProbes() []Probe {
	var ps []Probe
	item := z.Struct(z.Schema{"name": z.String(), "tags": z.Slice(z.String()), "next": z.Ptr(z.Struct(z.Schema{"name": z.String()}))})
	mk := func() []probeItem {
		return []probeItem{{Name: "n", Tags: []string{"a", "b"}, Next: &probeItem{Name: "m", Tags: []string{"c"}}}}
	}
	dflt := mk()
	s := z.Slice(item).Default(dflt)
	fp0 := Fingerprint(s)
	var d1 []probeItem
	errs1 := s.Validate(&d1)
	first := valStr(reflectValue(d1), 0)
	if len(d1) == 1 {
		d1[0].Name = "scribbled"
		if len(d1[0].Tags) > 0 {
			d1[0].Tags[0] = "scribbled"
		}
		if d1[0].Next != nil {
			d1[0].Next.Name = "scribbled"
			if len(d1[0].Next.Tags) > 0 {
				d1[0].Next.Tags[0] = "scribbled"
			}
		}
	}
	var d2 []probeItem
	errs2 := s.Validate(&d2)
	second := valStr(reflectValue(d2), 0)
	p := Probe{Tag: "dest_aliases_schema", Detail: fmt.Sprintf("Slice(Struct{name, tags: Slice(String), next: Ptr(Struct)}).Default([]Item{{n [a b] &{m [c]}}}): Validate of a nil slice gave %s (issues %v); after the caller wrote through that result the next Validate gave %s (issues %v); the caller's default value is now %s",
		first, keysOf(errs1), second, keysOf(errs2), valStr(reflectValue(dflt), 0))}
	p.Failed = Fingerprint(s) != fp0 || first != second || valStr(reflectValue(dflt), 0) != valStr(reflectValue(mk()), 0)
	ps = append(ps, p)
	// the same pointer more than once in a default: every occurrence is the schema's, none of them the caller's
	{
		pitem := z.Ptr(z.Struct(z.Schema{"name": z.String(), "tags": z.Slice(z.String())}))
		mk2 := func() []*probeItem {
			a, b := &probeItem{Name: "std", Tags: []string{"t"}}, &probeItem{Name: "other"}
			return []*probeItem{a, b, a}
		}
		dflt2 := mk2()
		s2 := z.Slice(pitem).Default(dflt2)
		fp := Fingerprint(s2)
		var first, second string
		aliased := false
		for round := 0; round < 2; round++ {
			var d []*probeItem
			s2.Validate(&d)
			r := valStr(reflectValue(d), 0)
			for _, x := range d {
				for _, y := range dflt2 {
					if x == y {
						aliased = true
					}
				}
				if x != nil {
					x.Name += "!"
					if len(x.Tags) > 0 {
						x.Tags[0] = "scribbled"
					}
				}
			}
			if round == 0 {
				first = r
			} else {
				second = r
			}
		}
		p2 := Probe{Tag: "dest_aliases_schema", Detail: fmt.Sprintf("Slice(Ptr(Struct)).Default([]*Item{a, b, a}) (one pointer twice): first Validate of a nil slice gave %s, after the caller wrote through that result the next gave %s; a result element is one of the default's own pointers: %v; the caller's default is now %s",
			first, second, aliased, valStr(reflectValue(dflt2), 0))}
		p2.Failed = aliased || first != second || Fingerprint(s2) != fp || valStr(reflectValue(dflt2), 0) != valStr(reflectValue(mk2()), 0)
		ps = append(ps, p2)
	}
	// every way a struct element can hold memory: a struct by value that holds a slice, an array of slices, a map,
	// an interface holding a slice, a pointer inside an array.  Whatever the shape, the validated value shares
	// nothing with the schema's default: the caller writes through its result, the next execution starts from the
	// same default.  (The item schema names one field only; the others are the caller's own.)
	{
		mk3 := func() []probeWide {
			return []probeWide{{Name: "w", In: probeInner{Tags: []string{"t1", "t2"}}, Groups: [2][]string{{"g"}, {"h"}},
				Meta: map[string]string{"k": "v"}, Any: []string{"x"}, Ptrs: [1]*probeInner{{Tags: []string{"p"}}}}}
		}
		dflt3 := mk3()
		s3 := z.Slice(z.Struct(z.Schema{"name": z.String()})).Default(dflt3)
		fp := Fingerprint(s3)
		var first, second string
		for round := 0; round < 2; round++ {
			var d []probeWide
			s3.Validate(&d)
			r := valStr(reflectValue(d), 0)
			if len(d) == 1 {
				if len(d[0].In.Tags) > 0 {
					d[0].In.Tags[0] = "scribbled"
				}
				if len(d[0].Groups[0]) > 0 {
					d[0].Groups[0][0] = "scribbled"
				}
				if d[0].Meta != nil {
					d[0].Meta["k"] = "scribbled"
				}
				if xs, ok := d[0].Any.([]string); ok && len(xs) > 0 {
					xs[0] = "scribbled"
				}
				if d[0].Ptrs[0] != nil && len(d[0].Ptrs[0].Tags) > 0 {
					d[0].Ptrs[0].Tags[0] = "scribbled"
				}
			}
			if round == 0 {
				first = r
			} else {
				second = r
			}
		}
		p3 := Probe{Tag: "dest_aliases_schema", Detail: fmt.Sprintf("Slice(Struct{name}).Default([]Item{{Name, In: struct by value holding a slice, Groups: [2][]string, Meta: map, Any: interface holding a slice, Ptrs: [1]*Inner}}): first Validate of a nil slice gave %s; after the caller wrote through that result the next gave %s; the caller's default is now %s",
			first, second, valStr(reflectValue(dflt3), 0))}
		p3.Failed = first != second || Fingerprint(s3) != fp || valStr(reflectValue(dflt3), 0) != valStr(reflectValue(mk3()), 0)
		ps = append(ps, p3)
	}
	return ps
}

type probeInner struct{ Tags []string }
type probeWide struct {
	Name   string
	In     probeInner
	Groups [2][]string
	Meta   map[string]string
	Any    any
	Ptrs   [1]*probeInner
}

func reflectValue(x any) reflect.Value { return reflect.ValueOf(x) }
