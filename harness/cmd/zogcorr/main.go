// Command zogcorr runs a correspondence family against the real zog in /repo and writes the cases,
// with what the implementation did, as Gallina files for the Coq side to judge.
package main

import (
	"encoding/json"
	"flag"
	"fmt"
	"os"
	"path/filepath"
	"runtime/debug"
	"strings"
	"time"

	"zogverif/eng"
	"zogverif/sat"
)

func main() {
	family := flag.String("family", "engine", "correspondence family")
	profile := flag.String("profile", "default", "generator profile")
	seed := flag.Uint64("seed", 1, "PRNG seed")
	n := flag.Int("n", 300, "number of cases")
	out := flag.String("out", "work", "output directory")
	shard := flag.Int("shard", 150, "cases per Gallina file")
	ids := flag.String("ids", "", "comma-separated case ids: emit only these, with an explain dump")
	flag.Parse()
	time.Local = time.UTC
	debug.SetGCPercent(400)
	if err := os.MkdirAll(*out, 0o755); err != nil {
		panic(err)
	}
	switch *family {
	case "engine", "fe", "modes", "builder", "purity", "history":
		engine(*family, *profile, *seed, *n, *out, *shard, *ids)
	default:
		only := map[int]bool{}
		for _, x := range strings.Split(*ids, ",") {
			if x != "" {
				var k int
				fmt.Sscan(x, &k)
				only[k] = true
			}
		}
		var o *sat.Out
		switch *family {
		case "preds":
			o = sat.Preds(*seed, *n)
		case "numeric":
			o = sat.Numeric(*seed, *n)
		case "http":
			o = sat.HTTP(*seed, *n)
		case "helpers":
			o = sat.Helpers(*seed, *n)
		case "messages":
			o = sat.Messages(*seed, *n)
		case "dyn":
			o = sat.Dyn(*seed, *n)
		default:
			fmt.Fprintln(os.Stderr, "unknown family", *family)
			os.Exit(2)
		}
		o.Write(*family, *seed, *out, *shard, only)
	}
}

func engine(family, profile string, seed uint64, n int, out string, shard int, ids string) {
	failures := []map[string]any{}
	only := map[int]bool{}
	for _, x := range strings.Split(ids, ",") {
		if x != "" {
			var k int
			fmt.Sscan(x, &k)
			only[k] = true
		}
	}
	p := eng.ProfileByName(profile)
	stats := eng.NewStats()
	var samples []string
	var files []string
	var cur []string
	flush := func() {
		if len(cur) == 0 {
			return
		}
		name := fmt.Sprintf("cases_%d.v", len(files))
		body := "From Zog Require Import Corr.EngineCheck.\nImport ListNotations.\nOpen Scope string_scope.\nSet Printing Width 100000.\nSet Printing Depth 100000.\n" +
			"Definition cases : list ecase := [\n" + strings.Join(cur, ";\n") + "\n].\n" +
			"Definition R := Eval vm_compute in check_all cases.\nPrint R.\n"
		if len(only) > 0 {
			body += "Definition X := Eval vm_compute in explain cases.\nPrint X.\n"
		}
		if err := os.WriteFile(filepath.Join(out, name), []byte(body), 0o644); err != nil {
			panic(err)
		}
		files = append(files, name)
		cur = nil
	}
	for i := 0; i < n; i++ {
		if len(only) > 0 && !only[i] {
			continue
		}
		g := &eng.Gen{R: eng.NewRng(seed*1000003 + uint64(i)), P: p}
		var c *eng.Case
		if family == "modes" {
			cv, cp, diff := eng.NewModesCase(g, i)
			if diff != "" {
				failures = append(failures, map[string]any{"id": 2 * i, "tags": []string{"modes_agree"}, "detail": diff})
			}
			for _, cc := range []*eng.Case{cv, cp} {
				stats.Add(cc)
				if !cc.SkipModel {
					cur = append(cur, cc.Coq())
				}
			}
			if len(samples) < 2 && !cv.SkipModel {
				samples = append(samples, cv.Coq(), cp.Coq())
			}
			if len(cur) >= shard {
				flush()
			}
			continue
		} else if family == "history" {
			var tags []string
			var detail string
			c, tags, detail = eng.NewHistoryCase(g, i)
			if len(tags) > 0 {
				failures = append(failures, map[string]any{"id": i, "tags": tags, "detail": detail})
			}
		} else if family == "purity" {
			var tags []string
			var detail string
			c, tags, detail = eng.NewPurityCase(g, i)
			if len(tags) > 0 {
				failures = append(failures, map[string]any{"id": i, "tags": tags, "detail": detail})
			}
		} else if family == "builder" {
			c = eng.NewBuilderCase(g, i)
		} else if family == "fe" {
			c = eng.NewFECase(g, i)
			if c.FEDiff != "" {
				tag := "fe_equiv"
				if c.FENested {
					tag = "fe_nested_flat"
				}
				failures = append(failures, map[string]any{"id": i, "tags": []string{tag}, "detail": c.FEDiff})
			}
			if c.FEPure != "" {
				failures = append(failures, map[string]any{"id": i, "tags": []string{"request_unchanged"}, "detail": c.FEPure})
			}
		} else {
			c = eng.NewCase(g, i, nil)
			if c.Sanitize != "" {
				failures = append(failures, map[string]any{"id": i, "tags": []string{"sanitize"}, "detail": c.Sanitize})
			}
		}
		stats.Add(c)
		if c.SkipModel {
			if family == "engine" && !c.RepeatsAgree() {
				// (cases the model does not judge: the repeat oracle is evaluated here)
				failures = append(failures, map[string]any{"id": i, "tags": []string{"repeat"}, "detail": "the same call gave different results:\n" + strings.Join(c.Repeats, "\n---\n")})
			}
			continue
		}
		if len(only) > 0 && !c.RepeatsAgree() {
			for _, r := range c.Repeats {
				fmt.Fprintf(os.Stderr, "--- repeat of case %d\n%s\n", i, r)
			}
		}
		term := c.Coq()
		cur = append(cur, term)
		if len(samples) < 3 {
			samples = append(samples, term)
		}
		if len(cur) >= shard {
			flush()
		}
	}
	flush()
	probes := []map[string]any{}
	if family == "builder" && len(only) == 0 {
		g := &eng.Gen{R: eng.NewRng(seed), P: p}
		detail, bad := eng.SharedSchemaProbe(g)
		probes = append(probes, map[string]any{"tag": "share", "failed": bad, "detail": detail})
		if bad {
			failures = append(failures, map[string]any{"id": 1000000, "tags": []string{"share"}, "detail": detail})
		}
	}
	if family == "purity" && len(only) == 0 {
		for k, p := range eng.PurityProbes() {
			probes = append(probes, map[string]any{"tag": p.Tag, "failed": p.Failed, "detail": p.Detail})
			if p.Failed {
				failures = append(failures, map[string]any{"id": 1000000 + k, "tags": []string{p.Tag}, "detail": p.Detail})
			}
		}
	}
	if family == "fe" && len(only) == 0 {
		for k, p := range eng.FEProbes() {
			probes = append(probes, map[string]any{"tag": p.Tag, "failed": p.Failed, "detail": p.Detail})
			if p.Failed {
				failures = append(failures, map[string]any{"id": 1000000 + k, "tags": []string{p.Tag}, "detail": p.Detail})
			}
		}
	}
	meta := map[string]any{
		"family": family, "failures": failures, "probes": probes, "profile": profile, "seed": seed, "cases": stats.Cases, "validate_mode": stats.Validate,
		"order_known": stats.Known, "recording_provider": stats.Wrapped, "panics": stats.Panics,
		"with_issues": stats.WithIssues, "nil_result": stats.NilResult, "node_kinds": stats.Kinds, "issue_codes": stats.Codes,
		"distinct_shapes": len(stats.Shapes), "distinct_nontrivial": len(stats.Outcomes), "files": files, "samples": samples,
	}
	b, _ := json.MarshalIndent(meta, "", " ")
	if err := os.WriteFile(filepath.Join(out, "meta.json"), b, 0o644); err != nil {
		panic(err)
	}
}
