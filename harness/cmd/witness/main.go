// Command witness replays, against the real zog in /repo, the concrete inputs on which the
// defects listed in DESIGN.md §5 were observed. One line per witness: "Wnn ok" or "Wnn BROKEN ...".
// It is a regression aid for the "fix:" commits, not a check: the registered checks are in ../../check.
package main

import (
	"fmt"
	"math"
	"net/http"
	"net/url"
	"os"
	"runtime"
	"runtime/debug"
	"strings"
	"time"

	z "github.com/Oudwins/zog"
	"github.com/Oudwins/zog/internals"
	"github.com/Oudwins/zog/parsers/zjson"
	"github.com/Oudwins/zog/zhttp"
)

var failed = 0

func report(id string, ok bool, what string) {
	if ok {
		fmt.Printf("%s ok\n", id)
	} else {
		failed++
		fmt.Printf("%s BROKEN %s\n", id, what)
	}
}

func guard(id string, f func() (bool, string)) {
	defer func() {
		if r := recover(); r != nil {
			failed++
			fmt.Printf("%s BROKEN panic: %v\n", id, r)
		}
	}()
	ok, what := f()
	report(id, ok, what)
}

// repeat until every map order has very likely been taken
const orderTries = 200

func main() {
	debug.SetGCPercent(-1)
	runtime.LockOSThread()

	// W01: CanCatch of a catching primitive leaks to the next non-primitive sibling (Parse)
	guard("W01", func() (bool, string) {
		type D struct {
			A int
			B []string
		}
		bad := 0
		for i := 0; i < orderTries; i++ {
			s := z.Struct(z.Schema{"a": z.Int().Catch(7), "b": z.Slice(z.String()).Min(2)})
			var d D
			errs := s.Parse(map[string]any{"a": "x", "b": []any{"abcd"}}, &d)
			if len(errs["b"]) != 1 {
				bad++
			}
		}
		return bad == 0, fmt.Sprintf("slice Min(2) issue swallowed in %d/%d runs", bad, orderTries)
	})

	// W02a: Exit never reset in slices.process
	guard("W02a", func() (bool, string) {
		var d []int
		errs := z.Slice(z.Int().GT(5).Catch(99)).Parse([]any{1, 10, 20}, &d)
		ok := errs == nil && len(d) == 3 && d[0] == 99 && d[1] == 10 && d[2] == 20
		return ok, fmt.Sprintf("got %v errs=%v", d, errs)
	})
	// W02b: Exit never reset in struct.validate
	guard("W02b", func() (bool, string) {
		type D struct{ A, B int }
		bad := 0
		for i := 0; i < orderTries; i++ {
			s := z.Struct(z.Schema{"a": z.Int().GT(5).Catch(-1), "b": z.Int().GT(5).Catch(-2)})
			d := D{1, 10}
			s.Validate(&d)
			if d != (D{-1, 10}) {
				bad++
			}
		}
		return bad == 0, fmt.Sprintf("valid catching sibling overwritten in %d/%d runs", bad, orderTries)
	})

	// W03: {} through zjson
	guard("W03", func() (bool, string) {
		type D struct{ A string }
		var d D
		errs := z.Struct(z.Schema{"a": z.String().Required()}).Parse(zjson.Decode(strings.NewReader("{}")), &d)
		return len(errs["a"]) == 1, fmt.Sprintf("errs=%v", errs)
	})

	// W04: schema key longer than 32 bytes
	guard("W04", func() (bool, string) {
		type D struct {
			AVeryLongFieldNameThatIsLongerThanThirtyTwoBytes string
		}
		var d D
		errs := z.Struct(z.Schema{"aVeryLongFieldNameThatIsLongerThanThirtyTwoBytes": z.String()}).Parse(
			map[string]any{"aVeryLongFieldNameThatIsLongerThanThirtyTwoBytes": "x"}, &d)
		return errs == nil && d.AVeryLongFieldNameThatIsLongerThanThirtyTwoBytes == "x", fmt.Sprintf("errs=%v", errs)
	})

	// W05: named map type
	guard("W05", func() (bool, string) {
		type M map[string]string
		type D struct{ A string }
		var d D
		errs := z.Struct(z.Schema{"a": z.String()}).Parse(M{"a": "x"}, &d)
		return errs == nil && d.A == "x", fmt.Sprintf("errs=%v d=%v", errs, d)
	})

	// W06: input struct with unexported field of the looked-up name
	guard("W06", func() (bool, string) {
		type In struct{ a string }
		type D struct{ A string }
		var d D
		z.Struct(z.Schema{"a": z.String()}).Parse(In{a: "x"}, &d)
		return true, ""
	})

	// W07: ExecCtx.m never cleared
	guard("W07", func() (bool, string) {
		internals.ClearPools()
		var seen any
		s := z.String().TestFunc(func(v any, ctx z.Ctx) bool { seen = ctx.Get("k"); return true })
		var d string
		s.Parse("x", &d, z.WithCtxValue("k", "v"))
		s.Parse("x", &d)
		return seen == nil, fmt.Sprintf("second call sees k=%v", seen)
	})

	// W08: IssueFromCoerce keeps recycled Params
	guard("W08", func() (bool, string) {
		internals.ClearPools()
		var d string
		l := z.String().Min(5).Parse("x", &d)
		z.Issues.CollectList(l)
		var n int
		l2 := z.Int().Parse("abc", &n)
		return len(l2) == 1 && l2[0].Params == nil, fmt.Sprintf("coerce issue params=%v", l2[0].Params)
	})

	// W09: CollectMap frees the $first issue twice
	guard("W09", func() (bool, string) {
		internals.ClearPools()
		type D struct{ A, B string }
		s := z.Struct(z.Schema{"a": z.String().Required()})
		var d D
		m := s.Parse(map[string]any{}, &d)
		z.Issues.CollectMap(m)
		s2 := z.Struct(z.Schema{"a": z.String().Min(5), "b": z.String().Min(7)})
		bad := 0
		for i := 0; i < 20; i++ {
			m2 := s2.Parse(map[string]any{"a": "x", "b": "y"}, &d)
			if len(m2["a"]) != 1 || len(m2["b"]) != 1 || m2["a"][0] == m2["b"][0] || m2["a"][0].Path != "a" || m2["b"][0].Path != "b" {
				bad++
			}
		}
		return bad == 0, fmt.Sprintf("two issues share one object in %d/20 later calls", bad)
	})

	// W10: numeric coercion silently changes numbers
	guard("W10a", func() (bool, string) {
		var n int32
		l := z.Int32().LT(100).Parse("3000000000", &n)
		return len(l) == 1 && l[0].Code == "coerce", fmt.Sprintf("got %d issues=%v", n, l)
	})
	guard("W10b", func() (bool, string) {
		var n int
		l := z.Int().Parse(1e19, &n)
		l2 := z.Int().Parse(math.NaN(), &n)
		return len(l) == 1 && len(l2) == 1, fmt.Sprintf("1e19 -> %d issues=%v/%v", n, l, l2)
	})
	guard("W10c", func() (bool, string) {
		var f float32
		l := z.Float32().Parse(1e300, &f)
		return len(l) == 1, fmt.Sprintf("1e300 -> %v", f)
	})

	// W11: Time.Format is a no-op
	guard("W11", func() (bool, string) {
		var t time.Time
		l := z.Time(z.Time.Format("2006-01-02")).Parse("2024-05-06", &t)
		return l == nil && t.Year() == 2024, fmt.Sprintf("issues=%v", l)
	})

	// W12: number one_of message has an unresolved placeholder
	guard("W12", func() (bool, string) {
		var n int
		l := z.Int().OneOf([]int{1, 2}).Parse(5, &n)
		return len(l) == 1 && !strings.Contains(l[0].Message, "{{"), fmt.Sprintf("message=%q", l[0].Message)
	})

	// W13: decode failure issue has an empty message
	guard("W13", func() (bool, string) {
		type D struct{ A string }
		var d D
		m := z.Struct(z.Schema{"a": z.String()}).Parse(zjson.Decode(strings.NewReader("{")), &d)
		return len(m["$root"]) == 1 && m["$root"][0].Message != "", fmt.Sprintf("issues=%v", m)
	})

	// W14: struct callbacks get nil in Validate under a slice
	guard("W14", func() (bool, string) {
		type E struct{ A string }
		var got any = "unset"
		s := z.Slice(z.Struct(z.Schema{"a": z.String()}).TestFunc(func(v any, ctx z.Ctx) bool { got = v; return true }))
		d := []E{{A: "x"}}
		s.Validate(&d)
		_, ok := got.(*E)
		return ok, fmt.Sprintf("struct test received %T", got)
	})

	// W15: missing x[] parameter is present
	guard("W15", func() (bool, string) {
		type D struct {
			Tags []string `query:"tags[]"`
		}
		var d D
		r := &http.Request{Method: "GET", URL: &url.URL{RawQuery: "other=1"}, Header: http.Header{}}
		m := z.Struct(z.Schema{"tags": z.Slice(z.String()).Required()}).Parse(zhttp.Request(r), &d)
		return len(m["tags[]"]) == 1 && d.Tags == nil, fmt.Sprintf("issues=%v dest=%#v", m, d.Tags)
	})

	// W16: Ptr(Struct) over a zhttp JSON body decodes twice
	guard("W16", func() (bool, string) {
		type D struct{ A string }
		var d *D
		r, _ := http.NewRequest("POST", "http://x/", strings.NewReader(`{"a":"v"}`))
		r.Header.Set("Content-Type", "application/json")
		m := z.Ptr(z.Struct(z.Schema{"a": z.String().Required()})).Parse(zhttp.Request(r), &d)
		return m == nil && d != nil && d.A == "v", fmt.Sprintf("issues=%v", m)
	})

	// W17: cloneShallow shares backing arrays
	guard("W17", func() (bool, string) {
		type D struct{ A string }
		tr := func(any, z.Ctx) bool { return true }
		base := z.Struct(z.Schema{"a": z.String()}).TestFunc(tr).TestFunc(tr).TestFunc(tr)
		a := base.Pick("a").TestFunc(func(any, z.Ctx) bool { return false }, z.Message("A_fail"))
		_ = base.Pick("a").TestFunc(func(any, z.Ctx) bool { return false }, z.Message("B_fail"))
		var d D
		m := a.Parse(map[string]any{"a": "x"}, &d)
		return len(m["$root"]) == 1 && m["$root"][0].Message == "A_fail", fmt.Sprintf("A reports %v", z.Issues.SanitizeMap(m))
	})

	// W18: Validate slice default aliases the schema's default
	guard("W18", func() (bool, string) {
		s := z.Slice(z.String()).Default([]string{"a", "b"})
		var d1 []string
		s.Validate(&d1)
		d1[0] = "MUT"
		var d2 []string
		s.Validate(&d2)
		return len(d2) == 2 && d2[0] == "a", fmt.Sprintf("second result %v", d2)
	})

	if failed > 0 {
		fmt.Printf("%d witnesses broken\n", failed)
		os.Exit(1)
	}
}
