module zogverif

go 1.21.0

require github.com/Oudwins/zog v0.0.0

require golang.org/x/exp v0.0.0-20240613232115-7f521ea00fb8 // indirect

replace github.com/Oudwins/zog => /repo
